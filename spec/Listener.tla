------------------------------ MODULE Listener ------------------------------
(***************************************************************************)
(* C16 - design model of pywbem.WBEMListener's threads (PlusCal).          *)
(*                                                                         *)
(* One label per code segment between two synchronising operations of      *)
(* pywbem/_listener.py:                                                    *)
(*   main : start() [queue + callback thread; server thread]               *)
(*          stop()  = _stop_listener_threads() [shutdown; server_close     *)
(*                    joins the handler threads]                           *)
(*                  ; _stop_indication_delivery() [poll empty()/sleep;     *)
(*                    self._ind_queue = None; stop event; join -> re-raise]*)
(*   cb   : _callback_run loop [read queue reference; get (item|timeout);  *)
(*          one step per registered callback; task_done; stopped()?]       *)
(*   snd  : a sender's sequential requests; each request runs the handler  *)
(*          (_handle_indication: test reference; non-blocking put |        *)
(*          queue.Full; write the response)                                *)
(* Constants select the code shape:                                        *)
(*   LocalQueueRef  FALSE: _callback_run re-reads self._ind_queue on every *)
(*                         use (code before the "fix:" commit)             *)
(*                  TRUE : it works on a local reference                   *)
(*   StopOrder      "listener-first" (code) | "delivery-first" (regression)*)
(*   Restart        BOOLEAN: start() again after stop() returned           *)
(*   LateCb         BOOLEAN: a further callback (number NCb+1) is          *)
(*                  registered with add_callback() while the listener runs *)
(*   CbList         "live": every delivery iterates self._callbacks (code) *)
(*                  "thread-start": the callback thread works on a copy    *)
(*                  taken when it starts (regression)                      *)
(***************************************************************************)
EXTENDS Naturals, Sequences, FiniteSets, TLC

CONSTANTS Senders, NInd, NCb, MaxQ, LocalQueueRef, StopOrder, Restart,
          LateCb, CbList

NC == NCb + (IF LateCb THEN 1 ELSE 0)

Count(seq, x) == Cardinality({i \in DOMAIN seq : seq[i] = x})
IsPrefixOf(p, s) == Len(p) <= Len(s) /\ \A i \in DOMAIN p : p[i] = s[i]

(* --algorithm Listener {
variables
  q = <<>>,            \* items in the queue object
  qref = FALSE,        \* self._ind_queue is not None
  stopEv = FALSE,      \* callback thread's stop event
  cbAlive = FALSE,     \* callback thread is running
  cbExc = FALSE,       \* exception stored by the callback thread
  cbSet = FALSE,       \* self._callback_thread is not None
  serverUp = FALSE,    \* the HTTP server accepts connections
  inHandler = {},      \* senders whose request is being handled
  acked = <<>>,        \* success responses, in the order they were written
  refused = {},        \* indications answered with a CIM error (queue full)
  dropped = {},        \* connections dropped by a crashing handler
  log = [c \in 1..NC |-> <<>>],    \* per-callback delivery log
  ncb = NCb,           \* len(self._callbacks)
  cbSnap = NCb,        \* callbacks the thread saw when it started
  sent = {},           \* indications whose request reached the server
  early = {},          \* those sent before the late add_callback()
  stopRaised = FALSE,
  stopped = FALSE,
  rounds = 0;

define {
  AckedSet == {acked[i] : i \in DOMAIN acked}
  ExactlyOnce ==
    stopped => /\ \A x \in AckedSet : \A c \in 1..ncb :
                     (c <= NCb \/ x \notin early) => Count(log[c], x) = 1
               /\ \A x \in refused : \A c \in 1..NC : Count(log[c], x) = 0
  NeverTwice == \A c \in 1..NC : \A i, j \in DOMAIN log[c] :
                   log[c][i] = log[c][j] => i = j
  OnlyAcked == \A c \in 1..NC : \A i \in DOMAIN log[c] :
                   log[c][i] \in AckedSet \/ \E s \in inHandler : log[c][i][1] = s
  CallbackOrder ==
    /\ \A c \in 1..(NCb - 1) : IsPrefixOf(log[c + 1], log[c])
       \* the late callback sees a gap-free run of what its predecessor saw,
       \* and is at most the current indication behind
    /\ LateCb => \E k \in 0..Len(log[NCb]) :
          /\ \A i \in DOMAIN log[NC] :
                k + i <= Len(log[NCb]) /\ log[NC][i] = log[NCb][k + i]
          /\ log[NC] # <<>> => k + Len(log[NC]) + 1 >= Len(log[NCb])
  SenderFifo == \A c \in 1..NC : \A i, j \in DOMAIN log[c] :
                   (i < j /\ log[c][i][1] = log[c][j][1]) =>
                       log[c][i][2] < log[c][j][2]
  NoHandlerCrash == dropped = {}
  StopClean == stopped => /\ ~stopRaised /\ ~cbAlive /\ ~cbSet /\ ~serverUp
                          /\ ~qref
}

fair process (main = "main") {
M0:  q := <<>>; qref := TRUE; stopEv := FALSE; cbExc := FALSE;
     cbAlive := TRUE; cbSet := TRUE; stopped := FALSE;
M0b: serverUp := TRUE;
MS:  if (StopOrder = "listener-first") {
M1:    serverUp := FALSE;                       \* shutdown()
M1b:   await inHandler = {};                    \* server_close() joins handlers
     };
M2:  if (qref) {
M2a:   while (q # <<>>) { M2s: skip; };         \* while not empty(): sleep
M3:    qref := FALSE;                           \* self._ind_queue = None
     };
M4:  if (cbSet) {
       stopEv := TRUE;                          \* _callback_thread.stop()
M5:    await ~cbAlive;                          \* join(); re-raises
       if (cbExc) { stopRaised := TRUE } else { cbSet := FALSE };
     };
MT:  if (StopOrder # "listener-first") {
M7:    serverUp := FALSE;
M7b:   await inHandler = {};
     };
M6:  stopped := TRUE; rounds := rounds + 1;
M8:  if (Restart /\ rounds < 2 /\ ~stopRaised) { goto M0 };
}

fair process (cb = "cb")
variables item = <<>>, ci = 1;
{
C0: await cbAlive; cbSnap := ncb;
C1: while (TRUE) {
      \* evaluating `self._ind_queue.get`
      if (~LocalQueueRef /\ ~qref) { cbExc := TRUE; goto Cx };
C2:   either { await q # <<>>; item := Head(q); q := Tail(q); ci := 1 }
      or     { await q = <<>>;                  \* timeout -> queue.Empty
C2e:           if (stopEv) { goto Cx } else { goto C1 } };
C3:   while (ci <= (IF CbList = "live" THEN ncb ELSE cbSnap)) {                       \* one step per callback
        log[ci] := Append(log[ci], item); ci := ci + 1 };
      \* evaluating `self._ind_queue.task_done`
C4:   if (~LocalQueueRef /\ ~qref) { cbExc := TRUE; goto Cx };
    };
Cx: cbAlive := FALSE;
    if (Restart /\ rounds < 1) {
Cy:   await cbAlive /\ rounds >= 1; cbSnap := ncb; goto C1 };
}

fair process (snd \in Senders)
variables n = 1;
{
S0: while (n <= NInd) {
      if (~serverUp) { goto Sx }                \* connection refused: give up
      else { inHandler := inHandler \cup {self};
             sent := sent \cup {<<self, n>>} };
H1:   if (~qref) {                              \* "queue not set up": ignored,
        skip;                                   \* but answered with success
H1r:    acked := Append(acked, <<self, n>>);
      } else {
H2:     if (~qref) {                            \* second read: None.put
          dropped := dropped \cup {<<self, n>>};
        } else if (MaxQ > 0 /\ Len(q) >= MaxQ) {
H2f:      refused := refused \cup {<<self, n>>};   \* CIM error response
        } else {
          q := Append(q, <<self, n>>);
H2r:      acked := Append(acked, <<self, n>>);  \* success response written
        };
      };
H3:   inHandler := inHandler \ {self}; n := n + 1;
    };
Sx: skip;
}

\* add_callback() from the application while the listener is running
fair process (adder \in IF LateCb THEN {"adder"} ELSE {})
{
A0: either { await serverUp /\ ncb = NCb;
             ncb := NCb + 1;
             early := sent }
    or     { skip };
}
} *)
\* BEGIN TRANSLATION
VARIABLES pc, q, qref, stopEv, cbAlive, cbExc, cbSet, serverUp, inHandler, 
          acked, refused, dropped, log, ncb, cbSnap, sent, early, stopRaised, 
          stopped, rounds

(* define statement *)
AckedSet == {acked[i] : i \in DOMAIN acked}
ExactlyOnce ==
  stopped => /\ \A x \in AckedSet : \A c \in 1..ncb :
                   (c <= NCb \/ x \notin early) => Count(log[c], x) = 1
             /\ \A x \in refused : \A c \in 1..NC : Count(log[c], x) = 0
NeverTwice == \A c \in 1..NC : \A i, j \in DOMAIN log[c] :
                 log[c][i] = log[c][j] => i = j
OnlyAcked == \A c \in 1..NC : \A i \in DOMAIN log[c] :
                 log[c][i] \in AckedSet \/ \E s \in inHandler : log[c][i][1] = s
CallbackOrder ==
  /\ \A c \in 1..(NCb - 1) : IsPrefixOf(log[c + 1], log[c])


  /\ LateCb => \E k \in 0..Len(log[NCb]) :
        /\ \A i \in DOMAIN log[NC] :
              k + i <= Len(log[NCb]) /\ log[NC][i] = log[NCb][k + i]
        /\ log[NC] # <<>> => k + Len(log[NC]) + 1 >= Len(log[NCb])
SenderFifo == \A c \in 1..NC : \A i, j \in DOMAIN log[c] :
                 (i < j /\ log[c][i][1] = log[c][j][1]) =>
                     log[c][i][2] < log[c][j][2]
NoHandlerCrash == dropped = {}
StopClean == stopped => /\ ~stopRaised /\ ~cbAlive /\ ~cbSet /\ ~serverUp
                        /\ ~qref

VARIABLES item, ci, n

vars == << pc, q, qref, stopEv, cbAlive, cbExc, cbSet, serverUp, inHandler, 
           acked, refused, dropped, log, ncb, cbSnap, sent, early, stopRaised, 
           stopped, rounds, item, ci, n >>

ProcSet == {"main"} \cup {"cb"} \cup (Senders) \cup (IF LateCb THEN {"adder"} ELSE {})

Init == (* Global variables *)
        /\ q = <<>>
        /\ qref = FALSE
        /\ stopEv = FALSE
        /\ cbAlive = FALSE
        /\ cbExc = FALSE
        /\ cbSet = FALSE
        /\ serverUp = FALSE
        /\ inHandler = {}
        /\ acked = <<>>
        /\ refused = {}
        /\ dropped = {}
        /\ log = [c \in 1..NC |-> <<>>]
        /\ ncb = NCb
        /\ cbSnap = NCb
        /\ sent = {}
        /\ early = {}
        /\ stopRaised = FALSE
        /\ stopped = FALSE
        /\ rounds = 0
        (* Process cb *)
        /\ item = <<>>
        /\ ci = 1
        (* Process snd *)
        /\ n = [self \in Senders |-> 1]
        /\ pc = [self \in ProcSet |-> CASE self = "main" -> "M0"
                                        [] self = "cb" -> "C0"
                                        [] self \in Senders -> "S0"
                                        [] self \in IF LateCb THEN {"adder"} ELSE {} -> "A0"]

M0 == /\ pc["main"] = "M0"
      /\ q' = <<>>
      /\ qref' = TRUE
      /\ stopEv' = FALSE
      /\ cbExc' = FALSE
      /\ cbAlive' = TRUE
      /\ cbSet' = TRUE
      /\ stopped' = FALSE
      /\ pc' = [pc EXCEPT !["main"] = "M0b"]
      /\ UNCHANGED << serverUp, inHandler, acked, refused, dropped, log, ncb, 
                      cbSnap, sent, early, stopRaised, rounds, item, ci, n >>

M0b == /\ pc["main"] = "M0b"
       /\ serverUp' = TRUE
       /\ pc' = [pc EXCEPT !["main"] = "MS"]
       /\ UNCHANGED << q, qref, stopEv, cbAlive, cbExc, cbSet, inHandler, 
                       acked, refused, dropped, log, ncb, cbSnap, sent, early, 
                       stopRaised, stopped, rounds, item, ci, n >>

MS == /\ pc["main"] = "MS"
      /\ IF StopOrder = "listener-first"
            THEN /\ pc' = [pc EXCEPT !["main"] = "M1"]
            ELSE /\ pc' = [pc EXCEPT !["main"] = "M2"]
      /\ UNCHANGED << q, qref, stopEv, cbAlive, cbExc, cbSet, serverUp, 
                      inHandler, acked, refused, dropped, log, ncb, cbSnap, 
                      sent, early, stopRaised, stopped, rounds, item, ci, n >>

M1 == /\ pc["main"] = "M1"
      /\ serverUp' = FALSE
      /\ pc' = [pc EXCEPT !["main"] = "M1b"]
      /\ UNCHANGED << q, qref, stopEv, cbAlive, cbExc, cbSet, inHandler, acked, 
                      refused, dropped, log, ncb, cbSnap, sent, early, 
                      stopRaised, stopped, rounds, item, ci, n >>

M1b == /\ pc["main"] = "M1b"
       /\ inHandler = {}
       /\ pc' = [pc EXCEPT !["main"] = "M2"]
       /\ UNCHANGED << q, qref, stopEv, cbAlive, cbExc, cbSet, serverUp, 
                       inHandler, acked, refused, dropped, log, ncb, cbSnap, 
                       sent, early, stopRaised, stopped, rounds, item, ci, n >>

M2 == /\ pc["main"] = "M2"
      /\ IF qref
            THEN /\ pc' = [pc EXCEPT !["main"] = "M2a"]
            ELSE /\ pc' = [pc EXCEPT !["main"] = "M4"]
      /\ UNCHANGED << q, qref, stopEv, cbAlive, cbExc, cbSet, serverUp, 
                      inHandler, acked, refused, dropped, log, ncb, cbSnap, 
                      sent, early, stopRaised, stopped, rounds, item, ci, n >>

M2a == /\ pc["main"] = "M2a"
       /\ IF q # <<>>
             THEN /\ pc' = [pc EXCEPT !["main"] = "M2s"]
             ELSE /\ pc' = [pc EXCEPT !["main"] = "M3"]
       /\ UNCHANGED << q, qref, stopEv, cbAlive, cbExc, cbSet, serverUp, 
                       inHandler, acked, refused, dropped, log, ncb, cbSnap, 
                       sent, early, stopRaised, stopped, rounds, item, ci, n >>

M2s == /\ pc["main"] = "M2s"
       /\ TRUE
       /\ pc' = [pc EXCEPT !["main"] = "M2a"]
       /\ UNCHANGED << q, qref, stopEv, cbAlive, cbExc, cbSet, serverUp, 
                       inHandler, acked, refused, dropped, log, ncb, cbSnap, 
                       sent, early, stopRaised, stopped, rounds, item, ci, n >>

M3 == /\ pc["main"] = "M3"
      /\ qref' = FALSE
      /\ pc' = [pc EXCEPT !["main"] = "M4"]
      /\ UNCHANGED << q, stopEv, cbAlive, cbExc, cbSet, serverUp, inHandler, 
                      acked, refused, dropped, log, ncb, cbSnap, sent, early, 
                      stopRaised, stopped, rounds, item, ci, n >>

M4 == /\ pc["main"] = "M4"
      /\ IF cbSet
            THEN /\ stopEv' = TRUE
                 /\ pc' = [pc EXCEPT !["main"] = "M5"]
            ELSE /\ pc' = [pc EXCEPT !["main"] = "MT"]
                 /\ UNCHANGED stopEv
      /\ UNCHANGED << q, qref, cbAlive, cbExc, cbSet, serverUp, inHandler, 
                      acked, refused, dropped, log, ncb, cbSnap, sent, early, 
                      stopRaised, stopped, rounds, item, ci, n >>

M5 == /\ pc["main"] = "M5"
      /\ ~cbAlive
      /\ IF cbExc
            THEN /\ stopRaised' = TRUE
                 /\ cbSet' = cbSet
            ELSE /\ cbSet' = FALSE
                 /\ UNCHANGED stopRaised
      /\ pc' = [pc EXCEPT !["main"] = "MT"]
      /\ UNCHANGED << q, qref, stopEv, cbAlive, cbExc, serverUp, inHandler, 
                      acked, refused, dropped, log, ncb, cbSnap, sent, early, 
                      stopped, rounds, item, ci, n >>

MT == /\ pc["main"] = "MT"
      /\ IF StopOrder # "listener-first"
            THEN /\ pc' = [pc EXCEPT !["main"] = "M7"]
            ELSE /\ pc' = [pc EXCEPT !["main"] = "M6"]
      /\ UNCHANGED << q, qref, stopEv, cbAlive, cbExc, cbSet, serverUp, 
                      inHandler, acked, refused, dropped, log, ncb, cbSnap, 
                      sent, early, stopRaised, stopped, rounds, item, ci, n >>

M7 == /\ pc["main"] = "M7"
      /\ serverUp' = FALSE
      /\ pc' = [pc EXCEPT !["main"] = "M7b"]
      /\ UNCHANGED << q, qref, stopEv, cbAlive, cbExc, cbSet, inHandler, acked, 
                      refused, dropped, log, ncb, cbSnap, sent, early, 
                      stopRaised, stopped, rounds, item, ci, n >>

M7b == /\ pc["main"] = "M7b"
       /\ inHandler = {}
       /\ pc' = [pc EXCEPT !["main"] = "M6"]
       /\ UNCHANGED << q, qref, stopEv, cbAlive, cbExc, cbSet, serverUp, 
                       inHandler, acked, refused, dropped, log, ncb, cbSnap, 
                       sent, early, stopRaised, stopped, rounds, item, ci, n >>

M6 == /\ pc["main"] = "M6"
      /\ stopped' = TRUE
      /\ rounds' = rounds + 1
      /\ pc' = [pc EXCEPT !["main"] = "M8"]
      /\ UNCHANGED << q, qref, stopEv, cbAlive, cbExc, cbSet, serverUp, 
                      inHandler, acked, refused, dropped, log, ncb, cbSnap, 
                      sent, early, stopRaised, item, ci, n >>

M8 == /\ pc["main"] = "M8"
      /\ IF Restart /\ rounds < 2 /\ ~stopRaised
            THEN /\ pc' = [pc EXCEPT !["main"] = "M0"]
            ELSE /\ pc' = [pc EXCEPT !["main"] = "Done"]
      /\ UNCHANGED << q, qref, stopEv, cbAlive, cbExc, cbSet, serverUp, 
                      inHandler, acked, refused, dropped, log, ncb, cbSnap, 
                      sent, early, stopRaised, stopped, rounds, item, ci, n >>

main == M0 \/ M0b \/ MS \/ M1 \/ M1b \/ M2 \/ M2a \/ M2s \/ M3 \/ M4 \/ M5
           \/ MT \/ M7 \/ M7b \/ M6 \/ M8

C0 == /\ pc["cb"] = "C0"
      /\ cbAlive
      /\ cbSnap' = ncb
      /\ pc' = [pc EXCEPT !["cb"] = "C1"]
      /\ UNCHANGED << q, qref, stopEv, cbAlive, cbExc, cbSet, serverUp, 
                      inHandler, acked, refused, dropped, log, ncb, sent, 
                      early, stopRaised, stopped, rounds, item, ci, n >>

C1 == /\ pc["cb"] = "C1"
      /\ IF ~LocalQueueRef /\ ~qref
            THEN /\ cbExc' = TRUE
                 /\ pc' = [pc EXCEPT !["cb"] = "Cx"]
            ELSE /\ pc' = [pc EXCEPT !["cb"] = "C2"]
                 /\ cbExc' = cbExc
      /\ UNCHANGED << q, qref, stopEv, cbAlive, cbSet, serverUp, inHandler, 
                      acked, refused, dropped, log, ncb, cbSnap, sent, early, 
                      stopRaised, stopped, rounds, item, ci, n >>

C2 == /\ pc["cb"] = "C2"
      /\ \/ /\ q # <<>>
            /\ item' = Head(q)
            /\ q' = Tail(q)
            /\ ci' = 1
            /\ pc' = [pc EXCEPT !["cb"] = "C3"]
         \/ /\ q = <<>>
            /\ pc' = [pc EXCEPT !["cb"] = "C2e"]
            /\ UNCHANGED <<q, item, ci>>
      /\ UNCHANGED << qref, stopEv, cbAlive, cbExc, cbSet, serverUp, inHandler, 
                      acked, refused, dropped, log, ncb, cbSnap, sent, early, 
                      stopRaised, stopped, rounds, n >>

C2e == /\ pc["cb"] = "C2e"
       /\ IF stopEv
             THEN /\ pc' = [pc EXCEPT !["cb"] = "Cx"]
             ELSE /\ pc' = [pc EXCEPT !["cb"] = "C1"]
       /\ UNCHANGED << q, qref, stopEv, cbAlive, cbExc, cbSet, serverUp, 
                       inHandler, acked, refused, dropped, log, ncb, cbSnap, 
                       sent, early, stopRaised, stopped, rounds, item, ci, n >>

C3 == /\ pc["cb"] = "C3"
      /\ IF ci <= (IF CbList = "live" THEN ncb ELSE cbSnap)
            THEN /\ log' = [log EXCEPT ![ci] = Append(log[ci], item)]
                 /\ ci' = ci + 1
                 /\ pc' = [pc EXCEPT !["cb"] = "C3"]
            ELSE /\ pc' = [pc EXCEPT !["cb"] = "C4"]
                 /\ UNCHANGED << log, ci >>
      /\ UNCHANGED << q, qref, stopEv, cbAlive, cbExc, cbSet, serverUp, 
                      inHandler, acked, refused, dropped, ncb, cbSnap, sent, 
                      early, stopRaised, stopped, rounds, item, n >>

C4 == /\ pc["cb"] = "C4"
      /\ IF ~LocalQueueRef /\ ~qref
            THEN /\ cbExc' = TRUE
                 /\ pc' = [pc EXCEPT !["cb"] = "Cx"]
            ELSE /\ pc' = [pc EXCEPT !["cb"] = "C1"]
                 /\ cbExc' = cbExc
      /\ UNCHANGED << q, qref, stopEv, cbAlive, cbSet, serverUp, inHandler, 
                      acked, refused, dropped, log, ncb, cbSnap, sent, early, 
                      stopRaised, stopped, rounds, item, ci, n >>

Cx == /\ pc["cb"] = "Cx"
      /\ cbAlive' = FALSE
      /\ IF Restart /\ rounds < 1
            THEN /\ pc' = [pc EXCEPT !["cb"] = "Cy"]
            ELSE /\ pc' = [pc EXCEPT !["cb"] = "Done"]
      /\ UNCHANGED << q, qref, stopEv, cbExc, cbSet, serverUp, inHandler, 
                      acked, refused, dropped, log, ncb, cbSnap, sent, early, 
                      stopRaised, stopped, rounds, item, ci, n >>

Cy == /\ pc["cb"] = "Cy"
      /\ cbAlive /\ rounds >= 1
      /\ cbSnap' = ncb
      /\ pc' = [pc EXCEPT !["cb"] = "C1"]
      /\ UNCHANGED << q, qref, stopEv, cbAlive, cbExc, cbSet, serverUp, 
                      inHandler, acked, refused, dropped, log, ncb, sent, 
                      early, stopRaised, stopped, rounds, item, ci, n >>

cb == C0 \/ C1 \/ C2 \/ C2e \/ C3 \/ C4 \/ Cx \/ Cy

S0(self) == /\ pc[self] = "S0"
            /\ IF n[self] <= NInd
                  THEN /\ IF ~serverUp
                             THEN /\ pc' = [pc EXCEPT ![self] = "Sx"]
                                  /\ UNCHANGED << inHandler, sent >>
                             ELSE /\ inHandler' = (inHandler \cup {self})
                                  /\ sent' = (sent \cup {<<self, n[self]>>})
                                  /\ pc' = [pc EXCEPT ![self] = "H1"]
                  ELSE /\ pc' = [pc EXCEPT ![self] = "Sx"]
                       /\ UNCHANGED << inHandler, sent >>
            /\ UNCHANGED << q, qref, stopEv, cbAlive, cbExc, cbSet, serverUp, 
                            acked, refused, dropped, log, ncb, cbSnap, early, 
                            stopRaised, stopped, rounds, item, ci, n >>

H1(self) == /\ pc[self] = "H1"
            /\ IF ~qref
                  THEN /\ TRUE
                       /\ pc' = [pc EXCEPT ![self] = "H1r"]
                  ELSE /\ pc' = [pc EXCEPT ![self] = "H2"]
            /\ UNCHANGED << q, qref, stopEv, cbAlive, cbExc, cbSet, serverUp, 
                            inHandler, acked, refused, dropped, log, ncb, 
                            cbSnap, sent, early, stopRaised, stopped, rounds, 
                            item, ci, n >>

H1r(self) == /\ pc[self] = "H1r"
             /\ acked' = Append(acked, <<self, n[self]>>)
             /\ pc' = [pc EXCEPT ![self] = "H3"]
             /\ UNCHANGED << q, qref, stopEv, cbAlive, cbExc, cbSet, serverUp, 
                             inHandler, refused, dropped, log, ncb, cbSnap, 
                             sent, early, stopRaised, stopped, rounds, item, 
                             ci, n >>

H2(self) == /\ pc[self] = "H2"
            /\ IF ~qref
                  THEN /\ dropped' = (dropped \cup {<<self, n[self]>>})
                       /\ pc' = [pc EXCEPT ![self] = "H3"]
                       /\ q' = q
                  ELSE /\ IF MaxQ > 0 /\ Len(q) >= MaxQ
                             THEN /\ pc' = [pc EXCEPT ![self] = "H2f"]
                                  /\ q' = q
                             ELSE /\ q' = Append(q, <<self, n[self]>>)
                                  /\ pc' = [pc EXCEPT ![self] = "H2r"]
                       /\ UNCHANGED dropped
            /\ UNCHANGED << qref, stopEv, cbAlive, cbExc, cbSet, serverUp, 
                            inHandler, acked, refused, log, ncb, cbSnap, sent, 
                            early, stopRaised, stopped, rounds, item, ci, n >>

H2f(self) == /\ pc[self] = "H2f"
             /\ refused' = (refused \cup {<<self, n[self]>>})
             /\ pc' = [pc EXCEPT ![self] = "H3"]
             /\ UNCHANGED << q, qref, stopEv, cbAlive, cbExc, cbSet, serverUp, 
                             inHandler, acked, dropped, log, ncb, cbSnap, sent, 
                             early, stopRaised, stopped, rounds, item, ci, n >>

H2r(self) == /\ pc[self] = "H2r"
             /\ acked' = Append(acked, <<self, n[self]>>)
             /\ pc' = [pc EXCEPT ![self] = "H3"]
             /\ UNCHANGED << q, qref, stopEv, cbAlive, cbExc, cbSet, serverUp, 
                             inHandler, refused, dropped, log, ncb, cbSnap, 
                             sent, early, stopRaised, stopped, rounds, item, 
                             ci, n >>

H3(self) == /\ pc[self] = "H3"
            /\ inHandler' = inHandler \ {self}
            /\ n' = [n EXCEPT ![self] = n[self] + 1]
            /\ pc' = [pc EXCEPT ![self] = "S0"]
            /\ UNCHANGED << q, qref, stopEv, cbAlive, cbExc, cbSet, serverUp, 
                            acked, refused, dropped, log, ncb, cbSnap, sent, 
                            early, stopRaised, stopped, rounds, item, ci >>

Sx(self) == /\ pc[self] = "Sx"
            /\ TRUE
            /\ pc' = [pc EXCEPT ![self] = "Done"]
            /\ UNCHANGED << q, qref, stopEv, cbAlive, cbExc, cbSet, serverUp, 
                            inHandler, acked, refused, dropped, log, ncb, 
                            cbSnap, sent, early, stopRaised, stopped, rounds, 
                            item, ci, n >>

snd(self) == S0(self) \/ H1(self) \/ H1r(self) \/ H2(self) \/ H2f(self)
                \/ H2r(self) \/ H3(self) \/ Sx(self)

A0(self) == /\ pc[self] = "A0"
            /\ \/ /\ serverUp /\ ncb = NCb
                  /\ ncb' = NCb + 1
                  /\ early' = sent
               \/ /\ TRUE
                  /\ UNCHANGED <<ncb, early>>
            /\ pc' = [pc EXCEPT ![self] = "Done"]
            /\ UNCHANGED << q, qref, stopEv, cbAlive, cbExc, cbSet, serverUp, 
                            inHandler, acked, refused, dropped, log, cbSnap, 
                            sent, stopRaised, stopped, rounds, item, ci, n >>

adder(self) == A0(self)

(* Allow infinite stuttering to prevent deadlock on termination. *)
Terminating == /\ \A self \in ProcSet: pc[self] = "Done"
               /\ UNCHANGED vars

Next == main \/ cb
           \/ (\E self \in Senders: snd(self))
           \/ (\E self \in IF LateCb THEN {"adder"} ELSE {}: adder(self))
           \/ Terminating

Spec == /\ Init /\ [][Next]_vars
        /\ WF_vars(main)
        /\ WF_vars(cb)
        /\ \A self \in Senders : WF_vars(snd(self))
        /\ \A self \in IF LateCb THEN {"adder"} ELSE {} : WF_vars(adder(self))

Termination == <>(\A self \in ProcSet: pc[self] = "Done")

\* END TRANSLATION 
=============================================================================
