----------------------------- MODULE CimEqImpl -----------------------------
(***************************************************************************)
(* Code-shaped transcription of pywbem's __eq__ / __hash__                 *)
(* (pywbem/_cim_obj.py, _cim_types.py CIMDateTime, _utils.py _eq_name /    *)
(* _eq_item / _eq_dict / _hash_name / _hash_item / _hash_dict,             *)
(* _vendor/nocasedict NocaseDict.__eq__ and HashableMixin.__hash__).       *)
(* The comparisons of each class are chained with `and` in the order of    *)
(* the source; a TypeError raised by a nested == across kinds propagates   *)
(* ("E") unless it happens inside NocaseDict.__eq__, which catches it.     *)
(*                                                                         *)
(* Regression switches (realistic wrong variants; must make CimEqMC fail): *)
(*   HashNameCaseSensitive  _hash_name() without .lower()                  *)
(*   DictNoLenCheck         NocaseDict.__eq__ without the final len test   *)
(*   DictOrdered            NocaseDict.__eq__ comparing items positionally *)
(*   EqNameCasefold         _eq_name() with casefold() while _hash_name()  *)
(*                          keeps lower(): "Straße" == "STRASSE", hashes   *)
(*                          differ                                         *)
(*   DictGetLookup          NocaseDict.__eq__ looking the key up with      *)
(*                          other.get(key): a missing key is taken for an  *)
(*                          item whose value is None                       *)
(* Names are compared / hashed by lower() (= base b); NocaseDict matches    *)
(* and hashes its keys by casefold() (= FoldOf(b)).                        *)
(***************************************************************************)
EXTENDS CimEqU

CONSTANTS HashNameCaseSensitive, DictNoLenCheck, DictOrdered,
          EqNameCasefold, DictGetLookup

EqOrder(k) ==
  CASE k = "InstanceName" -> << <<"nm", 2>>, <<"nm", 3>>, <<"nm", 1>>, <<"dict", 1>> >>
    [] k = "ClassName" -> << <<"nm", 2>>, <<"nm", 3>>, <<"nm", 1>> >>
    [] k = "Instance" -> << <<"nm", 1>>, <<"item", 1>>, <<"dict", 2>>, <<"dict", 3>> >>
    [] k = "Class" -> << <<"nm", 1>>, <<"nm", 2>>, <<"dict", 4>>, <<"dict", 2>>,
                         <<"dict", 3>>, <<"item", 1>> >>
    [] k = "Property" -> << <<"nm", 1>>, <<"item", 1>>, <<"at", 1>>, <<"nm", 2>>,
                            <<"at", 2>>, <<"at", 3>>, <<"at", 4>>, <<"at", 5>>,
                            <<"nm", 3>>, <<"dict", 2>> >>
    [] k = "Method" -> << <<"nm", 1>>, <<"dict", 2>>, <<"dict", 1>>, <<"at", 1>>,
                          <<"nm", 2>>, <<"at", 2>> >>
    [] k = "Parameter" -> << <<"nm", 1>>, <<"at", 1>>, <<"nm", 2>>, <<"at", 3>>,
                             <<"at", 4>>, <<"dict", 2>>, <<"item", 1>>, <<"at", 2>> >>
    [] k = "Qualifier" -> << <<"nm", 1>>, <<"at", 1>>, <<"item", 1>>, <<"at", 2>>,
                             <<"at", 3>>, <<"at", 4>>, <<"at", 5>>, <<"at", 6>> >>
    [] k = "QualifierDeclaration" ->
         << <<"nm", 1>>, <<"at", 1>>, <<"item", 1>>, <<"at", 2>>, <<"at", 3>>,
            <<"dict", 2>>, <<"at", 4>>, <<"at", 5>>, <<"at", 6>>, <<"at", 7>> >>
    [] k = "NocaseDict" -> << <<"dict", 1>> >>

(* `and` chain: the first result that is not "T" *)
RECURSIVE Chain(_)
Chain(rs) == IF rs = <<>> THEN "T"
             ELSE IF Head(rs) # "T" THEN Head(rs) ELSE Chain(Tail(rs))

B(x) == IF x THEN "T" ELSE "F"

(* _eq_name: None-aware, .lower() *)
ImplNameEq(x, y) == IF EqNameCasefold THEN B(FoldOf(x.b) = FoldOf(y.b))
                    ELSE B(x.b = y.b)

RECURSIVE ImplEq(_, _), PyEq(_, _), ImplDictEq(_, _)

(* the Python == of two values (neither is None) *)
PyEq(x, y) ==
  IF x.k = "S" /\ y.k = "S"
  THEN B(x.at[1] = y.at[1] \/ (x.at[2] # "" /\ x.at[2] = y.at[2]))
  ELSE IF x.k = "L" /\ y.k = "L"
  THEN IF Len(x.ch[1]) # Len(y.ch[1]) THEN "F"
       ELSE Chain([i \in 1..Len(x.ch[1]) |-> PyEq(x.ch[1][i].n, y.ch[1][i].n)])
  ELSE IF x.k = y.k THEN ImplEq(x, y)
  ELSE IF {x.k, y.k} = {"S", "L"} THEN "F"
  ELSE IF "DateTime" \in {x.k, y.k} THEN "F"   \* CIMDateTime.__eq__ returns False
  ELSE "E"                                     \* CIM object __eq__ raises TypeError

(* _eq_item *)
ImplItemEq(x, y) ==
  IF IsNone(x) THEN B(IsNone(y))
  ELSE IF IsNone(y) THEN "F"
  ELSE PyEq(x, y)

(* slot that holds an optional single object (path) or the value *)
ImplSlotEq(ga, gb) ==
  LET x == IF ga = <<>> THEN None ELSE ga[1].n
      y == IF gb = <<>> THEN None ELSE gb[1].n IN
  ImplItemEq(x, y)

(* NocaseDict.__eq__ *)
ImplDictEq(ga, gb) ==
  LET per(i) ==
        IF DictOrdered
        THEN IF i > Len(gb) \/ FoldOf(gb[i].key.b) # FoldOf(ga[i].key.b) THEN "F"
             ELSE LET r == IF IsNone(ga[i].n) \/ IsNone(gb[i].n)
                           THEN B(IsNone(ga[i].n) /\ IsNone(gb[i].n))
                           ELSE PyEq(ga[i].n, gb[i].n) IN
                  IF r = "E" THEN "F" ELSE r
        ELSE LET m == {j \in 1..Len(gb) :
                          FoldOf(gb[j].key.b) = FoldOf(ga[i].key.b)} IN
             IF m = {} /\ ~DictGetLookup THEN "F"   \* if key not in other
             ELSE LET o == IF m = {} THEN None       \* other.get(key)
                           ELSE gb[CHOOSE j \in m : TRUE].n
                      r == IF IsNone(ga[i].n) \/ IsNone(o)
                           THEN B(IsNone(ga[i].n) /\ IsNone(o))
                           ELSE PyEq(ga[i].n, o) IN
                  IF r = "E" THEN "F" ELSE r     \* except TypeError: return False
      items == Chain([i \in 1..Len(ga) |-> per(i)]) IN
  IF items # "T" THEN items
  ELSE IF DictNoLenCheck THEN "T" ELSE B(Len(ga) = Len(gb))

ImplEq(a, b) ==
  IF a.k = "DateTime"
  THEN B(a.at[1] = b.at[1] /\ a.at[2] = b.at[2])  \* datetime / timedelta by value
  ELSE LET ord == EqOrder(a.k)
           step(s) ==
             CASE s[1] = "nm" -> ImplNameEq(a.nm[s[2]], b.nm[s[2]])
               [] s[1] = "at" -> B(a.at[s[2]] = b.at[s[2]])
               [] s[1] = "item" -> ImplSlotEq(a.ch[s[2]], b.ch[s[2]])
               [] s[1] = "dict" -> ImplDictEq(a.ch[s[2]], b.ch[s[2]]) IN
       Chain([i \in 1..Len(ord) |-> step(ord[i])])

(* __hash__: tuple of _hash_name / _hash_item / _hash_dict, as a homogeneous
   tree (same shape as Canon) *)
RECURSIVE ImplHash(_, _, _)
ImplHash(n, gtag, ptag) ==
  LET hname(x) == IF HashNameCaseSensitive /\ x # NoName
                  THEN x.b \o "/" \o ToString(x.c) ELSE x.b
      payload ==
        IF n.k = "S"
        THEN IF n.at[2] # "" THEN <<"num", n.at[2]>> ELSE <<"tok", n.at[1]>>
        ELSE IF n.k = "DateTime" THEN <<n.at[1], n.at[2]>>
        ELSE [i \in 1..Len(n.nm) |-> hname(n.nm[i])] \o n.at
  IN [t |-> n.k, g |-> gtag, p |-> ptag, s |-> payload,
      kids |-> UNION { { ImplHash(n.ch[g][i].n, ToString(g),
                                  IF IsBag(n.k, g)
                                  THEN FoldOf(n.ch[g][i].key.b)
                                  ELSE ToString(i))
                         : i \in 1..Len(n.ch[g]) } : g \in 1..Len(n.ch) }]
=============================================================================
