SPECIFICATION Spec
CONSTANTS
  Rollback = FALSE
  NsProviderOrder = "fixed"
  MaxBatch = 3
INVARIANT Atomic
INVARIANT Completes
CHECK_DEADLOCK FALSE
