\* thorough: valid descriptors 1,2 (instance-write), 3 (method) + 9 refused ones, every
\* request shape of both types, <= 1 instance
SPECIFICATION Spec
CONSTANTS
  NsArgFormatBug = FALSE
  ClassnamesAssert = FALSE
  OutOnlyUnchecked = FALSE
  PragmaCaseSensitive = FALSE
  RecompileExisting = FALSE
  Variant = "none"
  Provs <- ProvsCross
  NsArgs <- NsArgsSmall
  SetupBehs = {"ok", "raise"}
  Targets <- TargetsSmall
  KeyU = {1}
  GenDepth = 0
  MaxStore = 1
  IwLevel = "full"
  MethLevel = "full"
INVARIANT ImplRefinesReq
INVARIANT MappingHolds
INVARIANT ReqWellFormed
CONSTRAINT StoreBound
CHECK_DEADLOCK FALSE
