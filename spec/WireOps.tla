------------------------------- MODULE WireOps -------------------------------
(***************************************************************************)
(* C03 - requirement module: "everything pywbem puts on the wire is        *)
(* well-formed, DTD-valid CIM-XML and the CIMMethod/CIMObject extension    *)
(* headers name the same method and target as the body; what cannot be     *)
(* represented in CIM-XML is refused locally".                             *)
(*                                                                         *)
(* One event = one document emitted (or refused) by the real code:         *)
(*   kind     "req"  HTTP request of an operation method (body + headers   *)
(*                   seen by a transport adapter on conn.session)          *)
(*            "obj"  result of tocimxmlstr() of a CIM object               *)
(*            "lsn"  response body written by the listener's handler       *)
(*   emitted  FALSE: the call raised before anything was handed to the     *)
(*            transport (always admissible: the statement only speaks      *)
(*            about what is sent)                                          *)
(*   wf       expat accepted the bytes as an XML 1.0 document              *)
(*   cls      character classes occurring in the document text             *)
(*   tree     element tree reported by expat (CimXmlDtd format)            *)
(*   hdr      decoded extension headers (req only):                        *)
(*            mhas/ohas: header present;  mok/ook: value survives the      *)
(*            DSP0200 decoding (%-unescape, then UTF-8);  method;          *)
(*            form "ns" | "path";  ns: namespace components (the namespace *)
(*            part split at "/" as it stands; nss: the same after removing *)
(*            leading and trailing slashes);  cls: class name or "";       *)
(*            keys: key names.  Names are case-folded tokens.              *)
(*                                                                         *)
(* Fails(s, e) is the set of clauses of the statement that e violates.     *)
(***************************************************************************)
EXTENDS CimXmlDtd

(* ---- XML 1.0 production [2] Char, over a class alphabet ---------------- *)
CharClasses == {"ascii",        \* #x9 #xA #xD #x20-#x7E
                "c1",           \* #x7F-#x9F (discouraged, but Char)
                "latin1",       \* #xA0-#xFF
                "bmp",          \* #x100-#xD7FF, #xE000-#xFFFD
                "astral"}       \* #x10000-#x10FFFF
NonCharClasses == {"c0ctl",     \* #x0-#x8 #xB #xC #xE-#x1F
                   "surrogate", \* #xD800-#xDFFF
                   "fffe",      \* #xFFFE #xFFFF
                   "badutf8"}   \* bytes that are not UTF-8 at all

Representable(cls) == \A i \in DOMAIN cls : cls[i] \in CharClasses

(* ---- extension header values ---------------------------------------------- *)
(* e.hdr is what a RECEIVER reads: the field value of the HTTP header, i.e.  *)
(* without the optional white space (SP, HTAB) around it (RFC 7230 3.2.4: it *)
(* is not part of the value), then the DSP0200 decoding (%-unescape, UTF-8). *)
(* Classes of target names (namespace / class / key / method names) the      *)
(* drivers draw from; "edgeblank": the name ends with a blank, so that the   *)
(* blank ends the header value (method name in CIMMethod; last namespace     *)
(* component or class name in CIMObject).                                    *)
HdrNameClasses == {"ascii", "punct", "pct", "latin1", "bmp", "astral",
                   "edgeblank"}

(* Where the blanks of a value of class "edgeblank" stand.  A header VALUE  *)
(* is abstracted to a string over {"b" = blank, "x" = any other character}; *)
(* on the wire a blank is literal ("b") or escaped ("e" = %20).  What the   *)
(* receiver reads (Received): literal blanks at the edges are dropped, then *)
(* the escapes are undone.  The requirement on every sender is             *)
(* Received(wire(v)) = v; the forms say which values a driver has to        *)
(* produce: blanks after the text, before it, on both sides, and a value    *)
(* that is NOTHING BUT blanks (leading and trailing blanks are then the     *)
(* same characters: a sender that counts them separately doubles them).     *)
EdgeBlankForms == {"trail", "lead", "both", "only"}
HdrValues(n) == UNION {[1..k -> {"b", "x"}] : k \in 1..n}
EdgeBlankFormOf(v) ==
  IF \A i \in DOMAIN v : v[i] = "b" THEN "only"
  ELSE IF v[1] = "b" /\ v[Len(v)] = "b" THEN "both"
  ELSE IF v[1] = "b" THEN "lead"
  ELSE IF v[Len(v)] = "b" THEN "trail"
  ELSE "inner"
RECURSIVE LStripB(_)
LStripB(w) == IF w # <<>> /\ w[1] = "b" THEN LStripB(Tail(w)) ELSE w
RECURSIVE RStripB(_)
RStripB(w) == IF w # <<>> /\ w[Len(w)] = "b"
              THEN RStripB(SubSeq(w, 1, Len(w) - 1)) ELSE w
Received(w) ==
  LET f == RStripB(LStripB(w)) IN
  [i \in DOMAIN f |-> IF f[i] = "e" THEN "b" ELSE f[i]]

(* ---- the body's method and target --------------------------------------- *)
SeqToSet(s) == {s[i] : i \in DOMAIN s}

(* Only evaluated on trees that are ValidTree with root CIM. *)
IsSimpleReq(t) ==
  /\ t.t = "CIM" /\ Len(t.c) = 1 /\ t.c[1].t = "MESSAGE"
  /\ Len(t.c[1].c) = 1
  /\ t.c[1].c[1].t \in {"SIMPLEREQ", "SIMPLEEXPREQ"}
  /\ Len(t.c[1].c[1].c) = 1

Call(t) == t.c[1].c[1].c[1]      \* IMETHODCALL | METHODCALL | EXPMETHODCALL

NsNames(lnp) == [i \in DOMAIN lnp.c |-> AttrVal(lnp.c[i], "NAME")]

BodyMethod(t) == AttrVal(Call(t), "NAME")

(* target of the body: [form, ns, cls, keys] *)
BodyTarget(t) ==
  LET c == Call(t) IN
  IF c.t = "IMETHODCALL"
  THEN [form |-> "ns", ns |-> NsNames(c.c[1]), cls |-> "", keys |-> {}]
  ELSE IF c.t = "METHODCALL"
  THEN LET p == c.c[1] IN
       IF p.t = "LOCALCLASSPATH"
       THEN [form |-> "path", ns |-> NsNames(p.c[1]),
             cls |-> AttrVal(p.c[2], "NAME"), keys |-> {}]
       ELSE [form |-> "path", ns |-> NsNames(p.c[1]),
             cls |-> AttrVal(p.c[2], "CLASSNAME"),
             keys |-> {AttrVal(p.c[2].c[i], "NAME") :
                         i \in {j \in DOMAIN p.c[2].c :
                                  p.c[2].c[j].t = "KEYBINDING"}}]
  ELSE [form |-> "none", ns |-> <<>>, cls |-> "", keys |-> {}]

(* CIMMethod (CIMExportMethod for export requests) = body method name *)
MethodAgrees(e) ==
  /\ e.hdr.mhas /\ e.hdr.mok
  /\ e.hdr.method = BodyMethod(e.tree)

(* CIMObject denotes the body's target; compared abstractly.  Export       *)
(* requests have no target (DSP0200: no CIMObject header).  The namespace  *)
(* is the sequence of its "/"-separated components, empty ones included    *)
(* (the empty namespace is ONE empty component: the body can only say      *)
(* <NAMESPACE NAME=""/>); slashes around the header's namespace part (a    *)
(* WBEM URI has a leading one, CIMObject has not) are not held against the *)
(* code: either reading may agree.                                         *)
ObjectAgrees(e) ==
  LET b == BodyTarget(e.tree) IN
  IF b.form = "none" THEN TRUE
  ELSE /\ e.hdr.ohas /\ e.hdr.ook
       /\ e.hdr.form = b.form
       /\ (e.hdr.ns = b.ns \/ e.hdr.nss = b.ns)
       /\ e.hdr.cls = b.cls
       /\ SeqToSet(e.hdr.keys) = b.keys

HeadersAgree(e) == MethodAgrees(e) /\ ObjectAgrees(e)

HeaderFaults(e) ==
  IF ~IsSimpleReq(e.tree) THEN {"HeadersAgree:not-a-simple-request"}
  ELSE (IF MethodAgrees(e) THEN {} ELSE {"HeadersAgree:CIMMethod"})
       \cup (IF ObjectAgrees(e) THEN {} ELSE {"HeadersAgree:CIMObject"})

(* ---- the requirement machine (stateless) --------------------------------- *)
InitState == 0
Apply(s, e) == s

Fails(s, e) ==
  IF ~e.emitted THEN {}
  ELSE
    (IF e.wf THEN {} ELSE {"WellFormed"})
    \cup (IF Representable(e.cls) THEN {} ELSE {"Representable"})
    \cup (IF e.wf THEN {"DtdValid:" \o f : f \in TreeFaults(e.tree)} ELSE {})
    \cup (IF e.wf /\ e.kind \in {"req", "lsn"} /\ e.tree.t # "CIM"
          THEN {"DtdValid:root"} ELSE {})
    \cup (IF e.kind = "req" /\ e.wf /\ ValidTree(e.tree) /\ e.tree.t = "CIM"
          THEN HeaderFaults(e) ELSE {})
=============================================================================
