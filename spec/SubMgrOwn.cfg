SPECIFICATION Spec
CONSTANTS
  Escape = TRUE
  MaxLen = 3
  Alias = FALSE
  Alphabet = {"a", "b", "dot", "star", "paren"}
INVARIANT Isolation
INVARIANT AddServerTotal
INVARIANT ListsEqualServer
PROPERTY RemoveExactlyOwned
CHECK_DEADLOCK FALSE
