SPECIFICATION Spec
CONSTANTS
  Escape = TRUE
  MaxLen = 3
  Alphabet = {"a", "b", "dot", "star", "paren"}
INVARIANT Isolation
INVARIANT AddServerTotal
PROPERTY RemoveExactlyOwned
CHECK_DEADLOCK FALSE
