SPECIFICATION Spec
CONSTANTS
  Big = FALSE
  HashNameCaseSensitive = FALSE
  DictNoLenCheck = FALSE
  DictOrdered = FALSE
  EqNameCasefold = FALSE
  DictGetLookup = TRUE
  MCKinds <- Kinds
INVARIANT ImplSymmetric
INVARIANT ImplEqImpliesHash
CHECK_DEADLOCK FALSE
