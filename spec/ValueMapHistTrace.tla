-------------------------- MODULE ValueMapHistTrace --------------------------
(* C20 - validation of histories observed on the real pywbem.ValueMapping     *)
(* (several for_property / for_method / for_parameter calls on one class      *)
(* object) against the history requirement machine ValueMapHist.              *)
(* One trace = Declare event + one Create event per factory call.             *)
EXTENDS ValueMapHist, Json, IOUtils
VARIABLES tid, l, verdict, ts, ti, drifted

NoDrift(i, e) == <<{}, i>>

TraceBatch == JsonDeserialize(IOEnv.TRACE_FILE).traces
TK == INSTANCE TraceKit WITH
        TTraces <- TraceBatch,
        TInit0 <- HInit, TFails <- HFails, TApply <- HApply,
        TInv <- LAMBDA st : TRUE,
        TImpl0 <- 0, TImplStep <- NoDrift
TSpec == TK!TSpec
=============================================================================
