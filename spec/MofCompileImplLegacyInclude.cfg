\* regression config: no recursion guard in compile_file (must violate ImplRefinesReq: RecursionError)
SPECIFICATION Spec
CONSTANTS
  MaxProd = 2
  MaxDepth = 6
  OnlyKinds = {"include"}
  IncludeGuard = FALSE
  NsNoneCheck = TRUE
  HexBounds = TRUE
  CtxBounds = TRUE
  ValueWrapped = TRUE
  RepoWrapped = TRUE
  EmbFinally = TRUE
  RestoreOnReturn = TRUE
  EmbRestoreAll = TRUE
  SuperCheckFirst = TRUE
  AncestryWalk = TRUE
  GuardCanonical = TRUE
  RegisterAfterCreate = TRUE
  NsCachesInit = TRUE
  EmbNullChecked = TRUE
  OverflowWrapped = TRUE
  InstOffsetAll = TRUE
  OpenPrecheck = TRUE
  EmbLexerClone = TRUE
INVARIANT TypeOK
INVARIANT ImplRefinesReq
INVARIANT PositionFileOK
INVARIANT Reusable

CHECK_DEADLOCK FALSE
