\* The pinned tree: CR written verbatim.  RoundTrip must be VIOLATED (CR -> LF).
SPECIFICATION Spec
CONSTANTS
  Alphabet <- Cls
  MaxLen = 3
  Depths = {0, 1}
  Modes = {"entity", "cdata"}
  V <- AsIs
  AttrAll = FALSE
INVARIANT RoundTrip
CHECK_DEADLOCK FALSE
