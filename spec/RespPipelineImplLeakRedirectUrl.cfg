SPECIFICATION Spec
CONSTANTS
  Leaks = {"RedirectUrl"}
  Pinned = FALSE
  PairMode = "none"
  Emit = FALSE
INVARIANT TypeOK
INVARIANT ImplRefinesReq
INVARIANT ClosedForm

CHECK_DEADLOCK FALSE
