SPECIFICATION Spec
CONSTANTS
  K = 1
  Variant = {"name_host_first"}
  Emit = FALSE
INVARIANTS ImplValid ImplHeaders ImplReqOk
CHECK_DEADLOCK FALSE
