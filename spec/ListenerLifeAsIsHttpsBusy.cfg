\* MUST FAIL (pinned tree): HTTPS port in use leaves the HTTP server running
SPECIFICATION Spec
CONSTANTS
  Cfg = {"http", "https"}
  Envs <- EnvsHttpsNoCert
  Senders = {"s1"}
  NInd = 2
  MaxQ = 1
  MaxOps = 1
  InitCbs <- Cbs1
  AddCbs = {}
  FailCleanup = "code"
  CloseOnCertFail = FALSE
  ClearRobust = FALSE
  StopGuard = TRUE
  DupCheck = TRUE
  FailStopsDelivery = TRUE
INVARIANT StartFailHolds
INVARIANT OtherHolds
PROPERTY MainTerminates
CHECK_DEADLOCK FALSE
