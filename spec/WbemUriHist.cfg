SPECIFICATION Spec
CONSTANTS
  V <- VFixed
  MaxLen = 3
  HistFmts = {"standard", "canonical"}
  PrintFmts = {"standard", "historical", "canonical"}
  ObsSeq <- ObsAllFmts
INVARIANT HistRoundTrip
INVARIANT HistIndependent
INVARIANT HistWellFormed
INVARIANT Emit
CHECK_DEADLOCK FALSE
