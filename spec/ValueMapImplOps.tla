--------------------------- MODULE ValueMapImplOps ---------------------------
(***************************************************************************)
(* C20 - code-shaped transcription of pywbem/_valuemapping.py:             *)
(*   _create_for_element   size reconciliation, the loop that fills        *)
(*                         _b2v_single_dict / _b2v_range_tuple_list /      *)
(*                         _b2v_unclaimed / _v2b_dict                      *)
(*   _values_tuple         regex split, recursion into the neighbour for   *)
(*                         an open end, type limits at the array ends      *)
(*   _to_int               -> _integerValue_to_int (notation classes)      *)
(*   _tovalues_single, tobinary, items                                     *)
(* Exceptions are values ([t |-> "exc", x |-> name]) and propagate in the  *)
(* order in which the Python statements execute.  Python's unbounded       *)
(* recursion is cut by a fuel counter: a well-founded call chain needs at  *)
(* most Len(map) nested calls, so running out of fuel = RecursionError.    *)
(*                                                                         *)
(* fl selects the variant of three places (TRUE = proposed repair,         *)
(* FALSE = the pinned tree):                                               *)
(*   fl.trunc  extra Values items are cut at len(valuemap) (pinned tree:   *)
(*             `del values_list[len(values_extra):]`)                      *)
(*   fl.guard  an open end looks past ".." neighbours and raises           *)
(*             ModelError when the neighbour's facing end is open too      *)
(*             (pinned tree: plain recursion -> RecursionError)            *)
(*   fl.oct0   octal literals may contain the digit 0 (pinned tree:        *)
(*             OCTAL_VALUE = ^[+-]?0[1-7]*$ -> "010" is rejected)          *)
(* and of two more places (TRUE = the code as it is, FALSE = a realistic   *)
(* wrong variant used as regression configuration):                        *)
(*   fl.skip   the loop that skips ".." when looking for the right-hand    *)
(*             neighbour of an open high end runs over ALL entries         *)
(*             (FALSE: `while j < len(valuemap_list) - 1`, a ".." that is  *)
(*             the last entry is taken for the neighbour)                  *)
(*   fl.uncl   _tovalues_single tests `_b2v_unclaimed is not None`         *)
(*             (FALSE: truthiness, an empty Values string of the ".."      *)
(*             entry counts as "no unclaimed entry")                       *)
(*   fl.vbx    _v2b_dict (tobinary / items) is keyed by the Values string  *)
(*             as it is (FALSE: a case-insensitive dictionary, NocaseDict: *)
(*             strings differing only in lexical case share one key, the   *)
(*             later assignment replaces key and value in place)           *)
(* fl.len = the lexeme classes of malformed entries (BadClasses) that the  *)
(*          integer reader accepts as if they were well-formed ({} = the   *)
(*          DSP0004 patterns over US-ASCII, anchored at the very end):     *)
(*   "nl"     `$` instead of `\Z` in the integerValue / range patterns     *)
(*            (the tree as it is: "5\n", "1..5\n" accepted)                *)
(*   "udigit" str.isdigit() / int() fast path in front of the patterns     *)
(*   "ws", "under"  int() as fallback                                      *)
(* fl.itl = TRUE: items() iterates a list of all entries (proposed         *)
(*          repair); FALSE = the tree as it is: items() iterates           *)
(*          _v2b_dict, entries with a repeated Values string collapse      *)
(* fl.once = TRUE: what items() iterates is a one-shot iterator (zip):     *)
(*          only the first items() call of an object lists anything        *)
(***************************************************************************)
EXTENDS ValueMap

Ok2(l, h) == [t |-> "ok", lo |-> l, hi |-> h, x |-> ""]
Ex(n) == [t |-> "exc", lo |-> 0, hi |-> 0, x |-> n]

Legacy == [trunc |-> FALSE, guard |-> FALSE, oct0 |-> FALSE,
           skip |-> TRUE, uncl |-> TRUE, vbx |-> TRUE, len |-> {"nl"},
           itl |-> FALSE, once |-> FALSE]
(* the tree as it is (IndexError / RecursionError repaired) *)
AsIs == [trunc |-> TRUE, guard |-> TRUE, oct0 |-> FALSE,
         skip |-> TRUE, uncl |-> TRUE, vbx |-> TRUE, len |-> {"nl"},
         itl |-> FALSE, once |-> FALSE]
Fixed == [trunc |-> TRUE, guard |-> TRUE, oct0 |-> TRUE,
          skip |-> TRUE, uncl |-> TRUE, vbx |-> TRUE, len |-> {},
          itl |-> TRUE, once |-> FALSE]

(* the entry as the integer reader of variant fl sees it: a malformed     *)
(* entry of a class it is too lenient for reads as the well-formed entry  *)
(* its fields describe                                                     *)
Lx(x, fl) ==
  IF x.k = "BAD" /\ x.nt \in fl.len
  THEN [x EXCEPT !.k = IF x.lopen \/ x.hopen \/ x.lo # x.hi THEN "R" ELSE "S",
                 !.nt = "dec"]
  ELSE x
LxMap(m, fl) == [i \in DOMAIN m |-> Lx(m[i], fl)]

(* key of a case-insensitive dictionary, for the Values strings the model *)
(* universe uses (VectorsC in ValueMapImpl.tla)                            *)
Fold(s) == CASE s \in {"AB", "Ab", "aB"} -> "ab"
             [] s \in {"CD", "Cd"} -> "cd"
             [] OTHER -> s
Key(s, fl) == IF fl.vbx THEN s ELSE Fold(s)

(* _to_int *)
ToInt(ent, n, fl) ==
  IF ent.k = "BAD" \/ (ent.nt = "oct0" /\ ~fl.oct0) THEN Ex("ModelError")
  ELSE Ok2(n, n)

OpenLo(x) == x.k = "U" \/ (x.k = "R" /\ x.lopen)
OpenHi(x) == x.k = "U" \/ (x.k = "R" /\ x.hopen)

(* PrevNonU / NextNonU: see ValueMap.tla.  The wrong variant of the skip   *)
(* loop stops in front of the last entry                                   *)
RECURSIVE NextNonUShort(_, _)
NextNonUShort(m, j) ==
  IF j >= Len(m) \/ m[j].k # "U" THEN j ELSE NextNonUShort(m, j + 1)

(* _values_tuple(i, valuemap_list, values_list, cimtype); nv = len(values_list) *)
RECURSIVE VT(_, _, _, _, _, _, _)
VT(i, m, nv, tmin, tmax, fuel, fl) ==
  IF fuel = 0 THEN Ex("RecursionError")
  ELSE IF i > nv THEN Ex("IndexError")             \* values_str = values_list[i]
  ELSE
  LET x == m[i] IN
  IF x.k \in {"S", "BAD"} THEN ToInt(x, x.lo, fl)  \* regex does not match
  ELSE
  LET lo ==
        IF ~OpenLo(x) THEN ToInt(x, x.lo, fl)
        ELSE IF ~fl.guard
        THEN IF i = 1 THEN Ok2(tmin, tmin)
             ELSE LET p == VT(i - 1, m, nv, tmin, tmax, fuel - 1, fl) IN
                  IF p.t = "exc" THEN p ELSE Ok2(p.hi + 1, p.hi + 1)
        ELSE LET j == PrevNonU(m, i - 1) IN
             IF j = 0 THEN Ok2(tmin, tmin)
             ELSE IF OpenHi(m[j]) THEN Ex("ModelError")
             ELSE LET p == VT(j, m, nv, tmin, tmax, fuel - 1, fl) IN
                  IF p.t = "exc" THEN p ELSE Ok2(p.hi + 1, p.hi + 1)
  IN
  IF lo.t = "exc" THEN lo
  ELSE
  LET hi ==
        IF ~OpenHi(x) THEN ToInt(x, x.hi, fl)
        ELSE IF ~fl.guard
        THEN IF i = Len(m) THEN Ok2(tmax, tmax)
             ELSE LET q == VT(i + 1, m, nv, tmin, tmax, fuel - 1, fl) IN
                  IF q.t = "exc" THEN q ELSE Ok2(q.lo - 1, q.lo - 1)
        ELSE LET j == IF fl.skip THEN NextNonU(m, i + 1)
                      ELSE NextNonUShort(m, i + 1) IN
             IF j > Len(m) THEN Ok2(tmax, tmax)
             ELSE IF OpenLo(m[j]) THEN Ex("ModelError")
             ELSE LET q == VT(j, m, nv, tmin, tmax, fuel - 1, fl) IN
                  IF q.t = "exc" THEN q ELSE Ok2(q.lo - 1, q.lo - 1)
  IN
  IF hi.t = "exc" THEN hi ELSE Ok2(lo.lo, hi.lo)

(* tables: sd = _b2v_single_dict, rl = _b2v_range_tuple_list,              *)
(* un = _b2v_unclaimed, vb = _v2b_dict (OrderedDict: a re-assigned key     *)
(* keeps its position), il = list of all entries (items() of the repair)   *)
Tables0 == [sd |-> << >>, rl |-> << >>, un |-> [has |-> FALSE, s |-> ""],
            vb |-> << >>, il |-> << >>]
Bin(s, k, lo, hi) == [s |-> s, k |-> k, lo |-> lo, hi |-> hi]

PutSd(q, n, s) ==
  IF \E j \in DOMAIN q : q[j].n = n
  THEN [q EXCEPT ![CHOOSE j \in DOMAIN q : q[j].n = n] = [n |-> n, s |-> s]]
  ELSE Append(q, [n |-> n, s |-> s])
PutVb(q, b, fl) ==
  IF \E j \in DOMAIN q : Key(q[j].s, fl) = Key(b.s, fl)
  THEN [q EXCEPT ![CHOOSE j \in DOMAIN q : Key(q[j].s, fl) = Key(b.s, fl)] = b]
  ELSE Append(q, b)

RECURSIVE Build(_, _, _, _, _, _, _)
Build(i, m, vl, st, tmin, tmax, fl) ==
  IF i > Len(m) THEN [t |-> "ok", st |-> st, x |-> ""]
  ELSE IF i > Len(vl) THEN [t |-> "exc", st |-> st, x |-> "IndexError"]
  ELSE IF m[i].k = "U"
  THEN Build(i + 1, m, vl,
             [st EXCEPT !.un = [has |-> TRUE, s |-> vl[i]],
                        !.vb = PutVb(@, Bin(vl[i], "N", 0, 0), fl),
                        !.il = Append(@, Bin(vl[i], "N", 0, 0))],
             tmin, tmax, fl)
  ELSE LET r == VT(i, m, Len(vl), tmin, tmax, Len(m) + 2, fl) IN
       IF r.t = "exc" THEN [t |-> "exc", st |-> st, x |-> r.x]
       ELSE IF r.lo = r.hi
       THEN Build(i + 1, m, vl,
                  [st EXCEPT !.sd = PutSd(@, r.lo, vl[i]),
                             !.vb = PutVb(@, Bin(vl[i], "S", r.lo, r.lo), fl),
                             !.il = Append(@, Bin(vl[i], "S", r.lo, r.lo))],
                  tmin, tmax, fl)
       ELSE Build(i + 1, m, vl,
                  [st EXCEPT !.rl = Append(@, [lo |-> r.lo, hi |-> r.hi,
                                               s |-> vl[i]]),
                             !.vb = PutVb(@, Bin(vl[i], "R", r.lo, r.hi), fl),
                             !.il = Append(@, Bin(vl[i], "R", r.lo, r.hi))],
                  tmin, tmax, fl)

(* _create_for_element, first part: values_list after the size             *)
(* reconciliation (vl is the list the statements leave behind, also when   *)
(* they raise)                                                             *)
Recon(e, fl) ==
  LET m == EffMap(e)
      n == Len(m)
      nq == Len(e.vals) IN
  IF ~e.hasvals THEN [t |-> "exc", x |-> "ValueError", vl |-> << >>]
  ELSE IF n # nq /\ ~e.hasdflt THEN [t |-> "exc", x |-> "ModelError", vl |-> e.vals]
  ELSE [t |-> "ok", x |-> "",
        vl |-> IF n > nq THEN e.vals \o [i \in 1..(n - nq) |-> e.dflt]
               ELSE IF n < nq
               THEN SubSeq(e.vals, 1, IF fl.trunc THEN n ELSE nq - n)
               ELSE e.vals]

(* _create_for_element *)
Create(e, fl) ==
  LET r == Recon(e, fl) IN
  IF r.t = "exc" THEN [t |-> "exc", st |-> Tables0, x |-> r.x]
  ELSE Build(1, LxMap(EffMap(e), fl), r.vl, Tables0, e.tmin, e.tmax, fl)

(* _tovalues_single *)
ImplTovalues(st, v, fl) ==
  IF \E j \in DOMAIN st.sd : st.sd[j].n = v
  THEN Res(TRUE, st.sd[CHOOSE j \in DOMAIN st.sd : st.sd[j].n = v].s)
  ELSE LET hit == {j \in DOMAIN st.rl : st.rl[j].lo <= v /\ v <= st.rl[j].hi} IN
       IF hit # {} THEN Res(TRUE, st.rl[MinOf(hit)].s)
       ELSE IF st.un.has /\ (fl.uncl \/ st.un.s # "") THEN Res(TRUE, st.un.s)
       ELSE Res(FALSE, "ValueError")

(* tobinary *)
ImplTobinary(st, s, fl) ==
  IF \E j \in DOMAIN st.vb : Key(st.vb[j].s, fl) = Key(s, fl)
  THEN [st.vb[CHOOSE j \in DOMAIN st.vb : Key(st.vb[j].s, fl) = Key(s, fl)]
          EXCEPT !.s = s]
  ELSE Bin(s, "E", 0, 0)

(* items() *)
ImplItems(st, fl) == IF fl.itl THEN st.il ELSE st.vb

(* the complete observation the code-shaped machine predicts for vector e, *)
(* probing tovalues at every v of the set V and tobinary at the strings Q  *)
ImplEvent(e, fl, Vseq, Q) ==
  LET c == Create(e, fl) IN
  IF c.t = "exc"
  THEN [e EXCEPT !.ctor = c.x, !.tv = << >>, !.tb = << >>, !.items = << >>,
                 !.items2 = << >>]
  ELSE [e EXCEPT !.ctor = "ok",
                 !.tv = [j \in DOMAIN Vseq |->
                           LET r == ImplTovalues(c.st, Vseq[j], fl) IN
                           [lo |-> Vseq[j], hi |-> Vseq[j], ok |-> r.ok, s |-> r.s]],
                 !.tb = [j \in DOMAIN Q |-> ImplTobinary(c.st, Q[j], fl)],
                 !.items = ImplItems(c.st, fl),
                 !.items2 = IF fl.once THEN << >> ELSE ImplItems(c.st, fl)]

(* drift of an observed event against the code-shaped machine, variant fl  *)
(* (never a verdict).  Resolved bounds of the machine are its break points *)
ImplBreak(st) ==
  UNION {{st.sd[j].n - 1, st.sd[j].n, st.sd[j].n + 1} : j \in DOMAIN st.sd}
  \cup UNION {{st.rl[j].lo - 1, st.rl[j].lo, st.rl[j].lo + 1,
               st.rl[j].hi - 1, st.rl[j].hi, st.rl[j].hi + 1} : j \in DOMAIN st.rl}
SameBin(a, b) == a.s = b.s /\ a.k = b.k /\ a.lo = b.lo /\ a.hi = b.hi
Drift(e, fl) ==
  LET c == Create(e, fl) IN
  IF c.t = "exc" THEN F("ctor", e.ctor = c.x)
  ELSE IF e.ctor # "ok" THEN {"ctor"}
  ELSE F("tovalues",
         \A j \in DOMAIN e.tv :
            LET g == e.tv[j] IN
            \A v \in ({g.lo, g.hi} \cup
                      {b \in ImplBreak(c.st) : g.lo <= b /\ b <= g.hi}) :
               ImplTovalues(c.st, v, fl) = Res(g.ok, g.s))
       \cup F("tobinary",
              \A j \in DOMAIN e.tb :
                 SameBin(ImplTobinary(c.st, e.tb[j].s, fl), e.tb[j]))
       \cup F("items",
              LET it == ImplItems(c.st, fl) IN
              /\ Len(e.items) = Len(it)
              /\ \A j \in DOMAIN e.items : SameBin(e.items[j], it[j]))
       \cup F("items.second",
              LET it == IF fl.once THEN << >> ELSE ImplItems(c.st, fl) IN
              /\ Len(e.items2) = Len(it)
              /\ \A j \in DOMAIN e.items2 : SameBin(e.items2[j], it[j]))
=============================================================================
