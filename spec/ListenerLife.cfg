\* pinned code shape, HTTP only: every program of 3 start(env)/stop calls + stop (restart, stop twice, start twice, failed start), 1 sender x 2 indications
SPECIFICATION Spec
CONSTANTS
  Cfg = {"http"}
  Envs <- EnvsHttp
  Senders = {"s1"}
  NInd = 2
  MaxQ = 1
  MaxOps = 3
  InitCbs <- Cbs1
  AddCbs = {}
  FailCleanup = "code"
  CloseOnCertFail = FALSE
  ClearRobust = FALSE
  StopGuard = TRUE
  DupCheck = TRUE
  FailStopsDelivery = TRUE
INVARIANT StartFailHolds
INVARIANT OtherHolds
PROPERTY MainTerminates
CHECK_DEADLOCK FALSE
