SPECIFICATION Spec
CONSTANTS
  TMin = 0
  TMax = 15
  MaxHist = 3
  ShareValuesList = FALSE
CHECK_DEADLOCK FALSE
