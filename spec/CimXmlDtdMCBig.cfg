SPECIFICATION Spec
CONSTANTS
  MaxLen = 5
  Variant = "deriv"
INVARIANTS Agree ForeignRejected
CHECK_DEADLOCK FALSE
