-------------------------- MODULE WbemServerImplOps --------------------------
(***************************************************************************)
(* X06 - code-shaped transcription of pywbem.WBEMServer (pywbem/_server.py)*)
(* together with the server it talks to (pywbem_mock: MainProvider         *)
(* namespace checks and CIMNamespaceProvider.CreateInstance /              *)
(* DeleteInstance, pywbem_mock/_namespaceprovider.py, _baseprovider.py).   *)
(*                                                                         *)
(* Client state (the caches of the WBEMServer object):                     *)
(*   c.interop  <<>> or <<[id, cs]>>         _interop_ns                   *)
(*   c.nsdet    BOOLEAN                      _namespaces is not None       *)
(*   c.nss      set of [id, cs]              _namespaces                   *)
(*   c.paths    set of [id, cs]              _namespace_paths (Name keys)  *)
(*   c.cls      class token                  _namespace_classname          *)
(* Server state:                                                           *)
(*   v.ns    set of [id, cs]   namespaces of the repository                *)
(*   v.insts set of [id, cs]   CIM_Namespace instances (nskind "prov")     *)
(*   v.full  set of ids        non-empty namespaces                        *)
(*                                                                         *)
(* Constants select the code as pinned (TRUE) or repaired (FALSE) and      *)
(* realistic wrong variants (regression configurations):                   *)
(*   PinnedDupCheck    CIMNamespaceProvider.CreateInstance looks for an    *)
(*                     existing instance with `NocaseList(classname)` - a  *)
(*                     list of the CHARACTERS of the class name - so the   *)
(*                     "already exists" check never fires                  *)
(*   PinnedDeleteCase  delete_namespace compares the namespace name with   *)
(*                     `in` / `==` on strings (case sensitive)             *)
(*   PinnedBrand       `"CIM Object Manager for FUJITSU" in                *)
(*                     elementname_lower` never matches; ElementName /     *)
(*                     Description None are dereferenced                   *)
(*   Variant  "code" | "norefreshcreate" | "norefreshdelete" | "noappend"  *)
(*            | "nostrip" | "firstclassonly" | "lastcandidate"             *)
(***************************************************************************)
EXTENDS WbemServer

CONSTANTS PinnedDupCheck, PinnedDeleteCase, PinnedBrand, Variant

Cands == <<"i1", "i2", "i3">>              \* INTEROP_NAMESPACES, in order
ClsOrder == <<"CIM", "WSN", "UU">>         \* NAMESPACE_CLASSNAMES, in order

E_INVALID_NAMESPACE == 3
E_INVALID_PARAMETER == 4
E_INVALID_CLASS == 5
E_ALREADY_EXISTS == 11

Rsp(k, code) == [k |-> k, code |-> code]
Ok == Rsp("ok", 0)
CimE(code) == Rsp("CIMError", code)
Ex(k) == Rsp(k, 0)

Client0 == [interop |-> <<>>, nsdet |-> FALSE, nss |-> {}, paths |-> {},
            cls |-> ""]
Server0(w) == LET s0 == StateOfWorld(w) IN
              [ns |-> s0.ns, insts |-> s0.ns, full |-> s0.full]

HasId(S, id) == \E x \in S : x.id = id
Entry(S, id) == CHOOSE x \in S : x.id = id
(* comparisons of name STRINGS without regard to case (NocaseDict, lower()):*)
(* spelling "s" - the name written with leading and trailing slash - is a  *)
(* different string                                                        *)
HasPlain(S, id) == \E x \in S : x.id = id /\ x.cs # "s"
PlainEntry(S, id) == CHOOSE x \in S : x.id = id /\ x.cs # "s"

(*----------------------- _determine_interop_ns ---------------------------*)
(* EnumerateInstanceNames('CIM_Namespace', namespace=candidate)            *)
NsClassHere(w) == \E i \in DOMAIN w.nscls : w.nscls[i] = "CIM"
ListedNames(w, v) == IF w.nskind = "prov" THEN v.insts
                     ELSE {NmOf(x) : x \in Rng(w.listed)}
RECURSIVE TryCands(_, _, _)
TryCands(w, v, i) ==
  IF i > Len(Cands) THEN <<>>
  ELSE LET cand == Cands[i] IN
       IF ~HasId(v.ns, cand) THEN TryCands(w, v, i + 1)   \* INVALID_NAMESPACE
       ELSE IF ~NsClassHere(w) THEN <<Nm(cand, "a")>>     \* INVALID_CLASS
       ELSE LET names == ListedNames(w, v) IN             \* NocaseDict lookup
            IF HasPlain(names, cand) THEN <<PlainEntry(names, cand)>>
            ELSE <<Nm(cand, "a")>>
RECURSIVE TryCandsRev(_, _, _)
TryCandsRev(w, v, i) ==
  IF i < 1 THEN <<>>
  ELSE LET cand == Cands[i] IN
       IF ~HasId(v.ns, cand) THEN TryCandsRev(w, v, i - 1)
       ELSE <<Nm(cand, "a")>>

(* returns <<response, client'>> *)
DetermineInterop(w, v, c) ==
  IF c.interop # <<>> THEN <<Ok, c>>
  ELSE LET f == IF Variant = "lastcandidate" THEN TryCandsRev(w, v, Len(Cands))
                ELSE TryCands(w, v, 1) IN
       IF f = <<>> THEN <<Ex("ModelError"), c>>
       ELSE <<Ok, [c EXCEPT !.interop = f]>>

(*------------------------ _determine_namespaces --------------------------*)
RECURSIVE FirstClass(_, _)
FirstClass(w, i) ==
  IF i > Len(ClsOrder) THEN ""
  ELSE IF \E j \in DOMAIN w.nscls : w.nscls[j] = ClsOrder[i] THEN ClsOrder[i]
  ELSE IF Variant = "firstclassonly" THEN ""
  ELSE FirstClass(w, i + 1)

DetermineNamespaces(w, v, c) ==
  LET di == DetermineInterop(w, v, c) IN
  IF di[1].k # "ok" THEN di
  ELSE
  LET c1 == di[2]
      cls == FirstClass(w, 1) IN
  IF cls = "" THEN <<Ex("ModelError"), c1>>
  ELSE LET insts == ListedNames(w, v)
           iop == c1.interop[1]
           nss == IF HasPlain(insts, iop.id) \/ Variant = "noappend" THEN insts
                  ELSE insts \cup {iop} IN
       <<Ok, [c1 EXCEPT !.nsdet = TRUE, !.nss = nss, !.paths = insts,
                        !.cls = cls]>>

EnsureNamespaces(w, v, c) ==
  IF c.nsdet THEN <<Ok, c>> ELSE DetermineNamespaces(w, v, c)

(*--------------------------- _determine_brand ----------------------------*)
ImplBrand(om) ==
  IF om.en = "unset" /\ PinnedBrand THEN [k |-> "AttributeError", val |-> ""]
  ELSE IF om.en \in {"pegasus", "sfcb", "emc"} /\ om.desc = "unset" /\ PinnedBrand
  THEN [k |-> "TypeError", val |-> ""]
  ELSE [k |-> "ok",
        val |-> CASE om.en = "pegasus" -> "OpenPegasus"
                  [] om.en = "sfcb" -> "SFCB"
                  [] om.en = "jwbem" -> "JWBEM"
                  [] om.en = "emc" -> "EMC"
                  [] om.en = "fujitsu" -> IF PinnedBrand THEN "asis" ELSE "FUJITSU"
                  [] om.en = "other" -> "asis"
                  [] OTHER -> "unknown"]
ImplVersion(om) ==
  LET b == ImplBrand(om) IN
  IF b.k # "ok" THEN b
  ELSE [k |-> "ok",
        val |->
          CASE om.en = "pegasus" ->
                 (IF om.desc \in {"ver", "verrel"} THEN "v" ELSE "none")
            [] om.en = "sfcb" ->
                 (CASE om.desc \in {"ver", "rel", "num"} -> "v"
                    [] om.desc = "verrel" -> "vrest" [] OTHER -> "none")
            [] om.en = "jwbem" -> (IF om.ver = "set" THEN "prop" ELSE "none")
            [] om.en = "emc" ->
                 (CASE om.desc = "ver" -> "v" [] om.desc = "verrel" -> "vrest"
                    [] OTHER -> "none")
            [] om.en = "fujitsu" /\ ~PinnedBrand -> "none"
            [] OTHER ->      \* '^.* (?:version|release) *(.+)?$', greedy
                 (CASE om.desc \in {"ver", "rel"} -> "v"
                    [] om.desc = "verrel" -> "reltail" [] OTHER -> "none")]
ImplBrandOp(w, v, c, which) ==
  LET di == DetermineInterop(w, v, c) IN
  IF di[1].k # "ok" THEN <<[k |-> di[1].k, code |-> 0, val |-> ""], di[2]>>
  ELSE IF Len(w.om) = 0
  THEN <<[k |-> "ModelError", code |-> 0, val |-> ""], di[2]>>
  ELSE IF Len(w.om) > 1
  THEN <<[k |-> IF PinnedBrand /\ \E i \in DOMAIN w.om : w.om[i].en = "unset"
                THEN "KeyError" ELSE "ModelError", code |-> 0, val |-> ""],
         di[2]>>
  ELSE LET r == IF which = "brand" THEN ImplBrand(w.om[1])
                ELSE ImplVersion(w.om[1]) IN
       <<[k |-> r.k, code |-> 0, val |-> r.val], di[2]>>

(*---------------------- server: CIM_Namespace provider -------------------*)
(* CreateInstance(CIM_Namespace, Name = n) in the Interop namespace        *)
SrvCreate(v, n) ==
  IF ~HasId(v.ns, n.id)
  THEN IF n.id \in CandSet /\ Ids(v.ns) \cap CandSet # {}
       THEN <<CimE(E_ALREADY_EXISTS), v>>        \* second Interop namespace
       ELSE IF n \in v.insts                     \* dangling instance: rollback
       THEN <<CimE(E_ALREADY_EXISTS), v>>
       ELSE <<Ok, [v EXCEPT !.ns = @ \cup {n}, !.insts = @ \cup {n}]>>
  ELSE IF ~PinnedDupCheck /\ HasId(v.insts, n.id)
  THEN <<CimE(E_INVALID_PARAMETER), v>>
  ELSE IF n \in v.insts THEN <<CimE(E_ALREADY_EXISTS), v>>  \* same path
  ELSE <<Ok, [v EXCEPT !.insts = @ \cup {n}]>>             \* second instance

(* DeleteInstance(path of the CIM_Namespace instance named n) *)
SrvDelete(v, n) ==
  IF n \notin v.insts THEN <<CimE(E_NOT_FOUND), v>>
  ELSE IF n.id \in CandSet THEN <<CimE(E_INVALID_PARAMETER), v>>
  ELSE IF ~HasId(v.ns, n.id) THEN <<CimE(E_NOT_FOUND), v>>
  ELSE IF n.id \in v.full THEN <<CimE(E_NAMESPACE_NOT_EMPTY), v>>
  ELSE <<Ok, [v EXCEPT !.ns = {x \in @ : x.id # n.id}, !.insts = @ \ {n}]>>

(*---------------------------- create_namespace ---------------------------*)
(* a = [id, cs, sl]; returns <<response with ret, server', client'>>       *)
NoRet == [id |-> "", cs |-> "", sl |-> FALSE]
WithRet(r, ret) == [k |-> r.k, code |-> r.code, ret |-> ret]
PlainOmW(w) == Len(w.om) = 1 /\ w.om[1].en = "other"

ImplCreate(w, v, c, a) ==
  LET std == IF Variant = "nostrip" THEN a ELSE [a EXCEPT !.sl = FALSE]
      n == Nm(a.id, a.cs)
      \* get_selected_profiles('DMTF', 'WBEM Server'): errors are swallowed,
      \* but the Interop namespace has been determined (or not) by then
      d0 == DetermineInterop(w, v, c)
      c0 == d0[2]
      en == EnsureNamespaces(w, v, c0) IN        \* self.namespace_classname
  IF en[1].k # "ok" THEN <<WithRet(en[1], NoRet), v, en[2]>>
  ELSE IF ~PlainOmW(w) THEN <<WithRet(Ex("ModelError"), NoRet), v, en[2]>>
  ELSE LET sc == SrvCreate(v, n) IN
       IF sc[1].k # "ok" THEN <<WithRet(sc[1], NoRet), v, en[2]>>
       ELSE LET rf == IF Variant = "norefreshcreate" THEN <<Ok, en[2]>>
                      ELSE DetermineNamespaces(w, sc[2], en[2]) IN
            <<WithRet(rf[1], IF rf[1].k = "ok" THEN std ELSE NoRet),
              sc[2], rf[2]>>

(*---------------------------- delete_namespace ---------------------------*)
ImplDelete(w, v, c, a) ==
  LET std == IF Variant = "nostrip" THEN a ELSE [a EXCEPT !.sl = FALSE]
      n == Nm(a.id, a.cs)
      rf0 == DetermineNamespaces(w, v, c) IN
  IF rf0[1].k # "ok" THEN <<WithRet(rf0[1], NoRet), v, rf0[2]>>
  ELSE
  LET c1 == rf0[2]
      present == IF PinnedDeleteCase THEN n \in c1.nss ELSE HasId(c1.nss, n.id)
  IN
  IF ~present THEN <<WithRet(CimE(E_NOT_FOUND), NoRet), v, c1>>
  ELSE
  LET cands == IF PinnedDeleteCase THEN {p \in c1.paths : p = n}
               ELSE {p \in c1.paths : p.id = n.id} IN
  IF cands = {} THEN <<WithRet(Ex("AssertionError"), NoRet), v, c1>>
  ELSE
  LET path == CHOOSE p \in cands : TRUE IN
  \* EnumerateClassNames / EnumerateQualifiers in the namespace
  IF ~HasId(v.ns, n.id)
  THEN <<WithRet(CimE(E_INVALID_NAMESPACE), NoRet), v, c1>>
  ELSE IF n.id \in v.full
  THEN <<WithRet(CimE(E_NAMESPACE_NOT_EMPTY), NoRet), v, c1>>
  ELSE LET sd == SrvDelete(v, path) IN
       IF sd[1].k # "ok" THEN <<WithRet(sd[1], NoRet), v, c1>>
       ELSE LET rf == IF Variant = "norefreshdelete" THEN <<Ok, c1>>
                      ELSE DetermineNamespaces(w, sd[2], c1) IN
            <<WithRet(rf[1], IF rf[1].k = "ok" THEN std ELSE NoRet),
              sd[2], rf[2]>>

(*------------------------------ profiles ---------------------------------*)
ImplSelect(w, v, c, org, name, ver) ==
  LET di == DetermineInterop(w, v, c)
      P == Rng(w.profs)
      M(f, x) == f = "" \/ (f = x /\ x \notin {"null", "absent", "unmapped"})
      sel == {p \in P : M(org, p.org) /\ M(name, p.name) /\ M(ver, p.ver)} IN
  IF di[1].k # "ok" THEN <<[k |-> di[1].k, code |-> 0, ids |-> {}], di[2]>>
  \* the loop visits the profiles in server order: the first defective
  \* instance decides; with both defects present either may come first
  ELSE IF \E p \in P : p.org = "unmapped" \/ p.name = "absent"
  THEN <<[k |-> IF \E p \in P : p.org = "unmapped" THEN "ValueError"
                ELSE "ModelError", code |-> 0, ids |-> {}], di[2]>>
  ELSE <<[k |-> "ok", code |-> 0, ids |-> {p.id : p \in sel}], di[2]>>
=============================================================================
