SPECIFICATION Spec
CONSTANTS
  Leaks = {"TypeNameTrail"}
  Pinned = FALSE
  PairMode = "none"
  Emit = FALSE
INVARIANT TypeOK
INVARIANT ImplRefinesReq
INVARIANT ClosedForm

CHECK_DEADLOCK FALSE
