\* The pinned tree: ModifyInstance replaces only the copies of the namespaces of the NEW ends: a stale copy
\* stays in a namespace that is no longer referenced.  ImplEqualsDecl must be VIOLATED.
SPECIFICATION Spec
CONSTANTS
  LegacyBreak = FALSE
  SwapIn = ""
  NoShadow = FALSE
  NoPreCheck = FALSE
  XParU = {}
  ModEnds = "asis"
  ShallowSub = FALSE
  IgnoreNs = FALSE
  ModSharedPath = FALSE
  MaxMod = 0
  NodeU <- NodeU5
  MaxAssoc = 1
  CreateNs = {1, 2}
  ClsU = {"AL"}
  AcU <- AcSmall
  RcU <- RcSmall
  RlU <- RlSmall
  GenDepth = 0
INVARIANT ImplEqualsDecl
CHECK_DEADLOCK FALSE
