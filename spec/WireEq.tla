------------------------------- MODULE WireEq -------------------------------
(***************************************************************************)
(* C04 - requirement machine (event style): an operation run through the   *)
(* real WBEMConnection request/response path against a CIM-XML server      *)
(* equals the same operation executed directly on the same repository.     *)
(*                                                                         *)
(* One event = one operation executed on both paths from equal             *)
(* repositories (A behind the CIM-XML facade, B called directly):          *)
(*   op        operation name (WBEMConnection method)                      *)
(*   nsarg     "" if the caller gave no namespace (neither as argument nor *)
(*             in the object name), else the namespace it gave (folded)    *)
(*   dflt      the connection's default namespace (folded)                 *)
(*   args      sequence of [name, none, dig]: every parameter the caller   *)
(*             supplied (none = value None; dig = canonical digest)        *)
(*   saw_op, saw_ns, saw_params ([name, dig])  what the server decoded     *)
(*   wire, direct   [kind: "value"|"cimerror"|"exc", code, dig]            *)
(*   repoA, repoB   digests of the complete repository content afterwards  *)
(* History matters: both repositories evolve; the machine checks that they *)
(* stay equal after every step (so later results are comparable).          *)
(***************************************************************************)
EXTENDS Naturals, Sequences, FiniteSets, TLC

F(name, holds) == IF holds THEN {} ELSE {name}
Rng(q) == {q[i] : i \in DOMAIN q}

InitState == [n |-> 0, diverged |-> FALSE]

Supplied(e) == {[name |-> a.name, dig |-> a.dig] : a \in {x \in Rng(e.args) : ~x.none}}

Fails(s, e) ==
     F("ServerSaw.OperationName", e.saw_op = e.wire_op)
\cup F("ServerSaw.TargetNamespaceWithDefaultApplied",
       e.saw_ns = (IF e.nsarg = "" THEN e.dflt ELSE e.nsarg))
\cup F("ServerSaw.ExactlyTheNonNoneParameters",
       {[name |-> p.name, dig |-> p.dig] : p \in Rng(e.saw_params)} = Supplied(e))
\cup F("ServerSaw.NoParameterTwice",
       Len(e.saw_params) = Cardinality({p.name : p \in Rng(e.saw_params)}))
\cup F("SameOutcome.KindOfResult", e.wire.kind = e.direct.kind)
\cup F("SameOutcome.StatusCode",
       ~(e.wire.kind = "cimerror" /\ e.direct.kind = "cimerror")
       \/ e.wire.code = e.direct.code)
\cup F("SameOutcome.ResultObjects",
       ~(e.wire.kind = "value" /\ e.direct.kind = "value")
       \/ e.wire.dig = e.direct.dig)
\cup F("SameRepository.AfterTheOperation", e.repoA = e.repoB)

Apply(s, e) == [n |-> s.n + 1, diverged |-> s.diverged \/ e.repoA # e.repoB]
=============================================================================
