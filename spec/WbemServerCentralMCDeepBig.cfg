\* thorough: scoping scenarios, both orientations, up to 5 instances,
\* full query universe
SPECIFICATION Spec
CONSTANTS
  Variant = "code"
  PinnedAssert = FALSE
  EctpU <- EctpDeep
  RpU <- RpDeep
  A1U <- ADeepBoth
  A2U <- ADeepBoth
  MaxEdges = 5
  Modes1 <- OnlyUnsup
  ModesO <- OnlyImpl
  QuerySet = "full"
INVARIANT ImplRefinesReq
CHECK_DEADLOCK FALSE
