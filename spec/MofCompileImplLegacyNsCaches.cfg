\* regression config: #pragma namespace creates only the qualifier cache: the dependency fix-up indexes parser.classnames with the new namespace (must violate ImplRefinesReq: KeyError)
SPECIFICATION Spec
CONSTANTS
  MaxProd = 1
  MaxDepth = 6
  OnlyKinds = {"class"}
  IncludeGuard = TRUE
  NsNoneCheck = TRUE
  HexBounds = TRUE
  CtxBounds = TRUE
  ValueWrapped = TRUE
  RepoWrapped = TRUE
  EmbFinally = TRUE
  RestoreOnReturn = TRUE
  EmbRestoreAll = TRUE
  SuperCheckFirst = TRUE
  AncestryWalk = TRUE
  GuardCanonical = TRUE
  RegisterAfterCreate = TRUE
  NsCachesInit = FALSE
  EmbNullChecked = TRUE
  OverflowWrapped = TRUE
  InstOffsetAll = TRUE
  OpenPrecheck = TRUE
  EmbLexerClone = TRUE
INVARIANT TypeOK
INVARIANT ImplRefinesReq
INVARIANT PositionFileOK
INVARIANT Reusable

CHECK_DEADLOCK FALSE
