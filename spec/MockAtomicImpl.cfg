SPECIFICATION Spec
CONSTANTS
  Rollback = TRUE
  NsProviderOrder = "fixed"
  MaxBatch = 3
INVARIANT Atomic
INVARIANT Completes
CHECK_DEADLOCK FALSE
