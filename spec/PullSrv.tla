------------------------------ MODULE PullSrv ------------------------------
(***************************************************************************)
(* Requirement-level machine for WBEM pull enumeration sessions (C14).     *)
(*                                                                         *)
(* The machine is written in "event" style so that exactly the same        *)
(* definitions serve the exhaustive model check (PullSrvMC: every          *)
(* admissible response is an enabled step), the refinement check of the    *)
(* code-shaped machine (PullSrvImpl) and trace validation of the real      *)
(* mock server (PullSrvTrace):                                             *)
(*     Fails(s, e)  = the set of names of the clauses of the property      *)
(*                    statement that event e (call + observed response)    *)
(*                    violates in abstract state s                         *)
(*     Apply(s, e)  = the abstract state after e                           *)
(* Wherever the statement leaves freedom (how many objects a response      *)
(* carries, which ones, which status code for a wrong-kind pull ...) every *)
(* choice has Fails = {} (rule R-sound of DESIGN.md).                      *)
(***************************************************************************)
EXTENDS Naturals, Integers, Sequences, FiniteSets, TLC

NoMax == -1                       \* MaxObjectCount omitted on Open
NoOt == -1                        \* OperationTimeout omitted on Open
NoCoe == -1                       \* ContinueOnError omitted on Open (0 FALSE, 1 TRUE)
NoFlt == 0                        \* no filter argument on Open
AssocKinds == {3, 4, 5, 6}        \* open kinds that take filter arguments
InvalidEnumCtx == 21              \* CIM_ERR_INVALID_ENUMERATION_CONTEXT

(* open kind -> pull kind                                                  *)
(* 1 OpenEnumerateInstances      2 OpenEnumerateInstancePaths              *)
(* 3 OpenReferenceInstances      4 OpenReferenceInstancePaths              *)
(* 5 OpenAssociatorInstances     6 OpenAssociatorInstancePaths             *)
(* 7 OpenQueryInstances                                                    *)
(* pull kinds: 1 PullInstancesWithPath 2 PullInstancePaths 3 PullInstances *)
PullKindOf(k) == IF k = 7 THEN 3 ELSE IF k \in {1, 3, 5} THEN 1 ELSE 2

Rng(s) == {s[i] : i \in DOMAIN s}
Injective(s) == \A i, j \in DOMAIN s : s[i] = s[j] => i = j
F(name, holds) == IF holds THEN {} ELSE {name}

(* Several WBEM servers may live in one process (one per                    *)
(* FakedWBEMConnection).  Context ids are abstract and global; every open  *)
(* session is OWNED by the server that issued it (field srv).  A context   *)
(* offered to another server is a FOREIGN context there: it must be        *)
(* refused like a stale one and the owner's session must not notice.       *)
InitState(nss, srvs) ==
  [ctx |-> << >>,        \* id :> [kind, rem, ns, srv]   (function on open ids)
   issued |-> {},        \* ids ever handed out
   deliv |-> << >>,      \* id :> set delivered so far (kept after close/eos)
   alls |-> << >>,       \* id :> traditional result of the session
   done |-> {},          \* ids whose session reached end-of-sequence
   liveNs |-> [v \in srvs |-> nss],       \* per server
   pullOn |-> [v \in srvs |-> TRUE]]      \* per server

Open(s) == DOMAIN s.ctx
Own(s, v) == {id \in Open(s) : s.ctx[id].srv = v}   \* sessions open ON server v

(***************************************************************************)
(* Events.  All fields are present in every event (monomorphic JSON):      *)
(*  op    "Open" | "Pull" | "Close" | "RemoveNs" | "SetPull"               *)
(*  srv   the server (connection) the call is made on                      *)
(*  ot    OperationTimeout of an Open (NoOt if omitted; 0 = never expire)  *)
(*  coe   ContinueOnError of an Open (NoCoe / 0 / 1)                       *)
(*  flt   filter class of an Open of the association kinds 3..6 (Role,    *)
(*        ResultClass, AssocClass, ResultRole): 0 no filter argument,      *)
(*        1 filter arguments that keep the whole unfiltered result,        *)
(*        2 filter arguments that drop part (or all) of it; 0 for the      *)
(*        other kinds                                                      *)
(*  k     open kind (Open) / pull kind (Pull)                              *)
(*  ns    namespace id (Open, RemoveNs)                                    *)
(*  all   traditional result as a sequence of object ids (Open)            *)
(*  tradok  the traditional operation succeeded (Open)                     *)
(*  m     MaxObjectCount (NoMax if omitted)                                *)
(*  id    context id used in the call (Pull, Close)                        *)
(*  ok, code, objs, eos, ctx : the observed response                       *)
(*  nctx  size of THAT server's context table after the call (-1 unknown)  *)
(*                                                                         *)
(* ot and coe are deliberately NOT read by any clause: the statement       *)
(* quantifies over "every Open... call", so every legal OperationTimeout   *)
(* (omitted, 0, 1..server maximum) and every ContinueOnError value must be *)
(* served alike.  Environment assumption (Appendix A): the client issues   *)
(* the next call of a session promptly, i.e. well within the smallest      *)
(* positive OperationTimeout (1 s); under it no session may expire.        *)
(* flt is not read by a clause either: "the corresponding traditional      *)
(* operation" is the one called with the SAME arguments, so `all` is the   *)
(* traditional result under the same filter and every clause that reads    *)
(* `all` (OnlyObjectsOfTraditionalResult, NoEosWhileObjectsRemain, the     *)
(* session invariants) is the filter requirement: an Open that ignores or  *)
(* mixes up a filter argument delivers objects outside `all` (or loses     *)
(* some).  The field makes the case distinction explicit so that the       *)
(* generators produce all three classes for every association kind.        *)
(***************************************************************************)

OpenFails(s, e) ==
  IF ~s.pullOn[e.srv] THEN F("Open.RefusedWhenPullUnsupported", ~e.ok)
  ELSE IF ~e.tradok \/ e.ns \notin s.liveNs[e.srv]
       THEN F("Open.FailsWhenTraditionalFails", ~e.ok)
  ELSE IF ~e.ok THEN {"Open.SucceedsWhenTraditionalSucceeds"}
  ELSE LET R == Rng(e.all) IN
       F("Open.OnlyObjectsOfTraditionalResult", Rng(e.objs) \subseteq R)
  \cup F("Open.NothingTwice", Injective(e.objs))
  \cup F("Open.AtMostMaxObjectCount", e.m = NoMax \/ Len(e.objs) <= e.m)
  \cup F("Open.NoEosWhileObjectsRemain", e.eos => Rng(e.objs) = R)
  \cup F("Open.ContextIffNotEos", e.eos <=> (e.ctx = 0))
  \cup F("Open.FreshContext", e.ctx = 0 \/ e.ctx \notin s.issued)

OpenApply(s, e) ==
  IF ~s.pullOn[e.srv] \/ ~e.ok \/ e.ctx = 0 \/ e.eos THEN s
  ELSE [s EXCEPT
         !.ctx = (e.ctx :> [kind |-> PullKindOf(e.k),
                           rem |-> Rng(e.all) \ Rng(e.objs),
                           ns |-> e.ns, srv |-> e.srv]) @@ @,
         !.issued = @ \cup {e.ctx},
         !.deliv = (e.ctx :> Rng(e.objs)) @@ @,
         !.alls = (e.ctx :> Rng(e.all)) @@ @]

PullNormal(s, e) ==   \* context exists and kind matches
  LET c == s.ctx[e.id] IN
  IF ~e.ok THEN
       \* a namespace that disappeared mid-session may make the pull fail
       F("Pull.ValidContextServed", c.ns \notin s.liveNs[e.srv])
  ELSE F("Pull.OnlyRemainingObjects", Rng(e.objs) \subseteq c.rem)
  \cup F("Pull.NothingTwice", Injective(e.objs))
  \cup F("Pull.AtMostMaxObjectCount", Len(e.objs) <= e.m)
  \cup F("Pull.NoEosWhileObjectsRemain", e.eos => Rng(e.objs) = c.rem)
  \cup F("Pull.Progress", (e.m > 0 /\ ~e.eos) => Len(e.objs) >= 1)
  \cup F("Pull.ContextIffNotEos", e.eos <=> (e.ctx = 0))
  \cup F("Pull.SameContext", e.ctx = 0 \/ e.ctx = e.id)

(* the context is open, but on another server *)
Foreign(s, e) == e.id \in Open(s) /\ s.ctx[e.id].srv # e.srv

PullFails(s, e) ==
  IF ~s.pullOn[e.srv] THEN F("Pull.RefusedWhenPullUnsupported", ~e.ok)
  ELSE IF e.id \notin Open(s)
       THEN F("Pull.StaleContextRefused", ~e.ok /\ e.code = InvalidEnumCtx)
  ELSE IF Foreign(s, e)
       THEN F("Pull.ForeignContextRefused", ~e.ok /\ e.code = InvalidEnumCtx)
  ELSE IF s.ctx[e.id].kind # e.k
       THEN F("Pull.WrongKindRefused", ~e.ok)
  ELSE PullNormal(s, e)

Drop(f, id) == [x \in (DOMAIN f) \ {id} |-> f[x]]

PullApply(s, e) ==
  IF ~s.pullOn[e.srv] \/ e.id \notin Open(s) \/ ~e.ok THEN s
  ELSE IF Foreign(s, e) THEN s           \* the owner's session is untouched
  ELSE IF s.ctx[e.id].kind # e.k THEN s
  ELSE LET d == Rng(e.objs) IN
       IF e.eos
       THEN [s EXCEPT !.ctx = Drop(@, e.id),
                      !.deliv[e.id] = @ \cup d,
                      !.done = @ \cup {e.id}]
       ELSE [s EXCEPT !.ctx[e.id].rem = @ \ d,
                      !.deliv[e.id] = @ \cup d]

CloseFails(s, e) ==
  IF ~s.pullOn[e.srv] THEN F("Close.RefusedWhenPullUnsupported", ~e.ok)
  ELSE IF e.id \notin Open(s)
       THEN F("Close.StaleContextRefused", ~e.ok /\ e.code = InvalidEnumCtx)
  ELSE IF Foreign(s, e)
       THEN F("Close.ForeignContextRefused", ~e.ok /\ e.code = InvalidEnumCtx)
  ELSE F("Close.OpenContextClosed", e.ok)

CloseApply(s, e) ==
  IF s.pullOn[e.srv] /\ e.id \in Open(s) /\ ~Foreign(s, e) /\ e.ok
  THEN [s EXCEPT !.ctx = Drop(@, e.id)] ELSE s

Apply(s, e) ==
  CASE e.op = "Open"     -> OpenApply(s, e)
    [] e.op = "Pull"     -> PullApply(s, e)
    [] e.op = "Close"    -> CloseApply(s, e)
    [] e.op = "RemoveNs" -> [s EXCEPT !.liveNs[e.srv] = @ \ {e.ns}]
    [] e.op = "SetPull"  -> [s EXCEPT !.pullOn[e.srv] = e.ok]

(* "no enumeration context stays open on the server": the server's table   *)
(* holds exactly the sessions that are neither at eos nor closed - and     *)
(* that were opened ON THAT server (it never holds another server's)       *)
NoLeakFails(s, e) ==
  F("NoLeak.ServerTableEqualsOpenSessions",
    e.nctx = -1 \/ e.nctx = Cardinality(Own(Apply(s, e), e.srv)))

Fails(s, e) ==
  (CASE e.op = "Open"  -> OpenFails(s, e)
     [] e.op = "Pull"  -> PullFails(s, e)
     [] e.op = "Close" -> CloseFails(s, e)
     [] OTHER -> {})
  \cup NoLeakFails(s, e)

(***************************************************************************)
(* Session-level properties (what the statement promises); TLC checks that *)
(* they follow from the per-response clauses in every reachable state.     *)
(***************************************************************************)
NothingTwice(s) == \A id \in Open(s) : s.deliv[id] \cap s.ctx[id].rem = {}
NothingLost(s)  == \A id \in Open(s) :
                      s.deliv[id] \cup s.ctx[id].rem = s.alls[id]
ExactlyTheTraditionalResult(s) == \A id \in s.done : s.deliv[id] = s.alls[id]
ClosedOrDoneNotOpen(s) == s.done \cap Open(s) = {}
OpenWereIssued(s) == Open(s) \subseteq s.issued

SessionInv(s) == /\ NothingTwice(s) /\ NothingLost(s)
                 /\ ExactlyTheTraditionalResult(s)
                 /\ ClosedOrDoneNotOpen(s) /\ OpenWereIssued(s)
=============================================================================
