SPECIFICATION TSpec
CONSTANTS
  LegacyBreak = FALSE
  SwapIn = ""
CHECK_DEADLOCK FALSE
