SPECIFICATION TSpec
CONSTANTS
  LegacyBreak = FALSE
  SwapIn = ""
  ShallowSub = FALSE
  IgnoreNs = FALSE
CHECK_DEADLOCK FALSE
