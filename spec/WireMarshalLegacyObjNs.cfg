SPECIFICATION Spec
CONSTANTS
  DropNone = TRUE
  ObjNsIgnored = TRUE
INVARIANT ServerSawWhatCallerSupplied
CHECK_DEADLOCK FALSE
