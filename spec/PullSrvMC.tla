----------------------------- MODULE PullSrvMC -----------------------------
(***************************************************************************)
(* Exhaustive model of the requirement machine PullSrv: every call the     *)
(* quantifier of C14 names, answered by EVERY response the statement       *)
(* admits.  TLC checks that the session-level promises (exactly once,      *)
(* nothing lost, no context left open, termination) follow from the        *)
(* per-response clauses in every reachable state.                          *)
(***************************************************************************)
EXTENDS PullSrv, FiniteSetsExt, SequencesExt

CONSTANTS NObj,        \* size of the largest traditional result
          Ids,         \* context ids the server may hand out
          Nss,         \* namespaces
          Maxes,       \* MaxObjectCount values (NoMax only used on Open)
          Kinds,       \* open kinds explored
          Toggles,     \* BOOLEAN: explore RemoveNs / SetPull
          Srvs,        \* servers in the process (1 or {1, 2})
          Ots,         \* OperationTimeout values of Open (NoOt, 0, 1, 40)
          Coes         \* ContinueOnError values of Open (NoCoe, 0, 1)

VARIABLES s,
          who          \* the server the last call was made on
vars == <<s, who>>

OtsOne == {NoOt}
OtsAll == {NoOt, 0, 1, 40}
OtsTwo == {NoOt, 0}
CoesOne == {NoCoe}
CoesAll == {NoCoe, 0, 1}

Results == {1..n : n \in 0..NObj}      \* traditional results {}, {1}, {1,2}...
Seq0(S) == SetToSeq(S)

Ev0(op, k, ns, all, tradok, m, id, ok, code, objs, eos, ctx) ==
  [op |-> op, k |-> k, ns |-> ns, all |-> all, tradok |-> tradok, m |-> m,
   id |-> id, ok |-> ok, code |-> code, objs |-> objs, eos |-> eos,
   ctx |-> ctx, nctx |-> -1]
(* the call dimensions the requirement must not depend on *)
At(e, v, ot, coe) == e @@ [srv |-> v, ot |-> ot, coe |-> coe]
Ev(op, k, ns, all, tradok, m, id, ok, code, objs, eos, ctx) ==
  Ev0(op, k, ns, all, tradok, m, id, ok, code, objs, eos, ctx)

ErrCodes == {1, 6, 7, 21}    \* FAILED, NOT_FOUND, NOT_SUPPORTED, INV_ENUM_CTX

OpenEvents0 ==
  {Ev("Open", k, ns, Seq0(R), tok, m, 0, TRUE, 0, Seq0(d), eos, c) :
     k \in Kinds, ns \in Nss, R \in Results, tok \in BOOLEAN, m \in Maxes,
     d \in SUBSET (1..NObj), eos \in BOOLEAN, c \in Ids \cup {0}}
  \cup
  {Ev("Open", k, ns, Seq0(R), tok, m, 0, FALSE, code, <<>>, FALSE, 0) :
     k \in Kinds, ns \in Nss, R \in Results, tok \in BOOLEAN, m \in Maxes,
     code \in ErrCodes}
OpenEvents == {At(e, v, ot, coe) : e \in OpenEvents0, v \in Srvs, ot \in Ots,
                                   coe \in Coes}

PullKinds == {PullKindOf(k) : k \in Kinds} \cup {3}

PullEvents0 ==
  {Ev("Pull", pk, 0, <<>>, TRUE, m, id, TRUE, 0, Seq0(d), eos, c) :
     pk \in PullKinds, m \in Maxes \ {NoMax}, id \in Ids,
     d \in SUBSET (1..NObj), eos \in BOOLEAN, c \in Ids \cup {0}}
  \cup
  {Ev("Pull", pk, 0, <<>>, TRUE, m, id, FALSE, code, <<>>, FALSE, 0) :
     pk \in PullKinds, m \in Maxes \ {NoMax}, id \in Ids, code \in ErrCodes}
PullEvents == {At(e, v, NoOt, NoCoe) : e \in PullEvents0, v \in Srvs}

CloseEvents0 ==
  {Ev("Close", 0, 0, <<>>, TRUE, 0, id, ok, code, <<>>, FALSE, 0) :
     id \in Ids, ok \in BOOLEAN, code \in ErrCodes \cup {0}}
CloseEvents == {At(e, v, NoOt, NoCoe) : e \in CloseEvents0, v \in Srvs}

AdminEvents0 ==
  IF Toggles
  THEN {Ev("RemoveNs", 0, ns, <<>>, TRUE, 0, 0, TRUE, 0, <<>>, FALSE, 0) :
          ns \in Nss}
       \cup
       {Ev("SetPull", 0, 0, <<>>, TRUE, 0, 0, b, 0, <<>>, FALSE, 0) :
          b \in BOOLEAN}
  ELSE {}
AdminEvents == {At(e, v, NoOt, NoCoe) : e \in AdminEvents0, v \in Srvs}

AllEvents == OpenEvents \cup PullEvents \cup CloseEvents \cup AdminEvents

Init == s = InitState(Nss, Srvs) /\ who \in Srvs

Step(e) == Fails(s, e) = {} /\ s' = Apply(s, e) /\ who' = e.srv

DoOpen  == \E e \in OpenEvents  : Step(e)
DoPull  == \E e \in PullEvents  : Step(e)
DoClose == \E e \in CloseEvents : Step(e)
DoAdmin == \E e \in AdminEvents : Step(e)

Next == DoOpen \/ DoPull \/ DoClose \/ DoAdmin

(* positive pull on a given open session: the step whose repetition must   *)
(* end the session (C14 "so every enumeration terminates")                 *)
PullPos(id) == \E e \in PullEvents :
                  /\ e.id = id /\ e.m > 0 /\ e.ok
                  /\ id \in Open(s) /\ s.ctx[id].kind = e.k
                  /\ Step(e)

Spec == Init /\ [][Next]_vars
FairSpec == Spec /\ \A id \in Ids : WF_vars(PullPos(id))

Inv_NothingTwice == NothingTwice(s)
Inv_NothingLost == NothingLost(s)
Inv_ExactlyTraditional == ExactlyTheTraditionalResult(s)
Inv_ClosedNotOpen == ClosedOrDoneNotOpen(s)
Inv_OpenWereIssued == OpenWereIssued(s)

(* a context that was closed or reached eos is never open again            *)
ClosedStaysClosed ==
  [][\A id \in s.issued : id \notin Open(s) => id \notin Open(s')]_vars

(* delivered objects only grow, remaining only shrink                      *)
Monotone ==
  [][\A id \in Open(s) \cap Open(s') :
        /\ s.deliv[id] \subseteq s'.deliv[id]
        /\ s'.ctx[id].rem \subseteq s.ctx[id].rem]_vars

(* "interleaved sessions ... foreign contexts": whatever is done on one     *)
(* server - with its own, stale or foreign contexts - the sessions that    *)
(* are open on the OTHER servers stay open and keep their remaining        *)
(* objects; and a server only ever holds sessions it opened itself.        *)
Isolated ==
  [][\A id \in Open(s) : s.ctx[id].srv # who' =>
        /\ id \in Open(s') /\ s'.ctx[id] = s.ctx[id]
        /\ s'.deliv[id] = s.deliv[id]]_vars

MaxesSmall == {NoMax, 0, 1, 2, 5}
MaxesLarge == {NoMax, 0, 1, 2, 3, 7}
MaxesTiny == {NoMax, 0, 1, 5}

Terminates == \A id \in Ids : (id \in Open(s)) ~> (id \notin Open(s))
=============================================================================
