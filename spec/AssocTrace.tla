----------------------------- MODULE AssocTrace -----------------------------
(* Trace validation for C13 against the requirement machine Assoc, with    *)
(* the code-shaped AssocImplOps evaluated on the same graph and queries     *)
(* (impl drift only, never a violation; limited to graphs with at most      *)
(* DriftMaxNodes nodes to bound the cost).                                  *)
EXTENDS AssocImplOps, Json, IOUtils

VARIABLES tid, l, verdict, ts, ti, drifted

DriftMaxNodes == 8
OpOfSlot(t) == IF t \in NameSlots THEN "AN" ELSE "A"

Differs(r, m) == Ran(r) /\ (r.k # m.k \/ (r.k = "ok" /\ Ids(r) # m.S))

(* without a Role/ResultRole swap the Names and the full associator        *)
(* operation are the same computation: evaluated once per query            *)
SrcDrift(s, e) ==
  LET g == s.G
      x == e.x
      MA(i, op) == ImplAssocOp(op, g, x, s.acs[AqIa(s, i)],
                               s.rcs[AqIc(s, i)], s.rls[AqIo(s, i)],
                               s.rls[AqIr(s, i)])
      da == {i \in DOMAIN e.aq :
               IF SwapIn = ""
               THEN LET m == MA(i, "AN") IN
                    \E t \in Slots : Differs(e.aq[i].o[t], m)
               ELSE \E t \in Slots : Differs(e.aq[i].o[t], MA(i, OpOfSlot(t)))}
      dr == {i \in DOMAIN e.rq : \E t \in Slots :
               Differs(e.rq[i].o[t],
                       ImplRefOp(OpOfSlot(t), g, x, s.acs[RqIa(s, i)],
                                 s.rls[RqIo(s, i)]))}
  IN Bad("associators", da) \cup Bad("references", dr)

ClsDiffers(r, m) == Ran(r) /\ (r.k # m.k \/ (r.k = "ok" /\ Rng(r.cs) # m.S))
ClsDrift(s, e) ==
  LET da == {i \in DOMAIN e.aq : \E t \in {1, 2} :
               ClsDiffers(e.aq[i].o[t],
                          ImplClassAssocOp(OpOfSlot(t), e.c, e.exact,
                                           s.acs[AqIa(s, i)], s.rcs[AqIc(s, i)],
                                           s.rls[AqIo(s, i)], s.rls[AqIr(s, i)]))}
      dr == {i \in DOMAIN e.rq : \E t \in {1, 2} :
               ClsDiffers(e.rq[i].o[t],
                          ImplRefClassnames(e.c, s.acs[RqIa(s, i)],
                                            s.rls[RqIo(s, i)]))}
  IN Bad("class-associators", da) \cup Bad("class-references", dr)

(* AssocImpl's Create / Modify store every copy under its own path *)
GraphDrift(e) ==
  Bad("stored-copy-path-names-another-namespace",
      {j \in DOMAIN e.assocs : e.assocs[j].pns # e.assocs[j].ns})

(* the impl state is the requirement state (graph + filter lists) *)
ImplCmp(i, e) ==
  LET n == Apply(i, e) IN
  IF e.op = "src" /\ Len(i.G.nodes) <= DriftMaxNodes THEN <<SrcDrift(i, e), i>>
  ELSE IF e.op = "cls" THEN <<ClsDrift(i, e), i>>
  ELSE IF e.op \in {"graph", "regraph"}
  THEN <<GraphDrift(e), [n EXCEPT !.done = <<>>]>>
  ELSE <<{}, i>>

TraceBatch == JsonDeserialize(IOEnv.TRACE_FILE).traces

TK == INSTANCE TraceKit WITH
        TTraces <- TraceBatch,
        TInit0 <- InitState, TFails <- Fails, TApply <- Apply,
        TInv <- LAMBDA st : TRUE,
        TImpl0 <- InitState, TImplStep <- ImplCmp
TSpec == TK!TSpec
=============================================================================
