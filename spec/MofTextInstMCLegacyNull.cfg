\* Wrong variant (must FAIL): the conversion/assignment is skipped for a NULL
\* initializer, the copied class property keeps the class default.
SPECIFICATION Spec
CONSTANTS
  SkipNull = TRUE
  FillAbsent = FALSE
  OmitNull = FALSE
  EmbSkipsFalsy = FALSE
  Emit = FALSE
INVARIANT InstRoundTrip
INVARIANT NullStaysNull
INVARIANT AbsentStaysOut
CHECK_DEADLOCK FALSE
