SPECIFICATION Spec
CONSTANTS
  MaxLen = 4
  Variant = "deriv"
INVARIANTS Agree ForeignRejected
CHECK_DEADLOCK FALSE
