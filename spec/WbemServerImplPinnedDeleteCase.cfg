\* repaired code (the three pinned defects switched off), all worlds
SPECIFICATION Spec
CONSTANTS
  PinnedDupCheck = FALSE
  PinnedDeleteCase = TRUE
  PinnedBrand = FALSE
  Variant = "code"
  WorldU <- WorldsAll
  ArgU <- ArgsAll
  GenDepth = 0
INVARIANT ImplRefinesReq
INVARIANT ReqWellFormed
INVARIANT MappingHolds
INVARIANT CacheInStep
CHECK_DEADLOCK FALSE
