------------------------------- MODULE Assoc -------------------------------
(***************************************************************************)
(* Requirement machine for C13: association traversal of the mock server   *)
(* is consistent with the stored association instances.                    *)
(*                                                                         *)
(* Schema (abstract tokens; lexical case is folded by the binding):        *)
(*   node classes         N, NS : N, NSS : NS, M                           *)
(*   association classes  AB  {[key] N REF r1, [key] M REF r2}             *)
(*                        ABS : AB, ABSS : ABS   (hierarchies three levels *)
(*                        deep: "class filters include subclasses" means   *)
(*                        the transitive closure, checked by an ASSUME)    *)
(*                        AT  {[key] N REF a, [key] N REF b, [key] M REF c}*)
(*                        AL  {[key] id, N REF r1, M REF r2}  (ends may be *)
(*                             NULL = end 0; only AL has optional ends)    *)
(*                        ABX {[key] N REF r1, [key] M REF r2}  a class    *)
(*                             whose place in the hierarchy is part of the *)
(*                             REPOSITORY, per namespace: it may be absent *)
(*                             in a namespace, or a subclass of AB, or a   *)
(*                             subclass of ABS - differently in the two    *)
(*                             namespaces, and it may be added (CreateClass*)
(*                             / add_cimobjects) between two traversals.   *)
(*                             A class filter is judged by the hierarchy   *)
(*                             of the namespace whose store holds the      *)
(*                             association instance; ABX instances live in *)
(*                             ONE namespace (both ends there), so that    *)
(*                             this is unambiguous.                        *)
(*                                                                         *)
(* A graph G = [nodes, assocs]:                                            *)
(*   nodes[i]  = [ns, cls, sv, kid] stored node instance i (sv = token of  *)
(*               the stored value of property s, kid = token of its key    *)
(*               values: two nodes in DIFFERENT namespaces may have the    *)
(*               same class and key values ("twins"); they are different   *)
(*               objects, an association referencing one says nothing      *)
(*               about the other)                                          *)
(*   xpar      = <<p1, p2>>: superclass of ABX in namespace 1 / 2 ("" =    *)
(*               no such class there), read from the class stores          *)
(*   assocs[j] = [cls, ends, ns, g, w, pns, xp] one STORED copy of an      *)
(*               association instance: ends[p] = node index or 0, ns =     *)
(*               namespace whose instance store holds the copy, g =        *)
(*               identity of the instance modulo namespace (class +        *)
(*               keybindings), w = token of the stored value of the        *)
(*               non-reference property `note` (0 = not set; set by        *)
(*               ModifyInstance), pns = namespace stated by the stored     *)
(*               object's own path (not used by the requirement; the       *)
(*               code-shaped machine looks paths up by it), xp = xpar[ns]  *)
(*               for a copy of class ABX, "" otherwise.                    *)
(*                                                                         *)
(* Event style (TraceKit): Fails(s, e) = names of the statement's clauses  *)
(* that the recorded responses of event e violate, Apply(s, e) = next      *)
(* abstract state.  Clause names carry "@<index of the first offending     *)
(* query>"; the binding strips that for signatures.                        *)
(*                                                                         *)
(* Events                                                                  *)
(*   [op "graph", nodes, assocs, acs, rcs, rls]   first event of a trace;  *)
(*        acs/rcs/rls = filter token lists used by all later events        *)
(*        ("" = filter not given, always first in each list)               *)
(*   [op "regraph", nodes, assocs, xpar, acs, rcs, rls]   the repository   *)
(*        as it is after further write operations (instances created,      *)
(*        CreateInstance calls REJECTED, classes added); same filter lists;*)
(*        later events are judged against it; field after = "rejected"     *)
(*        when only rejected CreateInstance calls happened since the last  *)
(*        graph / regraph event, else "writes"                             *)
(*   [op "src", x, aq, rq]   every filter combination for source node x:   *)
(*        aq[AqIdx(ia,ic,io,ir)].o[t] response of associator operation t   *)
(*        with AssocClass acs[ia], ResultClass rcs[ic], Role rls[io],      *)
(*        ResultRole rls[ir];   rq[RqIdx(ia,io)].o[t] response of          *)
(*        reference operation t with ResultClass acs[ia], Role rls[io].    *)
(*        t: 1 Names, 2 full, 3 Open..Paths+Pull, 4 Open..Instances+Pull,  *)
(*           5 Iter..Paths, 6 Iter..Instances                              *)
(*        response = [k, ids, vs]: k "ok" | "err<code>" | "exc:<type>" |   *)
(*        "skip" (not called) ; ids sorted node indexes (associators) or   *)
(*        assocs indexes (references), 0 = not a stored object's path;     *)
(*        vs (full operations): per object the value tokens that came back *)
(*        (<<sv>> for nodes, the ends followed by the `note` token for     *)
(*        association instances)                                           *)
(*   [op "cls", c, aq, rq]   class-level: o[1] Names, o[2] full;           *)
(*        response = [k, cs] with cs the sorted class tokens               *)
(***************************************************************************)
EXTENDS Naturals, Integers, Sequences, FiniteSets, TLC

Rng(q) == {q[i] : i \in DOMAIN q}
Mod(a, b) == a - b * (a \div b)

(*------------------------------ schema ----------------------------------*)
NodeClasses == {"N", "NS", "NSS", "M"}
AssocClasses == {"AB", "ABS", "ABSS", "AT", "AL", "ABX"}
Classes == NodeClasses \cup AssocClasses
(* direct superclass ("" = none) *)
Parent(c) == CASE c = "NS" -> "N" [] c = "NSS" -> "NS"
               [] c = "ABS" -> "AB" [] c = "ABSS" -> "ABS"
               [] OTHER -> ""
RECURSIVE Descends(_, _)
Descends(c, f) == c = f \/ (Parent(c) # "" /\ Descends(Parent(c), f))
(* "class filters include subclasses": the class and ALL its direct and    *)
(* indirect subclasses (tabulated for speed; the ASSUME ties the table to  *)
(* the transitive closure of Parent)                                       *)
Subtree(c) == CASE c = "N" -> {"N", "NS", "NSS"} [] c = "NS" -> {"NS", "NSS"}
                [] c = "NSS" -> {"NSS"} [] c = "M" -> {"M"}
                [] c = "AB" -> {"AB", "ABS", "ABSS"}
                [] c = "ABS" -> {"ABS", "ABSS"} [] c = "ABSS" -> {"ABSS"}
                [] c = "AT" -> {"AT"} [] c = "AL" -> {"AL"}
                [] c = "ABX" -> {"ABX"}
                [] OTHER -> {}
ASSUME \A f \in Classes : Subtree(f) = {c \in Classes : Descends(c, f)}
Roles(c) == CASE c \in {"AB", "ABS", "ABSS", "AL", "ABX"} -> <<"r1", "r2">>
              [] c = "AT" -> <<"a", "b", "c">>
              [] OTHER -> <<>>
RefClass(c) == CASE c \in {"AB", "ABS", "ABSS", "AL", "ABX"} -> <<"N", "M">>
                 [] c = "AT" -> <<"N", "N", "M">>
                 [] OTHER -> <<>>
RoleNames == {"r1", "r2", "a", "b", "c"}
Optional(c) == c = "AL"
Namespaces == {1, 2}

XParents == {"", "AB", "ABS"}
GraphOk(G) ==
  /\ DOMAIN G.xpar = 1..2 /\ \A n \in 1..2 : G.xpar[n] \in XParents
  /\ \A j \in DOMAIN G.assocs :
        LET a == G.assocs[j] IN
        IF a.cls = "ABX"
        THEN /\ a.ns \in Namespaces /\ a.xp = G.xpar[a.ns] /\ a.xp # ""
             /\ \A p \in DOMAIN a.ends :
                   a.ends[p] \in DOMAIN G.nodes => G.nodes[a.ends[p]].ns = a.ns
        ELSE a.xp = ""
  /\ \A i \in DOMAIN G.nodes :
        G.nodes[i].cls \in NodeClasses /\ G.nodes[i].ns \in Namespaces
  (* a store is a keyed map: namespace + creation class + key values       *)
  /\ \A i, j \in DOMAIN G.nodes :
        i # j => <<G.nodes[i].ns, G.nodes[i].cls, G.nodes[i].kid>>
                 # <<G.nodes[j].ns, G.nodes[j].cls, G.nodes[j].kid>>
  /\ \A j \in DOMAIN G.assocs :
        LET a == G.assocs[j] IN
        /\ a.cls \in AssocClasses /\ a.ns \in Namespaces
        /\ Len(a.ends) = Len(Roles(a.cls))
        /\ \A p \in DOMAIN a.ends :
              \/ a.ends[p] = 0 /\ Optional(a.cls)
              \/ /\ a.ends[p] \in DOMAIN G.nodes
                 /\ G.nodes[a.ends[p]].cls \in Subtree(RefClass(a.cls)[p])

(*------------------ the declarative requirement -------------------------*)
ClassOk(c, f) == f = "" \/ c \in Subtree(f)
(* class filter on a stored association instance: the hierarchy of the     *)
(* namespace that holds it (ABX: a subclass of a.xp there)                 *)
CopyClassOk(a, f) ==
  \/ ClassOk(a.cls, f)
  \/ a.cls = "ABX" /\ a.xp # "" /\ a.xp \in Subtree(f)
RoleOk(p, f) == f = "" \/ p = f

(* stored association instances that reference x *)
Touching(G, x) ==
  {a \in Rng(G.assocs) : \E p \in DOMAIN a.ends : a.ends[p] = x}

(* y is an associator of x iff some stored association instance references *)
(* x through p and y through a DIFFERENT reference property q, with the    *)
(* four filters satisfied (class filters include subclasses)               *)
AssocsVia(G, near, x, ac, rc, ro, rr) ==
  UNION {{a.ends[q] : q \in {q \in DOMAIN a.ends :
             /\ a.ends[q] # 0
             /\ RoleOk(Roles(a.cls)[q], rr)
             /\ ClassOk(G.nodes[a.ends[q]].cls, rc)
             /\ \E p \in DOMAIN a.ends :
                   p # q /\ a.ends[p] = x /\ RoleOk(Roles(a.cls)[p], ro)}}
         : a \in {b \in near : CopyClassOk(b, ac)}}
Assocs(G, x, ac, rc, ro, rr) == AssocsVia(G, Touching(G, x), x, ac, rc, ro, rr)

(* association instances (identity modulo namespace) referencing x *)
RefsVia(near, x, rc, ro) ==
  {a.g : a \in {b \in near :
          /\ CopyClassOk(b, rc)
          /\ \E p \in DOMAIN b.ends :
                b.ends[p] = x /\ RoleOk(Roles(b.cls)[p], ro)}}
Refs(G, x, rc, ro) == RefsVia(Touching(G, x), x, rc, ro)

(* A filter that names nothing applicable may be answered with             *)
(* CIM_ERR_INVALID_PARAMETER or with an empty result (both admissible).    *)
BadClass(f, kind) == f # "" /\ f \notin kind
RolesIn(ac) == IF ac \in AssocClasses
               THEN UNION {Rng(Roles(c)) : c \in Subtree(ac)}
               ELSE RoleNames
BadRole(f, ac) == f # "" /\ f \notin RolesIn(ac)
AqMayErr(ac, rc, ro, rr) ==
  \/ BadClass(ac, AssocClasses) \/ BadClass(rc, NodeClasses)
  \/ BadRole(ro, ac) \/ BadRole(rr, ac)
RqMayErr(rc, ro) == BadClass(rc, AssocClasses) \/ BadRole(ro, rc)
(* a filter naming ABX in a namespace that has no such class               *)
XAbsent(G, x, f) == f = "ABX" /\ G.xpar[G.nodes[x].ns] = ""

(*--------------------------- event plumbing -----------------------------*)
InitState == [G |-> [nodes |-> <<>>, assocs |-> <<>>, xpar |-> <<"", "">>],
              acs |-> <<"">>, rcs |-> <<"">>, rls |-> <<"">>,
              started |-> FALSE, done |-> <<>>]

Ok(r) == r.k = "ok"
Ran(r) == r.k # "skip"
Ids(r) == Rng(r.ids)

NAc(s) == Len(s.acs)
NRc(s) == Len(s.rcs)
NRl(s) == Len(s.rls)
AqIdx(s, ia, ic, io, ir) ==
  (((ia - 1) * NRc(s) + (ic - 1)) * NRl(s) + (io - 1)) * NRl(s) + ir
AqIa(s, i) == ((i - 1) \div (NRc(s) * NRl(s) * NRl(s))) + 1
AqIc(s, i) == Mod((i - 1) \div (NRl(s) * NRl(s)), NRc(s)) + 1
AqIo(s, i) == Mod((i - 1) \div NRl(s), NRl(s)) + 1
AqIr(s, i) == Mod(i - 1, NRl(s)) + 1
RqIdx(s, ia, io) == (ia - 1) * NRl(s) + io
RqIa(s, i) == ((i - 1) \div NRl(s)) + 1
RqIo(s, i) == Mod(i - 1, NRl(s)) + 1
RowIdx(s, ia, io, ir) == ((ia - 1) * NRl(s) + (io - 1)) * NRl(s) + ir

(* first offending query index is part of the clause name *)
Bad(name, S) ==
  IF S = {} THEN {}
  ELSE {name \o "@" \o ToString(CHOOSE i \in S : \A j \in S : i <= j)}

(* positions of the "filter not given" token in a list *)
None(list) == {i \in DOMAIN list : list[i] = ""}

(*------------------------------ graph event -----------------------------*)
(* a CreateInstance that was REJECTED leaves the repository - and so every *)
(* traversal result - as it was (event regraph with after = "rejected":    *)
(* only rejected creates happened since the last graph / regraph event)    *)
GraphFails(s, e) ==
  IF /\ (IF e.op = "graph" THEN ~s.started
        ELSE s.started /\ e.acs = s.acs /\ e.rcs = s.rcs /\ e.rls = s.rls)
     /\ GraphOk([nodes |-> e.nodes, assocs |-> e.assocs, xpar |-> e.xpar])
     /\ Len(e.acs) > 0 /\ Len(e.rcs) > 0 /\ Len(e.rls) > 0
     /\ e.acs[1] = "" /\ e.rcs[1] = "" /\ e.rls[1] = ""
  THEN IF /\ e.op = "regraph" /\ e.after = "rejected"
          /\ [nodes |-> e.nodes, assocs |-> e.assocs, xpar |-> e.xpar] # s.G
       THEN {"Repository.UnchangedByRejectedCreate"} ELSE {}
  ELSE {"Malformed.graph"}

(*------------------------- instance-level source ------------------------*)
NameSlots == {1, 3, 5}
FullSlots == {2, 4, 6}
Slots == 1..6

AqFails(s, e) ==
  LET G == s.G
      x == e.x
      I == DOMAIN e.aq
      near == Touching(G, x)
      fa(i) == s.acs[AqIa(s, i)]
      fc(i) == s.rcs[AqIc(s, i)]
      fo(i) == s.rls[AqIo(s, i)]
      fr(i) == s.rls[AqIr(s, i)]
      D == [i \in I |-> AssocsVia(G, near, x, fa(i), fc(i), fo(i), fr(i)) \ {x}]
      E == [i \in I |-> AqMayErr(fa(i), fc(i), fo(i), fr(i))
                         \/ XAbsent(G, x, fa(i))]
      R(i, t) == e.aq[i].o[t]
      (* the queries obtained from query i by dropping one given filter *)
      Gens(i) ==
        LET ia == AqIa(s, i)  ic == AqIc(s, i)
            io == AqIo(s, i)  ir == AqIr(s, i) IN
        (IF fa(i) = "" THEN {} ELSE {AqIdx(s, j, ic, io, ir) : j \in None(s.acs)})
        \cup (IF fc(i) = "" THEN {} ELSE {AqIdx(s, ia, j, io, ir) : j \in None(s.rcs)})
        \cup (IF fo(i) = "" THEN {} ELSE {AqIdx(s, ia, ic, j, ir) : j \in None(s.rls)})
        \cup (IF fr(i) = "" THEN {} ELSE {AqIdx(s, ia, ic, io, j) : j \in None(s.rls)})
  IN
  Bad("Assoc.NoUnexpectedFailure",
      {i \in I : \E t \in Slots :
          Ran(R(i, t)) /\ ~Ok(R(i, t)) /\ ~(R(i, t).k = "err4" /\ E[i])})
  \cup Bad("Assoc.NamesArePathsOfFull",
      {i \in I : \E t \in NameSlots :
          Ok(R(i, t)) /\ Ok(R(i, t + 1)) /\ R(i, t).ids # R(i, t + 1).ids})
  \cup Bad("Assoc.EqualsStoredAssociations",
      {i \in I : \E t \in Slots :
          Ok(R(i, t)) /\ (Ids(R(i, t)) \ {x}) # D[i]})
  \cup Bad("Assoc.ReturnsStoredInstances",
      {i \in I : \E t \in FullSlots :
          /\ Ok(R(i, t))
          /\ \/ Len(R(i, t).vs) # Len(R(i, t).ids)
             \/ \E j \in DOMAIN R(i, t).ids :
                   LET id == R(i, t).ids[j] IN
                   \/ id \notin DOMAIN G.nodes
                   \/ R(i, t).vs[j] # <<G.nodes[id].sv>>})
  \cup Bad("Assoc.FilterNeverAddsResults",
      {i \in I : \E j \in Gens(i), t \in Slots :
          Ok(R(i, t)) /\ Ok(R(j, t)) /\ ~(Ids(R(i, t)) \subseteq Ids(R(j, t)))})
  \cup Bad("Assoc.Symmetric",
      {i \in I :
          /\ fc(i) = "" /\ Ok(R(i, 2))
          /\ \E k \in DOMAIN s.done :
                LET d == s.done[k]
                    row == d.rows[RowIdx(s, AqIa(s, i), AqIr(s, i), AqIo(s, i))] IN
                /\ d.x # x /\ row # <<-1>>
                /\ (d.x \in Ids(R(i, 2))) # (x \in Rng(row))})

RqFails(s, e) ==
  LET G == s.G
      x == e.x
      I == DOMAIN e.rq
      near == Touching(G, x)
      fc(i) == s.acs[RqIa(s, i)]
      fo(i) == s.rls[RqIo(s, i)]
      D == [i \in I |-> RefsVia(near, x, fc(i), fo(i))]
      E == [i \in I |-> RqMayErr(fc(i), fo(i)) \/ XAbsent(G, x, fc(i))]
      R(i, t) == e.rq[i].o[t]
      Stored(r) == \A j \in DOMAIN r.ids : r.ids[j] \in DOMAIN G.assocs
      Gens(i) ==
        (IF fc(i) = "" THEN {} ELSE {RqIdx(s, j, RqIo(s, i)) : j \in None(s.acs)})
        \cup (IF fo(i) = "" THEN {} ELSE {RqIdx(s, RqIa(s, i), j) : j \in None(s.rls)})
  IN
  Bad("Refs.NoUnexpectedFailure",
      {i \in I : \E t \in Slots :
          Ran(R(i, t)) /\ ~Ok(R(i, t)) /\ ~(R(i, t).k = "err4" /\ E[i])})
  \cup Bad("Refs.NamesArePathsOfFull",
      {i \in I : \E t \in NameSlots :
          Ok(R(i, t)) /\ Ok(R(i, t + 1)) /\ R(i, t).ids # R(i, t + 1).ids})
  \cup Bad("Refs.EqualsStoredAssociations",
      {i \in I : \E t \in Slots :
          /\ Ok(R(i, t))
          /\ \/ ~Stored(R(i, t))
             \/ {G.assocs[j].g : j \in Ids(R(i, t))} # D[i]})
  \cup Bad("Refs.ReturnsStoredInstances",
      {i \in I : \E t \in FullSlots :
          /\ Ok(R(i, t)) /\ Stored(R(i, t))
          /\ \/ Len(R(i, t).vs) # Len(R(i, t).ids)
             \/ \E j \in DOMAIN R(i, t).ids :
                   LET a == G.assocs[R(i, t).ids[j]] IN
                   R(i, t).vs[j] # Append(a.ends, a.w)})
  \cup Bad("Refs.FilterNeverAddsResults",
      {i \in I : \E j \in Gens(i), t \in Slots :
          Ok(R(i, t)) /\ Ok(R(j, t)) /\ ~(Ids(R(i, t)) \subseteq Ids(R(j, t)))})

SrcFails(s, e) ==
  IF /\ s.started /\ e.x \in DOMAIN s.G.nodes
     /\ Len(e.aq) = NAc(s) * NRc(s) * NRl(s) * NRl(s)
     /\ Len(e.rq) = NAc(s) * NRl(s)
  THEN AqFails(s, e) \cup RqFails(s, e)
  ELSE {"Malformed.src"}

(* Associators (full) results of the queries without ResultClass, kept for *)
(* the symmetry clause of later sources; <<-1>> = no usable result         *)
Rows(s, e) ==
  [j \in 1..(NAc(s) * NRl(s) * NRl(s)) |->
     LET ia == ((j - 1) \div (NRl(s) * NRl(s))) + 1
         io == Mod((j - 1) \div NRl(s), NRl(s)) + 1
         ir == Mod(j - 1, NRl(s)) + 1
         r == e.aq[AqIdx(s, ia, 1, io, ir)].o[2] IN
     IF Ok(r) THEN r.ids ELSE <<-1>>]

(*------------------------- class-level source ---------------------------*)
ClsFails(s, e) ==
  LET IA == DOMAIN e.aq
      IR == DOMAIN e.rq
      A(i, t) == e.aq[i].o[t]
      Q(i, t) == e.rq[i].o[t]
      EA == [i \in IA |-> AqMayErr(s.acs[AqIa(s, i)], s.rcs[AqIc(s, i)],
                                   s.rls[AqIo(s, i)], s.rls[AqIr(s, i)])]
      EQ == [i \in IR |-> RqMayErr(s.acs[RqIa(s, i)], s.rls[RqIo(s, i)])]
  IN
  IF /\ s.started /\ e.c \in NodeClasses
     /\ Len(e.aq) = NAc(s) * NRc(s) * NRl(s) * NRl(s)
     /\ Len(e.rq) = NAc(s) * NRl(s)
  THEN
    Bad("ClassAssoc.NoUnexpectedFailure",
        {i \in IA : \E t \in {1, 2} :
            Ran(A(i, t)) /\ ~Ok(A(i, t)) /\ ~(A(i, t).k = "err4" /\ EA[i])})
    \cup Bad("ClassAssoc.NamesAreNamesOfFull",
        {i \in IA : Ok(A(i, 1)) /\ Ok(A(i, 2)) /\ A(i, 1).cs # A(i, 2).cs})
    \cup Bad("ClassAssoc.ReturnsClasses",
        {i \in IA : \E t \in {1, 2} :
            Ok(A(i, t)) /\ ~(Rng(A(i, t).cs) \subseteq Classes)})
    \cup Bad("ClassRefs.NoUnexpectedFailure",
        {i \in IR : \E t \in {1, 2} :
            Ran(Q(i, t)) /\ ~Ok(Q(i, t)) /\ ~(Q(i, t).k = "err4" /\ EQ[i])})
    \cup Bad("ClassRefs.NamesAreNamesOfFull",
        {i \in IR : Ok(Q(i, 1)) /\ Ok(Q(i, 2)) /\ Q(i, 1).cs # Q(i, 2).cs})
    \cup Bad("ClassRefs.ReturnsClasses",
        {i \in IR : \E t \in {1, 2} :
            Ok(Q(i, t)) /\ ~(Rng(Q(i, t).cs) \subseteq Classes)})
  ELSE {"Malformed.cls"}

(*------------------------------- machine --------------------------------*)
Fails(s, e) ==
  CASE e.op \in {"graph", "regraph"} -> GraphFails(s, e)
    [] e.op = "src" -> SrcFails(s, e)
    [] e.op = "cls" -> ClsFails(s, e)
    [] OTHER -> {"Malformed.op"}

Apply(s, e) ==
  CASE e.op \in {"graph", "regraph"} ->
         [G |-> [nodes |-> e.nodes, assocs |-> e.assocs, xpar |-> e.xpar],
          acs |-> e.acs, rcs |-> e.rcs, rls |-> e.rls,
          started |-> TRUE, done |-> <<>>]
    [] e.op = "src" ->
         [s EXCEPT !.done = Append(@, [x |-> e.x, rows |-> Rows(s, e)])]
    [] OTHER -> s
=============================================================================
