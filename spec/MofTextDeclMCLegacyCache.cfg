\* Wrong variant (must FAIL SessionRoundTrip or CacheCoherent): p_mp_setQualifier uses qualcache[ns].setdefault(name, decl).
SPECIFICATION Spec
CONSTANTS
  KeyCaseSensitive = FALSE
  FlagIgnored = FALSE
  CacheSetDefault = TRUE
  CacheNotUpdated = FALSE
  EmbModeSticks = FALSE
  MaxKeys = 1
  MaxSteps = 6
  Emit = FALSE
INVARIANT ScopeRoundTrip
INVARIANT SessionRoundTrip
CHECK_DEADLOCK FALSE
