\* thorough: method side with the quick descriptors but
\* 12 namespace arguments, 12 targets, keys {1,2}, <= 2 instances
SPECIFICATION Spec
CONSTANTS
  NsArgFormatBug = FALSE
  ClassnamesAssert = FALSE
  OutOnlyUnchecked = FALSE
  PragmaCaseSensitive = FALSE
  RecompileExisting = FALSE
  Variant = "none"
  Provs <- ProvsMeth
  NsArgs <- NsArgsBig
  SetupBehs = {"ok", "raise"}
  Targets <- TargetsBig
  KeyU = {1, 2}
  GenDepth = 0
  MaxStore = 2
  IwLevel = "lite"
  MethLevel = "full"
INVARIANT ImplRefinesReq
INVARIANT MappingHolds
INVARIANT ReqWellFormed
CONSTRAINT StoreBound
CHECK_DEADLOCK FALSE
