\* Enumeration of abstract strings for the binding (run with one worker).
SPECIFICATION Spec
CONSTANTS
  Alphabet <- Cls
  MaxLen = 2
  Depths = {0}
  Modes = {"entity"}
  V <- AsIs
  AttrAll = FALSE
INVARIANT Emit
CHECK_DEADLOCK FALSE
