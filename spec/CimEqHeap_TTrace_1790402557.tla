---- MODULE CimEqHeap_TTrace_1790402557 ----
EXTENDS Sequences, TLCExt, Toolbox, Naturals, TLC, CimEqHeap

_expression ==
    LET CimEqHeap_TEExpression == INSTANCE CimEqHeap_TEExpression
    IN CimEqHeap_TEExpression!expression
----

_trace ==
    LET CimEqHeap_TETrace == INSTANCE CimEqHeap_TETrace
    IN CimEqHeap_TETrace!trace
----

_inv ==
    ~(
        TLCGet("level") = Len(_TETrace)
        /\
        hist = ([m |-> "hist", root |-> "InstanceName", muts |-> <<[key |-> "", v |-> "clear", steps |-> <<"kb:D">>]>>])
        /\
        abs0 = ([t |-> "O", kind |-> "InstanceName", val |-> "v0", kids |-> <<[key |-> "kb", sub |-> [t |-> "D", kind |-> "", val |-> "v0", kids |-> <<[key |-> "#k", sub |-> [t |-> "O", kind |-> "InstanceName", val |-> "v0", kids |-> <<[key |-> "kb", sub |-> [t |-> "D", kind |-> "", val |-> "v0", kids |-> <<>>]]>>]]>>]]>>])
        /\
        orig = (1)
        /\
        allmust = (TRUE)
        /\
        heap = (<<[t |-> "O", kind |-> "InstanceName", val |-> "v0", kids |-> <<[key |-> "kb", ref |-> 2]>>, hc |-> <<>>], [t |-> "D", kind |-> "", val |-> "empty", kids |-> <<>>, hc |-> <<>>], [t |-> "O", kind |-> "InstanceName", val |-> "v0", kids |-> <<[key |-> "kb", ref |-> 4]>>, hc |-> <<>>], [t |-> "D", kind |-> "", val |-> "v0", kids |-> <<>>, hc |-> <<>>], [t |-> "free", kind |-> "", val |-> "", kids |-> <<>>, hc |-> <<>>], [t |-> "free", kind |-> "", val |-> "", kids |-> <<>>, hc |-> <<>>], [t |-> "free", kind |-> "", val |-> "", kids |-> <<>>, hc |-> <<>>], [t |-> "free", kind |-> "", val |-> "", kids |-> <<>>, hc |-> <<>>], [t |-> "free", kind |-> "", val |-> "", kids |-> <<>>, hc |-> <<>>], [t |-> "free", kind |-> "", val |-> "", kids |-> <<>>, hc |-> <<>>], [t |-> "free", kind |-> "", val |-> "", kids |-> <<>>, hc |-> <<>>], [t |-> "free", kind |-> "", val |-> "", kids |-> <<>>, hc |-> <<>>], [t |-> "free", kind |-> "", val |-> "", kids |-> <<>>, hc |-> <<>>], [t |-> "free", kind |-> "", val |-> "", kids |-> <<>>, hc |-> <<>>], [t |-> "free", kind |-> "", val |-> "", kids |-> <<>>, hc |-> <<>>], [t |-> "free", kind |-> "", val |-> "", kids |-> <<>>, hc |-> <<>>], [t |-> "free", kind |-> "", val |-> "", kids |-> <<>>, hc |-> <<>>], [t |-> "free", kind |-> "", val |-> "", kids |-> <<>>, hc |-> <<>>], [t |-> "free", kind |-> "", val |-> "", kids |-> <<>>, hc |-> <<>>], [t |-> "free", kind |-> "", val |-> "", kids |-> <<>>, hc |-> <<>>], [t |-> "free", kind |-> "", val |-> "", kids |-> <<>>, hc |-> <<>>], [t |-> "free", kind |-> "", val |-> "", kids |-> <<>>, hc |-> <<>>], [t |-> "free", kind |-> "", val |-> "", kids |-> <<>>, hc |-> <<>>], [t |-> "free", kind |-> "", val |-> "", kids |-> <<>>, hc |-> <<>>], [t |-> "free", kind |-> "", val |-> "", kids |-> <<>>, hc |-> <<>>], [t |-> "free", kind |-> "", val |-> "", kids |-> <<>>, hc |-> <<>>], [t |-> "free", kind |-> "", val |-> "", kids |-> <<>>, hc |-> <<>>], [t |-> "free", kind |-> "", val |-> "", kids |-> <<>>, hc |-> <<>>], [t |-> "free", kind |-> "", val |-> "", kids |-> <<>>, hc |-> <<>>], [t |-> "free", kind |-> "", val |-> "", kids |-> <<>>, hc |-> <<>>], [t |-> "free", kind |-> "", val |-> "", kids |-> <<>>, hc |-> <<>>], [t |-> "free", kind |-> "", val |-> "", kids |-> <<>>, hc |-> <<>>], [t |-> "free", kind |-> "", val |-> "", kids |-> <<>>, hc |-> <<>>], [t |-> "free", kind |-> "", val |-> "", kids |-> <<>>, hc |-> <<>>], [t |-> "free", kind |-> "", val |-> "", kids |-> <<>>, hc |-> <<>>], [t |-> "free", kind |-> "", val |-> "", kids |-> <<>>, hc |-> <<>>], [t |-> "free", kind |-> "", val |-> "", kids |-> <<>>, hc |-> <<>>], [t |-> "free", kind |-> "", val |-> "", kids |-> <<>>, hc |-> <<>>], [t |-> "free", kind |-> "", val |-> "", kids |-> <<>>, hc |-> <<>>], [t |-> "free", kind |-> "", val |-> "", kids |-> <<>>, hc |-> <<>>], [t |-> "free", kind |-> "", val |-> "", kids |-> <<>>, hc |-> <<>>], [t |-> "free", kind |-> "", val |-> "", kids |-> <<>>, hc |-> <<>>], [t |-> "free", kind |-> "", val |-> "", kids |-> <<>>, hc |-> <<>>], [t |-> "free", kind |-> "", val |-> "", kids |-> <<>>, hc |-> <<>>], [t |-> "free", kind |-> "", val |-> "", kids |-> <<>>, hc |-> <<>>], [t |-> "free", kind |-> "", val |-> "", kids |-> <<>>, hc |-> <<>>], [t |-> "free", kind |-> "", val |-> "", kids |-> <<>>, hc |-> <<>>], [t |-> "free", kind |-> "", val |-> "", kids |-> <<>>, hc |-> <<>>], [t |-> "free", kind |-> "", val |-> "", kids |-> <<>>, hc |-> <<>>], [t |-> "free", kind |-> "", val |-> "", kids |-> <<>>, hc |-> <<>>], [t |-> "free", kind |-> "", val |-> "", kids |-> <<>>, hc |-> <<>>], [t |-> "free", kind |-> "", val |-> "", kids |-> <<>>, hc |-> <<>>], [t |-> "free", kind |-> "", val |-> "", kids |-> <<>>, hc |-> <<>>], [t |-> "free", kind |-> "", val |-> "", kids |-> <<>>, hc |-> <<>>], [t |-> "free", kind |-> "", val |-> "", kids |-> <<>>, hc |-> <<>>], [t |-> "free", kind |-> "", val |-> "", kids |-> <<>>, hc |-> <<>>], [t |-> "free", kind |-> "", val |-> "", kids |-> <<>>, hc |-> <<>>], [t |-> "free", kind |-> "", val |-> "", kids |-> <<>>, hc |-> <<>>], [t |-> "free", kind |-> "", val |-> "", kids |-> <<>>, hc |-> <<>>], [t |-> "free", kind |-> "", val |-> "", kids |-> <<>>, hc |-> <<>>]>>)
        /\
        cpy = (0)
    )
----

_init ==
    /\ heap = _TETrace[1].heap
    /\ abs0 = _TETrace[1].abs0
    /\ allmust = _TETrace[1].allmust
    /\ hist = _TETrace[1].hist
    /\ orig = _TETrace[1].orig
    /\ cpy = _TETrace[1].cpy
----

_next ==
    /\ \E i,j \in DOMAIN _TETrace:
        /\ \/ /\ j = i + 1
              /\ i = TLCGet("level")
        /\ heap  = _TETrace[i].heap
        /\ heap' = _TETrace[j].heap
        /\ abs0  = _TETrace[i].abs0
        /\ abs0' = _TETrace[j].abs0
        /\ allmust  = _TETrace[i].allmust
        /\ allmust' = _TETrace[j].allmust
        /\ hist  = _TETrace[i].hist
        /\ hist' = _TETrace[j].hist
        /\ orig  = _TETrace[i].orig
        /\ orig' = _TETrace[j].orig
        /\ cpy  = _TETrace[i].cpy
        /\ cpy' = _TETrace[j].cpy

\* Uncomment the ASSUME below to write the states of the error trace
\* to the given file in Json format. Note that you can pass any tuple
\* to `JsonSerialize`. For example, a sub-sequence of _TETrace.
    \* ASSUME
    \*     LET J == INSTANCE Json
    \*         IN J!JsonSerialize("CimEqHeap_TTrace_1790402557.json", _TETrace)

=============================================================================

 Note that you can extract this module `CimEqHeap_TEExpression`
  to a dedicated file to reuse `expression` (the module in the 
  dedicated `CimEqHeap_TEExpression.tla` file takes precedence 
  over the module `CimEqHeap_TEExpression` below).

---- MODULE CimEqHeap_TEExpression ----
EXTENDS Sequences, TLCExt, Toolbox, Naturals, TLC, CimEqHeap

expression == 
    [
        \* To hide variables of the `CimEqHeap` spec from the error trace,
        \* remove the variables below.  The trace will be written in the order
        \* of the fields of this record.
        heap |-> heap
        ,abs0 |-> abs0
        ,allmust |-> allmust
        ,hist |-> hist
        ,orig |-> orig
        ,cpy |-> cpy
        
        \* Put additional constant-, state-, and action-level expressions here:
        \* ,_stateNumber |-> _TEPosition
        \* ,_heapUnchanged |-> heap = heap'
        
        \* Format the `heap` variable as Json value.
        \* ,_heapJson |->
        \*     LET J == INSTANCE Json
        \*     IN J!ToJson(heap)
        
        \* Lastly, you may build expressions over arbitrary sets of states by
        \* leveraging the _TETrace operator.  For example, this is how to
        \* count the number of times a spec variable changed up to the current
        \* state in the trace.
        \* ,_heapModCount |->
        \*     LET F[s \in DOMAIN _TETrace] ==
        \*         IF s = 1 THEN 0
        \*         ELSE IF _TETrace[s].heap # _TETrace[s-1].heap
        \*             THEN 1 + F[s-1] ELSE F[s-1]
        \*     IN F[_TEPosition - 1]
    ]

=============================================================================



Parsing and semantic processing can take forever if the trace below is long.
 In this case, it is advised to uncomment the module below to deserialize the
 trace from a generated binary file.

\*
\*---- MODULE CimEqHeap_TETrace ----
\*EXTENDS IOUtils, TLC, CimEqHeap
\*
\*trace == IODeserialize("CimEqHeap_TTrace_1790402557.bin", TRUE)
\*
\*=============================================================================
\*

---- MODULE CimEqHeap_TETrace ----
EXTENDS TLC, CimEqHeap

trace == 
    <<
    ([hist |-> [m |-> "hist", root |-> "InstanceName", muts |-> <<>>],abs0 |-> [t |-> "O", kind |-> "InstanceName", val |-> "v0", kids |-> <<[key |-> "kb", sub |-> [t |-> "D", kind |-> "", val |-> "v0", kids |-> <<[key |-> "#k", sub |-> [t |-> "O", kind |-> "InstanceName", val |-> "v0", kids |-> <<[key |-> "kb", sub |-> [t |-> "D", kind |-> "", val |-> "v0", kids |-> <<>>]]>>]]>>]]>>],orig |-> 1,allmust |-> TRUE,heap |-> <<[t |-> "O", kind |-> "InstanceName", val |-> "v0", kids |-> <<[key |-> "kb", ref |-> 2]>>, hc |-> <<>>], [t |-> "D", kind |-> "", val |-> "v0", kids |-> <<[key |-> "#k", ref |-> 3]>>, hc |-> <<>>], [t |-> "O", kind |-> "InstanceName", val |-> "v0", kids |-> <<[key |-> "kb", ref |-> 4]>>, hc |-> <<>>], [t |-> "D", kind |-> "", val |-> "v0", kids |-> <<>>, hc |-> <<>>], [t |-> "free", kind |-> "", val |-> "", kids |-> <<>>, hc |-> <<>>], [t |-> "free", kind |-> "", val |-> "", kids |-> <<>>, hc |-> <<>>], [t |-> "free", kind |-> "", val |-> "", kids |-> <<>>, hc |-> <<>>], [t |-> "free", kind |-> "", val |-> "", kids |-> <<>>, hc |-> <<>>], [t |-> "free", kind |-> "", val |-> "", kids |-> <<>>, hc |-> <<>>], [t |-> "free", kind |-> "", val |-> "", kids |-> <<>>, hc |-> <<>>], [t |-> "free", kind |-> "", val |-> "", kids |-> <<>>, hc |-> <<>>], [t |-> "free", kind |-> "", val |-> "", kids |-> <<>>, hc |-> <<>>], [t |-> "free", kind |-> "", val |-> "", kids |-> <<>>, hc |-> <<>>], [t |-> "free", kind |-> "", val |-> "", kids |-> <<>>, hc |-> <<>>], [t |-> "free", kind |-> "", val |-> "", kids |-> <<>>, hc |-> <<>>], [t |-> "free", kind |-> "", val |-> "", kids |-> <<>>, hc |-> <<>>], [t |-> "free", kind |-> "", val |-> "", kids |-> <<>>, hc |-> <<>>], [t |-> "free", kind |-> "", val |-> "", kids |-> <<>>, hc |-> <<>>], [t |-> "free", kind |-> "", val |-> "", kids |-> <<>>, hc |-> <<>>], [t |-> "free", kind |-> "", val |-> "", kids |-> <<>>, hc |-> <<>>], [t |-> "free", kind |-> "", val |-> "", kids |-> <<>>, hc |-> <<>>], [t |-> "free", kind |-> "", val |-> "", kids |-> <<>>, hc |-> <<>>], [t |-> "free", kind |-> "", val |-> "", kids |-> <<>>, hc |-> <<>>], [t |-> "free", kind |-> "", val |-> "", kids |-> <<>>, hc |-> <<>>], [t |-> "free", kind |-> "", val |-> "", kids |-> <<>>, hc |-> <<>>], [t |-> "free", kind |-> "", val |-> "", kids |-> <<>>, hc |-> <<>>], [t |-> "free", kind |-> "", val |-> "", kids |-> <<>>, hc |-> <<>>], [t |-> "free", kind |-> "", val |-> "", kids |-> <<>>, hc |-> <<>>], [t |-> "free", kind |-> "", val |-> "", kids |-> <<>>, hc |-> <<>>], [t |-> "free", kind |-> "", val |-> "", kids |-> <<>>, hc |-> <<>>], [t |-> "free", kind |-> "", val |-> "", kids |-> <<>>, hc |-> <<>>], [t |-> "free", kind |-> "", val |-> "", kids |-> <<>>, hc |-> <<>>], [t |-> "free", kind |-> "", val |-> "", kids |-> <<>>, hc |-> <<>>], [t |-> "free", kind |-> "", val |-> "", kids |-> <<>>, hc |-> <<>>], [t |-> "free", kind |-> "", val |-> "", kids |-> <<>>, hc |-> <<>>], [t |-> "free", kind |-> "", val |-> "", kids |-> <<>>, hc |-> <<>>], [t |-> "free", kind |-> "", val |-> "", kids |-> <<>>, hc |-> <<>>], [t |-> "free", kind |-> "", val |-> "", kids |-> <<>>, hc |-> <<>>], [t |-> "free", kind |-> "", val |-> "", kids |-> <<>>, hc |-> <<>>], [t |-> "free", kind |-> "", val |-> "", kids |-> <<>>, hc |-> <<>>], [t |-> "free", kind |-> "", val |-> "", kids |-> <<>>, hc |-> <<>>], [t |-> "free", kind |-> "", val |-> "", kids |-> <<>>, hc |-> <<>>], [t |-> "free", kind |-> "", val |-> "", kids |-> <<>>, hc |-> <<>>], [t |-> "free", kind |-> "", val |-> "", kids |-> <<>>, hc |-> <<>>], [t |-> "free", kind |-> "", val |-> "", kids |-> <<>>, hc |-> <<>>], [t |-> "free", kind |-> "", val |-> "", kids |-> <<>>, hc |-> <<>>], [t |-> "free", kind |-> "", val |-> "", kids |-> <<>>, hc |-> <<>>], [t |-> "free", kind |-> "", val |-> "", kids |-> <<>>, hc |-> <<>>], [t |-> "free", kind |-> "", val |-> "", kids |-> <<>>, hc |-> <<>>], [t |-> "free", kind |-> "", val |-> "", kids |-> <<>>, hc |-> <<>>], [t |-> "free", kind |-> "", val |-> "", kids |-> <<>>, hc |-> <<>>], [t |-> "free", kind |-> "", val |-> "", kids |-> <<>>, hc |-> <<>>], [t |-> "free", kind |-> "", val |-> "", kids |-> <<>>, hc |-> <<>>], [t |-> "free", kind |-> "", val |-> "", kids |-> <<>>, hc |-> <<>>], [t |-> "free", kind |-> "", val |-> "", kids |-> <<>>, hc |-> <<>>], [t |-> "free", kind |-> "", val |-> "", kids |-> <<>>, hc |-> <<>>], [t |-> "free", kind |-> "", val |-> "", kids |-> <<>>, hc |-> <<>>], [t |-> "free", kind |-> "", val |-> "", kids |-> <<>>, hc |-> <<>>], [t |-> "free", kind |-> "", val |-> "", kids |-> <<>>, hc |-> <<>>], [t |-> "free", kind |-> "", val |-> "", kids |-> <<>>, hc |-> <<>>]>>,cpy |-> 0]),
    ([hist |-> [m |-> "hist", root |-> "InstanceName", muts |-> <<[key |-> "", v |-> "clear", steps |-> <<"kb:D">>]>>],abs0 |-> [t |-> "O", kind |-> "InstanceName", val |-> "v0", kids |-> <<[key |-> "kb", sub |-> [t |-> "D", kind |-> "", val |-> "v0", kids |-> <<[key |-> "#k", sub |-> [t |-> "O", kind |-> "InstanceName", val |-> "v0", kids |-> <<[key |-> "kb", sub |-> [t |-> "D", kind |-> "", val |-> "v0", kids |-> <<>>]]>>]]>>]]>>],orig |-> 1,allmust |-> TRUE,heap |-> <<[t |-> "O", kind |-> "InstanceName", val |-> "v0", kids |-> <<[key |-> "kb", ref |-> 2]>>, hc |-> <<>>], [t |-> "D", kind |-> "", val |-> "empty", kids |-> <<>>, hc |-> <<>>], [t |-> "O", kind |-> "InstanceName", val |-> "v0", kids |-> <<[key |-> "kb", ref |-> 4]>>, hc |-> <<>>], [t |-> "D", kind |-> "", val |-> "v0", kids |-> <<>>, hc |-> <<>>], [t |-> "free", kind |-> "", val |-> "", kids |-> <<>>, hc |-> <<>>], [t |-> "free", kind |-> "", val |-> "", kids |-> <<>>, hc |-> <<>>], [t |-> "free", kind |-> "", val |-> "", kids |-> <<>>, hc |-> <<>>], [t |-> "free", kind |-> "", val |-> "", kids |-> <<>>, hc |-> <<>>], [t |-> "free", kind |-> "", val |-> "", kids |-> <<>>, hc |-> <<>>], [t |-> "free", kind |-> "", val |-> "", kids |-> <<>>, hc |-> <<>>], [t |-> "free", kind |-> "", val |-> "", kids |-> <<>>, hc |-> <<>>], [t |-> "free", kind |-> "", val |-> "", kids |-> <<>>, hc |-> <<>>], [t |-> "free", kind |-> "", val |-> "", kids |-> <<>>, hc |-> <<>>], [t |-> "free", kind |-> "", val |-> "", kids |-> <<>>, hc |-> <<>>], [t |-> "free", kind |-> "", val |-> "", kids |-> <<>>, hc |-> <<>>], [t |-> "free", kind |-> "", val |-> "", kids |-> <<>>, hc |-> <<>>], [t |-> "free", kind |-> "", val |-> "", kids |-> <<>>, hc |-> <<>>], [t |-> "free", kind |-> "", val |-> "", kids |-> <<>>, hc |-> <<>>], [t |-> "free", kind |-> "", val |-> "", kids |-> <<>>, hc |-> <<>>], [t |-> "free", kind |-> "", val |-> "", kids |-> <<>>, hc |-> <<>>], [t |-> "free", kind |-> "", val |-> "", kids |-> <<>>, hc |-> <<>>], [t |-> "free", kind |-> "", val |-> "", kids |-> <<>>, hc |-> <<>>], [t |-> "free", kind |-> "", val |-> "", kids |-> <<>>, hc |-> <<>>], [t |-> "free", kind |-> "", val |-> "", kids |-> <<>>, hc |-> <<>>], [t |-> "free", kind |-> "", val |-> "", kids |-> <<>>, hc |-> <<>>], [t |-> "free", kind |-> "", val |-> "", kids |-> <<>>, hc |-> <<>>], [t |-> "free", kind |-> "", val |-> "", kids |-> <<>>, hc |-> <<>>], [t |-> "free", kind |-> "", val |-> "", kids |-> <<>>, hc |-> <<>>], [t |-> "free", kind |-> "", val |-> "", kids |-> <<>>, hc |-> <<>>], [t |-> "free", kind |-> "", val |-> "", kids |-> <<>>, hc |-> <<>>], [t |-> "free", kind |-> "", val |-> "", kids |-> <<>>, hc |-> <<>>], [t |-> "free", kind |-> "", val |-> "", kids |-> <<>>, hc |-> <<>>], [t |-> "free", kind |-> "", val |-> "", kids |-> <<>>, hc |-> <<>>], [t |-> "free", kind |-> "", val |-> "", kids |-> <<>>, hc |-> <<>>], [t |-> "free", kind |-> "", val |-> "", kids |-> <<>>, hc |-> <<>>], [t |-> "free", kind |-> "", val |-> "", kids |-> <<>>, hc |-> <<>>], [t |-> "free", kind |-> "", val |-> "", kids |-> <<>>, hc |-> <<>>], [t |-> "free", kind |-> "", val |-> "", kids |-> <<>>, hc |-> <<>>], [t |-> "free", kind |-> "", val |-> "", kids |-> <<>>, hc |-> <<>>], [t |-> "free", kind |-> "", val |-> "", kids |-> <<>>, hc |-> <<>>], [t |-> "free", kind |-> "", val |-> "", kids |-> <<>>, hc |-> <<>>], [t |-> "free", kind |-> "", val |-> "", kids |-> <<>>, hc |-> <<>>], [t |-> "free", kind |-> "", val |-> "", kids |-> <<>>, hc |-> <<>>], [t |-> "free", kind |-> "", val |-> "", kids |-> <<>>, hc |-> <<>>], [t |-> "free", kind |-> "", val |-> "", kids |-> <<>>, hc |-> <<>>], [t |-> "free", kind |-> "", val |-> "", kids |-> <<>>, hc |-> <<>>], [t |-> "free", kind |-> "", val |-> "", kids |-> <<>>, hc |-> <<>>], [t |-> "free", kind |-> "", val |-> "", kids |-> <<>>, hc |-> <<>>], [t |-> "free", kind |-> "", val |-> "", kids |-> <<>>, hc |-> <<>>], [t |-> "free", kind |-> "", val |-> "", kids |-> <<>>, hc |-> <<>>], [t |-> "free", kind |-> "", val |-> "", kids |-> <<>>, hc |-> <<>>], [t |-> "free", kind |-> "", val |-> "", kids |-> <<>>, hc |-> <<>>], [t |-> "free", kind |-> "", val |-> "", kids |-> <<>>, hc |-> <<>>], [t |-> "free", kind |-> "", val |-> "", kids |-> <<>>, hc |-> <<>>], [t |-> "free", kind |-> "", val |-> "", kids |-> <<>>, hc |-> <<>>], [t |-> "free", kind |-> "", val |-> "", kids |-> <<>>, hc |-> <<>>], [t |-> "free", kind |-> "", val |-> "", kids |-> <<>>, hc |-> <<>>], [t |-> "free", kind |-> "", val |-> "", kids |-> <<>>, hc |-> <<>>], [t |-> "free", kind |-> "", val |-> "", kids |-> <<>>, hc |-> <<>>], [t |-> "free", kind |-> "", val |-> "", kids |-> <<>>, hc |-> <<>>]>>,cpy |-> 0])
    >>
----


=============================================================================

---- CONFIG CimEqHeap_TTrace_1790402557 ----
CONSTANTS
    MaxRef = 60
    MaxMut = 2
    Roots <- AllRoots
    ShallowChildDict = FALSE
    SharedPath = FALSE
    EmptyListPassThrough = FALSE
    Mode = "hist"
    HashCache = "none"
    LazyHash = "raw"
    ObsKinds <- ObsActs
    EmitLazy = FALSE
    CopyViaCtor = FALSE
    Emit = FALSE

INVARIANT
    _inv

CHECK_DEADLOCK
    \* CHECK_DEADLOCK off because of PROPERTY or INVARIANT above.
    FALSE

INIT
    _init

NEXT
    _next

CONSTANT
    _TETrace <- _trace

ALIAS
    _expression
=============================================================================
\* Generated on Sat Sep 26 06:02:40 UTC 2026