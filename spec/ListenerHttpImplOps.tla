------------------------- MODULE ListenerHttpImplOps -------------------------
(***************************************************************************)
(* C17 - code-shaped model of one request through the listener, in the     *)
(* order of the statements of                                              *)
(*   http.server.BaseHTTPRequestHandler.handle_one_request (verb dispatch), *)
(*   pywbem/_listener.py ListenerRequestHandler.do_POST / invalid_method /  *)
(*   send_http_error / send_error_response / send_success_response /       *)
(*   parse_export_request.                                                  *)
(* Pure operators (no variables) so that the trace module can EXTEND it.    *)
(*                                                                         *)
(* Fl = [san, clchk, qfret, lexg] selects the variant:                      *)
(*   san   = FALSE : send_http_error puts str(exc) / the offending header   *)
(*                   value into CIMErrorDetails as it is (the tree as read) *)
(*   san   = TRUE  : CR/LF replaced, non-ASCII escaped before send_header   *)
(*   clchk = FALSE : content_len = int(headers.get('Content-Length', 0));   *)
(*                   body = rfile.read(content_len)     (the tree as read)  *)
(*   clchk = TRUE  : non-numeric / negative / oversize value -> 400         *)
(*   qfret = TRUE  : `return` after the queue.Full error response (the      *)
(*                   tree as read)                                          *)
(*   qfret = FALSE : do_POST falls through to send_success_response: a      *)
(*                   second response is written on the same connection      *)
(*   lexg  : how the CIM-XML reader guards its conversions (the regular     *)
(*           expressions in front of type_from_name() and int(x, 16)):       *)
(*     "full"   : the guard accepts exactly the language                    *)
(*     "eol"    : '^...$' - '$' also matches before one final line          *)
(*                terminator (the tree as read)                              *)
(*     "prefix" : the guard only looks at the beginning of the text          *)
(*   echo  : which characters _cim_xml accepts in an attribute value of the  *)
(*           response (MESSAGE/@ID and EXPMETHODRESPONSE/@NAME are echoed    *)
(*           from the request):                                              *)
(*     "xml10"      : every character of the XML 1.0 Char production (the    *)
(*                    tree as read)                                          *)
(*     "restricted" : DEL and the C1 controls refused (ValueError in         *)
(*                    setAttribute, raised in the handler after the          *)
(*                    indication was queued)                                 *)
(*   pname : how do_POST finds the NewIndication parameter:                  *)
(*     "exact"   : check and fetch with the exact name (the tree as read)    *)
(*     "cicheck" : the check compares case-insensitively, the fetch is       *)
(*                 params['NewIndication']: KeyError for NEWINDICATION       *)
(*   deep  : RecursionError of the reader (reference keys / embedded         *)
(*           instances nested some hundred levels deep; the tuple parser     *)
(*           recurses over the elements):                                    *)
(*     "leaks"  : not caught in do_POST (the tree as read)                   *)
(*     "caught" : answered 400 request-not-well-formed                       *)
(***************************************************************************)
EXTENDS ListenerHttpReq

Legacy == [san |-> FALSE, clchk |-> FALSE, qfret |-> TRUE, lexg |-> "eol",
           echo |-> "xml10", pname |-> "exact", deep |-> "leaks"]
Fixed  == [san |-> TRUE,  clchk |-> TRUE,  qfret |-> TRUE, lexg |-> "full",
           echo |-> "xml10", pname |-> "exact", deep |-> "caught"]

Blank == [outcome |-> "closed", nresp |-> 0, status |-> 0, lineok |-> FALSE,
          hdrsyn |-> FALSE, framing |-> FALSE, rawnl |-> FALSE,
          fold |-> FALSE, derived |-> FALSE, cimerror |-> FALSE,
          allow |-> FALSE, bodykind |-> "none", bodywf |-> FALSE,
          chain |-> << >>, leaf |-> << >>, attrsok |-> FALSE,
          reqid |-> << >>, respid |-> << >>, ndeliv |-> 0]

(* handler raised before anything was flushed: socketserver closes the     *)
(* connection, the server thread itself is not affected                    *)
Dropped == Blank
(* handler blocked in rfile.read()                                         *)
Waiting == [Blank EXCEPT !.outcome = "waiting"]

OneResponse(code) ==
  [Blank EXCEPT !.outcome = "response", !.nresp = 1, !.status = code,
                !.lineok = TRUE, !.hdrsyn = TRUE, !.framing = TRUE]

(* send_http_error(code, cim_error, cim_error_details, headers)            *)
(* det = class of the details text:                                        *)
(*   none | plain (one line, Latin-1) | nl (contains LF; the parser        *)
(*   messages quote the offending request line) | fold (contains the CRLF  *)
(*   SP of a folded request header value) | nonlatin (one line, contains a *)
(*   character that latin-1 cannot encode)                                 *)
HttpError(code, cimerr, det, allow, fl) ==
  IF det = "nonlatin" /\ ~fl.san
  THEN Dropped      \* send_header: UnicodeEncodeError, buffer never flushed
  ELSE [OneResponse(code) EXCEPT
          !.cimerror = cimerr,
          !.allow = allow,
          !.rawnl = (det = "nl" /\ ~fl.san),
          !.fold = (det = "fold" /\ ~fl.san),
          !.derived = (det \in {"nl", "fold"} /\ ~fl.san)]

(* BaseHTTPRequestHandler.send_error for a verb without do_<verb>          *)
StdlibError(code) == [OneResponse(code) EXCEPT !.bodykind = "other"]

(* send_error_response / send_success_response: 200 + export response      *)
Export200(leaf, deliv) ==
  [OneResponse(200) EXCEPT
     !.bodykind = "xml", !.bodywf = TRUE, !.chain = ExportChain,
     !.leaf = leaf, !.attrsok = TRUE, !.reqid = <<1>>, !.respid = <<1>>,
     !.ndeliv = IF deliv THEN 1 ELSE 0]

HdrDet(v) == IF v = "fold" THEN "fold" ELSE "plain"

(* ---- the tuple parser at a position whose text it converts --------------*)
(* result: the exception that leaves parse_export_request                   *)
(*   "none" | "CIMXMLParseError" | "XMLParseError" | "ValueError"            *)
(* TYPE positions with a value: unpack_value -> unpack_single_value(data,   *)
(* cimtype): 'string' / 'boolean' / NUMERIC_CIMTYPE_PATTERN.match(cimtype)  *)
(* -> unpack_numeric -> type_from_name(cimtype) [ValueError for anything    *)
(* but an exact type name, not wrapped] / 'datetime' / 'char16' / else      *)
(* CIMXMLParseError("Invalid CIM type").  TYPE positions without a value:   *)
(* the text only reaches the CIMProperty / CIMMethod / CIMParameter          *)
(* constructor, whose ValueError is wrapped.                                 *)
TypeWithValue == {"propType", "arrType", "qualType", "keyType",
                  "embPropType", "clsPropType"}
NumericPositions == {"intValue", "arrValue", "qualValue", "embPropValue",
                     "realValue", "keyNumValue"}
NumTypeGuardPasses(x, g) ==
  \/ g = "eol" /\ x = "numTrailNl"
  \/ g = "prefix" /\ x \in {"numTrailNl", "numTrailSp", "numSuffix"}
(* unpack_numeric: data.strip(); CIMXML_HEX_PATTERN.match(data) ->          *)
(* int(data, 16) [ValueError not wrapped] else int(data) / float(data) ->   *)
(* CIMXMLParseError; CIMType(value): ValueError / OverflowError wrapped     *)
HexGuardPasses(x, g) ==
  \/ x \in {"hex", "hexPlus", "hexHuge"}
  \/ g = "prefix" /\ x = "hexSuffix"

(* what the reader as read converts without complaint (besides Sure):      *)
(* Python's int() / float() / CIMDateTime() are more generous than DSP0201  *)
IntAccepted == {"hex", "hexPlus", "decPlus", "fraction", "bareDot",
                "exponent", "underscore", "uniDigits", "leadingZero", "padded"}
RealAccepted == IntAccepted \cup {"hugeExp", "hugeDecX", "nan", "inf"}
LexAccepted ==
  [p \in LexPositions |->
     CASE p \in IntPositions -> IntAccepted
       [] p = "realValue" -> RealAccepted
       [] p = "keyNumValue" -> RealAccepted \cup {"hexHuge", "hugeDec"}
       [] p = "keyType" -> {"empty"}          \* TYPE="" is taken as absent
       [] p \in {"propTypeNull", "clsParamType"} -> {"reference"}
       [] p \in {"boolValue", "boolAttr"} -> {"upper", "padded", "empty"}
       [] p = "dtValue" -> {"interval", "uniDigits", "hugeOffset",
                            "asterisks"}
       [] p = "char16Value" -> {"blank"}
       [] p = "arraySize" -> {"negative", "huge", "padded", "underscore",
                              "uniDigits", "zero"}
       [] p \in {"embAttr", "embAttrNum"} -> {"empty"}  \* falsy: not embedded
       \* strings that are not converted: any character is taken
       [] p \in {"msgId", "methName", "paramName"} -> LexAt[p]
       \* header values that do_POST lower-cases before it compares them
       [] p \in {"charsetVal", "ctypeVal", "cencVal"} -> LexAt[p]
       [] p \in {"embDepth", "refDepth"} -> {"few", "tens"}
       [] OTHER -> {}]

TupleParse(p, x, g) ==
  IF p = "refDepth" /\ x \in {"hundreds", "thousands"} THEN "RecursionError"
  ELSE IF p \in TypeWithValue /\ NumTypeGuardPasses(x, g) THEN "ValueError"
  ELSE IF p \in NumericPositions /\ HexGuardPasses(x, g) /\ x = "hexSuffix"
       THEN "ValueError"
  ELSE IF x \in LexAccepted[p] THEN "none"
  ELSE IF p \in {"embValue", "embArrValue"} /\
          x \in {"notXml", "illformed", "empty", "blank", "twoRoots"}
       THEN "XMLParseError"
  ELSE "CIMXMLParseError"

(* do_POST: except (CIMXMLParseError, XMLParseError) -> 400; the version    *)
(* errors are raised before any conversion; everything else is not caught  *)
MappedExc == {"CIMXMLParseError", "XMLParseError"}

(* parse_export_request and what follows, on the body bytes actually seen  *)
(* QueueFull: listener._handle_indication raised queue.Full                *)
(* lp, lx: position and class of the lexeme in the body ("none": no such)  *)
(* the export response echoes MESSAGE/@ID and the method name; a            *)
(* setAttribute that refuses the character raises in the handler           *)
EchoRaises(lp, lx, fl) ==
  fl.echo = "restricted" /\ lp \in {"msgId", "methName"} /\ lx \in {"del", "c1"}

AfterParse(lp, lx, fl, QueueFull) ==
         \* params is a dict: a repeated NewIndication collapses to the last
         IF lp = "methName"      \* literal comparison with 'ExportIndication'
         THEN IF EchoRaises(lp, lx, fl) THEN Dropped
              ELSE Export200(<<"ERROR">>, FALSE)                  \* code 7
         ELSE IF lp = "paramName"
         THEN IF fl.pname = "exact" THEN Export200(<<"ERROR">>, FALSE) \* 4
              ELSE Dropped       \* params['NewIndication']: KeyError
         ELSE IF QueueFull
         THEN IF EchoRaises(lp, lx, fl) THEN Dropped
              ELSE IF fl.qfret THEN Export200(<<"ERROR">>, FALSE)     \* code 1
              ELSE \* the ERROR response, then the success response: what a
                   \* reader of the connection sees is the first one
                   \* followed by a second status line; nothing was queued
                   [Export200(<<"ERROR">>, FALSE) EXCEPT !.nresp = 2]
         \* the indication is queued (and will be delivered), then the
         \* success response is built
         ELSE IF EchoRaises(lp, lx, fl) THEN [Dropped EXCEPT !.ndeliv = 1]
         ELSE Export200(<< >>, TRUE)

AfterRead(seen, lp, lx, fl, QueueFull) ==
  CASE seen \in {"empty", "truncated", "illformedXml", "badUtf8"} ->
         \* XMLParseError: multi-line text quoting the offending line
         HttpError(400, TRUE, "nl", FALSE, fl)
    [] seen \in {"wrongElement", "nonInstance"} ->
         \* CIMXMLParseError: "...\nCIM-XML response: None"
         HttpError(400, TRUE, "nl", FALSE, fl)
    [] seen \in {"wrongDtdVersion", "wrongProtocolVersion",
                 "wrongCimVersion"} ->
         HttpError(400, TRUE,
                   IF lx \in {"bmp", "lsep", "fffd", "nonchar", "astral"}
                   THEN "nonlatin" ELSE "plain", FALSE, fl)
    [] seen \in {"wrongDtdVersionU", "wrongProtocolVersionU",
                 "wrongCimVersionU"} ->
         HttpError(400, TRUE, "nonlatin", FALSE, fl)
    [] seen = "unknownMethod" ->
         IF EchoRaises(lp, lx, fl) THEN Dropped
         ELSE Export200(<<"ERROR">>, FALSE)                       \* code 7
    [] seen \in {"missingParam", "nullParam"} ->
         Export200(<<"ERROR">>, FALSE)                            \* code 4
    [] seen \in {"validExport", "dupParam", "lexeme"} ->
         LET exc == IF lp = "none" THEN "none"
                    ELSE TupleParse(lp, lx, fl.lexg) IN
         IF exc = "none" THEN AfterParse(lp, lx, fl, QueueFull)
         ELSE IF exc \in MappedExc
              \* the message quotes the lexeme and ends in
              \* "\nCIM-XML response: None"
              THEN HttpError(400, TRUE, "nl", FALSE, fl)
         ELSE IF exc = "RecursionError" /\ fl.deep = "caught"
              THEN HttpError(400, TRUE, "plain", FALSE, fl)
         ELSE Dropped   \* handler thread dies, nothing was written

(* what rfile.read(content_len) hands to the parser                        *)
Seen(c) == CASE c.clen = "absent" -> "empty"       \* int(0): read(0)
             [] c.clen = "short"  -> "truncated"
             [] OTHER             -> c.body

(* the request up to the point where the handler has answered, died or     *)
(* blocks                                                                  *)
Pipeline(c, fl, QueueFull) ==
  IF c.verb = "unknown" THEN StdlibError(501)
  ELSE IF c.verb = "known" THEN HttpError(405, FALSE, "none", TRUE, fl)
  ELSE IF c.accept \in {"bad", "fold"}
       THEN HttpError(406, TRUE, HdrDet(c.accept), FALSE, fl)
  ELSE IF c.lpos = "acceptVal"   \* `accept not in (...)`: literal comparison
       THEN HttpError(406, TRUE, "plain", FALSE, fl)
  ELSE IF c.charset \in {"bad", "fold"}
       THEN HttpError(406, TRUE, HdrDet(c.charset), FALSE, fl)
  ELSE IF c.range # "absent"
       THEN HttpError(406, TRUE, HdrDet(c.range), FALSE, fl)
  ELSE IF c.ctype = "absent" THEN HttpError(406, TRUE, "plain", FALSE, fl)
  ELSE IF c.ctype \in {"bad", "fold"}
       THEN HttpError(406, TRUE, HdrDet(c.ctype), FALSE, fl)
  ELSE IF c.cenc \in {"bad", "fold"}
       THEN HttpError(406, TRUE, HdrDet(c.cenc), FALSE, fl)
  ELSE IF c.clen \in {"nonnum", "neg", "huge", "negone"} /\ fl.clchk
       THEN HttpError(400, TRUE, "plain", FALSE, fl)
  ELSE IF c.clen = "nonnum" THEN Dropped    \* int(): ValueError
  ELSE IF c.clen = "neg" THEN Dropped       \* read(-5): ValueError
  ELSE IF c.clen = "huge" THEN Dropped      \* read(10**20): OverflowError
  ELSE IF c.clen \in {"negone", "long"} THEN Waiting  \* read until EOF / n
  ELSE AfterRead(Seen(c), c.lpos, c.lex, fl, QueueFull)

(* a blocked handler continues when the peer closes its sending side: the  *)
(* read returns what was sent (negone: everything; long: fewer bytes than  *)
(* announced, i.e. the complete body the peer did send)                    *)
AfterPeerClose(c, fl, QueueFull) ==
  AfterRead(c.body, c.lpos, c.lex, fl, QueueFull)

(* comparison of an observation with the model (impl drift only)           *)
Same(o, p) ==
  /\ o.outcome = p.outcome
  /\ o.status = p.status
  /\ o.cimerror = p.cimerror
  /\ (o.rawnl \/ o.fold) = (p.rawnl \/ p.fold)
  /\ (o.status = 200 => (o.leaf = <<"ERROR">>) = (p.leaf = <<"ERROR">>))
=============================================================================
