----------------------------- MODULE IterClient -----------------------------
(***************************************************************************)
(* Requirement machine for the Iter... operations (C15), event style.      *)
(*                                                                         *)
(* One event = one complete use of one iterator on a connection:           *)
(*   fam      1..7  IterEnumerateInstances, IterEnumerateInstancePaths,    *)
(*                  IterReferenceInstances, IterReferenceInstancePaths,    *)
(*                  IterAssociatorInstances, IterAssociatorInstancePaths,  *)
(*                  IterQueryInstances                                     *)
(*   upo      "T" | "F" | "N"   use_pull_operations of the connection      *)
(*   srv      BOOLEAN  the server supports pull operations right now       *)
(*   fq, coe  BOOLEAN  FilterQuery(Language) / ContinueOnError supplied    *)
(*   fqc      class of the filter arguments (fq = (fqc # "none")):         *)
(*            "none"    neither FilterQueryLanguage nor FilterQuery        *)
(*            "fql"     FilterQueryLanguage='DMTF:FQL' + FilterQuery       *)
(*            "badlang" a language the server does not support + a query   *)
(*            "qonly"   FilterQuery without FilterQueryLanguage            *)
(*            "lonly"   FilterQueryLanguage='DMTF:FQL' without FilterQuery *)
(*   ot       class of OperationTimeout: "none" (None) | "zero" (0) |      *)
(*            "small" (1..server maximum) | "big" (above the server        *)
(*            maximum, 40 for the mock server)                             *)
(*   moc      "ok" | "zero" | "neg" | "none" | "badtype"                   *)
(*   mocn     the MaxObjectCount value when moc = "ok"                     *)
(*   trad     the traditional result (object ids), tradok                  *)
(*   consume  "exhaust" | "close" | "drop" ; k = items taken before        *)
(*   faulted  BOOLEAN: the server failed one Pull of this call with        *)
(*            CIM_ERR_FAILED (fault injection in the mock server)          *)
(*   res      "done" (iterator ended / was closed without exception)       *)
(*            | "CIMError" | "ValueError" | "TypeError" | other class name *)
(*   code     CIM status code when res = "CIMError", else 0                *)
(*   yielded  objects delivered to the caller, in order                    *)
(*   pathsok  every yielded object's path names the namespace, and the     *)
(*            host wherever the traditional response format omits it       *)
(*   nctx     enumeration contexts open on the server afterwards           *)
(*   fresh    result class of the same call on a fresh connection with the *)
(*            same setting against the same server state                   *)
(* The admissible outcome is a function of the CURRENT configuration only; *)
(* what the connection learned earlier never appears on the right-hand     *)
(* side - that is the "never makes a later call fail" clause.              *)
(***************************************************************************)
EXTENDS Naturals, Sequences, FiniteSets, TLC

Rng(q) == {q[i] : i \in DOMAIN q}
Injective(q) == \A i, j \in DOMAIN q : q[i] = q[j] => i = j
F(name, holds) == IF holds THEN {} ELSE {name}

NOT_SUPPORTED == 7
FAILED == 1

FiltClasses == {"none", "fql", "badlang", "qonly", "lonly"}
OtClasses == {"none", "zero", "small", "big"}

BadMoc(e) == e.moc # "ok"
UsesPull(e) == e.upo = "T" \/ (e.upo = "N" /\ e.srv)
Fallback(e) == ~UsesPull(e)

(* the documented error situations, in the order the statement lists them *)
MustRaise(e) ==
  IF BadMoc(e) THEN {"ValueError", "TypeError"}
  ELSE IF e.upo = "T" /\ ~e.srv THEN {"CIMError"}
  ELSE IF Fallback(e) /\ (e.fq \/ e.coe) THEN {"ValueError"}
  ELSE IF ~e.tradok
       THEN \* the traditional operation itself fails: its CIMError, or the
            \* documented ValueError when FilterQuery/ContinueOnError was
            \* given (precedence is not specified)
            {"CIMError"} \cup (IF e.fq \/ e.coe THEN {"ValueError"} ELSE {})
  ELSE {}

(* A pull-capable server that is asked to open an enumeration may reject   *)
(* the open parameters: "the server may reject the proposed value          *)
(* [OperationTimeout], causing a CIMError"; a filter needs "the pull       *)
(* operations and their filtering capability" of the server (the mock      *)
(* server documents: FilterQuery without language -> INVALID_PARAMETER,    *)
(* language other than DMTF:FQL -> QUERY_LANGUAGE_NOT_SUPPORTED,           *)
(* OperationTimeout above its maximum -> INVALID_PARAMETER).  Which status *)
(* code is left open; that the rejection surfaces as the CIMError is       *)
(* documented.  When FilterQuery/ContinueOnError was given the documented  *)
(* ValueError of the traditional fallback is admissible as well (the       *)
(* requirement does not say which path a connection is on).  The rejection *)
(* depends on the current configuration only, so a fresh connection is     *)
(* rejected as well.  A server WITHOUT pull never gets here: MustRaise and *)
(* the fallback clauses apply whatever the open parameters are.            *)
OpenRejectable(e) ==
  UsesPull(e) /\ e.srv /\ (e.fqc \in {"badlang", "qonly"} \/ e.ot # "none")
RejectErrs(e) == {"CIMError"} \cup (IF e.fq \/ e.coe THEN {"ValueError"} ELSE {})

(* the harness reports whether the injected server fault actually fired    *)
(* during this call (it depends on how the server batches its responses)   *)
FaultHits(e) == e.faulted

Prefix(p, q) == Len(p) <= Len(q) /\ \A i \in DOMAIN p : p[i] = q[i]

(* generators are lazy: an iterator that is closed or dropped before the   *)
(* first item was requested has not done anything                          *)
NeverStarted(e) == e.fam # 7 /\ e.consume # "exhaust" /\ e.k = 0
  \* (IterQueryInstances is not a generator function: it runs eagerly)

Fails(s, e) ==
  LET mr == MustRaise(e) IN
  F("Trace.KnownArgumentClasses",
    e.fqc \in FiltClasses /\ e.ot \in OtClasses /\ e.fq = (e.fqc # "none"))
  \cup
  IF NeverStarted(e)
  THEN F("Iter.UnstartedIteratorDoesNothing",
         e.res = "done" /\ e.yielded = <<>>)
       \cup F("NoLeak.NoContextLeftOpen", e.nctx <= 0)
  ELSE IF ~BadMoc(e) /\ OpenRejectable(e) /\ e.res # "done" /\ e.fresh # "done"
  THEN \* the server rejected the open parameters (or, ~tradok, the
       \* operation itself: the same error classes are admissible)
       F("Iter.RejectedOpenSurfacesAsCIMError.filt=" \o e.fqc \o ".ot=" \o e.ot,
         e.res \in RejectErrs(e))
       \cup F("Iter.NothingYieldedBeforeDocumentedError", e.yielded = <<>>)
       \cup F("NoLeak.NoContextLeftOpen", e.nctx <= 0)
  ELSE IF mr # {}
  THEN F("Iter.RaisesDocumentedError", e.res \in mr)
       \cup F("Iter.ForcedPullGetsServerError",
              ~(e.upo = "T" /\ ~e.srv /\ ~BadMoc(e)) \/ e.res # "CIMError"
              \/ e.code = NOT_SUPPORTED)
       \cup F("Iter.NothingYieldedBeforeDocumentedError", e.yielded = <<>>)
       \cup F("NoLeak.NoContextLeftOpen", e.nctx <= 0)
  ELSE IF FaultHits(e)
  THEN \* the server failed a Pull in the middle: the error surfaces, what was
       \* delivered so far is a duplicate-free part of the result, no leak
       F("Iter.ServerErrorSurfaces", e.res = "CIMError")
       \cup F("Iter.OnlyResultObjects", Rng(e.yielded) \subseteq Rng(e.trad))
       \cup F("Iter.NothingTwice", Injective(e.yielded))
       \cup F("NoLeak.NoContextLeftOpen", e.nctx <= 0)
  ELSE F("Iter.SucceedsWhenFreshConnectionWould",
         e.fresh # "done" \/ e.res = "done")
       \cup F("Iter.NoErrorInValidConfiguration", e.res = "done")
       \cup F("Iter.OnlyResultObjects", Rng(e.yielded) \subseteq Rng(e.trad))
       \cup F("Iter.NothingTwice", Injective(e.yielded))
       \cup F("Iter.ExactlyTraditionalResult",
              e.res # "done" \/ e.consume # "exhaust"
              \/ Rng(e.yielded) = Rng(e.trad))
       \cup F("Iter.YieldsRequestedItemsBeforeClose",
              e.res # "done" \/ e.consume = "exhaust"
              \/ Len(e.yielded) = (IF e.k < Len(e.trad) THEN e.k
                                   ELSE Len(e.trad)))
       \cup F("Iter.PathsNameNamespaceAndHost", e.pathsok)
       \cup F("NoLeak.NoContextLeftOpen", e.nctx <= 0)

InitState == [n |-> 0]
Apply(s, e) == [n |-> s.n + 1]
=============================================================================
