SPECIFICATION Spec
CONSTANTS
  TruncateBytesThenDecode = FALSE
  StopTimerNeedsFloat = FALSE
  RecorderConversionPartial = FALSE
INVARIANT NonInterference
INVARIANT ObserversTotal
INVARIANT StatsOnce
CHECK_DEADLOCK FALSE
