------------------------------ MODULE NocaseMap ------------------------------
(***************************************************************************)
(* X05 (extension) - requirement machine for pywbem.NocaseDict, the        *)
(* case-insensitive, case-preserving, ordered dictionary that holds        *)
(* properties, keybindings, qualifiers, methods, parameters of every CIM   *)
(* object.  (The list sibling NocaseList is in NocaseMapSeq.tla.)          *)
(*                                                                         *)
(* Sources of the requirement (R-sound: nothing else is demanded):         *)
(*  [P]  pywbem/_nocasedict.py module + class docstrings: "dictionary      *)
(*       ... with case-insensitive but case-preserving keys, and with      *)
(*       preservation of the order of its items", "Except for the          *)
(*       case-insensitivity of its keys, it behaves like the built-in      *)
(*       OrderedDict", "keyability by attribute 'name'", "the ability to   *)
(*       allow or disallow (by default) unnamed keys via a public          *)
(*       'allow_unnamed_keys' attribute", copy(): "Return a copy of the    *)
(*       dictionary, as an object of this class".                          *)
(*  [V]  pywbem/_vendor/nocasedict/_nocasedict.py class + method           *)
(*       docstrings (quoted at the clauses).                               *)
(*  [C]  docs/changes.rst 1.0.0: unnamed key (None) -> ValueError;         *)
(*       ordering of NocaseDict removed (TypeError).                       *)
(*  [Py] Python library reference, dict / dictionary view objects (which   *)
(*       [P] and [V] declare to "apply completely").                       *)
(*                                                                         *)
(* Clauses (names are what Fails returns):                                 *)
(*  Lookup.Nocase   d[k], get, in, del, pop, setdefault find the item      *)
(*                  whose key has the same casefold as k ([V] "looked up   *)
(*                  case-insensitively ... result of casefold").           *)
(*  Lookup.Result   value / KeyError / default exactly as for dict [Py].   *)
(*  Lookup.Probe    after every call, `variant in d` for some other case   *)
(*                  variant of every base agrees with the state.           *)
(*  Case.Preserved  keys returned (keys/items/iteration/popitem/copy)      *)
(*                  have "the lexical case that was originally specified   *)
(*                  when adding or updating the item" [V]: setitem/update  *)
(*                  of an existing key takes the NEW case; setdefault,     *)
(*                  lookups and failed calls do not change it.             *)
(*  Order.Insertion "maintains the order in which items were added" [V];   *)
(*                  updating an existing key happens "without affecting    *)
(*                  its position" [V update]; delete + add moves to the    *)
(*                  end; popitem removes "the last item that was added".   *)
(*  <op>.State      the item sequence after the call is the dict result.   *)
(*  Update.Result   constructor/update/fromkeys forms [V __init__/update]: *)
(*                  mapping, iterable of pairs, iterable of objects with   *)
(*                  the key attribute ('name', [P]), keyword arguments     *)
(*                  after the positional one; duplicates: "the last item   *)
(*                  for that key becomes the ... item"; more than one      *)
(*                  positional argument: TypeError.                        *)
(*  PopItem.Result  "Remove the last dictionary item ... return it as a    *)
(*                  tuple (key, value)"; KeyError if empty.                *)
(*  Iter.Keys / Iter.Reversed / KeysNocase   iteration, reversed(), len,   *)
(*                  keys_nocase() agree with the state.                    *)
(*  Views.Live      keys()/values()/items() objects obtained when the      *)
(*                  dictionary was created reflect every later change      *)
(*                  ([V] "Return a view on ..." + [Py] view objects).      *)
(*  Copy.Result / Copy.Independent   copy() / copy.deepcopy / pickle give  *)
(*                  an equal pywbem NocaseDict (same keys in the same      *)
(*                  case and order, same allow_unnamed_keys) whose item    *)
(*                  structure is independent of the original ([P] copy,    *)
(*                  [V] copy "middle-deep").  copy.copy is documented as   *)
(*                  "completely shallow": sharing accepted, not probed.    *)
(*  Unnamed.Rejected / Unnamed.ValueError / Unnamed.Flag   with            *)
(*                  allow_unnamed_keys False no call adds an item with     *)
(*                  key None; the rejection is a ValueError ([P]           *)
(*                  _check_unnamed_key, [C]).  Pure lookups with None may  *)
(*                  either be rejected or behave like dict (accepted).     *)
(*                  A failing update may have applied any prefix.          *)
(*  Ordering.TypeError  <, <=, >, >= raise TypeError [C], [Py].            *)
(*                                                                         *)
(* Equality and hash laws are C05's (CimEq*.tla) and not repeated here.    *)
(*                                                                         *)
(* Abstract universe: a key is <<base, variant>> (base = casefold class,   *)
(* variant = lexical case), None is <<0, 0>>; an item is <<b, v, value>>;  *)
(* the state is the item sequence + the allow_unnamed_keys flag.  The      *)
(* harness concretises bases to fold classes including non-ASCII ones      *)
(* (sharp s / 'SS' / capital sharp s, the three sigmas, Kelvin sign ...). *)
(***************************************************************************)
EXTENDS Naturals, Integers, Sequences, FiniteSets, TLC

NoneKey == <<0, 0>>
Key(it) == <<it[1], it[2]>>
Item(k, v) == <<k[1], k[2], v>>
F(name, holds) == IF holds THEN {} ELSE {name}
Rng(q) == {q[i] : i \in DOMAIN q}
Min(S) == CHOOSE x \in S : \A y \in S : x <= y
Front(q) == SubSeq(q, 1, Len(q) - 1)
Rev(q) == [i \in 1..Len(q) |-> q[Len(q) + 1 - i]]

(* position of the item with the casefold class of k (0 = none) *)
Pos(items, k) ==
  LET S == {i \in DOMAIN items : items[i][1] = k[1]} IN
  IF S = {} THEN 0 ELSE Min(S)
Del(items, p) == SubSeq(items, 1, p - 1) \o SubSeq(items, p + 1, Len(items))
Put(items, k, v) ==
  LET p == Pos(items, k) IN
  IF p = 0 THEN Append(items, Item(k, v))
  ELSE [items EXCEPT ![p] = Item(k, v)]      \* same position, new case
RECURSIVE PutAll(_, _)
PutAll(items, pairs) ==
  IF pairs = <<>> THEN items
  ELSE PutAll(Put(items, Key(Head(pairs)), Head(pairs)[3]), Tail(pairs))

(* a builtin dict made from the pairs: exact-key uniqueness *)
PutExact(items, it) ==
  LET S == {i \in DOMAIN items : Key(items[i]) = Key(it)} IN
  IF S = {} THEN Append(items, it) ELSE [items EXCEPT ![Min(S)] = it]
RECURSIVE DictOf2(_, _)
DictOf2(acc, pairs) ==
  IF pairs = <<>> THEN acc ELSE DictOf2(PutExact(acc, Head(pairs)), Tail(pairs))
DictOf(pairs) == DictOf2(<<>>, pairs)

Keys(items) == [i \in DOMAIN items |-> Key(items[i])]
Vals(items) == [i \in DOMAIN items |-> items[i][3]]
Folds(items) == [i \in DOMAIN items |-> items[i][1]]
FirstNone(q) ==
  LET S == {i \in DOMAIN q : Key(q[i]) = NoneKey} IN
  IF S = {} THEN 0 ELSE Min(S)

(* ---- results ---------------------------------------------------------- *)
R0 == [tag |-> "none", val |-> 0, err |-> "", item |-> <<0, 0, 0>>,
       items |-> <<>>, type |-> "", unn |-> FALSE]
RNone == R0
RVal(v) == [R0 EXCEPT !.tag = "val", !.val = v]
RBool(b) == [R0 EXCEPT !.tag = "bool", !.val = IF b THEN 1 ELSE 0]
RErr(x) == [R0 EXCEPT !.tag = "err", !.err = x]
RItem(it) == [R0 EXCEPT !.tag = "item", !.item = it]
RCopy(items, ty, unn) ==
  [R0 EXCEPT !.tag = "copy", !.items = items, !.type = ty, !.unn = unn]

InitState == [items |-> <<>>, unn |-> FALSE]
Out(r, items, unn) == [res |-> r, items |-> items, unn |-> unn]
Same(s, r) == Out(r, s.items, s.unn)
Blocked(s, k) == k = NoneKey /\ ~s.unn

KeyOps == {"setitem", "getitem", "get", "contains", "delitem", "pop",
           "setdefault"}
BulkOps == {"update", "new", "fromkeys"}

(* dict semantics of the operations that take one key *)
Plain(s, e) ==
  LET p == Pos(s.items, e.k)
      d == IF e.hasd THEN e.val ELSE 0 IN
  CASE e.op = "setitem" -> Out(RNone, Put(s.items, e.k, e.val), s.unn)
    [] e.op = "getitem" -> IF p = 0 THEN Same(s, RErr("KeyError"))
                           ELSE Same(s, RVal(s.items[p][3]))
    [] e.op = "get" -> Same(s, RVal(IF p # 0 THEN s.items[p][3] ELSE d))
    [] e.op = "contains" -> Same(s, RBool(p # 0))
    [] e.op = "delitem" -> IF p = 0 THEN Same(s, RErr("KeyError"))
                           ELSE Out(RNone, Del(s.items, p), s.unn)
    [] e.op = "pop" -> IF p # 0
                       THEN Out(RVal(s.items[p][3]), Del(s.items, p), s.unn)
                       ELSE IF e.hasd THEN Same(s, RVal(e.val))
                       ELSE Same(s, RErr("KeyError"))
    [] e.op = "setdefault" ->
         IF p # 0 THEN Same(s, RVal(s.items[p][3]))
         ELSE Out(RVal(d), Put(s.items, e.k, d), s.unn)

(* effective (key, value) sequence of constructor / update arguments *)
Eff(e) ==
  (CASE e.form \in {"dict", "odict"} -> DictOf(e.pairs)
     [] e.form = "ncdict" -> PutAll(<<>>, e.pairs)
     [] OTHER -> e.pairs) \o e.kw

(* principal expected outcome *)
Exp(s, e) ==
  CASE e.op \in KeyOps ->
         IF Blocked(s, e.k) THEN Same(s, RErr("ValueError")) ELSE Plain(s, e)
    [] e.op = "popitem" ->
         IF s.items = <<>> THEN Same(s, RErr("KeyError"))
         ELSE Out(RItem(s.items[Len(s.items)]), Front(s.items), s.unn)
    [] e.op = "clear" -> Out(RNone, <<>>, s.unn)
    [] e.op = "setunnamed" -> Out(RNone, s.items, e.flag)
    [] e.op = "kbnew" -> Out(RNone, <<>>, TRUE)
    [] e.op = "order" -> Same(s, RErr("TypeError"))
    [] e.op = "copy" -> Same(s, RCopy(s.items, "NocaseDict", s.unn))
    [] e.op = "update" ->
         IF e.nargs > 1 THEN Same(s, RErr("TypeError"))
         ELSE LET eff == Eff(e)
                  fn == IF s.unn THEN 0 ELSE FirstNone(eff) IN
              IF fn = 0 THEN Out(RNone, PutAll(s.items, eff), s.unn)
              ELSE Out(RErr("ValueError"),
                       PutAll(s.items, SubSeq(eff, 1, fn - 1)), s.unn)
    [] e.op \in {"new", "fromkeys"} ->
         IF e.nargs > 1 THEN Same(s, RErr("TypeError"))
         ELSE LET eff == Eff(e) IN
              IF FirstNone(eff) = 0 THEN Out(RNone, PutAll(<<>>, eff), FALSE)
              ELSE Same(s, RErr("ValueError"))  \* no new object: keep the old
    [] OTHER -> Same(s, RErr("UNKNOWN-OP"))

(* other admissible outcomes (freedom left by the documentation) *)
Alts(s, e) ==
  CASE e.op \in KeyOps /\ Blocked(s, e.k) ->
         LET pl == Plain(s, e) IN
         IF Pos(pl.items, NoneKey) # 0 /\ Pos(s.items, NoneKey) = 0
         THEN {} ELSE {pl}
    [] e.op = "update" /\ e.nargs <= 1 ->
         LET eff == Eff(e)
             fn == IF s.unn THEN 0 ELSE FirstNone(eff) IN
         IF fn = 0 THEN {}
         ELSE {Out(RErr("ValueError"), PutAll(s.items, SubSeq(eff, 1, j)),
                   s.unn) : j \in 0..(fn - 1)}
    [] OTHER -> {}

Obs(e) == Out(e.res, e.dump.items, e.dump.unn)

(* ---- naming the violated clause ---------------------------------------- *)
ResClause(s, e, x, o) ==
  CASE x.res.tag = "err" /\ x.res.err = "ValueError" /\ o.res.tag = "err"
         -> "Unnamed.ValueError"
    [] x.res.tag = "err" /\ x.res.err = "ValueError" -> "Unnamed.Rejected"
    [] e.op = "order" -> "Ordering.TypeError"
    [] e.op = "copy" -> "Copy.Result"
    [] e.op \in BulkOps -> "Update.Result"
    [] e.op = "popitem" ->
         IF o.res.tag = "item" /\ x.res.tag = "item"
            /\ o.res.item[1] = x.res.item[1] /\ o.res.item[3] = x.res.item[3]
         THEN "Case.Preserved" ELSE "PopItem.Result"
    [] e.op \in KeyOps ->
         LET p == Pos(s.items, e.k) IN
         IF p # 0 /\ Key(s.items[p]) # e.k THEN "Lookup.Nocase"
         ELSE "Lookup.Result"
    [] OTHER -> "Result"

StateClause(e, xi, oi) ==
  IF Len(xi) = Len(oi) /\ \A i \in DOMAIN xi :
        xi[i][1] = oi[i][1] /\ xi[i][3] = oi[i][3]
  THEN {"Case.Preserved"}
  ELSE IF Len(xi) = Len(oi) /\ Rng(xi) = Rng(oi)
  THEN {"Order.Insertion"}
  ELSE IF Len(xi) = Len(oi) /\
          {<<it[1], it[3]>> : it \in Rng(xi)} = {<<it[1], it[3]>> : it \in Rng(oi)}
  THEN {"Order.Insertion", "Case.Preserved"}
  ELSE IF e.op = "copy" THEN {"Copy.Independent"}
  ELSE IF NoneKey \in Rng(Keys(oi)) /\ NoneKey \notin Rng(Keys(xi))
  THEN {"Unnamed.Rejected"}
  ELSE {e.op \o ".State"}

DumpFails(items, d) ==
  F("Iter.Keys", d.iter = Keys(items) /\ d.len = Len(items))
  \cup F("Iter.Reversed", d.rev = Rev(Keys(items)))
  \cup F("Views.Live", d.vkeys = Keys(items) /\ d.vvals = Vals(items)
                       /\ d.vitems = items /\ d.vlen = Len(items))
  \cup F("KeysNocase", d.folds = Folds(items))
  \cup F("Lookup.Probe", \A i \in DOMAIN d.has :
            (d.has[i][2] = 1) = (Pos(items, <<d.has[i][1], 1>>) # 0))

(* verdict and next abstract state in one evaluation *)
Judge(s, e) ==
  LET x == Exp(s, e)
      o == Obs(e)
      alt == o # x /\ o \in Alts(s, e)
      nx == IF alt THEN o ELSE x IN
  [next |-> [items |-> nx.items, unn |-> nx.unn],
   fails |->
     IF o = x \/ alt THEN DumpFails(nx.items, e.dump)
     ELSE (IF o.res # x.res THEN {ResClause(s, e, x, o)} ELSE {})
          \cup (IF o.items # x.items THEN StateClause(e, x.items, o.items)
                ELSE {})
          \cup F("Unnamed.Flag", o.unn = x.unn)]
Fails(s, e) == Judge(s, e).fails
Apply(s, e) == Judge(s, e).next

(* state invariant of the reference model: casefold-unique keys *)
FoldUnique(s) ==
  \A i, j \in DOMAIN s.items : i # j => s.items[i][1] # s.items[j][1]
=============================================================================
