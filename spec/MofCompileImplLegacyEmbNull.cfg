\* regression config: dependency fix-up calls .lower() on the value of an EmbeddedInstance qualifier without value (must violate ImplRefinesReq: AttributeError)
SPECIFICATION Spec
CONSTANTS
  MaxProd = 1
  MaxDepth = 6
  OnlyKinds = {"class"}
  IncludeGuard = TRUE
  NsNoneCheck = TRUE
  HexBounds = TRUE
  CtxBounds = TRUE
  ValueWrapped = TRUE
  RepoWrapped = TRUE
  EmbFinally = TRUE
  RestoreOnReturn = TRUE
  EmbRestoreAll = TRUE
  SuperCheckFirst = TRUE
  AncestryWalk = TRUE
  GuardCanonical = TRUE
  RegisterAfterCreate = TRUE
  NsCachesInit = TRUE
  EmbNullChecked = FALSE
  OverflowWrapped = TRUE
  InstOffsetAll = TRUE
  OpenPrecheck = TRUE
  EmbLexerClone = TRUE
INVARIANT TypeOK
INVARIANT ImplRefinesReq
INVARIANT PositionFileOK
INVARIANT Reusable

CHECK_DEADLOCK FALSE
