-------------------------- MODULE RespPipelineTrace --------------------------
(* Verdicts on observed calls for C02: every event is one call of a public  *)
(* WBEMConnection operation answered with a rendered cell; RespPipeline     *)
(* (requirement) decides, the code-shaped pipeline is compared for drift     *)
(* (cells with at most one defect; the observed outcome must be one the      *)
(* model produces with the pinned leaks or with all leaks repaired).          *)
EXTENDS RespPipelineImplOps, Json, IOUtils

VARIABLES tid, l, verdict, ts, ti, drifted

ObsName(e) == IF e.kind = "value"
              THEN (IF e.typeok THEN "value" ELSE "BADTYPE")
              ELSE IF e.kind = "hang" THEN "HANG" ELSE e.cls

ImplCmp(i, e) ==
  LET defs == Rng(e.defects)
      exp == ImplOutcomes(PinnedLeaks, e.shape, defs) \cup
             ImplOutcomes({}, e.shape, defs) IN
  << IF Cardinality(defs) <= 1 THEN F("outcome", ObsName(e) \in exp) ELSE {},
     i >>

TraceBatch == JsonDeserialize(IOEnv.TRACE_FILE).traces

TK == INSTANCE TraceKit WITH
        TTraces <- TraceBatch,
        TInit0 <- InitState, TFails <- Fails, TApply <- Apply,
        TInv <- LAMBDA st : TRUE,
        TImpl0 <- 0, TImplStep <- ImplCmp
TSpec == TK!TSpec
=============================================================================
