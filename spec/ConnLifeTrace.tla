---------------------------- MODULE ConnLifeTrace ----------------------------
(* X04: every event recorded from the real pywbem objects (harness/         *)
(* connlife_h.py) is judged here by the requirement machine ConnLife; in     *)
(* lock step the code-shaped machine ConnLifeImplOps (constants = the shape  *)
(* of the tree under test) predicts every observed field, a difference is    *)
(* impl drift (printed as <<"D", ...>>), never a deviation.                  *)
EXTENDS ConnLifeImplOps, Json, IOUtils

VARIABLES tid, l, verdict, ts, ti, drifted

TraceBatch == JsonDeserialize(IOEnv.TRACE_FILE).traces

TK == INSTANCE TraceKit WITH
        TTraces <- TraceBatch,
        TInit0 <- InitState, TFails <- Fails, TApply <- Apply,
        TInv <- WellFormed,
        TImpl0 <- Impl0, TImplStep <- ImplCmp
TSpec == TK!TSpec
=============================================================================
