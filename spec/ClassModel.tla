------------------------------ MODULE ClassModel ------------------------------
(***************************************************************************)
(* Requirement machine for C12: class inheritance is resolved correctly    *)
(* and class queries mirror the hierarchy.                                 *)
(*                                                                         *)
(* Abstract universe.  A class forest is a function                        *)
(*     F : class id -> [super, d]                                          *)
(* where d is what the class itself DECLARES (never anything inherited):   *)
(*     d = [cq |-> QMap,                      class-level qualifiers       *)
(*          el |-> [k, p, q, m |-> ED]]       k,p,q properties, m method   *)
(*     ED = [present, ovr, quals, xquals,     xquals: parameter x of m     *)
(*           fl, xfl, pars]                   see below                    *)
(* A QMap is a 4-tuple of value tokens ("" = qualifier not given) for the  *)
(* qualifier declarations  QA (ToSubclass, EnableOverride),                *)
(* QB (Restricted, EnableOverride), QC (ToSubclass, DisableOverride) and   *)
(* Key (ToSubclass, DisableOverride).  Every declaration carries a version *)
(* token = the id of the declaring class (concretely: the default value of *)
(* a property / a Description qualifier), so that one can tell WHICH       *)
(* declaration a query exposes.  Names are abstract ids: lexical case is    *)
(* randomised by the harness when it concretises, and folded when it        *)
(* projects; results therefore must not depend on it.                       *)
(*                                                                         *)
(* FLAVORS ON THE USE.  Every qualifier use may carry explicit flavors      *)
(* (MOF `[QA("1") : Restricted DisableOverride]`, API CIMQualifier(...,     *)
(* tosubclass=False, overridable=False)): cfl / fl / xfl are 4-tuples of    *)
(* pairs <<ts, ov>>, ts \in {"", "T", "R"}, ov \in {"", "E", "D"} ("" = not   *)
(* given: the flavor of the qualifier declaration applies).  The flavor of *)
(* the declaration is a DEFAULT; the flavor that governs the flow below a   *)
(* class is the one of the exposed qualifier use (EX).  One case is left    *)
(* undecided: a use that restates an inherited DisableOverride qualifier    *)
(* and says EnableOverride (both readings admissible).                      *)
(*                                                                         *)
(* PARAMETER LISTS.  el.m.pars is the parameter list of the method          *)
(* declaration ("x", "xy", "y", ""); an override whose list differs from    *)
(* the overridden method's changes the signature: acceptance and refusal    *)
(* by a CIM error are both admissible (never another exception); below an   *)
(* accepted signature change the parameters are not judged.                 *)
(*                                                                         *)
(* CLIENT OBJECTS.  A class passed to CreateClass/ModifyClass is a VALUE:   *)
(* events carry the handle `obj` of the client-side object and the          *)
(* declaration d the client put into it.  Passing the same object again     *)
(* means passing d again; "ClientEdit" (the client changes an object it     *)
(* passed or received, no request) leaves the forest unchanged.             *)
(*                                                                         *)
(* Exposed(c) is defined declaratively by recursion over the ancestors:    *)
(* nearest declaration wins (Nearest), class_origin = first introducer     *)
(* (Origin), propagated per PropAdm, qualifiers per flavor (EQ).  Where    *)
(* the statement is silent the admissible set has more than one member.    *)
(*                                                                         *)
(* Event style: Judge(s, e) = names of violated clauses, ApplyOp(s, e) =   *)
(* next abstract state.  The clauses of ALL events of a trace are          *)
(* accumulated in the state and handed to TraceKit by the final "End"      *)
(* event, so that one known deviation does not hide later ones; a clause   *)
(* is tagged with the index of its event ("17|Get.Exposed....").           *)
(* Clauses starting with "SOFT:" are observations the statement does not   *)
(* decide; they are reported as drift, never as violations.                *)
(***************************************************************************)
EXTENDS Naturals, Sequences, FiniteSets, TLC

QI == 1..4                       \* QA, QB, QC, Key
ToSub(i) == i # 2
Overridable(i) == i \in {1, 2}
FlavorText(i) == CASE i = 1 -> "QA.ToSubclass.EnableOverride"
                   [] i = 2 -> "QB.Restricted.EnableOverride"
                   [] i = 3 -> "QC.ToSubclass.DisableOverride"
                   [] i = 4 -> "Key.ToSubclass.DisableOverride"
Q0 == <<"", "", "", "">>
Elems == {"k", "p", "q", "m"}
Props == {"k", "p", "q"}
Positions == {"cls", "k", "p", "q", "m", "mx"}
PosElem(pos) == IF pos = "mx" THEN "m" ELSE pos
ElType(e) == IF e = "m" THEN "method" ELSE "property"
Rng(sq) == {sq[i] : i \in DOMAIN sq}
F1(name, holds) == IF holds THEN {} ELSE {name}

E_INVALID_SUPERCLASS == 10

(*------------------------- the forest ------------------------------------*)
Par(F, c) == IF F[c].super \in (DOMAIN F) \ {c} THEN F[c].super ELSE ""
Children(F, c) == {x \in DOMAIN F : Par(F, x) = c}
Roots(F) == {x \in DOMAIN F : Par(F, x) = ""}
RECURSIVE Anc(_, _)              \* c and its ancestors
Anc(F, c) == IF Par(F, c) = "" THEN {c} ELSE {c} \cup Anc(F, Par(F, c))
Subtree(F, c) == {x \in DOMAIN F : c \in Anc(F, x)}

(*------------------------ Exposed(c), declaratively -----------------------*)
Declares(F, c, e) == F[c].d.el[e].present
RECURSIVE Exposes(_, _, _)
Exposes(F, c, e) ==
  Declares(F, c, e) \/ (Par(F, c) # "" /\ Exposes(F, Par(F, c), e))
Inherited(F, c, e) == Par(F, c) # "" /\ Exposes(F, Par(F, c), e)

RECURSIVE Origin(_, _, _)        \* the ancestor that FIRST introduced e
Origin(F, c, e) == IF Inherited(F, c, e) THEN Origin(F, Par(F, c), e) ELSE c
RECURSIVE Nearest(_, _, _)       \* the nearest declaration wins
Nearest(F, c, e) == IF Declares(F, c, e) \/ Par(F, c) = "" THEN c
                    ELSE Nearest(F, Par(F, c), e)

Kind(F, c, e) == IF ~Declares(F, c, e) THEN "propagated"
                 ELSE IF Inherited(F, c, e) THEN "overriding" ELSE "new"
(* propagated: TRUE for elements the class does not redeclare, FALSE for   *)
(* newly introduced ones, unconstrained for overriding ones                *)
PropAdm(F, c, e) == CASE Kind(F, c, e) = "propagated" -> {"T"}
                      [] Kind(F, c, e) = "new" -> {"F"}
                      [] OTHER -> {"T", "F"}

(* qualifier positions: class level, an element, the parameter of m *)
PosRedecl(F, c, pos) == pos = "cls" \/ Declares(F, c, PosElem(pos))
PosInherited(F, c, pos) ==
  IF pos = "cls" THEN Par(F, c) # "" ELSE Inherited(F, c, PosElem(pos))
LocalQ(F, c, pos) == IF pos = "cls" THEN F[c].d.cq
                     ELSE IF pos = "mx" THEN F[c].d.el["m"].xquals
                     ELSE F[c].d.el[pos].quals

LocalFl(F, c, pos) == IF pos = "cls" THEN F[c].d.cfl
                      ELSE IF pos = "mx" THEN F[c].d.el["m"].xfl
                      ELSE F[c].d.el[pos].fl
NoFl == <<"", "">>
FL0 == <<NoFl, NoFl, NoFl, NoFl>>
(* effective flavor <<tosubclass, overridable>> of a local use *)
UseFlavor(fl, i) == << IF fl[i][1] = "" THEN ToSub(i) ELSE fl[i][1] = "T",
                       IF fl[i][2] = "" THEN Overridable(i) ELSE fl[i][2] = "E" >>
NoQ == [v |-> {""}, f |-> {}]

(* EX(F, c, pos, i) = [v |-> admissible exposed values of qualifier i at    *)
(* position pos of class c, f |-> admissible flavors <<ts, ov>> of that     *)
(* exposed use] (f = {} when nothing is exposed; ts is always determined)   *)
RECURSIVE EX(_, _, _, _)
EX(F, c, pos, i) ==
  LET lv == LocalQ(F, c, pos)[i]
      inh == PosInherited(F, c, pos)
      up == EX(F, Par(F, c), pos, i) IN
  IF PosRedecl(F, c, pos)
  THEN IF lv # ""                                \* given locally: it wins
       THEN LET base == UseFlavor(LocalFl(F, c, pos), i)
                doubt == /\ inh /\ base[2] /\ up.v # {""}
                         /\ \E f \in up.f : f[1] /\ ~f[2] IN
            [v |-> {lv},
             f |-> IF doubt THEN {base, <<base[1], FALSE>>} ELSE {base}]
       ELSE IF inh
       THEN LET flow == {f \in up.f : f[1]} IN     \* ToSubclass flows down
            [v |-> (IF flow # {} THEN up.v ELSE {})
                   \cup (IF flow # up.f \/ up.f = {} THEN {""} ELSE {}),
             f |-> flow]                          \* Restricted: must not flow
       ELSE NoQ
  ELSE \* the class does not redeclare the element: it is the ancestor's
       [v |-> IF \A f \in up.f : f[1] THEN up.v
              ELSE up.v \cup {""},                 \* DSP0004 ambiguous: both
        f |-> up.f]
EQ(F, c, pos, i) == EX(F, c, pos, i).v

PosKind(F, c, pos) ==
  IF pos = "cls"
  THEN (IF Par(F, c) = "" THEN "classlevel-root" ELSE "classlevel-subclass")
  ELSE Kind(F, c, PosElem(pos)) \o "-" \o
       (IF pos = "mx" THEN "parameter" ELSE ElType(pos))

(* detail for clause names: does a strict ancestor RESTATE the qualifier   *)
(* (give it locally although it inherits one)?                             *)
RestatedAbove(F, c, pos, i) ==
  \E a \in Anc(F, c) \ {c} :
     /\ PosRedecl(F, a, pos) /\ PosInherited(F, a, pos)
     /\ LocalQ(F, a, pos)[i] # ""
     /\ EQ(F, Par(F, a), pos, i) # {""}
FlavorOnUse(F, c, pos, i) ==     \* c or an ancestor gives explicit flavors
  \E a \in Anc(F, c) : /\ LocalQ(F, a, pos)[i] # ""
                       /\ LocalFl(F, a, pos)[i] # NoFl
QDetail(F, c, pos, i) ==
  PosKind(F, c, pos) \o "." \o FlavorText(i) \o
  (IF RestatedAbove(F, c, pos, i) THEN ".belowRestatingAncestor" ELSE "") \o
  (IF FlavorOnUse(F, c, pos, i) THEN ".flavorOnUse" ELSE "")

(*------------- which class declarations must be refused -------------------*)
NoOverride(F, c) ==          \* redeclares an inherited element w/o Override
  {e \in Elems : Declares(F, c, e) /\ ~F[c].d.el[e].ovr /\ Inherited(F, c, e)}
Restates(F, c, pos, i) ==    \* gives a qualifier the position also inherits
  /\ PosRedecl(F, c, pos) /\ PosInherited(F, c, pos)
  /\ LocalQ(F, c, pos)[i] # ""
  /\ EQ(F, Par(F, c), pos, i) # {""}
DisableConflicts(F, c) ==    \* DisableOverride qualifier with another value
  {pi \in Positions \X QI :
     LET pos == pi[1]
         i == pi[2]
         up == EX(F, Par(F, c), pos, i) IN
     /\ Restates(F, c, pos, i)
     /\ up.f # {} /\ \A f \in up.f : f[1] /\ ~f[2]
     /\ LocalQ(F, c, pos)[i] \notin up.v}
(* the statement does not decide: restating a (Restricted, DisableOverride) *)
(* qualifier, or changing a value whose DisableOverride flavor an ancestor  *)
(* restated as EnableOverride                                               *)
UndecidedRestate(F, c) ==
  {pi \in (Positions \X QI) \ DisableConflicts(F, c) :
     LET pos == pi[1]
         i == pi[2]
         up == EX(F, Par(F, c), pos, i) IN
     /\ Restates(F, c, pos, i)
     /\ \E f \in up.f : ~f[2]
     /\ ~((\A f \in up.f : f[1]) /\ LocalQ(F, c, pos)[i] \in up.v)}
(* parameter list of the method c exposes; an override that changes it *)
ParsOf(F, c) == F[Nearest(F, c, "m")].d.el["m"].pars
HasX(pars) == pars \in {"x", "xy"}
SubPars(a, b) == a = b \/ a = "" \/ (b = "xy" /\ a \in {"x", "y"})
SigChange(F, c) == /\ Declares(F, c, "m") /\ Inherited(F, c, "m")
                   /\ F[c].d.el["m"].pars # ParsOf(F, Par(F, c))
SigChangedAbove(F, c) == \E a \in Anc(F, c) : SigChange(F, a)
Undecided(F, c) == UndecidedRestate(F, c) # {} \/ SigChange(F, c)
UndecidedText(F, c) == IF SigChange(F, c)
                       THEN "overriding-method.parameterListDiffers"
                       ELSE "restatedDisableOverrideQualifier"
DanglingOverride(F, c) ==    \* Override on an element nobody declared: silent
  {e \in Elems : Declares(F, c, e) /\ F[c].d.el[e].ovr /\ ~Inherited(F, c, e)}

RejectClauses(op, F, c) ==
  {op \o ".AcceptedRedeclarationWithoutOverride." \o ElType(e) :
       e \in NoOverride(F, c)}
  \cup {op \o ".AcceptedDisableOverrideConflict." \o
           QDetail(F, c, pi[1], pi[2]) :
             pi \in {x \in DisableConflicts(F, c) :
                      x[1] # "mx" \/ ~SigChangedAbove(F, c)}}

IsRejection(e) == ~e.ok /\ (e.kind = "cimerror" \/
                            (e.via = "mof" /\ e.kind = "moferror"))

CreateJudge(s, e) ==
  LET F == s.cls
      c == e.name IN
  IF c \in DOMAIN F \/ e.super = c THEN {}                \* not driven
  ELSE IF e.super # "" /\ e.super \notin DOMAIN F
  THEN F1("Create.AcceptedMissingSuperclass", ~e.ok)
       \cup F1("Create.MissingSuperclassNotRejectedByCIMError",
               e.ok \/ IsRejection(e))
       \cup F1("Create.MissingSuperclassStatusNotInvalidSuperclass",
               e.ok \/ e.via # "api" \/ e.kind # "cimerror" \/
               e.code = E_INVALID_SUPERCLASS)
  ELSE LET F2 == (c :> [super |-> e.super, d |-> e.d]) @@ F
           must == RejectClauses("Create", F2, c) IN
       IF must # {}
       THEN IF e.ok THEN must
            ELSE F1(IF SigChange(F2, c)
                    THEN "Create.NeitherAcceptedNorRejectedByCIMError." \o
                         UndecidedText(F2, c)
                    ELSE "Create.RejectionNotCIMError", IsRejection(e))
       ELSE IF Undecided(F2, c)
       THEN F1("Create.NeitherAcceptedNorRejectedByCIMError." \o
                  UndecidedText(F2, c), e.ok \/ IsRejection(e))
       ELSE F1("Create.ValidClassRejected",
               e.ok \/ DanglingOverride(F2, c) # {})

HasInst(s, c) == \E x \in s.insts : x[1] = c
ModifyJudge(s, e) ==
  LET F == s.cls
      c == e.name IN
  IF c \notin DOMAIN F \/ e.super # F[c].super THEN {}     \* not driven
  ELSE LET F2 == [F EXCEPT ![c].d = e.d]
           must == RejectClauses("Modify", F2, c)
           busy == Children(F, c) # {} \/ HasInst(s, c) IN
       IF must # {}
       THEN IF e.ok THEN must
            ELSE F1(IF SigChange(F2, c)
                    THEN "Modify.NeitherAcceptedNorRejectedByCIMError." \o
                         UndecidedText(F2, c)
                    ELSE "Modify.RejectionNotCIMError", IsRejection(e))
       ELSE IF Undecided(F2, c)
       THEN F1("Modify.NeitherAcceptedNorRejectedByCIMError." \o
                  UndecidedText(F2, c), e.ok \/ IsRejection(e))
       ELSE F1("Modify.ValidModificationRejected",
               e.ok \/ busy \/ DanglingOverride(F2, c) # {})

(*-------------------- comparing a returned class --------------------------*)
(* exact: the result must be Exposed(c); otherwise it must be below        *)
(* Exposed(c) in the information order (filters only remove)               *)
QMismatch(v, adm) == IF v = "" THEN "missing"
                     ELSE IF adm = {""} THEN "unexpected" ELSE "wrongvalue"
QualClauses(F, c, pos, obs, exact, pre) ==
  UNION {LET adm == EQ(F, c, pos, i) IN
         IF obs[i] \in adm \/ (~exact /\ obs[i] = "") THEN {}
         ELSE {pre \o ".Qualifier." \o QDetail(F, c, pos, i) \o "." \o
               QMismatch(obs[i], adm)} : i \in QI}

ElemClauses(F, c, e, r, exact, pre) ==
  LET kd == Kind(F, c, e) \o "-" \o ElType(e) IN
  IF ~r.present
  THEN F1(pre \o ".Element." \o kd \o ".missing", ~exact \/ ~Exposes(F, c, e))
  ELSE IF ~Exposes(F, c, e)
  THEN {pre \o ".Element." \o ElType(e) \o ".notDeclaredByClassOrAncestors"}
  ELSE F1(pre \o ".Unclassifiable." \o r.odd, r.odd = "")
       \cup F1(pre \o ".NearestDeclarationWins." \o kd,
               r.ver = Nearest(F, c, e) \/ (~exact /\ r.ver = ""))
       \cup F1(pre \o ".ClassOrigin." \o kd \o
                  (IF r.origin = "" THEN ".absent" ELSE ".notFirstIntroducer"),
               r.origin = Origin(F, c, e) \/ (~exact /\ r.origin = ""))
       \cup F1(pre \o ".Propagated." \o kd \o ".is" \o r.prop,
               r.prop \in PropAdm(F, c, e) \/ (~exact /\ r.prop = "N"))
       \cup QualClauses(F, c, e, r.quals, exact, pre)
       \cup (IF e # "m" \/ SigChangedAbove(F, c) THEN {}
             ELSE F1(pre \o ".Parameter." \o kd \o
                        ".parameterListNotOfNearestDeclaration",
                     IF exact THEN r.pars = ParsOf(F, c)
                     ELSE SubPars(r.pars, ParsOf(F, c)))
                  \cup (IF ~r.hasx \/ ~HasX(ParsOf(F, c)) THEN {}
                        ELSE QualClauses(F, c, "mx", r.xquals, exact, pre)))

ClassClauses(F, c, r, exact, pre) ==
  F1(pre \o ".ClassName", r.name = c)
  \cup F1(pre \o ".Superclass", r.super = F[c].super)
  \cup F1(pre \o ".Unclassifiable." \o r.extra, r.extra = "")
  \cup QualClauses(F, c, "cls", r.cq, exact, pre)
  \cup UNION {ElemClauses(F, c, e, r.el[e], exact, pre) : e \in Elems}

NoQualifiers(r) == r.ncq = 0 /\ \A e \in Elems : r.el[e].nq = 0 /\ r.el[e].nxq = 0
NoOrigins(r) == \A e \in Elems : r.el[e].origin = ""
(* flags are "T", "F" or "N" (not supplied: only the information order) *)
FlagClauses(op, e, r) ==
  F1(op \o ".IncludeQualifiersFalse.HasQualifiers", e.iq # "F" \/ NoQualifiers(r))
  \cup F1(op \o ".IncludeClassOriginFalse.HasClassOrigin",
          e.ico # "F" \/ NoOrigins(r))
  \cup F1(op \o ".PropertyList.PropertyOutsideList",
          ~e.hp \/ \A x \in Props : r.el[x].present => x \in Rng(e.pl))
IsFull(e) == e.lo = "F" /\ e.iq = "T" /\ e.ico = "T" /\ ~e.hp

GetJudge(s, e) ==
  LET F == s.cls IN
  IF e.name \notin DOMAIN F THEN {}
  ELSE IF ~e.ok THEN {"Get.FailedOnExistingClass"}
  ELSE ClassClauses(F, e.name, e.cls, IsFull(e),
                    IF IsFull(e) THEN "Get.Exposed" ELSE "Get.FilterOnlyRemoves")
       \cup FlagClauses("Get", e, e.cls)

(*------------------------- enumerations -----------------------------------*)
EnumTargets(F, cn, deep) ==
  IF cn = "" THEN (IF deep THEN DOMAIN F ELSE Roots(F))
  ELSE IF deep THEN Subtree(F, cn) \ {cn} ELSE Children(F, cn)
NamesClauses(op, e, got, want) ==
  LET w == op \o (IF e.deep THEN ".ExactlySubtree" ELSE ".ExactlyChildren")
             \o (IF e.name = "" THEN "FromRoot" ELSE "OfClass") IN
  F1(w \o ".missing", want \subseteq Rng(got))
  \cup F1(w \o ".extra", Rng(got) \subseteq want)
  \cup F1(op \o ".NoDuplicates", Len(got) = Cardinality(Rng(got)))

EnumNamesJudge(s, e) ==
  LET F == s.cls IN
  IF e.name # "" /\ e.name \notin DOMAIN F THEN {}
  ELSE IF ~e.ok THEN {"EnumClassNames.FailedOnExistingClass"}
  ELSE NamesClauses("EnumClassNames", e, e.names, EnumTargets(F, e.name, e.deep))

EnumClassesHard(s, e) ==
  LET F == s.cls
      names == [i \in DOMAIN e.classes |-> e.classes[i].name] IN
  IF e.name # "" /\ e.name \notin DOMAIN F THEN {}
  ELSE IF ~e.ok THEN {"EnumClasses.FailedOnExistingClass"}
  ELSE NamesClauses("EnumClasses", e, names, EnumTargets(F, e.name, e.deep))
       \cup UNION {LET r == e.classes[i] IN
                   IF r.name \notin DOMAIN F THEN {}
                   ELSE ClassClauses(F, r.name, r, FALSE,
                                     "EnumClasses.FilterOnlyRemoves")
                        \cup FlagClauses("EnumClasses", e, r)
                   : i \in DOMAIN e.classes}
(* The statement does not say that EnumerateClasses(IncludeClassOrigin=    *)
(* TRUE) must deliver class_origin ("only remove information" is satisfied *)
(* by dropping it); its absence is an observation, not a violation.        *)
EnumClassesSoft(s, e) ==
  IF ~e.ok \/ e.ico # "T" THEN {}
  ELSE F1("SOFT:EnumClasses.IncludeClassOriginTrue.NoClassOriginDelivered",
          \A i \in DOMAIN e.classes : \A x \in Elems :
             e.classes[i].el[x].present => e.classes[i].el[x].origin # "")

InstsOf(s, C) == {x \in s.insts : x[1] \in C}
EnumInstJudge(s, e) ==
  LET F == s.cls IN
  IF e.name \notin DOMAIN F THEN {}
  ELSE IF ~e.ok THEN {e.op \o ".FailedOnExistingClass"}
  ELSE LET want == InstsOf(s, Subtree(F, e.name)) IN
       F1(e.op \o ".ExactlyInstancesOfSubtree.missing", want \subseteq Rng(e.insts))
       \cup F1(e.op \o ".ExactlyInstancesOfSubtree.extra", Rng(e.insts) \subseteq want)
       \cup F1(e.op \o ".NoDuplicates", Len(e.insts) = Cardinality(Rng(e.insts)))

DeleteJudge(s, e) ==
  LET F == s.cls IN
  IF e.name \notin DOMAIN F THEN {}
  ELSE IF ~e.ok THEN {"Delete.FailedOnExistingClass"}
  ELSE LET gone == Subtree(F, e.name)
           keepC == (DOMAIN F) \ gone
           keepI == s.insts \ InstsOf(s, gone) IN
       F1("Delete.RemovesExactlySubtree.classOfSubtreeSurvives",
          Rng(e.after) \cap gone = {})
       \cup F1("Delete.RemovesExactlySubtree.classOutsideSubtreeRemoved",
               keepC \subseteq Rng(e.after))
       \cup F1("Delete.RemovesExactlySubtree.unknownClassAppears",
               Rng(e.after) \subseteq DOMAIN F)
       \cup F1("Delete.RemovesExactlyInstancesOfSubtree.instanceOfSubtreeSurvives",
               Rng(e.iafter) \cap InstsOf(s, gone) = {})
       \cup F1("Delete.RemovesExactlyInstancesOfSubtree.otherInstanceRemoved",
               keepI \subseteq Rng(e.iafter))
       \cup F1("Delete.RemovesExactlyInstancesOfSubtree.unknownInstanceAppears",
               Rng(e.iafter) \subseteq s.insts)

JudgeHard(s, e) ==
  CASE e.op = "Create" -> CreateJudge(s, e)
    [] e.op = "Modify" -> ModifyJudge(s, e)
    [] e.op = "Compile" ->      \* MOF compilation: creates or modifies
         IF e.name \in DOMAIN s.cls THEN ModifyJudge(s, e) ELSE CreateJudge(s, e)
    [] e.op = "Get" -> GetJudge(s, e)
    [] e.op = "EnumClassNames" -> EnumNamesJudge(s, e)
    [] e.op = "EnumClasses" -> EnumClassesHard(s, e)
    [] e.op \in {"EnumInst", "EnumInstNames"} -> EnumInstJudge(s, e)
    [] e.op = "Delete" -> DeleteJudge(s, e)
    [] e.op \in {"CreateInst", "End", "ClientEdit"} -> {}
    [] OTHER -> {"UnknownOperation"}
JudgeSoft(s, e) == IF e.op = "EnumClasses" THEN EnumClassesSoft(s, e) ELSE {}
Judge(s, e) == JudgeHard(s, e) \cup JudgeSoft(s, e)

(*--------------------------- next state -----------------------------------*)
(* mutating calls follow the OBSERVED outcome, so that later events are     *)
(* judged against the forest the server really holds.  The abstract forest *)
(* is kept closed (every superclass exists; hence acyclic) even when the   *)
(* server misbehaves: a class accepted without its superclass, or one that *)
(* survives the deletion of its superclass, is kept as a root.             *)
ApplyOp(s, e) ==
  CASE e.op \in {"Create", "Modify", "Compile"} ->
         IF ~e.ok \/ e.super = e.name THEN s
         ELSE IF e.name \in DOMAIN s.cls
         THEN (IF e.op = "Create" THEN s ELSE [s EXCEPT !.cls[e.name].d = e.d])
         ELSE IF e.op = "Modify" THEN s
         ELSE [s EXCEPT !.cls =
                 (e.name :> [super |-> IF e.super \in DOMAIN s.cls
                                       THEN e.super ELSE "",
                             d |-> e.d]) @@ @]
    [] e.op = "CreateInst" ->
         IF e.ok THEN [s EXCEPT !.insts = @ \cup {<<e.name, e.key>>}] ELSE s
    [] e.op = "Delete" ->
         IF e.name \in DOMAIN s.cls
         THEN LET keep == (DOMAIN s.cls) \cap Rng(e.after) IN
              [s EXCEPT
                 !.cls = [x \in keep |->
                            IF s.cls[x].super \in keep \cup {""} THEN s.cls[x]
                            ELSE [s.cls[x] EXCEPT !.super = ""]],
                 !.insts = @ \cap Rng(e.iafter)]
         ELSE s
    [] OTHER -> s

InitState == [cls |-> <<>>, insts |-> {}, n |-> 0, bad |-> {}]

Tag(i, clause) == IF i < 10 THEN "00" \o ToString(i) \o "|" \o clause
                  ELSE IF i < 100 THEN "0" \o ToString(i) \o "|" \o clause
                  ELSE ToString(i) \o "|" \o clause

(* TraceKit interface: clauses are accumulated, the End event delivers them *)
Apply(s, e) ==
  LET j == Judge(s, e)
      t == ApplyOp(s, e) IN
  [t EXCEPT !.n = s.n + 1, !.bad = s.bad \cup {Tag(s.n + 1, x) : x \in j}]
Fails(s, e) == IF e.op = "End" THEN s.bad ELSE {}

WellFormed(s) == \A c \in DOMAIN s.cls :
                    s.cls[c].super = "" \/ s.cls[c].super \in DOMAIN s.cls
=============================================================================
