---------------------- MODULE WbemServerCentralImplOps ----------------------
(***************************************************************************)
(* X06 - code-shaped transcription of WBEMServer.get_central_instances()   *)
(* and WBEMServer._traverse() (pywbem/_server.py), statement by statement. *)
(*                                                                         *)
(* Server side (what the operations of the connection return in world W):  *)
(*   AssociatorNames(profile, AssocClass=CIM_ElementConformsToProfile,     *)
(*                   ResultRole=ManagedElement)      SrvEctp               *)
(*   AssociatorNames(profile, AssocClass=CIM_ReferencedProfile,            *)
(*                   ResultRole=Dependent|Antecedent) SrvRp                *)
(*   AssociatorNames(x, AssocClass=a, ResultClass=c) SrvAssoc              *)
(* One call returns every associated object once (a set); the client code  *)
(* concatenates the results of several calls, so its lists are BAGS        *)
(* (functions resource -> multiplicity).                                   *)
(*                                                                         *)
(* Variant selects realistic wrong variants of the client code (regression *)
(* configurations; "code" is the code as written):                         *)
(*   "swapdir"       'dmtf' follows the Antecedent end                     *)
(*   "noclassfilter" _traverse does not pass ResultClass                   *)
(*   "emptyfalls"    an empty central-methodology result is taken for      *)
(*                   "not implemented" and the scoping methodology is tried*)
(*   "firstofmany"   several referencing profiles: the first one is used   *)
(*   "noreverse"     the scoping path is not reversed                      *)
(*   "dropdir"       the recursive call does not pass reference_direction  *)
(*                   (the bug fixed in pywbem 0.12, docs/changes.rst); NOT *)
(*                   a regression configuration: the recursive call has no *)
(*                   scoping parameters, so the direction cannot matter    *)
(*                   there and TLC finds no difference (observed freedom)  *)
(* PinnedAssert = TRUE: a malformed scoping path runs into                 *)
(* `assert len(traversal_path) >= 2` (the code as pinned); FALSE: the      *)
(* repaired code raises ValueError before any traversal.                   *)
(***************************************************************************)
EXTENDS WbemServerCentral

CONSTANTS Variant, PinnedAssert

(*------------------------------ server -----------------------------------*)
SrvEctp(W, p) == {e[2] : e \in {x \in W.ectp : x[1] = p}}
SrvRp(W, p, role) ==
  IF role = "Dependent"
  THEN {e[2] : e \in {x \in W.rp : x[1] = p /\ x[2] # p}}
  ELSE {e[1] : e \in {x \in W.rp : x[2] = p /\ x[1] # p}}
SrvAssoc(W, x, a, c) ==
  LET E == IF a = "A1" THEN W.a1 ELSE IF a = "A2" THEN W.a2 ELSE {} IN
  {y \in AllRes : /\ (<<x, y>> \in E \/ <<y, x>> \in E)
                  /\ (Variant = "noclassfilter" \/ IsA(ClsOf(y), c))}

PRank(p) == CASE p = "p1" -> 1 [] p = "p2" -> 2 [] OTHER -> 3

(*------------------------------- bags ------------------------------------*)
EmptyBag == [r \in AllRes |-> 0]
BagOfSet(S) == [r \in AllRes |-> IF r \in S THEN 1 ELSE 0]
BagSet(B) == {r \in AllRes : B[r] > 0}
RECURSIVE SumOver(_, _, _, _, _, _)
SumOver(W, B, S, y, a, c) ==
  IF S = {} THEN 0
  ELSE LET x == CHOOSE z \in S : TRUE IN
       (IF y \in SrvAssoc(W, x, a, c) THEN B[x] ELSE 0)
       + SumOver(W, B, S \ {x}, y, a, c)

Res(k, code, B) == [k |-> k, code |-> code, B |-> B]
Err(k) == Res(k, 0, EmptyBag)

(*------------------------------ _traverse --------------------------------*)
RECURSIVE ImplTraverse(_, _, _)
ImplTraverse(W, B, tp) ==
  IF Len(tp) < 2 THEN Err("AssertionError")      \* assert len(...) >= 2
  ELSE LET a == tp[1]
           c == tp[2]
           \* for path in start_paths: total_next_paths.extend(AssociatorNames)
           NB == [y \in AllRes |-> SumOver(W, B, AllRes, y, a, c)]
           rest == SubSeq(tp, 3, Len(tp)) IN
       IF rest # <<>> THEN ImplTraverse(W, NB, rest) ELSE Res("ok", 0, NB)

Reverse(q) == [i \in 1..Len(q) |-> q[Len(q) + 1 - i]]

(*------------------------ get_central_instances --------------------------*)
(* cc, sc: "" = None; sp = [given, path]; gci = "off" or the server's      *)
(* answer to the GetCentralInstances method; the recursive call passes     *)
(* (scoping_class, None, None, reference_direction) and leaves             *)
(* try_gci_method at its default False                                     *)
RECURSIVE ImplGci(_, _, _, _, _, _, _, _, _)
ImplGci(W, p, cc, sc, sp, dir, gci, gl, ptype) ==
  IF dir \notin {"dmtf", "snia"} THEN Err("ValueError")
  ELSE
  LET role == IF Variant = "swapdir"
              THEN (IF dir = "dmtf" THEN "Antecedent" ELSE "Dependent")
              ELSE (IF dir = "dmtf" THEN "Dependent" ELSE "Antecedent") IN
  IF ptype # "path" THEN Err("TypeError")
  ELSE IF gci = "err" THEN Res("CIMError", ErrCode, EmptyBag)
  ELSE IF gci = "rcfail" THEN Err("ModelError")
  ELSE IF gci = "ok" THEN Res("ok", 0, BagOfSet(Rng(gl)))
  ELSE \* "off", or not implemented (incl. CIM_ERR_FAILED): central methodology
  IF W.cm[p] = "err" THEN Res("CIMError", ErrCode, EmptyBag)
  ELSE IF W.cm[p] = "impl" /\ ~(Variant = "emptyfalls" /\ SrvEctp(W, p) = {})
  THEN Res("ok", 0, BagOfSet(SrvEctp(W, p)))
  ELSE \* scoping methodology
  IF cc = "" \/ sc = "" \/ ~sp.given THEN Err("ValueError")
  ELSE IF ~PinnedAssert /\ ~WellFormedPath(sp.path) THEN Err("ValueError")
  ELSE
  LET refs == SrvRp(W, p, role) IN
  IF refs = {} THEN Err("ModelError")
  ELSE IF Cardinality(refs) > 1 /\ Variant # "firstofmany" THEN Err("ModelError")
  ELSE
  LET q == CHOOSE x \in refs : \A y \in refs : PRank(x) <= PRank(y)  \* "first"
      sub == ImplGci(W, q, sc, "", [given |-> FALSE, path |-> <<>>],
                     IF Variant = "dropdir" THEN "dmtf" ELSE dir,
                     "off", <<>>, "path") IN
  IF sub.k # "ok" THEN sub
  ELSE IF BagSet(sub.B) = {} THEN Err("ModelError")
  ELSE LET tp == (IF Variant = "noreverse" THEN sp.path ELSE Reverse(sp.path))
                 \o <<cc>> IN
       ImplTraverse(W, sub.B, tp)

Impl(W, Q) == ImplGci(W, Q.p, Q.cc, Q.sc, Q.sp, Q.dir, Q.gci, Q.gl, Q.ptype)
ImplOutcome(W, Q) == LET r == Impl(W, Q) IN Out(r.k, r.code, BagSet(r.B))
=============================================================================
