---------------------------- MODULE WbemUriTrace ----------------------------
(* Trace validation for C07: every trace is one vector observed from the    *)
(* real to_wbem_uri / from_wbem_uri (see Fails in WbemUri).  The code-shaped*)
(* PrintU / Parse (variant VEnv, selected by the harness after probing the  *)
(* tree) is followed for drift only: printed text and parser outcome.       *)
EXTENDS WbemUri, Json
VARIABLES tid, l, verdict, ts, ti, drifted

ImplCmp(i, e) ==
  << CASE e.kind = "rt" ->
            IF e.printed # "ok" THEN {}
            ELSE LET t == PrintU(VEnv, e.p, e.fmt)
                     r == ParseU(VEnv, e.p.kind, t)
                 IN F("print." \o e.fmt, e.text = t)
                    \cup F("parse.printed",
                           e.text # t \/ (e.outcome = "path") = r.ok)
       [] e.kind = "parse" /\ e.cmp ->
            F("parse.inst", (e.outcome = "path") = ParseInst(VEnv, e.text).ok)
            \cup F("parse.class",
                   (e.outcomec = "path") = ParseClass(VEnv, e.text).ok)
       [] OTHER -> {},
     i >>

TraceBatch == JsonDeserialize(IOEnv.TRACE_FILE).traces

TK == INSTANCE TraceKit WITH
        TTraces <- TraceBatch,
        TInit0 <- InitState, TFails <- Fails, TApply <- Apply,
        TInv <- LAMBDA st : TRUE,
        TImpl0 <- 0, TImplStep <- ImplCmp
TSpec == TK!TSpec
=============================================================================
