---------------------------- MODULE WbemUriTrace ----------------------------
(* Trace validation for C07: every trace is one vector observed from the    *)
(* real to_wbem_uri / from_wbem_uri (see Fails in WbemUri).  The code-shaped*)
(* PrintU / Parse (variant VEnv, selected by the harness after probing the  *)
(* tree) is followed for drift only: printed text and parser outcome.       *)
(* A trace can also be a HISTORY (htext / hparse / hmutate / hprint events, *)
(* see WbemUriHeap: requirement HFails with the abstract heap as state);    *)
(* there the code-shaped process heap (cells, cache switch of VEnv) is      *)
(* followed for drift: printed text, parser outcome, heap snapshot.         *)
EXTENDS WbemUriHeap, Json
VARIABLES tid, l, verdict, ts, ti, drifted

HImpl0 == [ist |-> IState0, texts |-> <<>>]
HImplCmp(i, e) ==
  CASE e.kind = "htext" ->
         << F("print." \o e.fmt,
              e.printed # "ok" \/ e.text = PrintU(VEnv, e.p, e.fmt)),
            [i EXCEPT !.texts = Append(@, [text |-> e.text,
                                           kind |-> e.p.kind])] >>
    [] e.kind = "hprint" ->
         << F("print." \o e.fmt,
              e.printed # "ok" \/ e.h \notin DOMAIN i.ist.roots \/
              e.text = PrintU(VEnv, Deref(i.ist.cells, i.ist.roots[e.h]),
                              e.fmt)),
            [i EXCEPT !.texts = Append(@, [text |-> e.text,
                                           kind |-> e.pk])] >>
    [] e.kind = "hparse" ->
         LET src == i.texts[e.t]
             r == ParseU(VEnv, src.kind, src.text)
         IN IF (e.outcome = "path") # r.ok THEN << {"parse.printed"}, i >>
            ELSE IF ~r.ok THEN << {}, i >>
            ELSE LET ist2 == IParse(VEnv, i.ist, src.kind, src.text)
                 IN << F("hist.heap", e.heap = Snapshot(ist2)),
                       [i EXCEPT !.ist = ist2] >>
    [] e.kind = "hmutate" ->
         IF ~IMutOk(i.ist, e.h, e.d, e.f) THEN << {"hist.place"}, i >>
         ELSE LET ist2 == IMutate(VEnv, i.ist, e.h, e.d, e.f)
              IN << F("hist.heap", e.heap = Snapshot(ist2)),
                    [i EXCEPT !.ist = ist2] >>
    [] e.kind = "hobs" ->
         IF e.h \notin DOMAIN i.ist.roots \/ e.printed # "ok"
         THEN << {}, i >>
         ELSE LET a == i.ist.roots[e.h]
                  kind == i.ist.cells[a].kind
                  pr == IPrint(VEnv, i.ist, a, e.fmt)
                  \* the parse of the observation allocates; it only matters
                  \* for later steps if from_wbem_uri goes through a cache
                  st2 == IF VEnv.cache # "none" /\ e.outcome = "path" /\
                            ParseU(VEnv, kind, pr.text).ok
                         THEN AllocU(VEnv, pr.st, kind, pr.text, FALSE).st
                         ELSE pr.st
              IN << F("print." \o e.fmt, e.text = pr.text),
                    [i EXCEPT !.ist = st2] >>
    [] OTHER -> << {}, i >>

ImplCmp(i, e) ==
  IF e.kind \in HistKinds THEN HImplCmp(i, e) ELSE
  << CASE e.kind = "rt" ->
            IF e.printed # "ok" THEN {}
            ELSE LET t == PrintU(VEnv, e.p, e.fmt)
                     r == ParseU(VEnv, e.p.kind, t)
                 IN F("print." \o e.fmt, e.text = t)
                    \cup F("parse.printed",
                           e.text # t \/ (e.outcome = "path") = r.ok)
       [] e.kind = "parse" /\ e.cmp ->
            F("parse.inst", (e.outcome = "path") = ParseInst(VEnv, e.text).ok)
            \cup F("parse.class",
                   (e.outcomec = "path") = ParseClass(VEnv, e.text).ok)
       [] OTHER -> {},
     i >>

TraceBatch == JsonDeserialize(IOEnv.TRACE_FILE).traces

TK == INSTANCE TraceKit WITH
        TTraces <- TraceBatch,
        TInit0 <- HInit, TFails <- HFails, TApply <- HApply,
        TInv <- LAMBDA st : TRUE,
        TImpl0 <- HImpl0, TImplStep <- ImplCmp
TSpec == TK!TSpec
=============================================================================
