----------------------------- MODULE WireEqTrace -----------------------------
(* Trace validation for C04 against the requirement machine WireEq.         *)
EXTENDS WireEq, Json, IOUtils
VARIABLES tid, l, verdict, ts, ti, drifted
TraceBatch == JsonDeserialize(IOEnv.TRACE_FILE).traces
TK == INSTANCE TraceKit WITH
        TTraces <- TraceBatch,
        TInit0 <- InitState, TFails <- Fails, TApply <- Apply,
        TInv <- LAMBDA st : TRUE,
        TImpl0 <- 0, TImplStep <- LAMBDA i, e : <<{}, i>>
TSpec == TK!TSpec
=============================================================================
