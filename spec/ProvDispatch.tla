---------------------------- MODULE ProvDispatch ----------------------------
(***************************************************************************)
(* X03 - requirement machine (event style) for USER-DEFINED PROVIDER       *)
(* REGISTRATION AND DISPATCH in the pywbem mock WBEM server.               *)
(*                                                                         *)
(* Sources (only what they promise is demanded):                           *)
(*  [REG]  FakedWBEMConnection.register_provider / ProviderRegistry.       *)
(*         register_provider docstrings (pywbem_mock/_wbemconnection_mock  *)
(*         .py, _providerregistry.py): registration process steps 1-5,     *)
(*         "Raises", "Each classname in a particular namespace may have at *)
(*         most one provider registered", namespaces=None => default ns.   *)
(*  [RST]  docs/mockwbemserver.rst "User-defined providers": table         *)
(*         operation -> provider type, provider_classnames "single string  *)
(*         or a list/tuple of strings ... (in any lexical case)",          *)
(*         post_register_setup "called ... after the provider registration *)
(*         is successful", namespaces "must already exist", list "The      *)
(*         input parameters ... will have been already validated".         *)
(*  [IWP]  InstanceWriteProvider.{Create,Modify,Delete}Instance docstrings *)
(*         "Validation already performed by the provider dispatcher",      *)
(*         parameter descriptions (deep copy, property name case, path,    *)
(*         exactly the properties to be modified).                         *)
(*  [MP]   MethodProvider module + InvokeMethod docstring (validation      *)
(*         list, parameters, return forms, default raises CIMError).       *)
(*  [DSP]  DSP0200 status codes per operation (cited by [RST]).            *)
(*                                                                         *)
(* Clauses (names appear in Fails):                                        *)
(*  Reg.RejectsInvalid          a registration that breaks a documented    *)
(*      precondition raises: provider_type invalid / not matching the      *)
(*      superclass, provider_classnames missing / None / not str or        *)
(*      list|tuple of str, namespaces not str or list|tuple of str, a      *)
(*      namespace that does not exist, a class that does not exist in one  *)
(*      of the namespaces and cannot be installed  [REG 1-3, Raises; RST]  *)
(*  Reg.DocumentedException     ... with TypeError / ValueError as listed  *)
(*      under "Raises" (any of the applicable ones)             [REG]      *)
(*  Reg.AcceptsValid            otherwise the registration succeeds        *)
(*      (a duplicate for an already served class may be refused or may     *)
(*      replace: "at most one provider" is all that is said)     [REG]     *)
(*  Reg.ClassesInstalled        after success every served class exists in *)
(*      every namespace of the registration (schema pragma)     [REG 3]    *)
(*  Reg.PostSetupOnceAfterSuccess  post_register_setup(conn) is called     *)
(*      exactly once, with this connection, when the provider is already   *)
(*      effective in the registry                     [REG 4-5; RST 1.d]   *)
(*  Reg.NoSetupWhenRejected     and not at all when registration fails     *)
(*  Dispatch.ValidatedBeforeProvider / RejectsInvalidRequest /             *)
(*  DocumentedStatusCode        a request that fails a validation the      *)
(*      dispatcher is documented to perform never reaches a user provider  *)
(*      and fails with the DSP0200 status code of the condition            *)
(*                                                     [IWP; MP; RST; DSP] *)
(*  Dispatch.RightProvider      a request that passes validation is        *)
(*      received by the provider registered for exactly (provider type of  *)
(*      the operation, namespace, class), else by the default provider;    *)
(*      never by a provider registered for another type, namespace, a      *)
(*      superclass or a subclass  ("called only for the registered class   *)
(*      and namespace")                                  [REG; IWP; MP]    *)
(*  Dispatch.ProviderArgs       what the provider receives is as           *)
(*      documented: deep copy, property names in the lexical case of the   *)
(*      class, path None (Create) / path with namespace (Modify), exactly  *)
(*      the properties to be modified, NocaseDict of CIMParameter, host    *)
(*      None                                                   [IWP; MP]   *)
(*  Dispatch.ProviderErrorPassed  a CIMError raised by the provider        *)
(*      reaches the client with its status code                 [RST]      *)
(*  Dispatch.ProviderResultPassed the provider's result is the result of   *)
(*      the operation (instance path; return value + output parameters in  *)
(*      any of the three documented forms)                      [IWP; MP]  *)
(*  Dispatch.DefaultBehaviour   without a user provider: default instance  *)
(*      write behaviour (key required, ALREADY_EXISTS, created / deleted); *)
(*      InvokeMethod raises CIM_ERR_METHOD_NOT_FOUND or                    *)
(*      CIM_ERR_METHOD_NOT_AVAILABLE (the two places of [MP] disagree:     *)
(*      both are accepted)                                                 *)
(*  Dispatch.StoreEffect        instances exist afterwards exactly as the  *)
(*      outcome says (created, deleted, else unchanged)                    *)
(*                                                                         *)
(* Deliberately free (documentation silent or contradictory; see notes):   *)
(*  what a registration that FAILED because of a missing class or in       *)
(*  post_register_setup leaves in the registry (see RegApply); duplicate   *)
(*  registration (refuse or replace); post_register_setup raising; a       *)
(*  provider returning a wrong type or raising a non-CIMError; instance of *)
(*  an abstract class (docstring says rejected, change log says tolerated);*)
(*  "instance does not yet exist" before CreateInstance reaches the        *)
(*  provider ([RST] says validated, [IWP] says the provider's job); an     *)
(*  omitted input parameter; status code for a non-static method invoked   *)
(*  on a class.                                                            *)
(*                                                                         *)
(* Abstract universe: namespaces 1, 2 exist (1 = default namespace of the  *)
(* connection), 3 does not.  Classes A (methods m, static sm), B : A,      *)
(* X (only in namespace 1), S (only in the schema behind the schema pragma *)
(* file, installed on demand), Z (nowhere).  Lexical case of every name is *)
(* randomised by the binding.  Provider ids are positive; 0 = no user      *)
(* provider (default).                                                     *)
(***************************************************************************)
EXTENDS Naturals, Integers, Sequences, FiniteSets, TLC

LiveNs == {1, 2}
DefaultNs == 1
ClassTokens == {"A", "B", "X", "S"}
SchemaClasses == {"A", "B", "S"}        \* reachable through the pragma file
MethodsOf(c) == IF c \in {"A", "B"} THEN {"m", "sm"} ELSE {}
IsStatic(m) == m = "sm"
PTypes == {"iw", "meth"}
NonStr == "#int"                        \* a class-name item that is no string

E_FAILED == 1
E_INVALID_NAMESPACE == 3
E_INVALID_PARAMETER == 4
E_INVALID_CLASS == 5
E_NOT_FOUND == 6
E_ALREADY_EXISTS == 11
E_METHOD_NOT_AVAILABLE == 16
E_METHOD_NOT_FOUND == 17
AnyCode == 1..30

Rng(q) == {q[i] : i \in DOMAIN q}
F(name, holds) == IF holds THEN {} ELSE {name}
C(cond, codes) == IF cond THEN codes ELSE {}

Cl(ns, c) == [ns |-> ns, c |-> c]
Row(ns, c, k) == [ns |-> ns, c |-> c, k |-> k]
RKey(t, ns, c) == [t |-> t, ns |-> ns, c |-> c]
Keys == [t : PTypes, ns : LiveNs, c : ClassTokens]
InitClasses == {Cl(1, "A"), Cl(1, "B"), Cl(1, "X"), Cl(2, "A"), Cl(2, "B")}

(* reg[k] = set of admissible receivers of a request for key k             *)
InitState == [reg |-> [k \in Keys |-> {0}], cls |-> InitClasses, store |-> {}]

(*========================== registration ================================*)
RegNss(e) == IF e.nsarg = "none" THEN <<DefaultNs>> ELSE e.nss
StrClasses(e) == Rng(e.pcls) \ {NonStr}
RegPairs(e) == {Cl(n, c) : n \in Rng(RegNss(e)) \cap LiveNs,
                           c \in StrClasses(e) \cap ClassTokens}
RegKeys(e) == IF e.ptype \in PTypes
              THEN {RKey(e.ptype, p.ns, p.c) : p \in RegPairs(e)} ELSE {}
MissingPairs(s, e) ==
  {Cl(n, c) : n \in Rng(RegNss(e)) \cap LiveNs, c \in StrClasses(e)} \ s.cls

(* admissible exception names; "*" = any exception *)
RegMust(s, e) ==
     C(e.cn = "missing", {"TypeError", "ValueError"})
\cup C(e.ptype \notin PTypes, {"ValueError", "TypeError"})
\cup C(e.ptype \in PTypes /\ e.base # e.ptype, {"TypeError"})
\cup C(e.cn \in {"none", "int"} \/ NonStr \in Rng(e.pcls),
       {"ValueError", "TypeError"})
\cup C(e.nsarg = "int" \/ 0 \in Rng(e.nss), {"TypeError"})
\cup C(\E n \in Rng(RegNss(e)) : n # 0 /\ n \notin LiveNs, {"ValueError"})
\cup C(~e.pragma /\ MissingPairs(s, e) # {}, {"ValueError"})
\cup C(e.pragma /\ \E p \in MissingPairs(s, e) : p.c \notin SchemaClasses,
       {"*"})
RegMay(s, e) ==
     \* a class of the provider is already served: refuse or replace
     C(\E k \in RegKeys(e) : s.reg[k] # {0}, {"*"})
     \* compile_schema_classes wants ALL class names in the pragma file
\cup C(e.pragma /\ MissingPairs(s, e) # {} /\
       ~(StrClasses(e) \subseteq SchemaClasses), {"*"})
Adm(x, S) == "*" \in S \/ x \in S

RegFails(s, e) ==
  LET must == RegMust(s, e)
      may == RegMay(s, e) IN
     F("Reg.RejectsInvalid", must = {} \/ ~e.ok)
\cup F("Reg.DocumentedException",
       must = {} \/ e.ok \/ Adm(e.exc, must \cup may))
\cup F("Reg.AcceptsValid",
       must # {} \/ may # {} \/ e.setupbeh = "raise" \/ e.ok)
\cup F("Reg.ClassesInstalled",
       ~e.ok \/ RegPairs(e) \subseteq Rng(e.clsdump))
\cup F("Reg.PostSetupOnceAfterSuccess",
       ~e.ok \/ (e.setupcalls = 1 /\ e.setupconn /\ e.setupreg))
\cup F("Reg.NoSetupWhenRejected",
       e.ok \/ e.setupbeh = "raise" \/ e.setupcalls = 0)

(* What a failed registration leaves behind is not documented, except that *)
(* the validation of the namespaces and of the provider itself (process    *)
(* steps 1-2) precedes "adding the provider to the registry" (step 4): a   *)
(* provider / namespaces argument that is refused as such never becomes    *)
(* active.  When the failure comes from a class that is missing in some    *)
(* namespace (step 3, which the code interleaves with step 4 per           *)
(* namespace) or from post_register_setup (step 5), the provider may or    *)
(* may not have become active for its (namespace, class) pairs.            *)
DescriptorBad(e) ==
  \/ e.cn \in {"missing", "none", "int"} \/ NonStr \in Rng(e.pcls)
  \/ e.ptype \notin PTypes \/ e.base # e.ptype
  \/ e.nsarg = "int" \/ \E n \in Rng(RegNss(e)) : n \notin LiveNs
RegApply(s, e) ==
  LET K == RegKeys(e) IN
  [reg |-> [k \in Keys |->
              IF k \notin K THEN s.reg[k]
              ELSE IF e.ok THEN {e.pid}
              ELSE IF DescriptorBad(e) THEN s.reg[k]
              ELSE s.reg[k] \cup {e.pid}],
   cls |-> {p \in Rng(e.clsdump) : p.ns \in LiveNs /\ p.c \in ClassTokens},
   store |-> Rng(e.dump)]

(*============================ requests ==================================*)
Exists(s, e) == Row(e.ns, e.cls, e.k) \in s.store
ClsHere(s, e) == Cl(e.ns, e.cls) \in s.cls
Cands(s, t, e) ==
  IF e.ns \in LiveNs /\ e.cls \in ClassTokens THEN s.reg[RKey(t, e.ns, e.cls)]
  ELSE {0}
Delegates(e) ==   \* the default implementation runs (directly or via super())
  e.recv = 0 \/ e.beh \in {"deleg", "mutate", "rekey"}
Free(e) ==        \* provider misbehaves: documentation silent
  e.recv # 0 /\ e.beh \in {"pyerr", "badret", "bad1", "bad2", "bad3", "bad4"}

(* verdicts shared by the four operations *)
Pre(must, may, cands, e) ==
  LET early == must = {} /\ may # {} /\ e.recv = 0 /\ ~e.ok /\ e.code \in may IN
     F("Dispatch.ValidatedBeforeProvider", must = {} \/ e.recv = 0)
\cup F("Dispatch.RejectsInvalidRequest", must = {} \/ ~e.ok)
\cup F("Dispatch.DocumentedStatusCode",
       must = {} \/ e.ok \/ e.code \in (must \cup may))
\cup F("Dispatch.RightProvider", must # {} \/ early \/ e.recv \in cands)
\cup F("Dispatch.ProviderErrorPassed",
       e.recv = 0 \/ e.beh # "cimerr" \/ (~e.ok /\ e.code = E_FAILED))
EarlyRejected(must, may, e) ==
  must # {} \/ (may # {} /\ e.recv = 0 /\ ~e.ok /\ e.code \in may)

StoreIs(e, S) == F("Dispatch.StoreEffect", Rng(e.dump) = S)
ArgIs(e, holds) == F("Dispatch.ProviderArgs", e.recv = 0 \/ holds)

(*--------------------------- CreateInstance ------------------------------*)
CreateMust(s, e) ==
     C(e.ns \notin LiveNs, {E_INVALID_NAMESPACE})
\cup C(e.ns \in LiveNs /\ ~ClsHere(s, e), {E_INVALID_CLASS})
\cup C(e.defect \in {"badprop", "wrongtype"}, {E_INVALID_PARAMETER})
CreateMay(s, e) ==    \* [RST] says validated, [IWP] says the provider's job
  C(e.defect # "nokey" /\ Exists(s, e), {E_ALREADY_EXISTS})
CreateFails(s, e) ==
  LET must == CreateMust(s, e)
      may == CreateMay(s, e)
      kk == IF e.recv # 0 /\ e.beh = "rekey" THEN 2 ELSE e.k
      nokey == e.defect = "nokey" /\ ~(e.recv # 0 /\ e.beh = "rekey")
      exists == Row(e.ns, e.cls, kk) \in s.store IN
  Pre(must, may, Cands(s, "iw", e), e)
  \cup ArgIs(e, e.arg.copy /\ e.arg.names = "class" /\ e.arg.path = "none"
                /\ e.arg.ns /\ e.arg.obj = "ok")
  \cup (IF EarlyRejected(must, may, e) THEN StoreIs(e, s.store)
        ELSE IF Free(e) THEN {}
        ELSE IF e.recv # 0 /\ e.beh = "cimerr" THEN StoreIs(e, s.store)
        ELSE \* default implementation, possibly after the provider's changes
          IF nokey
          THEN F("Dispatch.DefaultBehaviour",
                 ~e.ok /\ e.code = E_INVALID_PARAMETER) \cup StoreIs(e, s.store)
          ELSE IF exists
          THEN F("Dispatch.DefaultBehaviour",
                 ~e.ok /\ e.code = E_ALREADY_EXISTS) \cup StoreIs(e, s.store)
          ELSE F(IF e.recv = 0 THEN "Dispatch.DefaultBehaviour"
                 ELSE "Dispatch.ProviderResultPassed",
                 e.ok /\ e.rk = Row(e.ns, e.cls, kk))
               \cup StoreIs(e, s.store \cup {Row(e.ns, e.cls, kk)}))

(*--------------------------- ModifyInstance ------------------------------*)
GivenProps(e) == {"s"} \cup (IF e.givet THEN {"t"} ELSE {})
Exposed(c) == IF c = "B" THEN {"k", "s", "t", "u"} ELSE {"k", "s", "t"}
PlBad(e) == e.haspl /\ \E p \in Rng(e.pl) : p \notin Exposed(e.cls)
ModifyMust(s, e) ==
     C(e.defect = "clsmismatch", {E_INVALID_PARAMETER})
\cup C(e.ns \notin LiveNs, {E_INVALID_NAMESPACE})
\cup C(e.ns \in LiveNs /\ ~ClsHere(s, e), {E_INVALID_CLASS})
\cup C(e.ns \in LiveNs /\ ClsHere(s, e) /\ ~Exists(s, e), {E_NOT_FOUND})
\cup C(PlBad(e), {E_INVALID_PARAMETER})
\cup C(e.defect \in {"badprop", "wrongtype", "keychange"},
       {E_INVALID_PARAMETER})
ModifyFails(s, e) ==
  LET must == ModifyMust(s, e)
      want == IF e.haspl THEN Rng(e.pl) ELSE GivenProps(e) IN
  Pre(must, {}, Cands(s, "iw", e), e)
  \cup ArgIs(e, e.arg.copy /\ e.arg.names = "class" /\ e.arg.path = "ok"
                /\ e.arg.obj = "ok" /\ Rng(e.arg.props) = want)
  \cup StoreIs(e, s.store)             \* Modify never adds/removes instances
  \cup (IF must # {} \/ Free(e) \/ (e.recv # 0 /\ e.beh = "cimerr") THEN {}
        ELSE F(IF e.recv = 0 THEN "Dispatch.DefaultBehaviour"
               ELSE "Dispatch.ProviderResultPassed", e.ok))

(*--------------------------- DeleteInstance ------------------------------*)
DeleteMust(s, e) ==
     C(e.ns \notin LiveNs, {E_INVALID_NAMESPACE})
\cup C(e.ns \in LiveNs /\ ~ClsHere(s, e), {E_INVALID_CLASS})
\cup C(e.ns \in LiveNs /\ ClsHere(s, e) /\ ~Exists(s, e), {E_NOT_FOUND})
DeleteFails(s, e) ==
  LET must == DeleteMust(s, e) IN
  Pre(must, {}, Cands(s, "iw", e), e)
  \cup ArgIs(e, e.arg.obj = "ok" /\ e.arg.host)
  \cup (IF must # {} THEN StoreIs(e, s.store)
        ELSE IF Free(e) THEN {}
        ELSE IF e.recv # 0 /\ e.beh = "cimerr" THEN StoreIs(e, s.store)
        ELSE F(IF e.recv = 0 THEN "Dispatch.DefaultBehaviour"
               ELSE "Dispatch.ProviderResultPassed", e.ok)
             \cup StoreIs(e, s.store \ {Row(e.ns, e.cls, e.k)}))

(*---------------------------- InvokeMethod -------------------------------*)
(* e.target "inst" | "class";  e.meth "m" | "sm" | "qq";                   *)
(* e.pdefect "none" (P1, P2 given) | "omit" (no parameter) | "unknown" |    *)
(* "wrongtype" | "wrongarray" | "outonly" (output-only parameter given)    *)
InvokeMust(s, e) ==
  LET known == e.ns \in LiveNs /\ ClsHere(s, e) IN
     C(e.ns \notin LiveNs, {E_INVALID_NAMESPACE})
\cup C(e.ns \in LiveNs /\ ~ClsHere(s, e),
       IF e.target = "inst" THEN {E_INVALID_CLASS}
       ELSE {E_INVALID_CLASS, E_NOT_FOUND})
\cup C(known /\ e.target = "inst" /\ ~Exists(s, e), {E_NOT_FOUND})
\cup C(known /\ e.meth \notin MethodsOf(e.cls), {E_METHOD_NOT_FOUND})
\cup C(known /\ e.meth \in MethodsOf(e.cls) /\ e.target = "class"
       /\ ~IsStatic(e.meth), AnyCode)
\cup C(e.pdefect \in {"unknown", "wrongtype", "wrongarray", "outonly"},
       {E_INVALID_PARAMETER})
InvokeMay(s, e) ==
     C(e.pdefect = "omit", {E_INVALID_PARAMETER})
     \* nobody serves the method: that error is as good as any other one
\cup C(0 \in Cands(s, "meth", e), {E_METHOD_NOT_FOUND, E_METHOD_NOT_AVAILABLE})
GoodRet(e) == e.beh \in {"seq", "mapv", "mapp", "list"}
InvokeFails(s, e) ==
  LET must == InvokeMust(s, e)
      may == InvokeMay(s, e) IN
  Pre(must, may, Cands(s, "meth", e), e)
  \cup StoreIs(e, s.store)
  \cup ArgIs(e, e.arg.meth = e.meth /\ e.arg.obj = "ok" /\ e.arg.host
                /\ e.arg.params = "nocasedict"
                /\ Rng(e.arg.props) = (IF e.pdefect = "omit" THEN {}
                                       ELSE {"p1", "p2"}))
  \cup (IF EarlyRejected(must, may, e) \/ Free(e) THEN {}
        ELSE IF e.recv = 0 \/ e.beh = "deleg"
        THEN F("Dispatch.DefaultBehaviour",
               ~e.ok /\ e.code \in {E_METHOD_NOT_FOUND, E_METHOD_NOT_AVAILABLE})
        ELSE IF GoodRet(e)
        THEN F("Dispatch.ProviderResultPassed",
               e.ok /\ e.rv = 7 /\
               Rng(e.outs) = (IF e.beh = "list" THEN {}
                              ELSE {[n |-> "o1", v |-> "out"]}))
        ELSE {})

(*------------------------------------------------------------------------*)
Fails(s, e) ==
  CASE e.op = "Reg" -> RegFails(s, e)
    [] e.op = "Create" -> CreateFails(s, e)
    [] e.op = "Modify" -> ModifyFails(s, e)
    [] e.op = "Delete" -> DeleteFails(s, e)
    [] e.op = "Invoke" -> InvokeFails(s, e)
    [] OTHER -> {"UnknownOperation"}

Apply(s, e) ==
  IF e.op = "Reg" THEN RegApply(s, e)
  ELSE [s EXCEPT !.store = Rng(e.dump)]     \* admissibility: StoreEffect

WellFormed(s) ==
  /\ \A k \in Keys : s.reg[k] # {}
  /\ \A r \in s.store : r.ns \in LiveNs /\ Cl(r.ns, r.c) \in s.cls
=============================================================================
