SPECIFICATION Spec
CONSTANTS
  MockVerifiesOpen = TRUE
  PrettyNoneWithoutDebug = TRUE
  SuspendedMinZero = TRUE
  LenInBytes = TRUE
  SnapshotShallow = FALSE
  SuspendNotSticky = FALSE
  CopySharesStatistics = FALSE
  LastReplyNotReset = FALSE
  StopOnlyOnSuccess = FALSE
  Mode = "http"
  En0 = {FALSE}
  Names = {"EnumerateInstanceNames"}
  Fam = {"op", "rec", "copy", "close"}
  OpShapes <- OpsHttpRec
  MaxConn = 2
  MaxSteps = 7
  GenDepth = 0
  Advs = {0, 2}
  Lens <- LensSmall
  Srvs <- SrvsSmall
  MaxSnap = 1
INVARIANT ImplRefinesReq
INVARIANT ReqWellFormed
INVARIANT MappingHolds
CHECK_DEADLOCK FALSE
