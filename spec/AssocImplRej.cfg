\* Histories with REJECTED CreateInstance calls (id / key collisions, also across namespaces):
\* the repository after a rejected create gives the same traversal results.  Must hold.
SPECIFICATION Spec
CONSTANTS
  LegacyBreak = FALSE
  SwapIn = ""
  NoShadow = FALSE
  NoPreCheck = FALSE
  XParU = {}
  ShallowSub = FALSE
  IgnoreNs = FALSE
  ModSharedPath = FALSE
  MaxMod = 0
  NodeU <- NodeU5
  MaxAssoc = 2
  CreateNs = {1, 2}
  ClsU = {"AB", "AL"}
  AcU <- AcSmall
  RcU <- RcSmall
  RlU <- RlSmall
  GenDepth = 0
INVARIANT ImplEqualsDecl
CHECK_DEADLOCK FALSE
