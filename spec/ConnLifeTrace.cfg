SPECIFICATION TSpec
CONSTANTS
  MockVerifiesOpen = FALSE
  PrettyNoneWithoutDebug = FALSE
  SuspendedMinZero = FALSE
  LenInBytes = FALSE
  SnapshotShallow = FALSE
  SuspendNotSticky = FALSE
  CopySharesStatistics = FALSE
  LastReplyNotReset = FALSE
  StopOnlyOnSuccess = FALSE
CHECK_DEADLOCK FALSE
