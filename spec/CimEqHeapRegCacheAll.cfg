SPECIFICATION Spec
CONSTANTS
  MaxRef = 60
  MaxMut = 2
  Roots <- AllRoots
  ShallowChildDict = FALSE
  SharedPath = FALSE
  EmptyListPassThrough = FALSE
  Mode = "hist"
  HashCache = "all"
  LazyHash = "getter"
  ObsKinds <- ObsActs
  EmitLazy = FALSE
  CopyViaCtor = FALSE
  Emit = FALSE
INVARIANT HashLawful
INVARIANT ObsReadOnly
INVARIANT FreshHashIsAbs
INVARIANT CacheOnlyAfterHash
CHECK_DEADLOCK FALSE
