----------------------------- MODULE ListenerReq -----------------------------
(***************************************************************************)
(* C16 - requirement machine (event style) for executions of the real      *)
(* WBEMListener.  Events, in the order they happened (the controlled       *)
(* scheduler serialises the threads; the real-socket tier orders them by   *)
(* a sequence number taken under the queue's mutex):                       *)
(*   [ev |-> "started", ncb, ok, exc]                                      *)
(*   [ev |-> "req", s, n]           sender s begins its n-th request       *)
(*   [ev |-> "resp", s, n, kind]    "ok" (success response) | "err" (CIM   *)
(*                                  error response) | "refused" (no        *)
(*                                  listener on the port) | other          *)
(*   [ev |-> "deliver", c, s, n, raised]   callback c invoked with (s, n)  *)
(*   [ev |-> "cb_exit", exc]                                               *)
(*   [ev |-> "stop_returned", exc, threads, server_closed]                 *)
(*   [ev |-> "end", outcome]                                               *)
(* All fields are present in every event (monomorphic).                    *)
(***************************************************************************)
EXTENDS Naturals, Sequences, FiniteSets, TLC

F(name, holds) == IF holds THEN {} ELSE {name}
Rng(q) == {q[i] : i \in DOMAIN q}
MaxCb == 3

InitState ==
  [ncb |-> 0, running |-> FALSE, stopped |-> FALSE,
   pending |-> {},      \* requests being handled
   acked |-> <<>>,      \* <<s, n>> in the order the success responses were sent
   refused |-> {},      \* answered with a CIM error
   log |-> [c \in 1..MaxCb |-> <<>>],
   seen |-> {},         \* indications whose request was sent
   late |-> {},         \* callbacks registered while the listener was running
   exempt |-> [c \in 1..MaxCb |-> {}]]  \* ... and what was sent before that

Item(e) == <<e.s, e.n>>
Delivered(s, c) == Rng(s.log[c])
Pos(q, x) == CHOOSE i \in DOMAIN q : q[i] = x

ExactlyOnceAtStop(s) ==
     F("ExactlyOnce.AcknowledgedDeliveredToEveryCallback",
       \A x \in Rng(s.acked) : \A c \in 1..s.ncb :
          x \in Delivered(s, c) \/ x \in s.exempt[c])
\cup F("ExactlyOnce.RefusedNeverDelivered",
       \A x \in s.refused : \A c \in 1..s.ncb : x \notin Delivered(s, c))

DeliverFails(s, e) ==
  LET it == Item(e)
      c == e.c IN
     F("Deliver.KnownCallback", c \in 1..s.ncb)
\cup (IF c \notin 1..s.ncb THEN {} ELSE
     F("ExactlyOnce.NeverTwice", it \notin Delivered(s, c))
\cup F("ExactlyOnce.OnlyAcceptedIndications",
       it \in Rng(s.acked) \/ it \in s.pending)
\cup F("ExactlyOnce.RefusedNeverDelivered", it \notin s.refused)
     \* callbacks run in registration order: callback c gets exactly the
     \* next item callback c-1 already got
\cup F("CallbackOrder.RegistrationOrder",
       \/ c = 1
       \/ c \notin s.late /\ Len(s.log[c]) < Len(s.log[c - 1]) /\
                            s.log[c - 1][Len(s.log[c]) + 1] = it
          \* a callback added while the listener runs joins in at some
          \* indication and misses none from then on
       \/ c \in s.late /\ it \in Rng(s.log[c - 1]) /\
             (s.log[c] = <<>> \/
              (s.log[c][Len(s.log[c])] \in Rng(s.log[c - 1]) /\
               Pos(s.log[c - 1], it) =
                  Pos(s.log[c - 1], s.log[c][Len(s.log[c])]) + 1)))
     \* indications of one sender arrive in the order they were sent
\cup F("SenderFifo",
       \A i \in DOMAIN s.log[c] :
          s.log[c][i][1] = e.s => s.log[c][i][2] < e.n))

Fails(s, e) ==
  CASE e.ev = "started" ->
         F("Restart.ListenerCanBeStartedAgain", e.ok)
    [] e.ev = "deliver" -> DeliverFails(s, e)
    [] e.ev = "stop_returned" ->
           F("StopClean.StopDoesNotRaise", e.exc = "")
      \cup F("StopClean.NoListenerThreadLeft", e.threads = 0)
      \cup F("StopClean.ServerClosed", e.server_closed)
      \cup F("StopClean.NoRequestStillBeingHandled", s.pending = {})
      \cup ExactlyOnceAtStop(s)
    [] e.ev = "end" ->
           F("End.ExecutionCompleted", e.outcome = "done")
      \cup (IF s.stopped THEN ExactlyOnceAtStop(s) ELSE {})
    [] e.ev = "add_callback" ->
           F("AddCallback.DoesNotRaise", e.exc = "")
    [] e.ev = "resp" ->
           F("Response.AfterRequest", e.kind = "refused" \/ Item(e) \in s.pending)
    [] OTHER -> {}

Apply(s, e) ==
  CASE e.ev = "started" -> [s EXCEPT !.ncb = e.ncb, !.running = e.ok,
                                      !.stopped = FALSE]
    [] e.ev = "req" -> [s EXCEPT !.pending = @ \cup {Item(e)},
                                  !.seen = @ \cup {Item(e)}]
    [] e.ev = "add_callback" ->
         IF e.c \in 1..MaxCb
         THEN [s EXCEPT !.ncb = e.c, !.late = @ \cup {e.c},
                        !.exempt[e.c] = s.seen]
         ELSE s
    [] e.ev = "resp" ->
         IF e.kind = "ok"
         THEN [s EXCEPT !.pending = @ \ {Item(e)}, !.acked = Append(@, Item(e))]
         ELSE IF e.kind = "err"
         THEN [s EXCEPT !.pending = @ \ {Item(e)}, !.refused = @ \cup {Item(e)}]
         ELSE [s EXCEPT !.pending = @ \ {Item(e)}]
    [] e.ev = "deliver" ->
         IF e.c \in 1..MaxCb
         THEN [s EXCEPT !.log[e.c] = Append(@, Item(e))] ELSE s
    [] e.ev = "stop_returned" -> [s EXCEPT !.running = FALSE, !.stopped = TRUE]
    [] OTHER -> s
=============================================================================
