SPECIFICATION Spec
CONSTANTS
  Rollback = TRUE
  NsProviderOrder = "legacy"
  MaxBatch = 3
  MultiNsPrecheck = "all-first"
  RollbackKinds = "all"
  SchemaListRollback = TRUE
  DeleteClassUndo = TRUE
  RollbackScope = "repository"
  DeleteClassInstances = "subtree-first"
  NsAlias = "nocase"
  MultiNsDelete = "all-first"
INVARIANT Atomic
INVARIANT Completes
CHECK_DEADLOCK FALSE
