SPECIFICATION Spec
CONSTANTS
  Rollback = TRUE
  NsProviderOrder = "legacy"
  MaxBatch = 3
INVARIANT Atomic
INVARIANT Completes
CHECK_DEADLOCK FALSE
