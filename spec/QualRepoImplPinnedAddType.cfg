SPECIFICATION Spec
CONSTANTS
  UpdateCopies = TRUE
  GuardDefaultNs = TRUE
  CompileReplaces = FALSE
  GetCopies = TRUE
  UseScan = "all"
  AddRollback = TRUE
  NsEmptyQuals = TRUE
  AddTypeError = FALSE
  NsArgs = {0, 2}
  CompileNs = {0, 2}
  NsAdm = {0, 1, 2}
  QU = {1, 2}
  DU = {"d1", "d2"}
  ClsU = {"U"}
  BadArgs = {"none", "badtype"}
  MaxItems = 2
  MaxCompile = 2
  SameD = FALSE
  GenDepth = 0
INVARIANT ImplRefinesReq
INVARIANT ReqWellFormed
INVARIANT MappingHolds
INVARIANT UsedDeclared

CHECK_DEADLOCK FALSE
