---------------------------- MODULE CimXmlDtdRe ----------------------------
(***************************************************************************)
(* Regular-expression terms for DTD content models and two independent     *)
(* matchers over sequences of element names (C03).                         *)
(*                                                                         *)
(*   Matches(r, w)   Brzozowski derivatives with smart constructors (used  *)
(*                   on documents: linear in |w|, no backtracking)         *)
(*   MatchesD(r, w)  declarative "end position" semantics: Ends(r, w, i)   *)
(*                   is the set of j such that w[i..j-1] is in L(r)        *)
(*                                                                         *)
(* CimXmlDtdMC checks Matches = MatchesD for every content model of the    *)
(* DSP0203 table and all words up to a bound.                              *)
(***************************************************************************)
EXTENDS Naturals, Sequences, FiniteSets

RSym(s)  == [k |-> "sym", s |-> s]
RSeq(a)  == [k |-> "seq", a |-> a]        \* a: sequence of terms
RAlt(a)  == [k |-> "alt", a |-> a]        \* a: sequence of terms
RStar(x) == [k |-> "star", x |-> x]
RPlus(x) == [k |-> "plus", x |-> x]
ROpt(x)  == [k |-> "opt", x |-> x]
REmpty   == [k |-> "eps"]                 \* the empty word
RAny     == [k |-> "any"]                 \* any sequence of declared elements
RNull    == [k |-> "null"]                \* the empty language (derivatives only)

RECURSIVE Symbols(_)
Symbols(r) ==
  CASE r.k = "sym" -> {r.s}
    [] r.k \in {"seq", "alt"} -> UNION {Symbols(r.a[i]) : i \in DOMAIN r.a}
    [] r.k \in {"star", "plus", "opt"} -> Symbols(r.x)
    [] OTHER -> {}

RECURSIVE Nullable(_)
Nullable(r) ==
  CASE r.k = "sym" -> FALSE
    [] r.k = "null" -> FALSE
    [] r.k = "seq" -> \A i \in DOMAIN r.a : Nullable(r.a[i])
    [] r.k = "alt" -> \E i \in DOMAIN r.a : Nullable(r.a[i])
    [] r.k = "plus" -> Nullable(r.x)
    [] OTHER -> TRUE                     \* eps, star, opt, any

(* smart constructors keep derivative terms small *)
MkSeq2(x, y) ==
  IF x.k = "null" \/ y.k = "null" THEN RNull
  ELSE IF x.k = "eps" THEN y
  ELSE IF y.k = "eps" THEN x
  ELSE RSeq(<<x, y>>)

MkAlt2(x, y) ==
  IF x.k = "null" THEN y
  ELSE IF y.k = "null" THEN x
  ELSE IF x = y THEN x
  ELSE RAlt(<<x, y>>)

RestSeq(a) == IF Len(a) = 1 THEN REmpty
              ELSE IF Len(a) = 2 THEN a[2] ELSE RSeq(Tail(a))
RestAlt(a) == IF Len(a) = 1 THEN RNull
              ELSE IF Len(a) = 2 THEN a[2] ELSE RAlt(Tail(a))

RECURSIVE Deriv(_, _)
Deriv(r, c) ==
  CASE r.k = "sym" -> IF r.s = c THEN REmpty ELSE RNull
    [] r.k = "eps" -> RNull
    [] r.k = "null" -> RNull
    [] r.k = "any" -> RAny
    [] r.k = "seq" ->
         IF Len(r.a) = 0 THEN RNull
         ELSE LET h == r.a[1]
                  t == RestSeq(r.a)
                  d1 == MkSeq2(Deriv(h, c), t) IN
              IF Nullable(h) THEN MkAlt2(d1, Deriv(t, c)) ELSE d1
    [] r.k = "alt" ->
         IF Len(r.a) = 0 THEN RNull
         ELSE MkAlt2(Deriv(r.a[1], c), Deriv(RestAlt(r.a), c))
    [] r.k = "star" -> MkSeq2(Deriv(r.x, c), r)
    [] r.k = "plus" -> MkSeq2(Deriv(r.x, c), RStar(r.x))
    [] r.k = "opt" -> Deriv(r.x, c)

RECURSIVE MatchFrom(_, _, _)
MatchFrom(r, w, i) ==
  IF r.k = "null" THEN FALSE
  ELSE IF i > Len(w) THEN Nullable(r)
  ELSE MatchFrom(Deriv(r, w[i]), w, i + 1)

Matches(r, w) == MatchFrom(r, w, 1)

(* ----------------------------------------------------------------------- *)
(* declarative semantics                                                    *)
(* ----------------------------------------------------------------------- *)
RECURSIVE Ends(_, _, _), SeqEnds(_, _, _, _), Closure(_, _, _)

Ends(r, w, i) ==
  CASE r.k = "sym" -> IF i <= Len(w) /\ w[i] = r.s THEN {i + 1} ELSE {}
    [] r.k = "eps" -> {i}
    [] r.k = "null" -> {}
    [] r.k = "any" -> i .. (Len(w) + 1)
    [] r.k = "seq" -> SeqEnds(r.a, 1, w, {i})
    [] r.k = "alt" -> UNION {Ends(r.a[n], w, i) : n \in DOMAIN r.a}
    [] r.k = "opt" -> {i} \cup Ends(r.x, w, i)
    [] r.k = "star" -> Closure(r.x, w, {i})
    [] r.k = "plus" -> Closure(r.x, w, Ends(r.x, w, i))

SeqEnds(a, n, w, S) ==
  IF n > Len(a) THEN S
  ELSE SeqEnds(a, n + 1, w, UNION {Ends(a[n], w, j) : j \in S})

Closure(x, w, S) ==
  LET T == S \cup UNION {Ends(x, w, j) : j \in S} IN
  IF T = S THEN S ELSE Closure(x, w, T)

MatchesD(r, w) == (Len(w) + 1) \in Ends(r, w, 1)
=============================================================================
