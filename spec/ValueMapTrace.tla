---------------------------- MODULE ValueMapTrace ----------------------------
(* C20 - validation of vectors observed on the real pywbem.ValueMapping      *)
(* against the requirement module ValueMap (verdicts) and against the        *)
(* code-shaped machine ValueMapImplOps (impl drift only: the observation     *)
(* equals neither the repaired design, nor the tree as it is, nor the pinned *)
(* tree's variant).                                                          *)
(* One trace = one vector = one event.                                       *)
EXTENDS ValueMapImplOps, Json, IOUtils
VARIABLES tid, l, verdict, ts, ti, drifted

DriftCmp(i, e) ==
  LET d1 == Drift(e, Fixed) IN
  IF d1 = {} THEN <<{}, i>>
  ELSE IF Drift(e, AsIs) = {} THEN <<{}, i>>
  ELSE IF Drift(e, Legacy) = {} THEN <<{}, i>>
  ELSE <<d1, i>>

TraceBatch == JsonDeserialize(IOEnv.TRACE_FILE).traces
TK == INSTANCE TraceKit WITH
        TTraces <- TraceBatch,
        TInit0 <- InitState, TFails <- Fails, TApply <- Apply,
        TInv <- LAMBDA st : TRUE,
        TImpl0 <- 0, TImplStep <- DriftCmp
TSpec == TK!TSpec
=============================================================================
