SPECIFICATION Spec
CONSTANTS
  InfExc = "ValueError"
  StringSlotLax = TRUE
  RangeCheck = TRUE
  AnyCimIntAsIs = FALSE
  Deltas <- DeltasSmall
INVARIANT ImplWithinReq
CHECK_DEADLOCK FALSE
