SPECIFICATION Spec
CONSTANTS
  InfExc = "ValueError"
  StringSlotLax = TRUE
  RangeCheck = TRUE
  AnyCimIntAsIs = FALSE
  ArrayHeadShortcut = FALSE
  Deltas <- DeltasSmall
INVARIANT ImplWithinReq
CHECK_DEADLOCK FALSE
