SPECIFICATION Spec
CONSTANTS
  TMin = 0
  TMax = 15
  MaxHist = 2
  ShareValuesList = FALSE
INVARIANT HistOK
CHECK_DEADLOCK FALSE
