---------------------------- MODULE RepoCoreImpl ----------------------------
(***************************************************************************)
(* Code-shaped machine of the mock's instance operations, in lock step     *)
(* with the requirement machine RepoCore (TLC checks Impl => Req).         *)
(*                                                                         *)
(* Shape taken from pywbem_mock: ProviderDispatcher.{Create,Modify,Delete} *)
(* Instance (validation order), InstanceWriteProvider (path creation,      *)
(* add_new_instance), MainProvider.{GetInstance,EnumerateInstances,        *)
(* EnumerateInstanceNames} and InMemoryObjectStore (a dict whose keys are  *)
(* CIMInstanceName objects).                                               *)
(*                                                                         *)
(* Heap aspect: a stored row has `idx` (the key as hashed when inserted)   *)
(* and `path` (current content of the key object, which also is the        *)
(* instance's .path).  AliasKeys = TRUE is the code before the "fix:"      *)
(* commit: CreateInstance returned that very object to the client, so a    *)
(* client-side mutation (ClientMutate) silently changes `path`; a dict     *)
(* lookup then needs idx = key (bucket) and path = key (equality).         *)
(***************************************************************************)
EXTENDS RepoCoreImplOps

CONSTANTS NsU, ClsU, KeyU, ValS, ValT, ValU, BadU, GenDepth

VARIABLES si, s, bad, hist
vars == <<si, s, bad, hist>>

BadAll == BadToks \cup {"none"}   \* every bad-property class (cfg: BadU <- BadAll)
Vals3 == [s : ValS, t : ValT, u : ValU]
CallI(op, ns, c, k, vals, bp, kp, hp, pl, deep, ic) ==
  [op |-> op, ns |-> ns, cls |-> c, icls |-> ic, k |-> k, vals |-> vals,
   badprop |-> bp, kprop |-> kp, hasplist |-> hp, plist |-> pl, deep |-> deep]
Call(op, ns, c, k, vals, bp, kp, hp, pl, deep) ==
  CallI(op, ns, c, k, vals, bp, kp, hp, pl, deep, c)
NoVals == [s |-> "unset", t |-> "unset", u |-> "unset"]
Plists == {<<>>, <<"s">>, <<"u">>, <<"s", "s", "t">>, <<"k", "s">>}

(* PropertyList argument: absent, or one of Plists (the list is irrelevant  *)
(* when no PropertyList is passed)                                          *)
HPl == {<<FALSE, <<>>>>} \cup {<<TRUE, pl>> : pl \in Plists}

Calls ==
  {Call("Create", ns, c, k, v, bp, 0, FALSE, <<>>, TRUE) :
     ns \in NsU, c \in ClsU, k \in KeyU \cup {0}, v \in Vals3, bp \in BadU}
  \cup {Call("Modify", ns, c, k, v, bp, kp, h[1], h[2], TRUE) :
     ns \in NsU, c \in ClsU, k \in KeyU, v \in Vals3, bp \in BadU,
     kp \in KeyU \cup {0}, h \in HPl}
  \* ModifiedInstance.classname and .path.classname name different classes
  \cup {x \in {CallI("Modify", ns, c, k, v, "none", 0, FALSE, <<>>, TRUE, ic) :
                 ns \in NsU, c \in ClsU, k \in KeyU, v \in Vals3, ic \in ClsU} :
          x.icls # x.cls}
  \cup {Call(op, ns, c, k, NoVals, "none", 0, h[1], h[2], TRUE) :
     op \in {"Delete", "Get"}, ns \in NsU, c \in ClsU, k \in KeyU, h \in HPl}
  \cup {Call(op, ns, c, 0, NoVals, "none", 0, h[1], h[2], deep) :
     op \in {"Enum", "EnumNames"}, ns \in NsU, c \in ClsU,
     h \in HPl, deep \in BOOLEAN}

Event(c, r, st2) ==
  [op |-> c.op, ns |-> c.ns, cls |-> c.cls, icls |-> c.icls, k |-> c.k,
   vals |-> c.vals,
   badprop |-> c.badprop, kprop |-> c.kprop, hasplist |-> c.hasplist,
   plist |-> c.plist, deep |-> c.deep, ok |-> r.ok, code |-> r.code,
   rk |-> r.rk, rinsts |-> r.rinsts, dump |-> DumpSeq(st2)]

Init == si = {} /\ s = InitState /\ bad = {} /\ hist = <<>>

Do(c) == LET rs == ImplStep(si, c)
             e == Event(c, rs[1], rs[2]) IN
         /\ si' = rs[2]
         /\ bad' = Fails(s, e)
         /\ s' = Apply(s, e)
         /\ hist' = IF GenDepth > 0 THEN Append(hist, c) ELSE hist

(* a client changes the key of a path object it got back from CreateInstance;
   for the requirement machine nothing happens *)
ClientMutate ==
  /\ AliasKeys
  /\ \E x \in si, k \in KeyU :
        /\ x.handed /\ x.path[3] # k
        /\ si' = (si \ {x}) \cup {[x EXCEPT !.path = <<x.path[1], x.path[2], k>>]}
  /\ UNCHANGED <<s, bad, hist>>

Next == (\E c \in Calls : Do(c)) \/ ClientMutate
Spec == Init /\ [][Next]_vars

ImplRefinesReq == bad = {}
ReqWellFormed == KeyUnique(s) /\ WellFormed(s)
MappingHolds == {Cur(x) : x \in si} = s.store
GenConstraint == GenDepth = 0 \/ Len(hist) <= GenDepth
=============================================================================
