\* all sequences of 3 requests over one representative per pipeline exit (24)
SPECIFICATION Spec
CONSTANTS
  MaxReq = 3
  Alphabet <- Exits
  San = TRUE
  ClChk = TRUE
  Threaded = TRUE
  FinalValid = FALSE
  QCap = 0
  Gating = FALSE
  QfRet = TRUE
  Echo = "xml10"
  PName = "exact"
  Deep = "caught"
  LexG = "full"
INVARIANT InvAllClauses
INVARIANT InvNeverStuck
INVARIANT InvDelivered
INVARIANT InvNoSpurious
CHECK_DEADLOCK FALSE
