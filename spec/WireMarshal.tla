----------------------------- MODULE WireMarshal -----------------------------
(***************************************************************************)
(* C04 design model: marshalling of an operation call into the CIM-XML     *)
(* request and what the server decodes from it.                            *)
(*                                                                         *)
(* A call = [op, nsArg, objNs, params] where nsArg is the `namespace`      *)
(* argument (or NoNs), objNs the namespace inside the object-name argument *)
(* (CIMClassName / CIMInstanceName; NoNs if a plain string or absent) and  *)
(* params maps each parameter name to a value token or None.               *)
(* Code shape (pywbem/_cim_operations.py: _iparam_namespace_from_*,        *)
(* _imethodcall): namespace := nsArg, else objNs, else the connection      *)
(* default; every parameter whose value is None is DROPPED from the        *)
(* IPARAMVALUE list; names keep their spelling; the server-side parser     *)
(* (TupleParser.parse_imethodcall) returns LOCALNAMESPACEPATH and the      *)
(* (name, value) list.                                                     *)
(* Requirement: ServerSaw = [op, namespace with default applied, exactly   *)
(* the non-None parameters].  Constants select wrong variants that must    *)
(* fail: DropNone = FALSE (None sent as empty value), ObjNsIgnored = TRUE  *)
(* (namespace of the object name not used).                                *)
(***************************************************************************)
EXTENDS Naturals, Sequences, FiniteSets, TLC

CONSTANTS DropNone, ObjNsIgnored

NoNs == "none"
Nss == {"n1", "n2"}
Vals == {"None", "v1", "v2"}
PNames == {"P1", "P2", "P3"}
Ops == {"GetInstance", "EnumerateInstances", "OpenEnumerateInstances"}

VARIABLES call, dflt, saw
vars == <<call, dflt, saw>>

Calls == [op : Ops, nsArg : Nss \cup {NoNs}, objNs : Nss \cup {NoNs},
          params : [PNames -> Vals]]

Marshal(c, d) ==
  [method |-> c.op,
   ns |-> IF c.nsArg # NoNs THEN c.nsArg
          ELSE IF c.objNs # NoNs /\ ~ObjNsIgnored THEN c.objNs ELSE d,
   iparams |-> {<<p, c.params[p]>> : p \in {q \in PNames :
                    ~DropNone \/ c.params[q] # "None"}}]

Unmarshal(m) == [op |-> m.method, ns |-> m.ns,
                 params |-> {x \in m.iparams : TRUE}]

Expected(c, d) ==
  [op |-> c.op,
   ns |-> IF c.nsArg # NoNs THEN c.nsArg
          ELSE IF c.objNs # NoNs THEN c.objNs ELSE d,
   params |-> {<<p, c.params[p]>> : p \in {q \in PNames : c.params[q] # "None"}}]

Init == call \in Calls /\ dflt \in Nss /\ saw = Unmarshal(Marshal(call, dflt))
Next == UNCHANGED vars
Spec == Init /\ [][Next]_vars

ServerSawWhatCallerSupplied == saw = Expected(call, dflt)

(* enumeration of all call shapes for the spec -> code replay (workers 1) *)
Emit == PrintT(<<"CALL", call.op, call.nsArg, call.objNs, call.params["P1"],
                 call.params["P2"], call.params["P3"], dflt>>)
=============================================================================
