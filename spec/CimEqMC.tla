------------------------------ MODULE CimEqMC ------------------------------
(***************************************************************************)
(* TLC model check for C05 on the bounded universe of CimEqU:              *)
(*  (a) the requirement AbsEq is lawful: symmetric, and sandwiched between *)
(*      two kernels (strict canon <=> "T", loose canon separates every     *)
(*      "F"/"X"), hence every admissible == that is a kernel in between is *)
(*      reflexive, symmetric, transitive and has a lawful hash             *)
(*      (AbsHashClass); it ignores lexical case and bag order and every    *)
(*      single-attribute mutation leaves the "T" class;                    *)
(*  (b) the code-shaped ImplEq / ImplHash of CimEqImpl agree with it on    *)
(*      ALL same-kind pairs of the universe: ImplEq is in the admissible   *)
(*      set of AbsEq, is the kernel of the "py" canon (=> equivalence),    *)
(*      and ImplEq = "T" => equal ImplHash.                                *)
(* One state per ordered same-kind pair (a, b).                            *)
(***************************************************************************)
EXTENDS CimEqImpl

CONSTANT MCKinds

VARIABLES ph, a, b
vars == <<ph, a, b>>

Init == /\ ph = 0
        /\ a \in UNION { U(k) : k \in MCKinds }
        /\ b = a
Next == /\ ph = 0 /\ ph' = 1 /\ a' = a
        /\ b' \in U(a.k)
Spec == Init /\ [][Next]_vars

exp == AbsEq(a, b)
impl == ImplEq(a, b)
SameCanon(m) == Canon(a, m, "", "") = Canon(b, m, "", "")

AbsWellFormed == exp \in {"T", "F", "U", "X"}
AbsSymmetric == exp = AbsEq(b, a)
AbsReflexive == ph = 0 => exp = "T"
AbsSandwich ==
  /\ (exp = "T") <=> SameCanon("strict")
  /\ exp \in {"F", "X"} => ~SameCanon("loose")
  /\ exp = "U" => SameCanon("loose")
AbsHashLawful == exp \in {"T", "U"} => AbsHashClass(a) = AbsHashClass(b)
AbsIgnoresCaseAndOrder ==
  ph = 0 => /\ AbsEq(a, FlipCase(a)) = "T"
            /\ AbsEq(a, RevBags(a)) = "T"
            /\ AbsEq(RevBags(FlipCase(a)), a) = "T"
(* b arises from a by changing one scalar attribute, or the base of a name:
   never "T" *)
OneAttrApart ==
  \/ /\ a.nm = b.nm /\ a.ch = b.ch /\ Len(a.at) = Len(b.at)
     /\ Cardinality({i \in 1..Len(a.at) : a.at[i] # b.at[i]}) = 1
  \/ /\ a.at = b.at /\ a.ch = b.ch /\ a.k \notin {"S", "DateTime"}
     /\ Cardinality({i \in 1..Len(a.nm) : a.nm[i].b # b.nm[i].b}) = 1
AbsSensitive == (a.k # "DateTime" /\ OneAttrApart) => exp \in {"F", "U"}

ImplAgrees == impl \in Acc(exp)
ImplSymmetric == impl = ImplEq(b, a)
ImplIsKernel == impl # "E" => ((impl = "T") <=> SameCanon("py"))
ImplEqImpliesHash == impl = "T" => ImplHash(a, "", "") = ImplHash(b, "", "")
ImplIgnoresCaseAndOrder ==
  ph = 0 => /\ ImplEq(a, RevBags(FlipCase(a))) = "T"
            /\ ImplHash(a, "", "") = ImplHash(RevBags(FlipCase(a)), "", "")
=============================================================================
