\* thorough: repaired start(), HTTP+HTTPS, 2 senders
SPECIFICATION Spec
CONSTANTS
  Cfg = {"http", "https"}
  Envs <- EnvsBoth
  Senders = {"s1", "s2"}
  NInd = 1
  MaxQ = 1
  MaxOps = 2
  InitCbs <- Cbs1
  AddCbs = {2}
  FailCleanup = "full"
  CloseOnCertFail = TRUE
  ClearRobust = TRUE
  StopGuard = TRUE
  DupCheck = TRUE
  FailStopsDelivery = TRUE
INVARIANT StartFailHolds
INVARIANT OtherHolds
PROPERTY MainTerminates
CHECK_DEADLOCK FALSE
