SPECIFICATION Spec
CONSTANTS
  Variant = "code"
  PinnedAssert = FALSE
  ResU = {"r1", "r2", "r3", "r4"}
  ProfU = {"p1", "p2", "p3"}
  MaxEdges = 3
  ModesU = {"impl", "unsup", "err"}
  QuerySet = "full"
INVARIANT ImplRefinesReq
INVARIANT ReqTotal
INVARIANT WorldWellFormed
CHECK_DEADLOCK FALSE
