SPECIFICATION Spec
CONSTANTS
  AliasKeys = FALSE
  ArrayOneWay = FALSE
  NsU = {1, 3}
  ClsU = {"A", "B", "Z"}
  KeyU = {1, 2}
  ValS = {"unset", "null", "v1"}
  ValT = {"unset"}
  ValU = {"unset", "v1"}
  BadU = {"none", "s_uint8_sc_null", "u_string_sc_val"}
  GenDepth = 0
INVARIANT ImplRefinesReq
INVARIANT ReqWellFormed
INVARIANT MappingHolds
CHECK_DEADLOCK FALSE
