SPECIFICATION Spec
CONSTANTS
  AliasKeys = FALSE
  NsU = {1, 3}
  ClsU = {"A", "B", "Z"}
  KeyU = {1, 2}
  ValS = {"unset", "null", "v1"}
  ValT = {"unset"}
  ValU = {"unset", "v1"}
  BadU = {"none", "wrongtype", "wrongnull"}
  GenDepth = 0
INVARIANT ImplRefinesReq
INVARIANT ReqWellFormed
INVARIANT MappingHolds
CHECK_DEADLOCK FALSE
