\* datetime values in EVERY value position (property, array entry, qualifier, qualifier
\* declaration, keybinding, parameter value; alone or below instance / class / path) x every
\* UTC offset class of CimWire!DtOffsetClass (zero, +-whole hours, +-NOT whole hours) x shape.
\* Must pass; EmitDt prints the trees for the binding (one worker).
SPECIFICATION Spec
CONSTANTS
  Types = {"datetime"}
  QualTypes = {"datetime"}
  KeyTypes = {"datetime"}
  Shapes = {"scalar", "v", "vn", "nv", "vv"}
  StrVals <- StrValsKey
  CharVals = {"ltr"}
  Names = {"a"}
  MaxEls = 2
  MaxDepth = 0
  MaxKids = 1
  MaxAttrs = 0
  Modes = {"entity"}
  W <- WFixed
  RootKinds = {"inst", "class", "ipath", "prop", "pval", "qual", "qdecl"}
  EmbPaths = FALSE
INVARIANT NormIdempotent
INVARIANT ReqAcceptsNorm
INVARIANT ReqRejects
INVARIANT ImplMeetsReq
INVARIANT EmitDt
CHECK_DEADLOCK FALSE
