SPECIFICATION Spec
CONSTANTS
  K = 1
  Variant = {"export_path", "real_repr", "scope_any"}
  Emit = FALSE
INVARIANTS ImplValid ImplHeaders ImplReqOk
CHECK_DEADLOCK FALSE
