SPECIFICATION Spec
CONSTANTS
  K = 1
  Variant = "code"
  Emit = FALSE
INVARIANTS ImplValid ImplHeaders ImplReqOk
CHECK_DEADLOCK FALSE
