SPECIFICATION Spec
CONSTANTS
  TMin = 0
  TMax = 15
  Pts <- PtsU4t
  MaxLen = 2
  FixTrunc = TRUE
  FixGuard = TRUE
  FixOct0 = TRUE
  FixSkip = TRUE
  FixUncl = TRUE
  FixCase = TRUE
  FixItems = FALSE
  ItemsOnce = FALSE
  Lenient <- LenNone
  WithLex = FALSE
  Emit = FALSE
  WithBad = FALSE
CHECK_DEADLOCK FALSE
INVARIANT ImplEqualsClaims
