\* regression configuration (must FAIL): NewIndication checked case-insensitively but fetched with the exact key: KeyError in the handler
SPECIFICATION Spec
CONSTANTS
  MaxReq = 1
  Alphabet <- LexAlone
  San = TRUE
  ClChk = TRUE
  Threaded = TRUE
  FinalValid = FALSE
  QCap = 0
  Gating = FALSE
  QfRet = TRUE
  Echo = "xml10"
  PName = "cicheck"
  Deep = "caught"
  LexG = "full"
INVARIANT InvNoDroppedConnection
CHECK_DEADLOCK FALSE
