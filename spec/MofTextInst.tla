---------------------------- MODULE MofTextInst ----------------------------
(***************************************************************************)
(* C08, instance level: an instance property next to the default value     *)
(* that the CLASS of the instance declares for it.                         *)
(*                                                                         *)
(* The statement: the MOF text of an instance, compiled "given the needed  *)
(* ... classes", yields an instance equal to the original in names and     *)
(* property values.  The class that is needed may declare a default value  *)
(* for a property; the instance may give the property a value, give it     *)
(* NULL, or not have it at all.  Whatever the class says, the compiled     *)
(* instance has to be the ORIGINAL instance:                               *)
(*     given NULL   -> NULL            (not the class default)             *)
(*     given value  -> that value      (not the class default)             *)
(*     absent       -> absent          (not instantiated from the class)   *)
(*                                                                         *)
(* Universe (the case distinction the driver concretises, one real         *)
(* instance + primed class per case, for every CIM type):                  *)
(*     type   the 15 CIM types                                             *)
(*     arr    the class declares an array property                         *)
(*     dflt   what the class declares as default                           *)
(*              "none"    no initializer (primed as object, value None)    *)
(*              "null"    initializer NULL (primed through MOF `= NULL`)   *)
(*              "scalar"  a non-NULL scalar   (scalar property)            *)
(*              "array"   a non-NULL array    (array property)             *)
(*     gives  what the instance has: "absent" | "null" | "value"           *)
(*     shape  how it looks: absent | null | nullarray | scalar | array |   *)
(*            arraynull (array with a NULL item) | empty (empty array)     *)
(*     emb    "" | "instance" | "object": a string property holding        *)
(*            embedded instance(s) (EmbeddedInstance / EmbeddedObject      *)
(*            qualifier in the class; the class default, if any, is the    *)
(*            MOF text of an instance, as the compiler declares it)        *)
(*                                                                         *)
(* Code-shaped model: CIMInstance.tomof() writes one initializer per       *)
(* property the instance HAS (`P = NULL;` for a NULL value);               *)
(* p_instanceDeclaration builds every instance property as a COPY of the   *)
(* class property (so it starts out with the class default) and then       *)
(* assigns the converted initializer.  Variants:                           *)
(*     skipNull     the assignment is skipped for a NULL initializer       *)
(*                  (`if pval is not None:`) - the copy keeps the class    *)
(*                  default                                                *)
(*     fillAbsent   properties the text does not mention are instantiated  *)
(*                  from the class                                         *)
(*     omitNull     tomof() leaves NULL-valued properties out              *)
(*     embSkipsFalsy  embedded-object properties: the initializer is       *)
(*                  compiled and assigned only `if pval:` - for NULL and   *)
(*                  for the empty array `{ }` the copy keeps the class     *)
(*                  default.  THIS IS THE UNCHANGED TREE (known finding);  *)
(*                  the repaired design assigns NULL / the empty array.    *)
(* Non-embedded properties: the unchanged tree has all variants FALSE.     *)
(***************************************************************************)
EXTENDS Naturals, Sequences, FiniteSets, TLC

CimTypes == {"uint8", "sint8", "uint16", "sint16", "uint32", "sint32",
             "uint64", "sint64", "real32", "real64", "boolean", "string",
             "char16", "datetime", "reference"}
DfltKinds == {"none", "null", "scalar", "array"}
Gives == {"absent", "null", "value"}
Shapes == {"absent", "null", "nullarray", "scalar", "array", "arraynull",
           "empty"}

ShapesOf(gives, arr) ==
  CASE gives = "absent" -> {"absent"}
    [] gives = "null"   -> {IF arr THEN "nullarray" ELSE "null"}
    [] OTHER            -> IF arr THEN {"array", "arraynull", "empty"}
                           ELSE {"scalar"}

WellFormed(c) ==
  /\ c.dflt = "scalar" => ~c.arr
  /\ c.dflt = "array" => c.arr
  /\ c.type = "reference" => ~c.arr       \* no arrays of references in MOF
  /\ c.shape \in ShapesOf(c.gives, c.arr)
  /\ c.emb # "" => c.type = "string" /\ c.shape # "arraynull"

Universe ==
  {c \in [type : CimTypes, arr : BOOLEAN, dflt : DfltKinds, gives : Gives,
          shape : Shapes, emb : {"", "instance", "object"}] : WellFormed(c)}

(*------------------------- abstract objects ------------------------------*)
(* values: "NULL", "D" (the class default), "V" (the instance's own value; *)
(* never the same token as the class default), "E" (the empty array, which *)
(* Python takes for false).  An instance is a set of                       *)
(* [name, val]; besides the property under test "P" it has the anchor "K"  *)
(* (MOF cannot express an instance without any property).                 *)
ClassOf(c) ==          \* property name -> declared default
  [n \in {"K", "P"} |->
     IF n = "P" /\ c.dflt \in {"scalar", "array"} THEN "D" ELSE "NULL"]

Orig(c) ==
  {[name |-> "K", val |-> "V"]}
  \cup (CASE c.gives = "absent" -> {}
          [] c.gives = "null"   -> {[name |-> "P", val |-> "NULL"]}
          [] OTHER              -> {[name |-> "P",
                                     val |-> IF c.shape = "empty" THEN "E"
                                             ELSE "V"]})

Variant == [skipNull : BOOLEAN, fillAbsent : BOOLEAN, omitNull : BOOLEAN,
            embSkipsFalsy : BOOLEAN]
Repaired == [skipNull |-> FALSE, fillAbsent |-> FALSE, omitNull |-> FALSE,
             embSkipsFalsy |-> FALSE]
Pinned == [Repaired EXCEPT !.embSkipsFalsy = TRUE]     \* the unchanged tree

(* CIMInstance.tomof(): the set of initializers written *)
Tomof(inst, v) ==
  {p \in inst : ~(v.omitNull /\ p.val = "NULL")}

(* p_instanceDeclaration *)
CompileProp(init, cls, emb, v) ==
  LET copied == cls[init.name]                 \* pprop = cprop.copy()
  IN [name |-> init.name,
      val  |-> IF init.name = "P" /\ emb # ""
               THEN IF v.embSkipsFalsy /\ init.val \in {"NULL", "E"}
                    THEN copied                \* `if pval:` not entered
                    ELSE init.val              \* compile_embedded_value
               ELSE IF v.skipNull /\ init.val = "NULL" THEN copied
               ELSE init.val]                  \* cimvalue(pval, cprop.type)

Compile(text, cls, emb, v) ==
  {CompileProp(i, cls, emb, v) : i \in text}
  \cup (IF v.fillAbsent
        THEN {[name |-> n, val |-> cls[n]] :
                n \in DOMAIN cls \ {i.name : i \in text}}
        ELSE {})

RoundTrips(c, v) ==
  Compile(Tomof(Orig(c), v), ClassOf(c), c.emb, v) = Orig(c)

(* where the unchanged tree is known not to round-trip *)
PinnedEmbCases ==
  {c \in Universe : /\ c.emb # ""
                    /\ \/ c.gives = "null" /\ c.dflt \in {"scalar", "array"}
                       \/ c.shape = "empty"}
=============================================================================
