---------------------------- MODULE MofTextInst ----------------------------
(***************************************************************************)
(* C08, instance level: an instance property next to the default value     *)
(* that the CLASS of the instance declares for it.                         *)
(*                                                                         *)
(* The statement: the MOF text of an instance, compiled "given the needed  *)
(* ... classes", yields an instance equal to the original in names and     *)
(* property values.  The class that is needed may declare a default value  *)
(* for a property; the instance may give the property a value, give it     *)
(* NULL, or not have it at all.  Whatever the class says, the compiled     *)
(* instance has to be the ORIGINAL instance:                               *)
(*     given NULL   -> NULL            (not the class default)             *)
(*     given value  -> that value      (not the class default)             *)
(*     absent       -> absent          (not instantiated from the class)   *)
(*                                                                         *)
(* Universe (the case distinction the driver concretises, one real         *)
(* instance + primed class per case, for every CIM type):                  *)
(*     type   the 15 CIM types                                             *)
(*     arr    the class declares an array property                         *)
(*     dflt   what the class declares as default                           *)
(*              "none"    no initializer (primed as object, value None)    *)
(*              "null"    initializer NULL (primed through MOF `= NULL`)   *)
(*              "scalar"  a non-NULL scalar   (scalar property)            *)
(*              "array"   a non-NULL array    (array property)             *)
(*     gives  what the instance has: "absent" | "null" | "value"           *)
(*     shape  how it looks: absent | null | nullarray | scalar | array |   *)
(*            arraynull (array with a NULL item) | empty (empty array)     *)
(*     emb    "" | "instance" | "object": a string property holding        *)
(*            embedded instance(s) (EmbeddedInstance / EmbeddedObject      *)
(*            qualifier in the class; the class default, if any, is the    *)
(*            MOF text of an instance, as the compiler declares it)        *)
(*     depth  0 for ordinary properties; 1: the embedded instance(s) have  *)
(*            plain properties; 2: the embedded instance(s) themselves     *)
(*            have an embedded instance property (MOF text nested in MOF   *)
(*            text nested in MOF text)                                     *)
(*            an embedded array may hold a NULL item (shape arraynull)     *)
(*                                                                         *)
(* Code-shaped model: CIMInstance.tomof() writes one initializer per       *)
(* property the instance HAS (`P = NULL;` for a NULL value);               *)
(* p_instanceDeclaration builds every instance property as a COPY of the   *)
(* class property (so it starts out with the class default) and then       *)
(* assigns the converted initializer.  Variants:                           *)
(*     skipNull     the assignment is skipped for a NULL initializer       *)
(*                  (`if pval is not None:`) - the copy keeps the class    *)
(*                  default                                                *)
(*     fillAbsent   properties the text does not mention are instantiated  *)
(*                  from the class                                         *)
(*     omitNull     tomof() leaves NULL-valued properties out              *)
(*     embSkipsFalsy  embedded-object properties: the initializer is       *)
(*                  compiled and assigned only `if pval:` - for NULL and   *)
(*                  for the empty array `{ }` the copy keeps the class     *)
(*                  default (repaired in the tree by commit 0e20684).      *)
(*     embInnerResets  compile_embedded_value() of the INNER embedded      *)
(*                  instance leaves parser.embedded_objects = None, so the *)
(*                  outer embedded compile has no list to return: a value  *)
(*                  of depth 2 is rejected                                 *)
(*     embDropsNullItem  the NULL item of an embedded array is skipped by  *)
(*                  the per-item compile loop: the array arrives shorter   *)
(*                  THE LAST TWO ARE THE UNCHANGED TREE (known findings).  *)
(* Non-embedded properties: the unchanged tree has all variants FALSE.     *)
(***************************************************************************)
EXTENDS Naturals, Sequences, FiniteSets, TLC

CimTypes == {"uint8", "sint8", "uint16", "sint16", "uint32", "sint32",
             "uint64", "sint64", "real32", "real64", "boolean", "string",
             "char16", "datetime", "reference"}
DfltKinds == {"none", "null", "scalar", "array"}
Gives == {"absent", "null", "value"}
Shapes == {"absent", "null", "nullarray", "scalar", "array", "arraynull",
           "empty"}

ShapesOf(gives, arr) ==
  CASE gives = "absent" -> {"absent"}
    [] gives = "null"   -> {IF arr THEN "nullarray" ELSE "null"}
    [] OTHER            -> IF arr THEN {"array", "arraynull", "empty"}
                           ELSE {"scalar"}

WellFormed(c) ==
  /\ c.dflt = "scalar" => ~c.arr
  /\ c.dflt = "array" => c.arr
  /\ c.type = "reference" => ~c.arr       \* no arrays of references in MOF
  /\ c.shape \in ShapesOf(c.gives, c.arr)
  /\ c.emb # "" => c.type = "string"
  /\ (c.emb = "") = (c.depth = 0)
  /\ c.depth = 2 => c.shape \in {"scalar", "array", "arraynull"}

Universe ==
  {c \in [type : CimTypes, arr : BOOLEAN, dflt : DfltKinds, gives : Gives,
          shape : Shapes, emb : {"", "instance", "object"},
          depth : 0..2] : WellFormed(c)}

(*------------------------- abstract objects ------------------------------*)
(* values: "NULL", "D" (the class default), "V" (the instance's own value; *)
(* never the same token as the class default), "VN" (an array value with a *)
(* NULL item), "E" (the empty array, which Python takes for false), "REJ"  *)
(* (compiled side only: the compiler rejected the text).  An instance is a *)
(* set of                                                                  *)
(* [name, val]; besides the property under test "P" it has the anchor "K"  *)
(* (MOF cannot express an instance without any property).                 *)
ClassOf(c) ==          \* property name -> declared default
  [n \in {"K", "P"} |->
     IF n = "P" /\ c.dflt \in {"scalar", "array"} THEN "D" ELSE "NULL"]

Orig(c) ==
  {[name |-> "K", val |-> "V"]}
  \cup (CASE c.gives = "absent" -> {}
          [] c.gives = "null"   -> {[name |-> "P", val |-> "NULL"]}
          [] OTHER              -> {[name |-> "P",
                                     val |-> IF c.shape = "empty" THEN "E"
                                             ELSE IF c.shape = "arraynull"
                                             THEN "VN" ELSE "V"]})

Variant == [skipNull : BOOLEAN, fillAbsent : BOOLEAN, omitNull : BOOLEAN,
            embSkipsFalsy : BOOLEAN, embInnerResets : BOOLEAN,
            embDropsNullItem : BOOLEAN]
Repaired == [skipNull |-> FALSE, fillAbsent |-> FALSE, omitNull |-> FALSE,
             embSkipsFalsy |-> FALSE, embInnerResets |-> FALSE,
             embDropsNullItem |-> FALSE]
Pinned == [Repaired EXCEPT !.embInnerResets = TRUE,     \* the unchanged tree
                           !.embDropsNullItem = TRUE]

(* CIMInstance.tomof(): the set of initializers written *)
Tomof(inst, v) ==
  {p \in inst : ~(v.omitNull /\ p.val = "NULL")}

(* p_instanceDeclaration *)
CompileProp(init, cls, c, v) ==
  LET copied == cls[init.name]                 \* pprop = cprop.copy()
  IN [name |-> init.name,
      val  |-> IF init.name = "P" /\ c.emb # ""
               THEN IF v.embSkipsFalsy /\ init.val \in {"NULL", "E"}
                    THEN copied                \* `if pval:` not entered
                    ELSE IF init.val \in {"NULL", "E"} THEN init.val
                    \* compile_embedded_value, once per level of nesting
                    ELSE IF v.embInnerResets /\ c.depth = 2 THEN "REJ"
                    ELSE IF v.embDropsNullItem /\ init.val = "VN" THEN "V"
                    ELSE init.val
               ELSE IF v.skipNull /\ init.val = "NULL" THEN copied
               ELSE init.val]                  \* cimvalue(pval, cprop.type)

Compile(text, cls, c, v) ==
  {CompileProp(i, cls, c, v) : i \in text}
  \cup (IF v.fillAbsent
        THEN {[name |-> n, val |-> cls[n]] :
                n \in DOMAIN cls \ {i.name : i \in text}}
        ELSE {})

RoundTrips(c, v) ==
  Compile(Tomof(Orig(c), v), ClassOf(c), c, v) = Orig(c)

(* where the variant embSkipsFalsy does not round-trip *)
NullOrEmptyEmbCases ==
  {c \in Universe : /\ c.emb # ""
                    /\ \/ c.gives = "null" /\ c.dflt \in {"scalar", "array"}
                       \/ c.shape = "empty"}
(* where the unchanged tree is known not to round-trip *)
NestedEmbCases == {c \in Universe : c.depth = 2}
NullItemEmbCases == {c \in Universe : c.emb # "" /\ c.shape = "arraynull"}
PinnedEmbCases == NestedEmbCases \cup NullItemEmbCases
(* position tag of a case in the driver's signatures *)
CaseTag(c) == IF c \in NullOrEmptyEmbCases THEN "null-or-empty-initializer"
              ELSE IF c \in NestedEmbCases THEN "nested"
              ELSE IF c \in NullItemEmbCases THEN "null-item"
              ELSE ""
=============================================================================
