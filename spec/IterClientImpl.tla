--------------------------- MODULE IterClientImpl ---------------------------
(***************************************************************************)
(* Code-shaped machine of WBEMConnection.Iter...() (pywbem/_cim_operations *)
(* .py: the seven generator functions share one shape): tri-state learned  *)
(* flag per family, try Open -> pull loop -> except CIMError (NOT_SUPPORTED*)
(* or FAILED while undetermined -> fall back) -> finally CloseEnumeration, *)
(* traditional fallback rejecting FilterQuery/ContinueOnError.             *)
(* Run in lock step with the requirement machine IterClient.               *)
(*   Sticky = TRUE  : the code as it is (the learned flag persists).  TLC  *)
(*                    shows the two histories in which a capability change *)
(*                    of the server makes a later call fail although a     *)
(*                    fresh connection succeeds (known findings).          *)
(*   Sticky = FALSE : a design that re-probes on every call; satisfies the *)
(*                    requirement (shows the requirement is satisfiable).  *)
(*   CloseInFinally = FALSE : regression configuration (leak on early      *)
(*                    close/drop/error) that must fail.                    *)
(***************************************************************************)
EXTENDS IterClient

CONSTANTS Sticky, CloseInFinally, Fams, MaxN, Upo,
          ParamsFirst,  \* FALSE: the server (pywbem_mock MainProvider.Open...)
                        \*   checks that pull operations are enabled BEFORE it
                        \*   validates the open parameters (the tree);
                        \*   TRUE: regression variant, parameters first
          TimeoutErr    \* what a rejected OperationTimeout surfaces as:
                        \*   "CIMError" (design) | "ValueError" (pinned tree:
                        \*   broken format string in _validate_open_params)

VARIABLES flag,    \* family -> "N" | "T" | "F"
          srvOn,   \* server supports pull
          bad, last
vars == <<flag, srvOn, bad, last>>

Min(a, b) == IF a < b THEN a ELSE b
Take(q, n) == SubSeq(q, 1, Min(n, Len(q)))

Out(res, code, yielded, pathsok, nctx) ==
  [res |-> res, code |-> code, yielded |-> yielded, pathsok |-> pathsok,
   nctx |-> nctx]

(* number of Pulls needed to have `n` objects available when the server    *)
(* answers every request with exactly min(m, remaining) objects            *)
PullsFor(n, m) == IF n <= m THEN 0 ELSE ((n - 1) \div m)

Wanted(c) == IF c.consume = "exhaust" THEN Len(c.trad) ELSE Min(c.k, Len(c.trad))

(* server side: _validate_open_params (order of the checks as in the mock) *)
ParamVerdict(c) ==
  IF c.fqc = "qonly" THEN <<"CIMError", 4>>
  ELSE IF c.fqc = "badlang" THEN <<"CIMError", 14>>
  ELSE IF c.ot = "big" THEN <<TimeoutErr, IF TimeoutErr = "CIMError" THEN 4 ELSE 0>>
  ELSE <<"ok", 0>>

(* traditional fallback part of the generator *)
FallbackPart(c) ==
  IF c.fq \/ c.coe THEN Out("ValueError", 0, <<>>, TRUE, 0)
  ELSE IF ~c.tradok THEN Out("CIMError", 5, <<>>, TRUE, 0)
  ELSE Out("done", 0, Take(c.trad, Wanted(c)), TRUE, 0)

(* one complete use of the generator; returns <<outcome, new flag>> *)
ImplCall(fl, on, c) ==
  IF c.consume # "exhaust" /\ c.k = 0          \* generator never started
  THEN <<Out("done", 0, <<>>, TRUE, 0), fl>>
  ELSE IF c.moc # "ok"
  THEN <<Out(IF c.moc = "badtype" THEN "TypeError" ELSE "ValueError",
             0, <<>>, TRUE, 0), fl>>
  ELSE IF fl \in {"N", "T"}
  THEN IF ParamsFirst /\ ParamVerdict(c)[1] # "ok"
       THEN \* neither NOT_SUPPORTED nor FAILED: raised, nothing learned
            <<Out(ParamVerdict(c)[1], ParamVerdict(c)[2], <<>>, TRUE, 0), fl>>
       ELSE IF ~on
       THEN IF fl = "N" THEN <<FallbackPart(c), "F">>
            ELSE <<Out("CIMError", NOT_SUPPORTED, <<>>, TRUE, 0), fl>>
       ELSE IF ParamVerdict(c)[1] # "ok"
            THEN <<Out(ParamVerdict(c)[1], ParamVerdict(c)[2], <<>>, TRUE, 0),
                   fl>>
       ELSE IF ~c.tradok
            THEN \* Open raises the operation's own error
                 <<Out("CIMError", 5, <<>>, TRUE, 0), fl>>
            ELSE LET want == Wanted(c)
                     pulls == PullsFor(IF c.consume = "exhaust"
                                       THEN Len(c.trad) ELSE want, c.mocn)
                     hit == c.fault > 0 /\ pulls >= c.fault
                     got == IF hit THEN Min(c.fault * c.mocn, Len(c.trad))
                            ELSE want
                     \* a context is open on the server unless eos was reached
                     open == (hit \/ c.consume # "exhaust") /\
                             (IF hit THEN TRUE ELSE Len(c.trad) > (PullsFor(want, c.mocn) + 1) * c.mocn)
                     leak == IF open /\ ~CloseInFinally THEN 1 ELSE 0 IN
                 <<Out(IF hit THEN "CIMError" ELSE "done",
                       IF hit THEN FAILED ELSE 0,
                       Take(c.trad, got), TRUE, leak), "T">>
  ELSE <<FallbackPart(c), fl>>

FaultedIn(fl, on, c) ==
  /\ ~(c.consume # "exhaust" /\ c.k = 0)
  /\ c.moc = "ok" /\ fl \in {"N", "T"} /\ on /\ c.tradok /\ c.fault > 0
  /\ ParamVerdict(c)[1] = "ok"
  /\ PullsFor(IF c.consume = "exhaust" THEN Len(c.trad) ELSE Wanted(c),
              c.mocn) >= c.fault

Call(fam, fqc, ot, coe, moc, mocn, n, tradok, consume, k, fault) ==
  [fam |-> fam, fq |-> fqc # "none", fqc |-> fqc, ot |-> ot, coe |-> coe,
   moc |-> moc, mocn |-> mocn,
   trad |-> [i \in 1..n |-> i], tradok |-> tradok, consume |-> consume,
   k |-> k, fault |-> fault]

(* the open-parameter classes interact with the learned flag, the server   *)
(* capability, ContinueOnError and a failing operation; they are crossed   *)
(* with those dimensions only (CallsParams), the remaining dimensions keep *)
(* the two classes that never reject (CallsBase)                           *)
CallsBase ==
  {Call(f, fqc, "none", coe, moc, m, n, tok, cs, k, fl) :
     f \in Fams, fqc \in {"none", "fql"}, coe \in BOOLEAN,
     moc \in {"ok", "zero", "badtype"}, m \in 1..2, n \in 0..MaxN,
     tok \in BOOLEAN, cs \in {"exhaust", "close"}, k \in 0..2, fl \in 0..1}
CallsParams ==
  {Call(f, fqc, ot, coe, "ok", 1, n, tok, cs, 1, 0) :
     f \in Fams, fqc \in FiltClasses, ot \in OtClasses, coe \in BOOLEAN,
     n \in {0, MaxN}, tok \in BOOLEAN, cs \in {"exhaust", "close"}}
Calls == CallsBase \cup CallsParams

Event(c, o, fresh, faulted) ==
  [op |-> "Iter", fam |-> c.fam, upo |-> Upo, srv |-> srvOn, fq |-> c.fq,
   fqc |-> c.fqc, ot |-> c.ot,
   coe |-> c.coe, moc |-> c.moc, mocn |-> c.mocn, trad |-> c.trad,
   tradok |-> c.tradok, consume |-> c.consume, k |-> c.k, faulted |-> faulted,
   res |-> o.res, code |-> o.code, yielded |-> o.yielded,
   pathsok |-> o.pathsok, nctx |-> o.nctx, fresh |-> fresh]

Init == /\ flag = [f \in Fams |-> Upo] /\ srvOn \in BOOLEAN
        /\ bad = {} /\ last = "init"

DoCall(c) ==
  LET fl == IF Sticky THEN flag[c.fam] ELSE Upo
      r == ImplCall(fl, srvOn, c)
      fr == ImplCall(Upo, srvOn, [c EXCEPT !.consume = "exhaust",
                                            !.fault = 0])[1].res
      e == Event(c, r[1], fr, FaultedIn(fl, srvOn, c)) IN
  /\ bad' = Fails(InitState, e)
  /\ flag' = [flag EXCEPT ![c.fam] = r[2]]
  /\ last' = "call"
  /\ UNCHANGED srvOn

Toggle == srvOn' = ~srvOn /\ last' = "toggle" /\ UNCHANGED <<flag, bad>>

Next == (\E c \in Calls : DoCall(c)) \/ Toggle
Spec == Init /\ [][Next]_vars

ImplRefinesReq == bad = {}
FlagsConsistent == \A f \in Fams : flag[f] \in {"N", "T", "F"} /\
                     (Upo # "N" => flag[f] = Upo)
=============================================================================
