--------------------------- MODULE IterClientImpl ---------------------------
(***************************************************************************)
(* Code-shaped machine of WBEMConnection.Iter...() (pywbem/_cim_operations *)
(* .py: the seven generator functions share one shape): tri-state learned  *)
(* flag per family, try Open -> pull loop -> except CIMError (NOT_SUPPORTED*)
(* or FAILED while undetermined -> fall back) -> finally CloseEnumeration, *)
(* traditional fallback rejecting FilterQuery/ContinueOnError.             *)
(* Run in lock step with the requirement machine IterClient.               *)
(*   Sticky = TRUE  : the code as it is (the learned flag persists).  TLC  *)
(*                    shows the two histories in which a capability change *)
(*                    of the server makes a later call fail although a     *)
(*                    fresh connection succeeds (known findings).          *)
(*   Sticky = FALSE : a design that re-probes on every call; satisfies the *)
(*                    requirement (shows the requirement is satisfiable).  *)
(*   CloseInFinally = FALSE : regression configuration (leak on early      *)
(*                    close/drop/error) that must fail.                    *)
(***************************************************************************)
EXTENDS IterClient

CONSTANTS Sticky, CloseInFinally, Fams, MaxN, Upo

VARIABLES flag,    \* family -> "N" | "T" | "F"
          srvOn,   \* server supports pull
          bad, last
vars == <<flag, srvOn, bad, last>>

Min(a, b) == IF a < b THEN a ELSE b
Take(q, n) == SubSeq(q, 1, Min(n, Len(q)))

Out(res, code, yielded, pathsok, nctx) ==
  [res |-> res, code |-> code, yielded |-> yielded, pathsok |-> pathsok,
   nctx |-> nctx]

(* number of Pulls needed to have `n` objects available when the server    *)
(* answers every request with exactly min(m, remaining) objects            *)
PullsFor(n, m) == IF n <= m THEN 0 ELSE ((n - 1) \div m)

Wanted(c) == IF c.consume = "exhaust" THEN Len(c.trad) ELSE Min(c.k, Len(c.trad))

(* traditional fallback part of the generator *)
FallbackPart(c) ==
  IF c.fq \/ c.coe THEN Out("ValueError", 0, <<>>, TRUE, 0)
  ELSE IF ~c.tradok THEN Out("CIMError", 5, <<>>, TRUE, 0)
  ELSE Out("done", 0, Take(c.trad, Wanted(c)), TRUE, 0)

(* one complete use of the generator; returns <<outcome, new flag>> *)
ImplCall(fl, on, c) ==
  IF c.consume # "exhaust" /\ c.k = 0          \* generator never started
  THEN <<Out("done", 0, <<>>, TRUE, 0), fl>>
  ELSE IF c.moc # "ok"
  THEN <<Out(IF c.moc = "badtype" THEN "TypeError" ELSE "ValueError",
             0, <<>>, TRUE, 0), fl>>
  ELSE IF fl \in {"N", "T"}
  THEN IF ~on
       THEN IF fl = "N" THEN <<FallbackPart(c), "F">>
            ELSE <<Out("CIMError", NOT_SUPPORTED, <<>>, TRUE, 0), fl>>
       ELSE IF ~c.tradok
            THEN \* Open raises the operation's own error
                 <<Out("CIMError", 5, <<>>, TRUE, 0), fl>>
            ELSE LET want == Wanted(c)
                     pulls == PullsFor(IF c.consume = "exhaust"
                                       THEN Len(c.trad) ELSE want, c.mocn)
                     hit == c.fault > 0 /\ pulls >= c.fault
                     got == IF hit THEN Min(c.fault * c.mocn, Len(c.trad))
                            ELSE want
                     \* a context is open on the server unless eos was reached
                     open == (hit \/ c.consume # "exhaust") /\
                             (IF hit THEN TRUE ELSE Len(c.trad) > (PullsFor(want, c.mocn) + 1) * c.mocn)
                     leak == IF open /\ ~CloseInFinally THEN 1 ELSE 0 IN
                 <<Out(IF hit THEN "CIMError" ELSE "done",
                       IF hit THEN FAILED ELSE 0,
                       Take(c.trad, got), TRUE, leak), "T">>
  ELSE <<FallbackPart(c), fl>>

FaultedIn(fl, on, c) ==
  /\ ~(c.consume # "exhaust" /\ c.k = 0)
  /\ c.moc = "ok" /\ fl \in {"N", "T"} /\ on /\ c.tradok /\ c.fault > 0
  /\ PullsFor(IF c.consume = "exhaust" THEN Len(c.trad) ELSE Wanted(c),
              c.mocn) >= c.fault

Call(fam, fq, coe, moc, mocn, n, tradok, consume, k, fault) ==
  [fam |-> fam, fq |-> fq, coe |-> coe, moc |-> moc, mocn |-> mocn,
   trad |-> [i \in 1..n |-> i], tradok |-> tradok, consume |-> consume,
   k |-> k, fault |-> fault]

Calls ==
  {Call(f, fq, coe, moc, m, n, tok, cs, k, fl) :
     f \in Fams, fq \in BOOLEAN, coe \in BOOLEAN,
     moc \in {"ok", "zero", "badtype"}, m \in 1..2, n \in 0..MaxN,
     tok \in BOOLEAN, cs \in {"exhaust", "close"}, k \in 0..2, fl \in 0..1}

Event(c, o, fresh, faulted) ==
  [op |-> "Iter", fam |-> c.fam, upo |-> Upo, srv |-> srvOn, fq |-> c.fq,
   coe |-> c.coe, moc |-> c.moc, mocn |-> c.mocn, trad |-> c.trad,
   tradok |-> c.tradok, consume |-> c.consume, k |-> c.k, faulted |-> faulted,
   res |-> o.res, code |-> o.code, yielded |-> o.yielded,
   pathsok |-> o.pathsok, nctx |-> o.nctx, fresh |-> fresh]

Init == /\ flag = [f \in Fams |-> Upo] /\ srvOn \in BOOLEAN
        /\ bad = {} /\ last = "init"

DoCall(c) ==
  LET fl == IF Sticky THEN flag[c.fam] ELSE Upo
      r == ImplCall(fl, srvOn, c)
      fr == ImplCall(Upo, srvOn, [c EXCEPT !.consume = "exhaust",
                                            !.fault = 0])[1].res
      e == Event(c, r[1], fr, FaultedIn(fl, srvOn, c)) IN
  /\ bad' = Fails(InitState, e)
  /\ flag' = [flag EXCEPT ![c.fam] = r[2]]
  /\ last' = "call"
  /\ UNCHANGED srvOn

Toggle == srvOn' = ~srvOn /\ last' = "toggle" /\ UNCHANGED <<flag, bad>>

Next == (\E c \in Calls : DoCall(c)) \/ Toggle
Spec == Init /\ [][Next]_vars

ImplRefinesReq == bad = {}
FlagsConsistent == \A f \in Fams : flag[f] \in {"N", "T", "F"} /\
                     (Upo # "N" => flag[f] = Upo)
=============================================================================
