------------------------------ MODULE RepoCore ------------------------------
(***************************************************************************)
(* Requirement machine for the mock server's instance store (C10) and for  *)
(* "a failed operation changes nothing" on instance operations (C11).      *)
(*                                                                         *)
(* The reference is a keyed map  (namespace, creation class, key) -> values*)
(* represented as a set of rows.  Keys are abstract, so comparison without *)
(* regard to lexical case / key order holds by construction; the harness   *)
(* randomises case and order when it concretises (DESIGN.md 2.3).          *)
(*                                                                         *)
(* Event style as in PullSrv:  Fails(s,e) = violated clauses,              *)
(* Apply(s,e) = next abstract state.  Outcomes are set-valued: when        *)
(* several documented error conditions hold, any of their codes is         *)
(* admissible (Appendix A of DESIGN.md).                                   *)
(***************************************************************************)
EXTENDS Naturals, Integers, Sequences, FiniteSets, TLC

(* schema: A{k key, s, t}   B:A {u[]}   X{k key, s} ; "Z" is not a class   *)
(* s: string, t: uint16, u: string ARRAY                                    *)
Classes == {"A", "B", "X"}
Exposed(c) == CASE c = "A" -> {"s", "t"} [] c = "B" -> {"s", "t", "u"}
                [] c = "X" -> {"s"} [] OTHER -> {}
Subtree(c) == CASE c = "A" -> {"A", "B"} [] c = "B" -> {"B"}
                [] c = "X" -> {"X"} [] OTHER -> {}
Props == <<"s", "t", "u">>
LiveNs == {1, 2}              \* namespace 3 does not exist

(* CIM status codes *)
E_INVALID_NAMESPACE == 3
E_INVALID_PARAMETER == 4
E_INVALID_CLASS == 5
E_NOT_FOUND == 6
E_ALREADY_EXISTS == 11

Rng(q) == {q[i] : i \in DOMAIN q}
F(name, holds) == IF holds THEN {} ELSE {name}
C(cond, code) == IF cond THEN {code} ELSE {}

(* value tokens: "v1" "v2" real values, "null" NULL or absent, "na" the    *)
(* class does not expose the property, "unset" (arguments only) property   *)
(* not supplied by the caller                                              *)
Row(ns, c, k, vs, vt, vu) ==
  [ns |-> ns, cls |-> c, k |-> k, s |-> vs, t |-> vt, u |-> vu]
ValOf(r, p) == CASE p = "s" -> r.s [] p = "t" -> r.t [] p = "u" -> r.u
KeyOf(r) == <<r.ns, r.cls, r.k>>
Find(S, ns, c, k) == {r \in S : r.ns = ns /\ r.cls = c /\ r.k = k}
Norm(c, p, v) == IF p \notin Exposed(c) THEN "na"
                 ELSE IF v = "unset" THEN "null" ELSE v

InitState == [store |-> {}]

(*----------------- type-related attributes of properties ------------------*)
(* Declared shape of the non-key properties and the universe of supplied    *)
(* shapes <property, CIM type, scalar/array, value/NULL>.  A supplied       *)
(* property conforms iff its CIM type AND its array-ness equal the          *)
(* declaration (both directions: array for scalar, scalar for array; the    *)
(* value being NULL makes no difference).  The tokens of the non-conforming *)
(* shapes are the "bad property" classes of the calls.                      *)
DeclType(p) == IF p = "t" THEN "uint16" ELSE "string"
DeclArr(p) == p = "u"
Shapes == [on : {"s", "u"}, ty : {"string", "uint8"}, arr : {"sc", "ar"},
           nul : {"val", "null"}]
ShapeTok(sh) == sh.on \o "_" \o sh.ty \o "_" \o sh.arr \o "_" \o sh.nul
ShapeConforms(sh) == sh.ty = DeclType(sh.on) /\ ((sh.arr = "ar") <=> DeclArr(sh.on))
BadShapes == {sh \in Shapes : ~ShapeConforms(sh)}
BadToks == {ShapeTok(sh) : sh \in BadShapes} \cup {"undeclared"}
(* the supplied instance has a property that is not declared by / does not  *)
(* conform to the creation class c                                          *)
ShapeByTok ==        \* constant-level table (evaluated once by TLC)
  [tok \in {ShapeTok(sh) : sh \in Shapes} |->
     CHOOSE sh \in Shapes : ShapeTok(sh) = tok]
BadProp(c, tok) ==
  \/ tok = "undeclared"
  \/ /\ tok \in DOMAIN ShapeByTok
     /\ LET sh == ShapeByTok[tok] IN
          sh.on \notin Exposed(c) \/ ~ShapeConforms(sh)

Known(e) == e.ns \in LiveNs /\ e.cls \in Classes
CallWellFormed(e) == e.badprop \in BadToks \cup {"none"} /\
                     (e.op = "Modify" \/ e.icls = e.cls)
Given(e) == {p \in Rng(Props) : ValOf(e.vals, p) # "unset"}
Undeclared(e) == e.cls \in Classes /\ \E p \in Given(e) : p \notin Exposed(e.cls)
(* "k" in a PropertyList stands for the (names of the) key properties,      *)
(* which every class of the schema exposes                                  *)
PlistUndeclared(e) == e.hasplist /\ e.cls \in Classes /\
                      \E p \in Rng(e.plist) : p \notin Exposed(e.cls) \cup {"k"}
KeyListed(e) == e.hasplist /\ "k" \in Rng(e.plist)

Common(e) == C(e.ns \notin LiveNs, E_INVALID_NAMESPACE)
             \cup C(e.cls \notin Classes, E_INVALID_CLASS)

Outcome(op, must, may, e) ==
     F(op \o ".SucceedsWhenValid", (must # {} \/ may # {}) \/ e.ok)
\cup F(op \o ".FailsWhenInvalid", must = {} \/ ~e.ok)
\cup F(op \o ".DocumentedStatusCode", e.ok \/ e.code \in (must \cup may))

(*--------------------------- CreateInstance ------------------------------*)
CreateMust(s, e) ==
  Common(e)
  \cup C(Known(e) /\ e.k = 0, E_INVALID_PARAMETER)            \* key missing
  \cup C(BadProp(e.cls, e.badprop) \/ Undeclared(e), E_INVALID_PARAMETER)
  \cup C(Known(e) /\ Find(s.store, e.ns, e.cls, e.k) # {}, E_ALREADY_EXISTS)

NewRow(e) == Row(e.ns, e.cls, e.k, Norm(e.cls, "s", e.vals.s),
                 Norm(e.cls, "t", e.vals.t), Norm(e.cls, "u", e.vals.u))

CreateFails(s, e) ==
  Outcome("Create", CreateMust(s, e), {}, e)
  \cup F("Create.ReturnsPathOfNewInstance",
         ~e.ok \/ (e.rk.ns = e.ns /\ e.rk.cls = e.cls /\ e.rk.k = e.k))

CreateApply(s, e) ==
  IF e.ok /\ CreateMust(s, e) = {} THEN [s EXCEPT !.store = @ \cup {NewRow(e)}]
  ELSE s

(*--------------------------- ModifyInstance ------------------------------*)
Target(s, e) == Find(s.store, e.ns, e.cls, e.k)
(* e.cls is the class named by the instance path, e.icls the class named   *)
(* by the ModifiedInstance itself.  Both "must specify the same class name" *)
(* (compared as CIM names, i.e. abstractly); really different classes are   *)
(* an invalid parameter                                                     *)
ClsMismatch(e) == e.icls # e.cls
ModifyMust(s, e) ==
  Common(e)
  \cup C(e.icls \notin Classes, E_INVALID_CLASS)
  \cup C(ClsMismatch(e), E_INVALID_PARAMETER)
  \cup C(Known(e) /\ Target(s, e) = {}, E_NOT_FOUND)
  \cup C(BadProp(e.cls, e.badprop) \/ Undeclared(e) \/ PlistUndeclared(e),
         E_INVALID_PARAMETER)
  \* a changed key property is refused; when a PropertyList excludes the key
  \* the statement is silent => "may"
  \cup C(e.kprop \notin {0, e.k} /\ (~e.hasplist \/ KeyListed(e)),
         E_INVALID_PARAMETER)
(* a PropertyList that names a key property which the ModifiedInstance does *)
(* not supply designates the key to be set to its class default (NULL):     *)
(* refusing that as a key change or leaving the key alone are both          *)
(* admissible (statement silent); any other outcome (e.g. a Python          *)
(* exception) is not                                                        *)
ModifyMay(s, e) ==
  C(e.kprop \notin {0, e.k} /\ e.hasplist /\ ~KeyListed(e), E_INVALID_PARAMETER)
  \cup C(e.kprop = 0 /\ KeyListed(e), E_INVALID_PARAMETER)

(* admissible new value of property p of the target row *)
NewVals(old, e, p) ==
  IF p \notin Exposed(e.cls) THEN {"na"}
  ELSE IF e.hasplist
       THEN IF p \in Rng(e.plist)
            THEN {Norm(e.cls, p, ValOf(e.vals, p))}   \* unset => class default
            ELSE {ValOf(old, p)}
       ELSE IF ValOf(e.vals, p) # "unset" THEN {ValOf(e.vals, p)}
            ELSE {ValOf(old, p), "null"}              \* statement silent
ModRows(s, e) ==
  LET old == CHOOSE r \in Target(s, e) : TRUE IN
  {Row(e.ns, e.cls, e.k, vs, vt, vu) :
      vs \in NewVals(old, e, "s"), vt \in NewVals(old, e, "t"),
      vu \in NewVals(old, e, "u")}

ModifyFails(s, e) == Outcome("Modify", ModifyMust(s, e), ModifyMay(s, e), e)

(*--------------------------- DeleteInstance ------------------------------*)
DeleteMust(s, e) ==
  Common(e) \cup C(Known(e) /\ Target(s, e) = {}, E_NOT_FOUND)
DeleteFails(s, e) == Outcome("Delete", DeleteMust(s, e), {}, e)
DeleteApply(s, e) ==
  IF e.ok /\ DeleteMust(s, e) = {} THEN [s EXCEPT !.store = @ \ Target(s, e)]
  ELSE s

(*----------------------------- GetInstance -------------------------------*)
Visible(e, viewcls, r, p) ==     \* value of p in a returned representation
  IF p \notin Exposed(r.cls) THEN "na"
  ELSE IF e.hasplist /\ p \notin Rng(e.plist) THEN "null"
  ELSE IF ~e.deep /\ p \notin Exposed(viewcls) THEN "null"
  ELSE ValOf(r, p)
View(e, viewcls, r) ==
  Row(r.ns, r.cls, r.k, Visible(e, viewcls, r, "s"),
      Visible(e, viewcls, r, "t"), Visible(e, viewcls, r, "u"))

GetMust(s, e) == Common(e) \cup C(Known(e) /\ Target(s, e) = {}, E_NOT_FOUND)
GetMay(s, e) == C(PlistUndeclared(e), E_INVALID_PARAMETER)
GetFails(s, e) ==
  Outcome("Get", GetMust(s, e), GetMay(s, e), e)
  \cup F("Get.ReturnsStoredValues",
         ~e.ok \/ GetMust(s, e) # {} \/
         (Len(e.rinsts) = 1 /\
          e.rinsts[1] = View([e EXCEPT !.deep = TRUE], e.cls,
                             CHOOSE r \in Target(s, e) : TRUE)))

(*---------------- EnumerateInstances / EnumerateInstanceNames -------------*)
EnumMust(s, e) == Common(e)
EnumMay(s, e) == C(PlistUndeclared(e), E_INVALID_PARAMETER)
InScope(s, e) == {r \in s.store : r.ns = e.ns /\ r.cls \in Subtree(e.cls)}
EnumFails(s, e) ==
  Outcome("Enum", EnumMust(s, e), EnumMay(s, e), e)
  \cup F("Enum.ExactlyInstancesOfSubtree",
         ~e.ok \/ EnumMust(s, e) # {} \/
         (/\ Rng(e.rinsts) = {View(e, e.cls, r) : r \in InScope(s, e)}
          /\ Len(e.rinsts) = Cardinality(InScope(s, e))))
NameRow(r) == Row(r.ns, r.cls, r.k, "na", "na", "na")
EnumNamesFails(s, e) ==
  Outcome("EnumNames", EnumMust(s, e), {}, e)
  \cup F("EnumNames.ExactlyPathsOfSubtree",
         ~e.ok \/ EnumMust(s, e) # {} \/
         (/\ Rng(e.rinsts) = {NameRow(r) : r \in InScope(s, e)}
          /\ Len(e.rinsts) = Cardinality(InScope(s, e))))

(*---------------------- state after the call ----------------------------*)
(* the full dump observed after the call must be the reference map         *)
DumpOk(s, e) ==
  LET D == Rng(e.dump) IN
  IF e.op = "Modify" /\ e.ok /\ ModifyMust(s, e) = {}
  THEN \E nr \in ModRows(s, e) : D = (s.store \ Target(s, e)) \cup {nr}
  ELSE D = (CASE e.op = "Create" -> CreateApply(s, e).store
              [] e.op = "Delete" -> DeleteApply(s, e).store
              [] OTHER -> s.store)

DumpFails(s, e) ==
  IF e.ok
  THEN F("MapFaithful.StoreEqualsReferenceMap", DumpOk(s, e))
       \cup F("MapFaithful.NoDuplicateKeys",
              Len(e.dump) = Cardinality(Rng(e.dump)))
  ELSE F("Atomic.FailedCallLeftRepositoryUnchanged", Rng(e.dump) = s.store)

Apply(s, e) ==
  CASE e.op = "Create" -> CreateApply(s, e)
    [] e.op = "Delete" -> DeleteApply(s, e)
    [] e.op = "Modify" ->
         IF e.ok /\ ModifyMust(s, e) = {}
         THEN \* follow the observation (admissibility is checked by DumpOk)
              [s EXCEPT !.store = (@ \ Target(s, e)) \cup
                   {r \in Rng(e.dump) : KeyOf(r) = <<e.ns, e.cls, e.k>>}]
         ELSE s
    [] OTHER -> s

Fails(s, e) ==
  (CASE e.op = "Create"    -> CreateFails(s, e)
     [] e.op = "Modify"    -> ModifyFails(s, e)
     [] e.op = "Delete"    -> DeleteFails(s, e)
     [] e.op = "Get"       -> GetFails(s, e)
     [] e.op = "Enum"      -> EnumFails(s, e)
     [] e.op = "EnumNames" -> EnumNamesFails(s, e)
     [] OTHER -> {"UnknownOperation"})
  \cup DumpFails(s, e)
  \cup F("UnknownCallClass", CallWellFormed(e))

KeyUnique(s) == \A r1, r2 \in s.store : KeyOf(r1) = KeyOf(r2) => r1 = r2
WellFormed(s) == \A r \in s.store :
   /\ r.ns \in LiveNs /\ r.cls \in Classes /\ r.k > 0
   /\ \A p \in Rng(Props) : (ValOf(r, p) = "na") <=> (p \notin Exposed(r.cls))
=============================================================================
