--------------------------- MODULE ProvDispatchImpl ---------------------------
(***************************************************************************)
(* X03 - TLC runs the code-shaped registry + dispatcher                    *)
(* (ProvDispatchImplOps) in lock step with the requirement machine         *)
(* (ProvDispatch) over EVERY history of register_provider / CreateInstance *)
(* / ModifyInstance / DeleteInstance / InvokeMethod calls drawn from the   *)
(* call universe below, and checks                                         *)
(*   ImplRefinesReq   every response of the code shape is admissible       *)
(*   MappingHolds     registry entry of the code shape is an admissible    *)
(*                    receiver of the requirement state; classes and       *)
(*                    instances coincide                                   *)
(*   ReqWellFormed                                                         *)
(* FailedRegAtomic (a failed registration changes nothing) is NOT promised *)
(* by the documentation and does not hold for the code shape (partial      *)
(* registration when a later namespace fails): ProvDispatchImplAtomic.cfg  *)
(* documents that with a counterexample.                                   *)
(*                                                                         *)
(* Call universe: a catalogue of provider descriptors (valid ones and one  *)
(* per documented rejection reason) x namespace arguments x schema pragma  *)
(* given or not x post_register_setup behaviour; requests for every target *)
(* (namespace, class) pair with "one defect or one provider behaviour at a *)
(* time".                                                                  *)
(***************************************************************************)
EXTENDS ProvDispatchImplOps

CONSTANTS Provs, NsArgs, SetupBehs, Targets, KeyU, GenDepth, MaxStore,
          IwLevel, MethLevel     \* "full" | "lite": request shapes per type

VARIABLES si, s, bad, obs, hist, sel
vars == <<si, s, bad, obs, hist, sel>>

P(pid, ptype, base, cn, pcls) ==
  [pid |-> pid, ptype |-> ptype, base |-> base, cn |-> cn, pcls |-> pcls]
ValidProvs ==
  {P(1, "iw", "iw", "str", <<"A">>), P(2, "iw", "iw", "list", <<"A", "X">>),
   P(3, "meth", "meth", "str", <<"A">>),
   P(4, "meth", "meth", "tuple", <<"B", "S">>)}
MoreValidProvs ==
  {P(13, "iw", "iw", "tuple", <<"B">>), P(14, "iw", "iw", "str", <<"S">>),
   P(15, "meth", "meth", "list", <<"A", "B">>),
   P(16, "meth", "meth", "list", <<"X", "S">>)}
InvalidProvs ==
  {P(5, "bad", "iw", "str", <<"A">>), P(6, "meth", "iw", "str", <<"A">>),
   P(7, "iw", "obj", "str", <<"A">>), P(8, "iw", "iw", "none", <<>>),
   P(9, "iw", "iw", "int", <<>>), P(10, "iw", "iw", "list", <<"A", NonStr>>),
   P(11, "iw", "iw", "missing", <<>>), P(12, "iw", "iw", "str", <<"Z">>),
   P(17, "iw", "meth", "str", <<"A">>)}
ProvsSmall == ValidProvs \cup InvalidProvs
ProvsIw == {p \in ValidProvs : p.pid \in {1, 2}} \cup InvalidProvs
ProvsMeth == {p \in ValidProvs : p.pid \in {3, 4}}
             \cup {p \in InvalidProvs : p.pid \in {6, 17}}
ProvsCross == {p \in ValidProvs : p.pid \in {1, 2, 3}} \cup InvalidProvs
ProvsMix == {p \in ValidProvs : p.pid \in {1, 3}}
ProvsBig == ValidProvs \cup MoreValidProvs \cup InvalidProvs
ProvsBigIw == {p \in ValidProvs \cup MoreValidProvs : p.pid \in {1, 2, 3, 13, 14}}
              \cup InvalidProvs
ProvsBigMeth == {p \in ValidProvs \cup MoreValidProvs : p.pid \in {1, 3, 4, 15, 16}}
                \cup {p \in InvalidProvs : p.pid \in {6, 17}}
ProvsSim == ProvsBig

NsArgsSmall ==
  {<<"none", <<>>>>, <<"str", <<1>>>>, <<"str", <<2>>>>, <<"str", <<3>>>>,
   <<"list", <<1, 2>>>>, <<"tuple", <<2, 1>>>>, <<"list", <<1, 3>>>>,
   <<"int", <<>>>>, <<"list", <<1, 0>>>>}
NsArgsBig == NsArgsSmall \cup {<<"tuple", <<3, 0>>>>, <<"list", <<2, 2>>>>,
                               <<"tuple", <<2>>>>}

TargetsSmall == {<<1, "A">>, <<1, "B">>, <<1, "X">>, <<1, "S">>, <<1, "Z">>,
                 <<2, "A">>, <<2, "X">>, <<2, "S">>, <<3, "A">>}
TargetsBig == TargetsSmall \cup {<<2, "B">>, <<2, "Z">>, <<3, "Z">>}

(* descriptors that are refused as such meet only a few namespace         *)
(* arguments (precedence of the rejection reasons), never a pragma file    *)
InvalidNsArgs == {<<"none", <<>>>>, <<"list", <<1, 3>>>>, <<"int", <<>>>>,
                  <<"list", <<1, 0>>>>}
RegCalls ==
  {[op |-> "Reg", pid |-> q[1].pid, ptype |-> q[1].ptype, base |-> q[1].base,
    cn |-> q[1].cn, pcls |-> q[1].pcls, nsarg |-> q[2][1], nss |-> q[2][2],
    pragma |-> q[3], setupbeh |-> q[4], anycase |-> q[5]] :
     q \in {x \in Provs \X NsArgs \X BOOLEAN \X SetupBehs \X BOOLEAN :
              IF x[1] \in InvalidProvs
              THEN x[2] \in InvalidNsArgs /\ ~x[3] /\ x[4] = "ok" /\ ~x[5]
              ELSE (x[4] = "ok" \/ ~x[3]) /\ (x[5] => x[3])}}

CreateShapes ==
  IF IwLevel = "off" THEN {} ELSE
  IF IwLevel = "lite" THEN {<<"none", "deleg">>} ELSE
  {<<d, "deleg">> : d \in {"none", "badprop", "wrongtype", "nokey"}}
  \cup {<<"none", b>> : b \in {"mutate", "rekey", "cimerr", "pyerr", "badret"}}
  \cup {<<"nokey", "rekey">>, <<"badprop", "cimerr">>}
CreateCalls ==
  {[op |-> "Create", ns |-> t[1], cls |-> t[2], k |-> k, defect |-> x[1],
    beh |-> x[2]] : t \in Targets, k \in KeyU, x \in CreateShapes}

Pls == {<<"s">>, <<"t">>, <<"s", "t">>, <<"t", "t">>, <<"zz">>}
ModifyShapes ==
  IF IwLevel \in {"lite", "off"} THEN {} ELSE
  {<<d, FALSE, <<>>, FALSE, "deleg">> :
     d \in {"none", "badprop", "wrongtype", "keychange", "clsmismatch"}}
  \cup {<<"none", TRUE, pl, gt, "deleg">> : pl \in Pls, gt \in BOOLEAN}
  \cup {<<"none", FALSE, <<>>, TRUE, b>> :
          b \in {"mutate", "cimerr", "pyerr", "badret"}}
  \cup {<<"keychange", TRUE, <<"s">>, FALSE, "deleg">>}
ModifyCalls ==
  {[op |-> "Modify", ns |-> t[1], cls |-> t[2], k |-> k, defect |-> x[1],
    haspl |-> x[2], pl |-> x[3], givet |-> x[4], beh |-> x[5]] :
     t \in Targets, k \in KeyU, x \in ModifyShapes}

DeleteCalls ==
  {[op |-> "Delete", ns |-> t[1], cls |-> t[2], k |-> k, beh |-> b] :
     t \in Targets, k \in KeyU,
     b \in IF IwLevel = "off" THEN {} ELSE IF IwLevel = "lite" THEN {"deleg"}
           ELSE {"deleg", "cimerr", "pyerr", "badret"}}

InvokeShapes ==
  IF MethLevel = "off" THEN {} ELSE
  IF MethLevel = "lite"
  THEN {<<"sm", "none", "seq">>, <<"m", "none", "seq">>, <<"sm", "none", "deleg">>}
  ELSE
  {<<m, d, "seq">> : m \in {"m", "sm"},
     d \in {"none", "omit", "unknown", "wrongtype", "wrongarray", "outonly"}}
  \cup {<<m, "none", b>> : m \in {"m", "sm"},
          b \in {"mapv", "mapp", "list", "deleg", "cimerr", "pyerr", "bad1",
                 "bad2", "bad3", "bad4"}}
  \cup {<<"qq", "none", "seq">>}
InvokeCalls ==
  {[op |-> "Invoke", ns |-> t[1], cls |-> t[2], k |-> k, target |-> tg,
    meth |-> x[1], pdefect |-> x[2], beh |-> x[3]] :
     t \in Targets, k \in KeyU, tg \in {"inst", "class"}, x \in InvokeShapes}

Calls == RegCalls \cup CreateCalls \cup ModifyCalls \cup DeleteCalls
         \cup InvokeCalls

Event(c, r, st2) ==
  IF c.op = "Reg"
  THEN c @@ r @@ [regdump |-> AsSeq(RegDump(st2)), clsdump |-> AsSeq(st2.cls),
                  dump |-> AsSeq(st2.store)]
  ELSE c @@ r @@ [dump |-> AsSeq(st2.store)]

Init == si = InitImpl /\ s = InitState /\ bad = {} /\ obs = {} /\ hist = <<>>
        /\ sel = <<>>

Do(c) ==
  LET rs == ImplStep(si, c)
      e == Event(c, rs[1], rs[2]) IN
  /\ si' = rs[2]
  /\ bad' = Fails(s, e)
  /\ s' = Apply(s, e)
  /\ obs' = IF c.op = "Reg" /\ ~rs[1].ok /\ rs[1].setupcalls = 0 /\ rs[2] # si
            THEN {"FailedRegistrationChangedState"} ELSE {}
  /\ hist' = IF GenDepth > 0 THEN Append(hist, c) ELSE hist

Next == (\E c \in Calls : Do(c)) /\ UNCHANGED sel
Spec == Init /\ [][Next]_vars

(* Behaviour emission (tlc -simulate picks uniformly among ALL successors,  *)
(* and computes them all): two-phase choice - first a selector (register,  *)
(* or an operation on a target), then one call of that selection - so that *)
(* a step costs tens of successor evaluations instead of thousands and the *)
(* operations are balanced.  The first two calls register valid            *)
(* descriptors so that most histories exercise a non-empty registry.  The  *)
(* requirement is not evaluated here (the harness sends what the real code *)
(* did with these calls to ProvDispatchTrace).                             *)
GoodPids == {p.pid : p \in ValidProvs \cup MoreValidProvs}
Selectors ==
  {<<"Reg", 0, "">>} \cup
  {<<o, t[1], t[2]>> : o \in {"Create", "Modify", "Delete", "Invoke"},
                        t \in Targets}
CallsFor(x) ==
  IF x[1] = "RegValid"
  THEN {c \in RegCalls : c.pid \in GoodPids /\ ImplStep(si, c)[1].ok}
  ELSE IF x[1] = "Reg" THEN RegCalls
  ELSE {c \in (CASE x[1] = "Create" -> CreateCalls
                  [] x[1] = "Modify" -> ModifyCalls
                  [] x[1] = "Delete" -> DeleteCalls
                  [] OTHER -> InvokeCalls) : c.ns = x[2] /\ c.cls = x[3]}
TypeOf(o) == IF o = "Invoke" THEN "meth" ELSE "iw"
HotSelectors ==      \* operations for which a user provider is registered
  {x \in Selectors : x[1] # "Reg" /\ Lookup(si, TypeOf(x[1]), x[2], x[3]) # 0}
SimNext ==
  IF sel = <<>> \/ sel[1] = "Any"
  THEN /\ IF Len(hist) < 2 THEN sel' = <<"RegValid", 0, "">>
          ELSE IF sel = <<>>
          THEN \E x \in {<<"Reg", 0, "">>, <<"Any", 0, "">>} \cup HotSelectors :
                  sel' = x
          ELSE \E x \in Selectors : sel' = x
       /\ UNCHANGED <<si, s, bad, obs, hist>>
  ELSE /\ \E c \in CallsFor(sel) :
            /\ si' = ImplStep(si, c)[2]
            /\ hist' = Append(hist, c)
       /\ sel' = <<>>
       /\ UNCHANGED <<s, bad, obs>>
SimSpec == Init /\ [][SimNext]_vars

ImplRefinesReq == bad = {}
MappingHolds ==
  /\ \A k \in Keys : si.reg[k] \in s.reg[k]
  /\ s.cls = si.cls /\ s.store = si.store
ReqWellFormed == WellFormed(s)
FailedRegAtomic == obs = {}
GenConstraint == GenDepth = 0 \/ Len(hist) <= GenDepth
StoreBound == Cardinality(si.store) <= MaxStore
View == <<si, s, bad, obs>>
=============================================================================
