SPECIFICATION Spec
CONSTANTS
  V <- VCacheRefs
  MaxLen = 3
  HistFmts = {"standard"}
  PrintFmts = {"standard", "historical", "canonical"}
  ObsSeq <- ObsNone
INVARIANT HistRoundTrip
INVARIANT HistWellFormed
CHECK_DEADLOCK FALSE
