---------------------------- MODULE MofTextDecl ----------------------------
(***************************************************************************)
(* C08, qualifier declaration level.                                       *)
(*                                                                         *)
(* Part A - the Scope(...) clause.  The scopes of a                        *)
(* CIMQualifierDeclaration are a case-insensitive dictionary               *)
(* (NocaseDict) scope name -> flag.  The object model holds the keys as    *)
(* the user spelled them ('CLASS', 'class', 'Class'), possibly with        *)
(* entries whose flag is False.  Whatever the spelling, the statement      *)
(* asks that the text recompiles to a declaration with the same scope set. *)
(*                                                                         *)
(*   universe: dictionaries over the 8 DSP0004 scopes; an entry is absent  *)
(*     or [sp, flag] with  sp   "U" all upper case (what the compiler and  *)
(*                                  the CIM-XML parser produce)            *)
(*                              "l" all lower case                         *)
(*                              "M" mixed case                             *)
(*   code-shaped model of CIMQualifierDeclaration.tomof():                 *)
(*       for scope in self._ordered_scopes:        (upper-case names)      *)
(*           if self.scopes.get(scope, False):     (NocaseDict lookup)     *)
(*               mof_scopes.append(scope.lower())                          *)
(*     and of the compiler: `Scope()` is a syntax error; otherwise a       *)
(*     dictionary with all 8 upper-case keys, True for the listed scopes.  *)
(*   variants:  keyCaseSensitive  membership test of the upper-case name   *)
(*                                against the keys AS SPELLED              *)
(*              flagIgnored       every key that is present is written     *)
(*                                                                         *)
(* Part B - one compiler SESSION.  "Given the needed qualifier             *)
(* declarations" is a statement about the repository at the time a class   *)
(* text is compiled.  A schema evolves: a declaration is compiled, later a *)
(* CHANGED declaration of the same name (other type, other flavors), then  *)
(* a class that specifies the qualifier as the current declaration says.   *)
(* The compiled class must have the qualifier with the type and flavors of *)
(* the CURRENT declaration.                                                *)
(*                                                                         *)
(*   versions of a declaration: [t, f], t in {"tA","tB"} two different CIM *)
(*     types, f in {"en","dis"} = EnableOverride,ToSubclass /              *)
(*     DisableOverride,Restricted  (numbered 1..4; 0 = not declared)       *)
(*   steps:  prime(n, v)    the harness puts declaration v of n into the   *)
(*                          repository directly (SetQualifier), only       *)
(*                          before the compiler has seen anything          *)
(*           declare(n, v)  the tomof() text of declaration v is compiled  *)
(*           use(n)         the tomof() text of a class whose qualifier n  *)
(*                          is typed / flavored as the repository's        *)
(*                          declaration of n says is compiled              *)
(*   code-shaped model (pywbem/_mof_compiler.py):                          *)
(*     p_mp_setQualifier:  handle.SetQualifier(decl);                      *)
(*                         qualcache[ns][name] = decl                      *)
(*     p_qualifier:        on a cache miss EnumerateQualifiers() and put   *)
(*                         EVERY repository declaration into the cache;    *)
(*                         type and flavors of the compiled qualifier come *)
(*                         from qualcache[ns][name]                        *)
(*   variants:  cacheSetDefault   qualcache[ns].setdefault(name, decl)     *)
(*              cacheNotUpdated   p_mp_setQualifier leaves the cache alone *)
(*                                                                         *)
(* The statement holds for EVERY compiler object the text is given to,     *)
(* whatever that compiler was asked to compile before - also text it       *)
(* REJECTED.  Two more steps:                                              *)
(*           fail(k)        a text that is not valid MOF is compiled and   *)
(*                          rejected; k = where the compile fails:         *)
(*                          "syntax" (grammar error at top level),         *)
(*                          "dependency" (unknown superclass), "embdep" /  *)
(*                          "embsyntax" (inside the NESTED compile of an   *)
(*                          embedded instance value: undeclared property / *)
(*                          grammar error in the nested text)              *)
(*           inst(k)        the tomof() text of an instance ("plain", or   *)
(*                          "emb" = with an embedded instance value) is    *)
(*                          compiled; the instance must arrive in the      *)
(*                          repository                                     *)
(*   code-shaped model: compile_embedded_value sets parser.embedded_objects*)
(*     to a list for the nested compile (`mode`): while it is a list,      *)
(*     p_mp_createInstance APPENDS the compiled instance to it instead of  *)
(*     creating it, and p_mp_createClass / p_mp_setQualifier refuse        *)
(*     ("Compiler in mode to compile embedded ...").  The value before the *)
(*     nested compile is restored in a `finally` clause.                   *)
(*   variant:   embModeSticks     restored on the success path only: after *)
(*                                ONE failed nested compile the compiler   *)
(*                                stays in that mode                       *)
(***************************************************************************)
EXTENDS Naturals, Sequences, FiniteSets, TLC

(*------------------------------ Part A -----------------------------------*)
ScopeNames == <<"CLASS", "ASSOCIATION", "INDICATION", "PROPERTY",
                "REFERENCE", "METHOD", "PARAMETER", "ANY">>
NS == Len(ScopeNames)
Absent == [in |-> FALSE, sp |-> "U", flag |-> FALSE]
Present == {[in |-> TRUE, sp |-> s, flag |-> TRUE] : s \in {"U", "l", "M"}}
           \cup {[in |-> TRUE, sp |-> s, flag |-> FALSE] : s \in {"U", "l"}}

DictOn(S, f) == [i \in 1..NS |-> IF i \in S THEN f[i] ELSE Absent]
TrueSet(d) == {i \in 1..NS : d[i].in /\ d[i].flag}

(* dictionaries with up to MaxKeys entries, and the fully populated ones   *)
(* in one spelling; MOF cannot express an empty scope set                  *)
ScopeUniverse(MaxKeys) ==
  {d \in (UNION {{DictOn(S, f) : f \in [S -> Present]} :
                   S \in {T \in SUBSET (1..NS) : Cardinality(T) <= MaxKeys}})
         \cup {[i \in 1..NS |-> [in |-> TRUE, sp |-> s, flag |-> TRUE]] :
                 s \in {"U", "l", "M"}} :
     TrueSet(d) # {}}

ScopeVariant == [keyCaseSensitive : BOOLEAN, flagIgnored : BOOLEAN]
ScopeTree == [keyCaseSensitive |-> FALSE, flagIgnored |-> FALSE]

(* CIMQualifierDeclaration.tomof(): the ordered list inside Scope(...) *)
Written(d, i, v) ==
  /\ d[i].in
  /\ v.keyCaseSensitive => d[i].sp = "U"
  /\ v.flagIgnored \/ d[i].flag
ScopeText(d, v) == SelectSeq([i \in 1..NS |-> i], LAMBDA i : Written(d, i, v))

(* the compiler: [accepted, set of scopes that are True] *)
ScopeCompile(text) ==
  [accepted |-> text # <<>>, scopes |-> {text[k] : k \in DOMAIN text}]

ScopeRoundTrips(d, v) ==
  LET c == ScopeCompile(ScopeText(d, v))
  IN c.accepted /\ c.scopes = TrueSet(d)

(* the cases the driver concretises: every single scope in every spelling, *)
(* every pair of neighbouring scopes in every combination of entries, the  *)
(* fully populated dictionaries                                            *)
ScopeCases ==
  {d \in ScopeUniverse(2) :
     LET K == {i \in 1..NS : d[i].in}
     IN \/ Cardinality(K) = 1
        \/ Cardinality(K) = NS
        \/ \E i \in 1..(NS - 1) : K = {i, i + 1}}
EntryCode(e) == IF ~e.in THEN "-" ELSE e.sp \o (IF e.flag THEN "T" ELSE "F")
CaseCode(d) == [i \in 1..NS |-> EntryCode(d[i])]

(*------------------------------ Part B -----------------------------------*)
QNames == {"QA", "QB"}
Ver == << [t |-> "tA", f |-> "en"], [t |-> "tB", f |-> "en"],
          [t |-> "tB", f |-> "dis"], [t |-> "tA", f |-> "dis"] >>
Versions == 1..Len(Ver)

SessVariant == [cacheSetDefault : BOOLEAN, cacheNotUpdated : BOOLEAN,
                embModeSticks : BOOLEAN]
SessTree == [cacheSetDefault |-> FALSE, cacheNotUpdated |-> FALSE,
             embModeSticks |-> FALSE]

FailKinds == {"syntax", "dependency", "embdep", "embsyntax"}
EmbFailKinds == {"embdep", "embsyntax"}   \* the NESTED compile fails
InstKinds == {"plain", "emb"}

P(n, v) == [op |-> "prime", n |-> n, v |-> v]
D(n, v) == [op |-> "declare", n |-> n, v |-> v]
U(n) == [op |-> "use", n |-> n, v |-> 0]
Fl(k) == [op |-> "fail", n |-> k, v |-> 0]
In(k) == [op |-> "inst", n |-> k, v |-> 0]

(* session state: repository, the compiler's cache, whether the compiler   *)
(* has been used, and the outcome of the last `use`: want = version in the *)
(* repository, got = version the compiled qualifier was typed with;        *)
(* mode = parser.embedded_objects is (still) a list; bad = the valid text  *)
(* of the last step was rejected or its object did not arrive              *)
Sess0 == [repo |-> [n \in QNames |-> 0], cache |-> [n \in QNames |-> 0],
          compiled |-> FALSE, want |-> 0, got |-> 0, mode |-> FALSE,
          bad |-> FALSE]

Enabled(s, a) ==
  CASE a.op = "prime"   -> ~s.compiled /\ s.repo[a.n] = 0 /\ a.v \in Versions
    [] a.op = "declare" -> a.v \in Versions
    [] a.op = "use"     -> s.repo[a.n] # 0
    [] a.op = "fail"    -> a.n \in FailKinds
    [] a.op = "inst"    -> a.n \in InstKinds
    [] OTHER -> FALSE

Step(s, a, v) ==
  CASE a.op = "prime" ->
         [s EXCEPT !.repo[a.n] = a.v]
    [] a.op = "fail" ->
         [s EXCEPT !.compiled = TRUE, !.bad = FALSE,
                   !.mode = @ \/ (v.embModeSticks /\ a.n \in EmbFailKinds)]
    [] a.op = "inst" ->          \* p_mp_createInstance: appended, not created
         [s EXCEPT !.compiled = TRUE, !.bad = s.mode]
    [] a.op \in {"declare", "use"} /\ s.mode ->  \* refused in embedded mode
         [s EXCEPT !.compiled = TRUE, !.bad = TRUE]
    [] a.op = "declare" ->                       \* p_mp_setQualifier
         [s EXCEPT !.repo[a.n] = a.v,
                   !.compiled = TRUE, !.bad = FALSE,
                   !.cache[a.n] =
                      IF v.cacheNotUpdated THEN @
                      ELSE IF v.cacheSetDefault /\ @ # 0 THEN @
                      ELSE a.v]
    [] OTHER ->                                  \* p_qualifier
         LET c1 == IF s.cache[a.n] # 0 THEN s.cache
                   ELSE [m \in QNames |->
                           IF s.repo[m] # 0 THEN s.repo[m] ELSE s.cache[m]]
         IN [s EXCEPT !.cache = c1, !.compiled = TRUE, !.bad = FALSE,
                      !.want = s.repo[a.n], !.got = c1[a.n]]

UseOk(s) == ~s.bad /\ (s.want = 0 \/ Ver[s.got] = Ver[s.want])

RECURSIVE RunFrom(_, _, _, _)
(* [wf, ok]: every step enabled; every `use` typed by the current version, *)
(* every valid text accepted and its object in the repository              *)
RunFrom(s, h, i, v) ==
  IF i > Len(h) THEN [wf |-> TRUE, ok |-> TRUE]
  ELSE IF ~Enabled(s, h[i]) THEN [wf |-> FALSE, ok |-> TRUE]
  ELSE LET s1 == Step(s, h[i], v)
           r == RunFrom(s1, h, i + 1, v)
       IN [wf |-> r.wf, ok |-> r.ok /\ UseOk(s1)]
Run(h, v) == RunFrom(Sess0, h, 1, v)

(* the histories the driver runs on ONE real MOFCompiler in ONE namespace: *)
(* every way to declare a qualifier up to three times (consecutive         *)
(* versions differ) and use it, use - redeclare - use, the same with the   *)
(* first declaration primed, and a redeclaration of a second qualifier     *)
(* that got into the cache through EnumerateQualifiers                     *)
Changed == {p \in Versions \X Versions : p[1] # p[2]}
(* a rejected text BEFORE the round trip: every kind of failure followed by *)
(* every kind of valid text (instance, declaration + class), at the start  *)
(* of the compiler's life, after a primed declaration (cache still empty), *)
(* and in the middle of a history of declarations, classes and instances   *)
NextVer == {p \in Changed : p[2] = (p[1] % Len(Ver)) + 1}
FailHistories ==
  {<<Fl(k), In(e)>> : k \in FailKinds, e \in InstKinds}
  \cup {<<Fl(k), D("QA", a), U("QA")>> : k \in FailKinds, a \in Versions}
  \cup {<<P("QA", a), Fl(k), U("QA")>> : k \in FailKinds, a \in Versions}
  \cup {<<In(e), Fl(k), In(f)>> : k \in FailKinds, e \in InstKinds,
                                   f \in InstKinds}
  \cup {<<D("QA", p[1]), U("QA"), Fl(k), D("QA", p[2]), U("QA"), In(e)>> :
          p \in NextVer, k \in FailKinds, e \in InstKinds}
Histories ==
  {<<D("QA", a), U("QA")>> : a \in Versions}
  \cup {<<D("QA", p[1]), D("QA", p[2]), U("QA")>> : p \in Changed}
  \cup {<<D("QA", p[1]), D("QA", p[2]), D("QA", q[2]), U("QA")>> :
          <<p, q>> \in {x \in Changed \X Changed : x[1][2] = x[2][1]}}
  \cup {<<D("QA", p[1]), U("QA"), D("QA", p[2]), U("QA")>> : p \in Changed}
  \cup {<<P("QA", p[1]), U("QA"), D("QA", p[2]), U("QA")>> : p \in Changed}
  \cup {<<P("QA", 1), P("QB", p[1]), U("QA"), D("QB", p[2]), U("QB"),
          U("QA")>> : p \in Changed}
  \cup {<<D("QA", p[1]), D("QB", p[1]), D("QA", p[2]), U("QB"), U("QA")>> :
          p \in Changed}
  \cup FailHistories
HistCode(h) == [i \in DOMAIN h |-> <<h[i].op, h[i].n, h[i].v>>]
=============================================================================
