--------------------------- MODULE QualRepoImplOps ---------------------------
(***************************************************************************)
(* X01 - pure operators of the CODE-SHAPED machine of the mock's           *)
(* qualifier-declaration repository, transcribed statement by statement:   *)
(*                                                                         *)
(*  pywbem/_cim_operations.py  WBEMConnection.{Get,Set,Delete}Qualifier:   *)
(*      _iparam_string / _iparam_qualifierdeclaration raise TypeError      *)
(*      BEFORE anything reaches the (mock) server                          *)
(*  pywbem_mock/_mainprovider.py                                           *)
(*      EnumerateQualifiers  validate_namespace; iter_values() (deepcopy)  *)
(*      GetQualifier         validate_namespace; store.get (deepcopy);     *)
(*                           KeyError -> CIM_ERR_NOT_FOUND                 *)
(*      SetQualifier         validate_namespace; try store.create          *)
(*                           (deepcopy) except ValueError: store.update    *)
(*      DeleteQualifier      validate_namespace; object_exists ? scan the  *)
(*                           class store (qualifier_exists_in_cls: class,  *)
(*                           properties, methods, parameters) ->           *)
(*                           CIM_ERR_FAILED : store.delete ;               *)
(*                           else CIM_ERR_NOT_FOUND                        *)
(*  pywbem_mock/_inmemoryrepository.py  InMemoryObjectStore.create/update/ *)
(*      get/iter_values, InMemoryRepository.add_namespace/remove_namespace *)
(*      (class, qualifier and instance store must all be empty)            *)
(*  pywbem_mock/_baseprovider.py  add_namespace / remove_namespace (status *)
(*      codes)                                                             *)
(*  pywbem_mock/_wbemconnection_mock.py  add_cimobjects (validate_namespace*)
(*      ; list => _restore_repository_on_error around one create per       *)
(*      object; create raises ValueError for an existing name),            *)
(*      compile_mof_string (validate_namespace; MOF compiler calls         *)
(*      SetQualifier once per declaration, inside                          *)
(*      _restore_repository_on_error)                                      *)
(*                                                                         *)
(* Switches.  The value "as the documentation says" is listed first; the   *)
(* other value is either what the PINNED tree does (four documented        *)
(* promises it does not keep - the configuration with the pinned values is *)
(* refuted by TLC, and the same deviations are found on the real code by   *)
(* the binding) or a realistic wrong variant (regression configurations).  *)
(*   UpdateCopies     TRUE  | FALSE pinned: InMemoryObjectStore.update     *)
(*                            stores the caller's object                   *)
(*   GuardDefaultNs   TRUE  | FALSE pinned: remove_namespace never looks   *)
(*                            at the connection's default namespace        *)
(*   CompileReplaces  FALSE | TRUE pinned: the MOF compiler goes through   *)
(*                            SetQualifier, which replaces                 *)
(*   GetCopies        TRUE  | FALSE variant: get(copy=False) result handed *)
(*                            to the client                                *)
(*   UseScan          "all" | "cls" variant: only class-level qualifiers   *)
(*                            are searched | "none" variant: no search     *)
(*   AddRollback      TRUE  | FALSE variant: list form of add_cimobjects   *)
(*                            without _restore_repository_on_error         *)
(*   NsEmptyQuals     TRUE  | FALSE variant: remove_namespace ignores the  *)
(*                            qualifier store                              *)
(*   AddTypeError     TRUE  | FALSE pinned: add_cimobjects ends in         *)
(*                            `assert False` for an object of another type *)
(*                            (AssertionError; nothing at all under -O)    *)
(***************************************************************************)
EXTENDS QualRepo, SequencesExt

CONSTANTS UpdateCopies, GuardDefaultNs, CompileReplaces, GetCopies, UseScan,
          AddRollback, NsEmptyQuals, AddTypeError

AsSeq(S) == SetToSeq(S)

NoRes == [rq |-> 0, rd |-> "", rlist |-> <<>>]
Ok(res) == [ok |-> TRUE, code |-> 0, rq |-> res.rq, rd |-> res.rd,
            rlist |-> res.rlist]
Err(code) == [ok |-> FALSE, code |-> code, rq |-> 0, rd |-> "", rlist |-> <<>>]

(* result of one call: <<response, next store, aliased>> where `aliased` is *)
(* the set of <<ns, q>> whose STORED object is an object the client holds   *)
R3(resp, st, al) == <<resp, st, al>>

ImplSet(st, c) ==
  IF c.arg # "ok" THEN R3(Err(P_TYPEERROR), st, {})
  ELSE IF Eff(c.ns) \notin st.live THEN R3(Err(E_INVALID_NAMESPACE), st, {})
  ELSE LET ns == Eff(c.ns)
           st2 == [st EXCEPT !.quals = (@ \ Decl(st, ns, c.q))
                                       \cup {QRow(ns, c.q, c.d)}] IN
       IF Decl(st, ns, c.q) = {}
       THEN R3(Ok(NoRes), st2, {})                         \* create: deepcopy
       ELSE R3(Ok(NoRes), st2,                             \* update
               IF UpdateCopies THEN {} ELSE {<<ns, c.q>>})

ImplGet(st, c) ==
  IF c.arg # "ok" THEN R3(Err(P_TYPEERROR), st, {})
  ELSE IF Eff(c.ns) \notin st.live THEN R3(Err(E_INVALID_NAMESPACE), st, {})
  ELSE LET ns == Eff(c.ns)
           hit == Decl(st, ns, c.q) IN
       IF hit = {} THEN R3(Err(E_NOT_FOUND), st, {})
       ELSE LET r == CHOOSE x \in hit : TRUE IN
            R3(Ok([NoRes EXCEPT !.rq = r.q, !.rd = r.d]), st,
               IF GetCopies THEN {} ELSE {<<ns, c.q>>})

(* qualifier_exists_in_cls over the locations the scan looks at *)
ScanLocs == CASE UseScan = "all" -> {"cls", "prop", "meth", "par"}
              [] UseScan = "cls" -> {"cls"}
              [] OTHER -> {}
ImplUsed(st, ns, q) ==
  \E r \in st.cls : r.ns = ns /\ \E u \in r.uses : u.q = q /\ u.loc \in ScanLocs

ImplDelete(st, c) ==
  IF c.arg # "ok" THEN R3(Err(P_TYPEERROR), st, {})
  ELSE IF Eff(c.ns) \notin st.live THEN R3(Err(E_INVALID_NAMESPACE), st, {})
  ELSE LET ns == Eff(c.ns) IN
       IF Decl(st, ns, c.q) # {}
       THEN IF ImplUsed(st, ns, c.q) THEN R3(Err(E_FAILED), st, {})
            ELSE R3(Ok(NoRes), [st EXCEPT !.quals = @ \ Decl(st, ns, c.q)], {})
       ELSE R3(Err(E_NOT_FOUND), st, {})

ImplEnum(st, c) ==
  IF Eff(c.ns) \notin st.live THEN R3(Err(E_INVALID_NAMESPACE), st, {})
  ELSE R3(Ok([NoRes EXCEPT !.rlist =
                AsSeq({[q |-> r.q, d |-> r.d] : r \in InNs(st, Eff(c.ns))})]),
          st, {})

(* add_cimobjects: one store.create per object, ValueError on the first     *)
(* existing name; everything is restored unless the variant drops rollback  *)
RECURSIVE AddLoop(_, _, _, _)
AddLoop(st, ns, items, i) ==
  IF i > Len(items) THEN <<TRUE, st>>
  ELSE IF Decl(st, ns, items[i].q) # {} THEN <<FALSE, st>>
  ELSE AddLoop([st EXCEPT !.quals = @ \cup {QRow(ns, items[i].q, items[i].d)}],
               ns, items, i + 1)
ImplAddObj(st, c) ==
  IF Eff(c.ns) \notin st.live THEN R3(Err(E_INVALID_NAMESPACE), st, {})
  ELSE LET r == AddLoop(st, Eff(c.ns), c.items, 1) IN
       IF ~r[1]
       THEN R3(Err(P_VALUEERROR), IF AddRollback THEN st ELSE r[2], {})
       ELSE IF c.arg # "ok"       \* the foreign object comes last in the list
       THEN R3(Err(IF AddTypeError THEN P_TYPEERROR ELSE P_OTHER),
               IF AddRollback THEN st ELSE r[2], {})
       ELSE R3(Ok(NoRes), r[2], {})

(* compile_mof_string: p_mp_setQualifier -> SetQualifier per declaration    *)
RECURSIVE SetLoop(_, _, _, _)
SetLoop(st, ns, items, i) ==
  IF i > Len(items) THEN st
  ELSE SetLoop([st EXCEPT !.quals = (@ \ Decl(st, ns, items[i].q))
                                    \cup {QRow(ns, items[i].q, items[i].d)}],
               ns, items, i + 1)
ImplCompile(st, c) ==
  IF Eff(c.ns) \notin st.live THEN R3(Err(E_INVALID_NAMESPACE), st, {})
  ELSE IF ~CompileReplaces /\ Existing(st, c)
       THEN R3(Err(P_MOFERROR), st, {})    \* rolled back by the context mgr
       ELSE R3(Ok(NoRes), SetLoop(st, Eff(c.ns), c.items, 1), {})

ImplAddNs(st, c) ==
  IF c.ns = 0 THEN R3(Err(P_VALUEERROR), st, {})
  ELSE IF c.ns \in st.live THEN R3(Err(E_ALREADY_EXISTS), st, {})
  ELSE R3(Ok(NoRes), [st EXCEPT !.live = @ \cup {c.ns}], {})

ImplRemoveNs(st, c) ==
  IF c.ns = 0 THEN R3(Err(P_VALUEERROR), st, {})
  ELSE IF c.ns \notin st.live THEN R3(Err(E_NOT_FOUND), st, {})
  ELSE IF GuardDefaultNs /\ c.ns = DefaultNs
       THEN R3(Err(E_NAMESPACE_NOT_EMPTY), st, {})
  ELSE IF (\E r \in st.cls : r.ns = c.ns)
          \/ (NsEmptyQuals /\ InNs(st, c.ns) # {})
       THEN R3(Err(E_NAMESPACE_NOT_EMPTY), st, {})
  ELSE R3(Ok(NoRes),
          [st EXCEPT !.live = @ \ {c.ns},
                     \* del self._repository[namespace] drops the stores
                     !.quals = {r \in @ : r.ns # c.ns}], {})

(* environment: MainProvider.CreateClass / DeleteClass as far as they touch *)
(* this subsystem (the resolver refuses undeclared qualifiers)              *)
ImplCreateClass(st, c) ==
  IF Eff(c.ns) \notin st.live THEN R3(Err(E_INVALID_NAMESPACE), st, {})
  ELSE IF ClassAt(st, c) # {} THEN R3(Err(E_ALREADY_EXISTS), st, {})
  ELSE IF \E u \in Rng(c.uses) : Decl(st, Eff(c.ns), u.q) = {}
       THEN R3(Err(E_INVALID_PARAMETER), st, {})
  ELSE R3(Ok(NoRes), CreateClassApply(st, c), {})
ImplDeleteClass(st, c) ==
  IF Eff(c.ns) \notin st.live THEN R3(Err(E_INVALID_NAMESPACE), st, {})
  ELSE IF ClassAt(st, c) = {} THEN R3(Err(E_NOT_FOUND), st, {})
  ELSE R3(Ok(NoRes), DeleteClassApply(st, c), {})

ImplStep(st, c) ==
  CASE c.op = "Set" -> ImplSet(st, c)
    [] c.op = "Get" -> ImplGet(st, c)
    [] c.op = "Delete" -> ImplDelete(st, c)
    [] c.op = "Enum" -> ImplEnum(st, c)
    [] c.op = "AddObj" -> ImplAddObj(st, c)
    [] c.op = "Compile" -> ImplCompile(st, c)
    [] c.op = "AddNs" -> ImplAddNs(st, c)
    [] c.op = "RemoveNs" -> ImplRemoveNs(st, c)
    [] c.op = "CreateClass" -> ImplCreateClass(st, c)
    [] c.op = "DeleteClass" -> ImplDeleteClass(st, c)

(* the client mutates the objects of this call: an aliased entry changes   *)
MutateAliased(st, al) ==
  [st EXCEPT !.quals = {IF <<r.ns, r.q>> \in al THEN QRow(r.ns, r.q, "mutated")
                        ELSE r : r \in @}]

DumpOf(st) ==
  [live |-> AsSeq(st.live), quals |-> AsSeq(st.quals), gets |-> AsSeq(st.quals),
   classes |-> AsSeq({CName(r) : r \in st.cls})]
=============================================================================
