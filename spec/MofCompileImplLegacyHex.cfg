\* regression config: _fixStringValue reads past the end of the string (must violate ImplRefinesReq)
SPECIFICATION Spec
CONSTANTS
  MaxProd = 2
  MaxDepth = 6
  OnlyKinds = {"qualDecl"}
  IncludeGuard = TRUE
  NsNoneCheck = TRUE
  HexBounds = FALSE
  CtxBounds = TRUE
  ValueWrapped = TRUE
  RepoWrapped = TRUE
  EmbFinally = TRUE
  RestoreOnReturn = TRUE
  EmbRestoreAll = TRUE
  SuperCheckFirst = TRUE
  AncestryWalk = TRUE
  GuardCanonical = TRUE
  RegisterAfterCreate = TRUE
  NsCachesInit = TRUE
  EmbNullChecked = TRUE
  OverflowWrapped = TRUE
  InstOffsetAll = TRUE
  OpenPrecheck = TRUE
  EmbLexerClone = TRUE
INVARIANT TypeOK
INVARIANT ImplRefinesReq
INVARIANT PositionFileOK
INVARIANT Reusable

CHECK_DEADLOCK FALSE
