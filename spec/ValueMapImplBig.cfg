SPECIFICATION Spec
CONSTANTS
  TMin = 0
  TMax = 15
  Pts <- PtsU4s
  MaxLen = 4
  FixTrunc = TRUE
  FixGuard = TRUE
  FixOct0 = TRUE
  FixSkip = TRUE
  FixUncl = TRUE
  FixCase = TRUE
  FixItems = TRUE
  ItemsOnce = FALSE
  Lenient <- LenNone
  WithLex = FALSE
  Emit = FALSE
  WithBad = TRUE
INVARIANT ImplEqualsClaims
CHECK_DEADLOCK FALSE
