\* the search order over the candidate names is NOT demanded: a client that
\* tries the candidates in reverse order satisfies the requirement (must pass)
SPECIFICATION Spec
CONSTANTS
  PinnedDupCheck = FALSE
  PinnedDeleteCase = FALSE
  PinnedBrand = FALSE
  Variant = "lastcandidate"
  WorldU <- WorldsAll
  ArgU <- ArgsAll
  GenDepth = 0
INVARIANT ImplRefinesReq
CHECK_DEADLOCK FALSE
