SPECIFICATION TSpec
CONSTANTS
  PinnedDupCheck = TRUE
  PinnedDeleteCase = TRUE
  PinnedBrand = TRUE
  Variant = "code"
CHECK_DEADLOCK FALSE
