SPECIFICATION Spec
CONSTANTS
  Leaks = {}
  Pinned = FALSE
  PairMode = "reps"
  Emit = FALSE
INVARIANT TypeOK
INVARIANT ImplRefinesReq
INVARIANT ClosedForm

CHECK_DEADLOCK FALSE
