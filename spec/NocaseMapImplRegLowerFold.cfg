SPECIFICATION Spec
CONSTANTS
  PinnedPopSentinel = FALSE
  PinnedCtorNone = FALSE
  KeepOldKey = FALSE
  MoveToEnd = FALSE
  LowerFold = TRUE
  CopyShares = FALSE
  LegacyCopy = FALSE
  ViewsSnapshot = FALSE
  SetDefaultPut = FALSE
  EszBase = 2
  NB = 2
  NV = 2
  ValU = {1, 2}
  MaxPairs = 1
  MaxPairsAlt = 1
  GenDepth = 0
  GenMax = 0
INVARIANT ImplRefinesReq
INVARIANT ReqWellFormed
INVARIANT MappingHolds
CHECK_DEADLOCK FALSE
