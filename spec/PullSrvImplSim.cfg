SPECIFICATION Spec
CONSTANTS
  NObj = 4
  MaxId = 3
  Nss = {1, 2}
  Maxes <- MaxesLarge
  Kinds = {1, 2, 3, 4, 5, 6, 7}
  Toggles = TRUE
  DefaultMax = 2
  LegacyPullZero = FALSE
  LegacyTrimRaw = FALSE
  GenDepth = 10
  Srvs = {1, 2}
  Ots <- OtsAll
  Coes <- CoesAll
  Flts <- FltsAll
  SharedContextTable = FALSE
  ExpireSessions = FALSE
  RandArgs = TRUE
  Cover = FALSE
INVARIANT ImplRefinesReq
INVARIANT MappingHolds
INVARIANT SessionHolds

CONSTRAINT GenConstraint
CHECK_DEADLOCK FALSE
