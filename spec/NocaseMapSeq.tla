----------------------------- MODULE NocaseMapSeq -----------------------------
(***************************************************************************)
(* X05 (extension), second container: requirement machine for NocaseList   *)
(* (pywbem/_vendor/nocaselist/_nocaselist.py; pywbem documents it in       *)
(* docs/appendix.rst as "A case-insensitive list class" and hands it out   *)
(* from FakedWBEMConnection.namespaces, the mock providers and the MOF     *)
(* compiler).                                                              *)
(*                                                                         *)
(* Source of every clause: the class and method docstrings of NocaseList   *)
(* ("Whenever items of the list are looked up by value or item values are  *)
(* compared, that is done case-insensitively ... casefold", "Whenever the  *)
(* value of list items is returned, they have the lexical case that was    *)
(* originally specified", "Except for the case-insensitivity of its items, *)
(* it behaves like, and is in fact derived from, the built-in list",       *)
(* "The list supports serialization via the Python pickle module") and     *)
(* the Python library reference for list, to which they defer.             *)
(*                                                                         *)
(* Clauses (names returned by Fails):                                      *)
(*  Seq.Lookup.Nocase  in / index / count / remove find items whose        *)
(*                     casefold equals that of the argument ("comparing    *)
(*                     the value and the list items case-insensitively").  *)
(*  Seq.Lookup.Result  their results otherwise (ValueError if absent,      *)
(*                     index within start/stop, ...).                      *)
(*  Seq.Case.Preserved items keep the lexical case they were given.        *)
(*  Seq.<op>.State     the item sequence after the call is the list        *)
(*                     result (append, extend, +=, insert, remove - "the   *)
(*                     first item" -, pop, item/slice assignment and       *)
(*                     deletion, reverse, sort - stable, by casefolded     *)
(*                     value, reverse flag -, *=, clear, constructor).     *)
(*                     extend / += / slice assignment / the constructor    *)
(*                     accept any iterable ("The other parameter must be   *)
(*                     an iterable but is otherwise not restricted in      *)
(*                     type"; list semantics for the others).              *)
(*  Seq.<op>.Result    value / IndexError / ValueError / TypeError as for  *)
(*                     list; + only takes list or tuple (TypeError).       *)
(*  Seq.Probe          after every call, count(v) and index(v) with some   *)
(*                     case variant v of every base (and None) agree with  *)
(*                     the items: the list stays a working case-           *)
(*                     insensitive list whatever was called before.        *)
(*  Seq.Result.Probe   the same for every list returned by +, *, copy(),   *)
(*                     copy.copy, copy.deepcopy, pickle round trip (all    *)
(*                     protocols), NocaseList(ncl).                        *)
(*  Seq.Result.Type    those results are NocaseList objects ("Return a     *)
(*                     new NocaseList object").  Slices and reversed():    *)
(*                     type not promised, not checked.                     *)
(*  Seq.Copy.Independent  changing a copy does not change the original.    *)
(*  Seq.Compare        ==, !=, <, <=, >, >= against a list, tuple or       *)
(*                     NocaseList compare "corresponding list items        *)
(*                     case-insensitively" (lexicographic on casefolded    *)
(*                     items; None orders with nothing: TypeError).        *)
(*                                                                         *)
(* Universe as in NocaseMap: item <<base, variant>>, None = <<0, 0>>; the  *)
(* harness chooses concrete fold classes whose casefolded strings are      *)
(* ordered like the base numbers, so sorting/ordering is on base numbers.  *)
(***************************************************************************)
EXTENDS Naturals, Integers, Sequences, FiniteSets, TLC

NoneKey == <<0, 0>>
F(name, holds) == IF holds THEN {} ELSE {name}
Rng(q) == {q[i] : i \in DOMAIN q}
Min(S) == CHOOSE x \in S : \A y \in S : x <= y
Max2(a, b) == IF a > b THEN a ELSE b
Min2(a, b) == IF a < b THEN a ELSE b
Rev(q) == [i \in 1..Len(q) |-> q[Len(q) + 1 - i]]
Folds(q) == [i \in DOMAIN q |-> q[i][1]]

(* python index arithmetic *)
Clamp(i, n) == IF i < 0 THEN Max2(0, n + i) ELSE Min2(i, n)
ValidIdx(i, n) == 0 - n <= i /\ i < n
Idx1(i, n) == IF i < 0 THEN n + i + 1 ELSE i + 1     \* 1-based position
DelAt(q, p) == SubSeq(q, 1, p - 1) \o SubSeq(q, p + 1, Len(q))
Splice(q, lo, hi, xs) == SubSeq(q, 1, lo) \o xs \o SubSeq(q, hi + 1, Len(q))
Lo(i, n) == Clamp(i, n)
Hi(i, j, n) == Max2(Clamp(i, n), Clamp(j, n))
RECURSIVE Rep(_, _)
Rep(q, n) == IF n <= 0 THEN <<>> ELSE q \o Rep(q, n - 1)

(* first position (1-based) within 1-based range lo..hi whose fold is b *)
FirstIn(q, b, lo, hi) ==
  LET S == {i \in DOMAIN q : i >= lo /\ i <= hi /\ q[i][1] = b} IN
  IF S = {} THEN 0 ELSE Min(S)
First(q, b) == FirstIn(q, b, 1, Len(q))
Count(q, b) == Cardinality({i \in DOMAIN q : q[i][1] = b})

(* stable sort by base number, reverse keeps the order of equal items *)
Sorted(q, rev) ==
  LET perm == SortSeq([i \in DOMAIN q |-> i],
                 LAMBDA a, b : IF q[a][1] = q[b][1] THEN a < b
                               ELSE IF rev THEN q[a][1] > q[b][1]
                               ELSE q[a][1] < q[b][1]) IN
  [i \in DOMAIN q |-> q[perm[i]]]
Unsortable(q) == Len(q) >= 2 /\ \E i \in DOMAIN q : q[i] = NoneKey

(* ---- results ---------------------------------------------------------- *)
R0 == [tag |-> "none", val |-> 0, err |-> "", item |-> <<0, 0>>,
       items |-> <<>>, type |-> "", probe |-> <<>>]
RNone == R0
RVal(v) == [R0 EXCEPT !.tag = "val", !.val = v]
RBool(b) == [R0 EXCEPT !.tag = "bool", !.val = IF b THEN 1 ELSE 0]
RErr(x) == [R0 EXCEPT !.tag = "err", !.err = x]
RItem(it) == [R0 EXCEPT !.tag = "item", !.item = it]
RList(items, ty) == [R0 EXCEPT !.tag = "list", !.items = items, !.type = ty]

InitState == <<>>
Out(r, items) == [res |-> r, items |-> items]
Same(s, r) == Out(r, s)

AnyIter == {"list", "tuple", "gen", "nclist"}

Compare(op, a, b) ==      \* a, b: fold sequences
  LET m == Min2(Len(a), Len(b))
      D == {i \in 1..m : a[i] # b[i]}
      d == IF D = {} THEN 0 ELSE Min(D) IN
  CASE op = "eq" -> RBool(a = b)
    [] op = "ne" -> RBool(a # b)
    [] d = 0 -> RBool(CASE op = "lt" -> Len(a) < Len(b)
                        [] op = "le" -> Len(a) <= Len(b)
                        [] op = "gt" -> Len(a) > Len(b)
                        [] op = "ge" -> Len(a) >= Len(b))
    [] a[d] = 0 \/ b[d] = 0 -> RErr("TypeError")
    [] OTHER -> RBool(CASE op = "lt" -> a[d] < b[d]
                        [] op = "le" -> a[d] <= b[d]
                        [] op = "gt" -> a[d] > b[d]
                        [] op = "ge" -> a[d] >= b[d])

Exp(s, e) ==
  LET n == Len(s)
      b == e.x[1] IN
  CASE e.op = "new" -> Out(RNone, e.xs)
    [] e.op = "append" -> Out(RNone, Append(s, e.x))
    [] e.op \in {"extend", "iadd"} -> Out(RNone, s \o e.xs)
    [] e.op = "insert" -> Out(RNone, Splice(s, Clamp(e.i, n), Clamp(e.i, n), <<e.x>>))
    [] e.op = "remove" ->
         IF First(s, b) = 0 THEN Same(s, RErr("ValueError"))
         ELSE Out(RNone, DelAt(s, First(s, b)))
    [] e.op = "pop" ->
         LET i == IF e.hasi THEN e.i ELSE 0 - 1 IN
         IF ~ValidIdx(i, n) THEN Same(s, RErr("IndexError"))
         ELSE Out(RItem(s[Idx1(i, n)]), DelAt(s, Idx1(i, n)))
    [] e.op = "index" ->
         LET p == IF e.hasi
                  THEN FirstIn(s, b, Clamp(e.i, n) + 1, Clamp(e.j, n))
                  ELSE First(s, b) IN
         IF p = 0 THEN Same(s, RErr("ValueError")) ELSE Same(s, RVal(p - 1))
    [] e.op = "count" -> Same(s, RVal(Count(s, b)))
    [] e.op = "contains" -> Same(s, RBool(First(s, b) # 0))
    [] e.op = "reverse" -> Out(RNone, Rev(s))
    [] e.op = "sort" -> IF Unsortable(s) THEN Same(s, RErr("TypeError"))
                        ELSE Out(RNone, Sorted(s, e.rev))
    [] e.op = "setitem" ->
         IF ~ValidIdx(e.i, n) THEN Same(s, RErr("IndexError"))
         ELSE Out(RNone, [s EXCEPT ![Idx1(e.i, n)] = e.x])
    [] e.op = "setslice" -> Out(RNone, Splice(s, Lo(e.i, n), Hi(e.i, e.j, n), e.xs))
    [] e.op = "delitem" ->
         IF ~ValidIdx(e.i, n) THEN Same(s, RErr("IndexError"))
         ELSE Out(RNone, DelAt(s, Idx1(e.i, n)))
    [] e.op = "delslice" -> Out(RNone, Splice(s, Lo(e.i, n), Hi(e.i, e.j, n), <<>>))
    [] e.op = "getitem" ->
         IF ~ValidIdx(e.i, n) THEN Same(s, RErr("IndexError"))
         ELSE Same(s, RItem(s[Idx1(e.i, n)]))
    [] e.op = "getslice" ->
         Same(s, RList(SubSeq(s, Lo(e.i, n) + 1, Hi(e.i, e.j, n)), ""))
    [] e.op = "add" ->
         IF e.form \in {"list", "tuple", "nclist"}
         THEN Same(s, RList(s \o e.xs, "NocaseList"))
         ELSE Same(s, RErr("TypeError"))
    [] e.op \in {"mul", "rmul"} -> Same(s, RList(Rep(s, e.n), "NocaseList"))
    [] e.op = "imul" -> Out(RNone, Rep(s, e.n))
    [] e.op = "clear" -> Out(RNone, <<>>)
    [] e.op = "copy" -> Same(s, RList(s, "NocaseList"))
    [] e.op = "reversed" -> Same(s, RList(Rev(s), ""))
    [] e.op = "cmp" -> Same(s, Compare(e.via, Folds(s), Folds(e.xs)))
    [] OTHER -> Same(s, RErr("UNKNOWN-OP"))

(* freedom: a sort that fails may leave the items in any order *)
AltOk(s, e, o) ==
  e.op = "sort" /\ Unsortable(s) /\ o.res = RErr("TypeError")
  /\ Len(o.items) = Len(s) /\ \A k \in Rng(s) \cup Rng(o.items) :
        Cardinality({i \in DOMAIN s : s[i] = k})
        = Cardinality({i \in DOMAIN o.items : o.items[i] = k})

ProbeOk(items, probe) ==
  \A i \in DOMAIN probe :
     /\ probe[i][2] = Count(items, probe[i][1])
     /\ probe[i][3] = First(items, probe[i][1]) - 1

LookupOps == {"remove", "index", "count", "contains"}
ResClause(s, e, x, o) ==
  IF [o.res EXCEPT !.probe = <<>>, !.type = ""] = [x.res EXCEPT !.type = ""]
  THEN F("Seq.Result.Type", x.res.type = "" \/ o.res.type = x.res.type)
       \cup F("Seq.Result.Probe", x.res.tag # "list"
                                  \/ ProbeOk(x.res.items, o.res.probe))
  ELSE IF e.op = "cmp" THEN {"Seq.Compare"}
  ELSE IF e.op \in LookupOps THEN
         LET p == First(s, e.x[1]) IN
         IF p # 0 /\ \E i \in DOMAIN s : s[i][1] = e.x[1] /\ s[i] # e.x
         THEN {"Seq.Lookup.Nocase"} ELSE {"Seq.Lookup.Result"}
  ELSE IF o.res.tag = x.res.tag /\ x.res.tag \in {"list", "item"}
          /\ Folds(o.res.items) = Folds(x.res.items)
          /\ o.res.item[1] = x.res.item[1]
  THEN {"Seq.Case.Preserved"}
  ELSE {"Seq." \o e.op \o ".Result"}

StateClause(e, xi, oi) ==
  IF xi = oi THEN {}
  ELSE IF Folds(xi) = Folds(oi) THEN {"Seq.Case.Preserved"}
  ELSE IF e.op = "copy" THEN {"Seq.Copy.Independent"}
  ELSE {"Seq." \o e.op \o ".State"}

Obs(e) == Out(e.res, e.dump.items)

Judge(s, e) ==
  LET x == Exp(s, e)
      o == Obs(e)
      alt == AltOk(s, e, o)
      nx == IF alt THEN o.items ELSE x.items
      rf == IF alt THEN {} ELSE ResClause(s, e, x, o)
      sf == IF alt THEN {} ELSE StateClause(e, x.items, o.items) IN
  [next |-> nx,
   fails |-> IF rf \cup sf # {} THEN rf \cup sf
             ELSE F("Seq.Len", e.dump.len = Len(nx))
                  \cup F("Seq.Probe", ProbeOk(nx, e.dump.probe))]
Fails(s, e) == Judge(s, e).fails
Apply(s, e) == Judge(s, e).next
=============================================================================
