------------------------------ MODULE XmlText ------------------------------
(***************************************************************************)
(* C01 (also usable by C03/C17): how pywbem writes character data into     *)
(* CIM-XML and how an XML 1.0 processor reads it back, over a character    *)
(* CLASS alphabet.                                                         *)
(*                                                                         *)
(*   source symbols (what a CIM string / CIM name may contain)             *)
(*     "ltr"    any character without a role in XML (letters, digits,      *)
(*              ';' '#' '!' '[' ..., BMP non-ASCII)                        *)
(*     "sp" "tab" "lf" "cr"   the four XML white space characters          *)
(*     "lt" "gt" "amp" "quot" "apos"   the markup characters               *)
(*     "rbr"    ']'  (two of them and '>' end a CDATA section)             *)
(*     "astral" a character beyond the BMP                                 *)
(*     "nbsp"   non-ASCII blank (U+00A0, U+0085, U+2028, ...): XML 1.0     *)
(*              does not normalise it                                      *)
(*   text symbols (what stands between two tags / inside an attribute)     *)
(*     the above, "semi" and WORD tokens: the body of an entity or         *)
(*     character reference ("w:amp" = the letters `amp` directly after an  *)
(*     ampersand, ...), "w:cdo" = `![CDATA[` directly after '<', and the   *)
(*     tag names "w:V" "w:/V" of the wrapper used for nesting.  A word     *)
(*     token is a run of ordinary letters; it only has a meaning directly  *)
(*     after "amp" / "lt".  Source strings never contain word tokens, so   *)
(*     nothing is lost by keeping them atomic.                             *)
(*                                                                         *)
(*   WriteData   xml.dom.minidom._write_data (Python 3.12: the same        *)
(*               function for text nodes and attribute values)             *)
(*   Enc         pywbem._cim_xml._pcdata_nodes + the minidom writers:      *)
(*               "entity" mode = one Text node; "cdata" mode = CDATA       *)
(*               sections, an existing `]]>` is split between two sections *)
(*   EncAttr     Element.writexml for an attribute value                   *)
(*   XmlRead     XML 1.0: 2.11 line ends (CR LF and lone CR -> LF), then   *)
(*               entity / character reference / CDATA decoding             *)
(*   AttrRead    2.11, then 3.3.3 attribute-value normalisation (literal   *)
(*               TAB / LF -> blank; referenced characters are kept)        *)
(*                                                                         *)
(* Variant record V (so that one module serves the code as it is and the   *)
(* repaired designs):                                                      *)
(*   V.crEsc    FALSE: a CR in character data is written verbatim (pywbem  *)
(*              as of the pinned tree);  TRUE: written as &#13; (between   *)
(*              two CDATA sections in "cdata" mode)                        *)
(*   V.attrEsc  FALSE: TAB/LF/CR in attribute values verbatim (minidom of  *)
(*              Python <= 3.12);  TRUE: as &#9; &#10; &#13; (Python 3.13)  *)
(***************************************************************************)
EXTENDS Naturals, Sequences, FiniteSets, TLC

Cls == {"ltr", "sp", "tab", "lf", "cr", "lt", "gt", "amp", "quot", "apos",
        "rbr", "astral", "nbsp"}
EntWords == {"w:amp", "w:lt", "w:gt", "w:quot", "w:apos", "w:#13", "w:#10",
             "w:#9"}
Words == EntWords \cup {"w:cdo", "w:V", "w:/V"}
ClsNoCr == Cls \ {"cr"}
TCh == Cls \cup Words \cup {"semi"}

AsIs    == [crEsc |-> FALSE, attrEsc |-> FALSE]
CrFixed == [crEsc |-> TRUE,  attrEsc |-> FALSE]
AllFixed == [crEsc |-> TRUE, attrEsc |-> TRUE]

Ent(w) == <<"amp", w, "semi">>
EntChar(w) ==
  CASE w = "w:amp" -> "amp" [] w = "w:lt" -> "lt" [] w = "w:gt" -> "gt"
    [] w = "w:quot" -> "quot" [] w = "w:apos" -> "apos"
    [] w = "w:#13" -> "cr" [] w = "w:#10" -> "lf" [] w = "w:#9" -> "tab"

RECURSIVE Flat(_)
Flat(ss) == IF ss = <<>> THEN <<>> ELSE Head(ss) \o Flat(Tail(ss))

Has(s, C) == \E i \in DOMAIN s : s[i] \in C

(*------------------------------ writers ----------------------------------*)
(* data.replace("&","&amp;").replace("<","&lt;").replace('"',"&quot;")    *)
(*     .replace(">","&gt;")            [+ "\r" -> "&#13;" in the repair]   *)
TextSym(c, V) ==
  CASE c = "amp"  -> Ent("w:amp")
    [] c = "lt"   -> Ent("w:lt")
    [] c = "quot" -> Ent("w:quot")
    [] c = "gt"   -> Ent("w:gt")
    [] c = "cr" /\ V.crEsc -> Ent("w:#13")
    [] OTHER -> <<c>>
WriteData(s, V) == Flat([i \in DOMAIN s |-> TextSym(s[i], V)])

AttrSym(c, V) ==
  IF V.attrEsc /\ c \in {"tab", "lf", "cr"}
  THEN Ent(CASE c = "tab" -> "w:#9" [] c = "lf" -> "w:#10" [] c = "cr" -> "w:#13")
  ELSE TextSym(c, [V EXCEPT !.crEsc = FALSE])
EncAttr(s, V) == Flat([i \in DOMAIN s |-> AttrSym(s[i], V)])

IsEnd(s, i) == i + 2 <= Len(s) /\ s[i] = "rbr" /\ s[i + 1] = "rbr" /\ s[i + 2] = "gt"
HasEnd(s) == \E i \in DOMAIN s : IsEnd(s, i)

(* Python str.split("]]>") : leftmost, non-overlapping *)
RECURSIVE SplitEnd(_, _, _)
SplitEnd(s, i, cur) ==
  IF i > Len(s) THEN <<cur>>
  ELSE IF IsEnd(s, i) THEN <<cur>> \o SplitEnd(s, i + 3, <<>>)
  ELSE SplitEnd(s, i + 1, Append(cur, s[i]))

(* str.split("\r") *)
RECURSIVE SplitCr(_, _, _)
SplitCr(s, i, cur) ==
  IF i > Len(s) THEN <<cur>>
  ELSE IF s[i] = "cr" THEN <<cur>> \o SplitCr(s, i + 1, <<>>)
  ELSE SplitCr(s, i + 1, Append(cur, s[i]))

(* CDATASection.writexml; minidom raises ValueError if the data holds ]]>  *)
CData(data) == IF HasEnd(data) THEN <<"ERR">>
               ELSE <<"lt", "w:cdo">> \o data \o <<"rbr", "rbr", "gt">>

(* one CDATA node of _pcdata_nodes; the repair writes a CR as a character  *)
(* reference between two sections                                          *)
RECURSIVE JoinCr(_, _)
JoinCr(segs, k) ==
  IF k > Len(segs) THEN <<>>
  ELSE (IF k > 1 THEN Ent("w:#13") ELSE <<>>) \o CData(segs[k]) \o JoinCr(segs, k + 1)
CDataNode(data, V) ==
  IF V.crEsc THEN JoinCr(SplitCr(data, 1, <<>>), 1) ELSE CData(data)

RECURSIVE CDataParts(_, _, _)
CDataParts(parts, k, V) ==
  IF k > Len(parts) THEN <<>>
  ELSE LET left  == IF k = 1 THEN <<>> ELSE <<"rbr", "gt">>
           right == IF k = Len(parts) THEN <<>> ELSE <<"rbr">>
       IN CDataNode(left \o parts[k] \o right, V) \o CDataParts(parts, k + 1, V)

Enc(s, mode, V) ==
  IF mode = "cdata" /\ Has(s, {"lt", "gt", "amp"})
  THEN CDataParts(SplitEnd(s, 1, <<>>), 1, V)
  ELSE WriteData(s, V)

(*------------------------------- reader ----------------------------------*)
RECURSIVE LineEnds(_, _)
LineEnds(t, i) ==
  IF i > Len(t) THEN <<>>
  ELSE IF t[i] = "cr"
       THEN <<"lf">> \o LineEnds(t, IF i + 1 <= Len(t) /\ t[i + 1] = "lf"
                                   THEN i + 2 ELSE i + 1)
       ELSE <<t[i]>> \o LineEnds(t, i + 1)

Bad == [ok |-> FALSE, s |-> <<>>]
IsRef(t, i) == i + 2 <= Len(t) /\ t[i + 1] \in EntWords /\ t[i + 2] = "semi"

(* first j >= i with ]]> at j, 0 if none *)
RECURSIVE FindEnd(_, _)
FindEnd(t, i) == IF i > Len(t) THEN 0 ELSE IF IsEnd(t, i) THEN i ELSE FindEnd(t, i + 1)

(* content of a leaf element: no child elements allowed *)
RECURSIVE Content(_, _, _)
Content(t, i, acc) ==
  IF i > Len(t) THEN [ok |-> TRUE, s |-> acc]
  ELSE LET c == t[i] IN
  IF c = "ERR" THEN Bad
  ELSE IF c = "amp"
  THEN IF IsRef(t, i) THEN Content(t, i + 3, Append(acc, EntChar(t[i + 1]))) ELSE Bad
  ELSE IF c = "lt"
  THEN IF i + 1 <= Len(t) /\ t[i + 1] = "w:cdo"
       THEN LET j == FindEnd(t, i + 2) IN
            IF j = 0 THEN Bad
            ELSE Content(t, j + 3, acc \o SubSeq(t, i + 2, j - 1))
       ELSE Bad
  ELSE IF IsEnd(t, i) THEN Bad               \* "]]>" must not occur in content
  ELSE Content(t, i + 1, Append(acc, c))

XmlRead(t) == Content(LineEnds(t, 1), 1, <<>>)

RECURSIVE AttrVal(_, _, _)
AttrVal(t, i, acc) ==
  IF i > Len(t) THEN [ok |-> TRUE, s |-> acc]
  ELSE LET c == t[i] IN
  IF c \in {"lt", "quot", "ERR"} THEN Bad
  ELSE IF c = "amp"
  THEN IF IsRef(t, i) THEN AttrVal(t, i + 3, Append(acc, EntChar(t[i + 1]))) ELSE Bad
  ELSE AttrVal(t, i + 1, Append(acc, IF c \in {"tab", "lf", "cr"} THEN "sp" ELSE c))

AttrRead(t) == AttrVal(LineEnds(t, 1), 1, <<>>)

(*------------------------------ nesting ----------------------------------*)
(* An embedded object is the XML text of the inner object, written as the  *)
(* character data of the outer VALUE element: escaped once per level.      *)
(* The inner document is stood for by a wrapper element with one attribute *)
(* (a CIM name) around the inner character data.                           *)
OpenHead == <<"lt", "w:V", "sp", "ltr", "ltr", "quot">>
OpenTail == <<"quot", "gt">>
CloseTag == <<"lt", "w:/V", "gt">>
Wrap(attrtext, text) == OpenHead \o attrtext \o OpenTail \o text \o CloseTag

(* first raw quote at or after i, 0 if none *)
RECURSIVE FindQuot(_, _)
FindQuot(t, i) == IF i > Len(t) THEN 0 ELSE IF t[i] = "quot" THEN i ELSE FindQuot(t, i + 1)

(* parse the wrapper: [ok, attr (text), text] *)
Unwrap(doc) ==
  LET n == Len(doc)
      h == Len(OpenHead)
      q == FindQuot(doc, h + 1) IN
  IF n < h + 2 + 3 \/ SubSeq(doc, 1, h) # OpenHead \/ q = 0 \/ q + 1 > n
     \/ doc[q + 1] # "gt" \/ n - 2 < q + 1 \/ SubSeq(doc, n - 2, n) # CloseTag
  THEN [ok |-> FALSE, attr |-> <<>>, text |-> <<>>]
  ELSE [ok |-> TRUE, attr |-> SubSeq(doc, h + 1, q - 1),
        text |-> SubSeq(doc, q + 2, n - 3)]

(* the character data of the outermost VALUE for string s (text position)  *)
(* and name a (attribute position) below d embedded levels                 *)
RECURSIVE NestEnc(_, _, _, _, _)
NestEnc(s, a, d, mode, V) ==
  IF d = 0 THEN Enc(s, mode, V)
  ELSE Enc(Wrap(EncAttr(a, V), NestEnc(s, a, d - 1, mode, V)), mode, V)

(* reading it back: [ok, s, as]  (as: the attribute value of every level,  *)
(* outermost first)                                                        *)
RECURSIVE NestRead(_, _)
NestRead(t, d) ==
  LET r == XmlRead(t) IN
  IF ~r.ok THEN [ok |-> FALSE, s |-> <<>>, as |-> <<>>]
  ELSE IF d = 0 THEN [ok |-> TRUE, s |-> r.s, as |-> <<>>]
  ELSE LET u == Unwrap(r.s) IN
       IF ~u.ok THEN [ok |-> FALSE, s |-> <<>>, as |-> <<>>]
       ELSE LET in == NestRead(u.text, d - 1)
                at == AttrRead(u.attr) IN
            [ok |-> in.ok /\ at.ok, s |-> in.s, as |-> <<at.s>> \o in.as]
=============================================================================
