------------------------ MODULE RespPipelineImplOps ------------------------
(***************************************************************************)
(* Code-shaped model of pywbem's response processing (pure operators).     *)
(*                                                                         *)
(* Stages in CODE ORDER (pywbem/_cim_http.py:wbem_request,                 *)
(* _cim_operations.py:_imethodcall/_methodcall/_iexportcall and the        *)
(* operation methods, _tupletree.py, _tupleparse.py):                      *)
(*   send      session.post(); requests/urllib3 exceptions are mapped      *)
(*   hdr       WBEMServerResponseTime header: float(value) / 1000000        *)
(*   status    status != 200: 401 -> AuthError, else HTTPError             *)
(*   ctype     Content-type header check                                   *)
(*   sax       xml_to_tupletree_sax (expat; UTF-8 / XML char diagnosis)    *)
(*   parse     TupleParser.parse_cim over the WHOLE tree: element          *)
(*             structure, CIM/DTD/protocol versions, and the conversion of *)
(*             every typed value in nested objects (the unpack functions)   *)
(*   envelope  root/MESSAGE/SIMPLERSP/(I)METHODRESPONSE names, NAME match  *)
(*   error     ERROR element: int(CODE) -> CIMError                        *)
(*   shapechk  IRETURNVALUE / PARAMVALUE allowed for the operation         *)
(*   method    InvokeMethod only: cimvalue() on RETURNVALUE / PARAMVALUE   *)
(*   result    per-operation result typing                                 *)
(* For each defect kind the table says at which stage it is noticed and    *)
(* what that stage does.  `lk` is the set of known leaks present in the    *)
(* modelled code version: places where the code converts or indexes        *)
(* without a guard and a builtin exception escapes.                        *)
(***************************************************************************)
EXTENDS RespPipeline

ImplStages == <<"send", "hdr", "status", "ctype", "sax", "parse", "envelope",
                "error", "shapechk", "method", "result">>

AllLeaks == {"ErrCodeInt", "IntInf", "NullInArray", "ArraySizeInt",
             "CimvalueRaw", "RetvalParamtypeKey", "PullEmptyResponse",
             "EnumInstNoPath", "ResultIndexing", "PullNoTypeCheck",
             "ExpatEncoding", "RedirectUrl", "Recursion", "MethodMisc",
             "EmbTypes",
             "RealBigInt",      \* unpack_numeric: RealNN(int of > 308 digits)
             "HexLongMsg",      \* unpack_numeric: message formats a huge int
             "ParamNamedElem",  \* PARAMVALUE named like a sibling element
             "TypeNameTrail",   \* TYPE="uint8&#10;" passes a $-anchored pattern
             "FirstObjectOnly", \* result list: only object 1 is type-checked
             "QrcBeforeParams", \* QueryResultClass extracted before the
                                \* response parameters are validated
             "RespTimeInt"}     \* WBEMServerResponseTime: int(value) / 1000000,
                                \* only ValueError caught
(* leaks present in the tree this suite was built against (IntInf was      *)
(* repaired by "fix: CIM integer types raised OverflowError ..."; the last  *)
(* three never were in the tree: regression configurations only)           *)
PinnedLeaks == AllLeaks \ {"IntInf", "FirstObjectOnly", "QrcBeforeParams",
                           "RespTimeInt"}

L(lk, name, leaky, fixed) == IF name \in lk THEN leaky ELSE fixed
P == {"pass"}
X == {"CIMXMLParseError"}

IntTypes == {"uint8", "sint8", "uint16", "sint16", "uint32", "sint32",
             "uint64", "sint64"}
Unsigned(ty) == ty \in {"uint8", "uint16", "uint32", "uint64"}
IsReal(ty) == ty \in {"real32", "real64"}

UnpackSites == {"prop", "proparr", "qual", "qualarr", "key", "qdval",
                "qdarr", "emb"}
MethodSites == {"retval", "outparam", "outparamarr", "refarr"}

(* ---- numeric text: unpack_numeric (typed), untyped keys, cimvalue ------- *)
NumUnpack(lk, ty, cls) ==
  CASE cls \in {"dec", "hex", "plus", "usc", "udig", "frac"} -> P
    [] cls = "neg" -> IF Unsigned(ty) THEN X ELSE P
    [] cls \in {"inf", "ninf", "e999"} ->
         IF IsReal(ty) THEN P ELSE L(lk, "IntInf", {"OverflowError"}, X)
    [] cls = "nan" -> IF IsReal(ty) THEN P ELSE X
    [] cls = "oor" -> IF IsReal(ty) THEN P ELSE X
    [] cls = "long" -> IF IsReal(ty) THEN P
                       ELSE P \cup L(lk, "IntInf", {"OverflowError"}, X)
    [] cls = "junk" -> P \cup X      \* str.strip() also drops U+00A0
    (* integer lexemes of 310..4300 digits (hex: any length): int() takes    *)
    (* them; RealNN(int) = float(int) overflows, UintNN(int) is a range error *)
    [] cls \in {"big", "hexbig"} ->
         IF IsReal(ty) THEN L(lk, "RealBigInt", {"OverflowError"}, X) ELSE X
    (* hex lexeme whose value has more than 4300 decimal digits: int(s, 16)   *)
    (* has no digit limit, but the range error message formats the int        *)
    [] cls = "hexlong" ->
         IF IsReal(ty) THEN L(lk, "RealBigInt", {"OverflowError"}, X)
         ELSE L(lk, "HexLongMsg", {"ValueError"}, X)
    (* mantissa or exponent of many digits, not an int() lexeme: float()      *)
    (* gives +-inf (fracbig) or +-0.0 (expneg)                                *)
    [] cls = "fracbig" ->
         IF IsReal(ty) THEN P ELSE L(lk, "IntInf", {"OverflowError"}, X)
    [] cls = "expneg" -> P
    [] OTHER -> X          \* empty, ws, alpha
NumUntyped(cls) == IF cls \in {"empty", "ws", "alpha"} THEN X
                   ELSE IF cls = "junk" THEN P \cup X ELSE P
NumCimvalue(lk, ty, cls) ==
  LET bad == L(lk, "CimvalueRaw", {"ValueError"}, X) IN
  IF IsReal(ty)
  THEN IF cls \in {"hex", "hexbig", "hexlong", "empty", "ws", "alpha"} THEN bad
       ELSE IF cls = "junk" THEN P \cup bad ELSE P
  ELSE CASE cls \in {"dec", "plus", "usc", "udig"} -> P
         [] cls = "junk" -> P \cup bad
         [] cls = "neg" -> IF Unsigned(ty) THEN bad ELSE P
         [] cls = "ws" -> bad
         [] OTHER -> bad

(* ---- result element of IRETURNVALUE -> python object --------------------- *)
(* [t |-> wrapped in a (name, attrs, child) tuple, o |-> object kinds]       *)
Obj(elem) ==
  CASE elem = "CLASSNAME" -> [t |-> FALSE, o |-> {"ClassName"}]
    [] elem \in {"INSTANCENAME", "INSTANCEPATH"} ->
         [t |-> FALSE, o |-> {"InstName"}]
    [] elem = "VALUE" -> [t |-> FALSE, o |-> {"Str"}]
    [] elem = "VALUE.ARRAY" -> [t |-> FALSE, o |-> {"List"}]
    [] elem = "CLASS" -> [t |-> FALSE, o |-> {"Class"}]
    [] elem = "INSTANCE" -> [t |-> FALSE, o |-> {"InstNoPath"}]
    [] elem \in {"VALUE.NAMEDINSTANCE", "VALUE.INSTANCEWITHPATH"} ->
         [t |-> FALSE, o |-> {"Inst"}]
    [] elem = "QUALIFIER.DECLARATION" -> [t |-> FALSE, o |-> {"QualDecl"}]
    [] elem = "VALUE.REFERENCE" ->
         [t |-> FALSE, o |-> {"InstName", "ClassName"}]
    [] elem = "VALUE.OBJECT/i" -> [t |-> TRUE, o |-> {"InstNoPath"}]
    [] elem = "VALUE.OBJECT/c" -> [t |-> TRUE, o |-> {"Class"}]
    [] elem \in {"VALUE.OBJECTWITHPATH/i", "VALUE.OBJECTWITHLOCALPATH/i"} ->
         [t |-> TRUE, o |-> {"Inst"}]
    [] elem \in {"VALUE.OBJECTWITHPATH/c", "VALUE.OBJECTWITHLOCALPATH/c"} ->
         [t |-> TRUE, o |-> {"ClassTuple"}]
    [] elem = "OBJECTPATH/i" -> [t |-> TRUE, o |-> {"InstName"}]
    [] elem = "OBJECTPATH/c" -> [t |-> TRUE, o |-> {"ClassName"}]
    [] OTHER -> [t |-> FALSE, o |-> {}]      \* not accepted by parse_ireturnvalue

(* isinstance() checks of the simple operations                              *)
Wanted(shape) ==
  CASE shape \in {"inst", "namedinsts"} -> {"Inst", "InstNoPath"}
    [] shape \in {"instname", "instnames"} -> {"InstName"}
    [] shape \in {"class", "classes"} -> {"Class"}
    [] shape = "classnames" -> {"ClassName"}
    [] shape \in {"qualdecl", "qualdecls"} -> {"QualDecl"}
    [] shape \in {"pull_inst", "pull_query", "pull_queryc"} ->
         {"Inst", "InstNoPath"}
    [] shape = "pull_path" -> {"InstName"}
    [] OTHER -> {}

(* x[2] of the association / query operations on one object kind            *)
IndexOut(lk, k) ==
  LET bad(e) == L(lk, "ResultIndexing", {e}, X) IN
  CASE k \in {"Inst", "InstNoPath", "InstName"} -> bad("AttributeError")
    [] k \in {"Class", "ClassName", "QualDecl"} -> bad("TypeError")
    [] k = "Str" -> bad("IndexError") \cup {"inner:Str"}
    [] k = "List" -> bad("IndexError")
    [] OTHER -> X
(* what the operation does with the inner object                             *)
InnerOut(lk, shape, k) ==
  LET bad(s) == L(lk, "ResultIndexing", s, X) IN
  CASE shape = "objs_i" -> IF k \in {"Inst", "InstNoPath"} THEN P ELSE X
    [] shape = "paths_i" -> IF k = "InstName" THEN P ELSE X
    [] shape = "paths_c" -> IF k = "ClassName" THEN P ELSE X
    [] shape = "objs_c" ->
         CASE k = "ClassTuple" -> P
           [] k \in {"Inst", "InstNoPath", "InstName", "Str"} ->
                bad({"ValueError"}) \cup X
           [] OTHER -> bad({"TypeError"})
    [] shape = "queryobjs" ->
         CASE k \in {"Inst", "InstNoPath"} -> P
           [] k = "Class" -> bad({"AssertionError"})
           [] OTHER -> bad({"AttributeError"})
    [] OTHER -> P
ResultOut(lk, shape, elem) ==
  LET ob == Obj(elem) IN
  IF ob.o = {} THEN X
  ELSE UNION {
    CASE shape \in {"objs_i", "objs_c", "paths_i", "paths_c", "queryobjs"} ->
           IF ob.t THEN InnerOut(lk, shape, k)
           ELSE UNION {IF r = "inner:Str" THEN InnerOut(lk, shape, "Str")
                       ELSE {r} : r \in IndexOut(lk, k)}
      [] shape \in PullShapes ->
           IF ~ob.t /\ k \in Wanted(shape) THEN P
           ELSE L(lk, "PullNoTypeCheck", {"BADTYPE"}, X)
      [] shape = "namedinsts" ->
           IF ob.t \/ k \notin Wanted(shape) THEN X
           ELSE IF k = "InstNoPath"
                THEN L(lk, "EnumInstNoPath", {"AttributeError"}, X)
                ELSE P
      [] OTHER -> IF ~ob.t /\ k \in Wanted(shape) THEN P ELSE X
    : k \in ob.o}

(* heterogeneous result list (kind o_het): first object of kind d.ty, a      *)
(* later one of kind d.cls.  list_of_same() rejects unlike element names    *)
(* while parsing; like elements with unlike content (instance- / class-     *)
(* level) reach the operation, which checks EVERY object.  Leak            *)
(* FirstObjectOnly: only the first object is checked, the later ones are    *)
(* returned as they are.                                                    *)
HetParsed(d) == ElemOf(d.ty) = ElemOf(d.cls) /\ Obj(d.ty).o # {}
HetOut(lk, shape, d) ==
  LET r1 == ResultOut(lk, shape, d.ty)
      r2 == ResultOut(lk, shape, d.cls)
      later == L(lk, "FirstObjectOnly",
                 IF "pass" \in r2 THEN P ELSE {"BADTYPE"}, r2)
  IN (r1 \ P) \cup (IF "pass" \in r1 THEN later ELSE {})

SingleShapes == {"inst", "instname", "class", "qualdecl"}
(* operations defined as void: any IRETURNVALUE child is rejected            *)
(* (_imethodcall has_return_value=False; _iexportcall: `if tup_tree`)        *)
VoidShapes == {"void", "export"}

(* ---- PARAMVALUE children of the response element (kind o_pv) ------------- *)
(* list_of_various() turns an ERROR / IRETURNVALUE / RETURNVALUE child into  *)
(* (element name, attrs, content) and a PARAMVALUE child into (NAME,         *)
(* paramtype, value); _imethodcall / _methodcall / _get_rslt_params and the  *)
(* operations tell the nodes apart by item 0 only.  Leak ParamNamedElem: a   *)
(* PARAMVALUE named like a sibling element is taken for that element.        *)
PvFront(pos) == pos \in {"only", "first", "forret"}   \* child number 1
PyMisuse == {"TypeError", "AttributeError", "BADTYPE"}
(* `for x in value` of the list operations / `value[0]` of the single ones,  *)
(* value = whatever object the PARAMVALUE held                                *)
FakeIter(kid) ==
  IF kid \in {"none", "CLASS", "CLASSNAME"} THEN {"TypeError"}
  ELSE P \cup X \cup PyMisuse
FakeIndex(kid) ==
  IF kid = "none" THEN X                    \* `if not result`
  ELSE IF kid \in {"CLASS", "CLASSNAME"} THEN {"TypeError"}
  ELSE P \cup X \cup PyMisuse
PvOut(lk, shape, d) ==
  LET pos == d.site
      nm == d.ty
      kid == d.cls
      lky(s) == L(lk, "ParamNamedElem", s, X)   \* repaired: name rejected
  IN
  CASE nm = "ERROR" ->
         IF PvFront(pos) THEN lky({"TypeError"})      \* err[1]['CODE']
         ELSE IF shape = "method" THEN lky(P \cup X)
         ELSE IF shape \in PullShapes THEN lky(P)     \* unknown names ignored
         ELSE X                                       \* no output parameters
    [] nm = "RETURNVALUE" ->                          \* shape = "method"
         IF PvFront(pos) THEN lky({"AttributeError"}) \* paramtype.get()
         ELSE lky(P \cup X)
    [] nm = "IRETURNVALUE" ->
         IF shape = "void" THEN X
         ELSE IF shape \in PullShapes
         THEN CASE pos = "first" -> lky(P)       \* the later IRETURNVALUE wins
                [] pos = "only" -> X             \* no EndOfSequence / context
                [] OTHER -> lky(FakeIter(kid))
         ELSE IF pos = "last" THEN lky(P)        \* result[0] is the element
         ELSE IF shape \in SingleShapes THEN lky(FakeIndex(kid))
         ELSE lky(FakeIter(kid))
    [] OTHER ->       \* EndOfSequence, EnumerationContext, QueryResultClass, other
         IF shape = "method" \/ shape \in PullShapes THEN P \cup X
         ELSE X                                       \* no output parameters

(* ---- the table: impl stage at which a defect is noticed, and the result - *)
DefStage(shape, d) ==
  CASE d.k = "t_exc" -> "send"
    [] d.k \in {"s_401", "s_err", "s_cimerror"} -> "status"
    [] d.k = "c_type" -> "ctype"
    [] d.k = "h_num" -> IF d.ty = "clen" THEN "send" ELSE "hdr"
    [] d.k \in {"u_bad", "x_char", "w_form", "w_enc", "f_bytes"} -> "sax"
    [] d.k = "e_env" ->
         IF d.cls \in {"name_wrong", "name_case", "name_empty"}
         THEN "envelope" ELSE "parse"
    [] d.k = "r_code" -> IF d.cls = "missing" THEN "parse" ELSE "error"
    [] d.k = "r_child" -> IF d.cls = "insts" THEN "error" ELSE "parse"
    [] d.k = "r_mixed" ->
         IF d.cls = "irv_err" THEN "shapechk"
         ELSE IF d.cls = "err_param" /\ shape = "export" THEN "parse"
         ELSE "error"
    [] d.k \in {"v_num", "v_bool", "v_dt", "v_c16", "v_type"} ->
         IF d.site \in MethodSites THEN "method" ELSE "parse"
    [] d.k = "v_null" -> IF d.site = "outparamarr" THEN "method" ELSE "parse"
    [] d.k = "v_emb" -> IF d.cls = "numtype" /\ d.site # "prop"
                        THEN "method" ELSE "parse"
    [] d.k = "o_irv" -> IF shape \in VoidShapes THEN "shapechk" ELSE "result"
    [] d.k = "o_het" -> IF HetParsed(d) THEN "result" ELSE "parse"
    [] d.k = "o_struct" ->
         IF d.cls \in {"attr", "text", "irv_in_param", "mixed"} THEN "parse"
         ELSE IF d.cls \in {"missing", "empty"} /\ shape \notin VoidShapes
              THEN "result" ELSE "shapechk"
    [] d.k = "o_pv" ->
         IF d.ty = "ERROR" /\ PvFront(d.site) THEN "error"
         ELSE IF shape = "method" THEN "method"
         ELSE IF shape \in PullShapes \/
                 (d.ty = "IRETURNVALUE" /\ shape # "void") THEN "result"
         ELSE "shapechk"
    [] d.k \in {"p_eos", "p_ctx"} -> "result"
    [] d.k = "p_misc" ->
         IF d.cls \in {"noname", "twokids", "badchild", "embattr"}
         THEN "parse" ELSE "result"
    [] d.k = "m_misc" ->
         IF d.cls \in {"irv", "out_noname", "retval_attr", "retval_refarray"}
         THEN "parse" ELSE "method"
    [] OTHER -> "parse"      \* f_tree and the remaining value kinds

DefOut(lk, shape, d) ==
  LET conv == L(lk, "CimvalueRaw", {"ValueError"}, X)
      misc == L(lk, "MethodMisc", {"TypeError"}, X)
      key  == L(lk, "RetvalParamtypeKey", {"KeyError"}, P \cup X)
      meth == d.site \in MethodSites
      fuzz == Family("fuzz") \cup P IN
  CASE d.k = "t_exc" ->
         CASE d.cls = "retrytimeout" -> {"TimeoutError", "ConnectionError"}
           [] d.cls = "redirbad" ->
                {"ConnectionError"} \cup
                L(lk, "RedirectUrl", {"ValueError"}, {})
           [] OTHER -> {"ConnectionError"}
    [] d.k = "s_401" -> {"AuthError"}
    [] d.k \in {"s_err", "s_cimerror"} -> {"HTTPError"}
    [] d.k = "c_type" ->
         IF d.cls \in {"missing", "textxml", "xmlish", "charset"} THEN P
         ELSE {"HeaderParseError"}
    [] d.k = "h_num" ->
         (* Content-Length is consumed by requests/urllib3: int() guarded,   *)
         (* a length the body does not have is a framing fault.              *)
         (* WBEMServerResponseTime: float(text) takes or rejects (ValueError *)
         (* caught) every lexeme; leak RespTimeInt: int(text) accepts an     *)
         (* integer lexeme of up to 4300 digits and int / 1000000 overflows  *)
         (* above ~315 digits.                                               *)
         IF d.ty = "clen" THEN P \cup {"ConnectionError"}
         ELSE L(lk, "RespTimeInt",
                IF d.cls = "big" THEN P \cup {"OverflowError"} ELSE P, P)
    [] d.k \in {"u_bad", "x_char"} -> {"XMLParseError"}
    [] d.k = "w_form" -> IF d.cls = "declv2" THEN P ELSE {"XMLParseError"}
    [] d.k = "w_enc" ->
         CASE d.cls \in {"utf16", "utf16nobom", "latin1", "bom", "doctype"} -> P
           [] d.cls \in {"bogus", "hex"} ->
                L(lk, "ExpatEncoding", {"LookupError"}, {"XMLParseError"})
           [] d.cls \in {"sjis", "eucjp", "utf7"} ->
                L(lk, "ExpatEncoding", {"ValueError"}, {"XMLParseError"})
           [] d.cls = "idna" ->
                L(lk, "ExpatEncoding", {"UnicodeError"}, {"XMLParseError"})
           [] OTHER -> {"XMLParseError"}
    [] d.k \in {"f_bytes", "f_tree"} -> fuzz
    [] d.k = "e_env" ->
         CASE d.cls = "cimversion_3" -> {"CIMVersionError"}
           [] d.cls = "dtdversion_1" -> {"DTDVersionError"}
           [] d.cls = "cimversion_empty" ->
                {"CIMVersionError", "DTDVersionError"}
           [] d.cls \in {"protover_2", "protover_empty"} ->
                {"ProtocolVersionError"}
           [] OTHER -> X
    [] d.k = "r_code" ->
         CASE d.cls = "missing" -> X
           [] d.cls \in {"empty", "alpha", "hex", "float", "long"} ->
                L(lk, "ErrCodeInt", {"ValueError"}, X)
           [] OTHER -> {"CIMError"}
    [] d.k = "r_child" -> IF d.cls = "insts" THEN {"CIMError"} ELSE X
    [] d.k = "r_mixed" ->
         CASE d.cls = "irv_err" ->
                IF shape \in PullShapes THEN P
                ELSE IF shape = "method" THEN P \cup X ELSE X
           [] d.cls = "err_param" /\ shape = "export" -> X
           [] d.cls = "two" -> {"CIMError"} \cup X   \* 2nd CODE may be bad
           [] OTHER -> {"CIMError"}
    [] d.k = "v_num" ->
         IF meth THEN NumCimvalue(lk, d.ty, d.cls)
         ELSE IF d.site = "keyuntyped" THEN NumUntyped(d.cls)
         ELSE NumUnpack(lk, d.ty, d.cls)
    [] d.k = "v_bool" ->
         IF meth    \* cimvalue(): bool(text); since _wire_value: unpack_boolean
         THEN IF d.cls \in {"yes", "one"} THEN P \cup X ELSE P
         ELSE CASE d.cls \in {"true", "upper", "ws"} -> P
                [] d.cls \in {"empty", "wsonly"} ->
                     IF d.site = "key" THEN X ELSE P
                [] OTHER -> X
    [] d.k = "v_dt" ->
         IF d.cls \in {"ts", "interval", "nonascii"} THEN P
         ELSE IF meth THEN conv ELSE X
    [] d.k = "v_c16" ->
         IF meth \/ d.cls \in {"one", "ws"} THEN P ELSE X
    [] d.k = "v_type" ->
         CASE d.cls = "trail" ->
                (* '$' also matches before a trailing newline: the name was  *)
                (* taken for a numeric type and type_from_name() raised      *)
                IF meth THEN conv \cup L(lk, "TypeNameTrail", {"ValueError"}, {})
                ELSE X \cup L(lk, "TypeNameTrail", {"ValueError"}, {})
           [] d.site = "key" ->
                CASE d.cls = "empty" -> P
                  [] d.cls = "missing" -> P \cup X
                  [] OTHER -> X
           [] d.site = "param" -> IF d.cls = "reference" THEN P ELSE X
           [] d.site \in {"outparam", "outparamarr"} ->
                IF d.cls \in {"missing", "reference"} THEN P ELSE conv
           [] d.site = "retval" -> IF d.cls = "missing" THEN key ELSE conv
           [] OTHER -> X
    [] d.k = "v_asize" ->
         CASE d.cls \in {"dec", "zero", "neg", "ws", "plus"} -> P
           [] d.cls = "huge" ->
                P \cup L(lk, "ArraySizeInt", {"ValueError"}, X)
           [] OTHER -> L(lk, "ArraySizeInt", {"ValueError"}, X)
    [] d.k = "v_null" ->
         CASE d.site \in {"proparr", "qualarr", "qdarr"} ->
                IF d.ty = "string" THEN P
                ELSE L(lk, "NullInArray", {"AssertionError"}, P)
           [] d.site \in {"outparamarr", "refarr"} -> P
           [] OTHER -> X
    [] d.k = "v_shape" ->
         IF d.cls = "ref_in_value" /\ d.site = "outparam" THEN P \cup misc
         ELSE X
    [] d.k = "v_emb" ->
         CASE d.cls \in {"ok_instance", "ok_class", "array", "both_attrs",
                         "false_attr"} -> P
           [] d.cls \in {"notxml", "illformed", "empty", "utf8"} ->
                {"XMLParseError"}
           [] d.cls = "badattr" -> IF d.site = "prop" THEN X ELSE P
           [] d.cls = "numtype" ->
                IF d.site = "prop" THEN X
                ELSE P \cup L(lk, "EmbTypes", {"TypeError"}, X)
           [] OTHER -> X
    [] d.k = "v_battr" ->
         IF d.cls = "bad" THEN X
         ELSE IF d.site = "qdval" THEN P \cup X ELSE P
    [] d.k = "v_key" ->
         CASE d.cls \in {"dupname", "keyless"} -> P
           [] d.cls \in {"refkey", "unnamed"} -> P \cup X
           [] OTHER -> X
    [] d.k = "v_name" ->
         CASE d.cls \in {"classname_missing", "propname_missing"} -> X
           [] d.cls = "method_child" -> P \cup X
           [] OTHER -> P
    [] d.k = "v_meth" -> X
    [] d.k = "v_nspath" ->
         IF d.cls \in {"hostempty", "nsempty"} THEN P ELSE X
    [] d.k = "v_deep" ->
         IF d.cls = "d50" THEN P
         ELSE IF d.site = "emb"   \* about 195 levels fit into the stack
         THEN P \cup L(lk, "Recursion", {"RecursionError"}, X)
         ELSE L(lk, "Recursion", {"RecursionError"}, X)
    [] d.k = "o_irv" ->
         IF shape \in VoidShapes THEN X ELSE ResultOut(lk, shape, d.cls)
    [] d.k = "o_het" -> IF HetParsed(d) THEN HetOut(lk, shape, d) ELSE X
    [] d.k = "o_struct" ->
         CASE d.cls \in {"attr", "text", "irv_in_param", "mixed"} -> X
           [] d.cls = "missing" -> IF shape \in SingleShapes THEN X ELSE P
           [] d.cls = "empty" ->
                IF shape \in SingleShapes \cup VoidShapes THEN X ELSE P
           [] d.cls \in {"dup", "many"} ->
                IF shape \in VoidShapes THEN X ELSE P
           [] OTHER -> IF shape \in PullShapes THEN P \cup X ELSE X
    [] d.k = "o_pv" -> PvOut(lk, shape, d)
    [] d.k = "p_eos" ->
         CASE d.cls \in {"bogus", "emptyval", "false_noctx", "ws", "one"} -> X
           [] d.cls = "missing_both" ->
                X \cup L(lk, "PullEmptyResponse", {"TypeError"}, {})
           [] OTHER -> P
    [] d.k = "p_ctx" -> P \cup X
    [] d.k = "p_misc" ->
         CASE d.cls = "empty" ->
                (* no child elements: `for p in None`.  _get_rslt_params()   *)
                (* rejects that; with ReturnQueryResultClass the output      *)
                (* parameter must not be looked up before that validation    *)
                IF shape = "pull_queryc" /\ "QrcBeforeParams" \in lk
                THEN {"TypeError"}
                ELSE L(lk, "PullEmptyResponse", {"TypeError"}, X)
           [] d.cls \in {"qrc_notclass", "qrc_novalue", "qrc_missing"} ->
                IF shape = "pull_queryc" THEN X ELSE P   \* else: ignored
           [] d.cls \in {"noname", "twokids", "badchild", "onlyirv"} -> X
           [] d.cls = "embattr" ->
                {"XMLParseError"} \cup L(lk, "EmbTypes", {"TypeError"}, X)
           [] OTHER -> P
    [] d.k = "m_misc" ->
         CASE d.cls \in {"dup_out", "out_instname",
                         "out_namedinst", "out_ref_text"} -> P
           [] d.cls = "out_bool_false" -> P \cup X   \* unpack_boolean
           [] d.cls \in {"irv", "out_noname", "retval_attr",
                         "retval_refarray"} -> X
           [] d.cls \in {"out_class", "out_notype"} -> P \cup conv
           [] d.cls = "out_classname" -> P \cup misc
           [] d.cls \in {"out_hex", "retval_hex", "out_str_for_num",
                         "out_type_bogus", "retval_type_bogus"} -> conv
           [] d.cls = "out_inst" -> P \cup misc
           [] d.cls \in {"out_reftype_value", "retval_last",
                         "two_retvals"} -> misc
           [] OTHER -> key   \* retval_empty, retval_notype, retval_ref_notype
    [] OTHER -> X

(* result of one stage for a cell: union over the defects noticed there;   *)
(* the stage passes only if every such defect lets it pass                  *)
StageOut(lk, st, shape, defs) ==
  LET here == {d \in defs : DefStage(shape, d) = st}
      rs == {DefOut(lk, shape, d) : d \in here} IN
  (UNION rs \ P) \cup (IF \A r \in rs : "pass" \in r THEN P ELSE {})

RECURSIVE Run(_, _, _, _)
Run(lk, i, shape, defs) ==
  IF i > Len(ImplStages) THEN {"value"}
  ELSE LET so == StageOut(lk, ImplStages[i], shape, defs) IN
       (so \ P) \cup (IF "pass" \in so THEN Run(lk, i + 1, shape, defs)
                      ELSE {})

(* all outcomes the modelled code can produce for a cell: exception class  *)
(* names, "value", or "BADTYPE" (returns a value not of the documented     *)
(* type)                                                                    *)
ImplOutcomes(lk, shape, defs) == Run(lk, 1, shape, defs)

(* does an outcome of the model satisfy the requirement for the cell?       *)
OutcomeAdmissible(o, defs) ==
  \/ o = "value"
  \/ o \in PywbemErrors /\ (defs = {} \/ o \in AdmissibleErrors(defs))
=============================================================================
