\* regression configuration (must FAIL): RecursionError of the reader (some hundred nested reference keys) not caught in do_POST (tree as read)
SPECIFICATION Spec
CONSTANTS
  MaxReq = 1
  Alphabet <- LexAlone
  San = TRUE
  ClChk = TRUE
  Threaded = TRUE
  FinalValid = FALSE
  QCap = 0
  Gating = FALSE
  QfRet = TRUE
  Echo = "xml10"
  PName = "exact"
  Deep = "leaks"
  LexG = "full"
INVARIANT InvNoDroppedConnection
CHECK_DEADLOCK FALSE
