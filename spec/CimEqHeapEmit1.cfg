SPECIFICATION Spec
CONSTANTS
  MaxRef = 60
  MaxMut = 1
  Roots <- AllRoots
  ShallowChildDict = FALSE
  SharedPath = FALSE
  EmptyListPassThrough = FALSE
  Mode = "copy"
  HashCache = "none"
  LazyHash = "getter"
  ObsKinds <- ObsActs
  EmitLazy = FALSE
  CopyViaCtor = FALSE
  Emit = TRUE
INVARIANT CopyEqual
INVARIANT Independence
INVARIANT Tight
CHECK_DEADLOCK FALSE
INVARIANT EmitBeh
