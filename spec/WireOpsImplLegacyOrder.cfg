SPECIFICATION Spec
CONSTANTS
  K = 1
  Variant = {"minst_order"}
  Emit = FALSE
INVARIANTS ImplValid ImplHeaders ImplReqOk
CHECK_DEADLOCK FALSE
