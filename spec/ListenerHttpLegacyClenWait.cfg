\* regression configuration (must FAIL): Content-Length -1 -> read(-1) blocks until the peer closes
SPECIFICATION Spec
CONSTANTS
  MaxReq = 1
  Alphabet <- UpTo1
  San = TRUE
  ClChk = FALSE
  Threaded = TRUE
  FinalValid = FALSE
INVARIANT InvExactlyOneResponse
CHECK_DEADLOCK FALSE
