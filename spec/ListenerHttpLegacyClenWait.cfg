\* regression configuration (must FAIL): Content-Length -1 -> read(-1) blocks until the peer closes
SPECIFICATION Spec
CONSTANTS
  MaxReq = 1
  Alphabet <- UpTo1
  San = TRUE
  ClChk = FALSE
  Threaded = TRUE
  FinalValid = FALSE
  QCap = 0
  Gating = FALSE
  QfRet = TRUE
  Echo = "xml10"
  PName = "exact"
  Deep = "caught"
  LexG = "full"
INVARIANT InvExactlyOneResponse
CHECK_DEADLOCK FALSE
