\* behaviour emission: creates, rejected creates, modifies
SPECIFICATION Spec
CONSTANTS
  LegacyBreak = FALSE
  SwapIn = ""
  NoShadow = FALSE
  NoPreCheck = FALSE
  XParU = {}
  ShallowSub = FALSE
  IgnoreNs = FALSE
  ModSharedPath = FALSE
  MaxMod = 1
  NodeU <- NodeU5
  MaxAssoc = 4
  CreateNs = {1, 2}
  ClsU = {"AB", "ABS", "AT", "AL"}
  AcU <- AcSmall
  RcU <- RcSmall
  RlU <- RlSmall
  GenDepth = 7
CONSTRAINT GenConstraint
CHECK_DEADLOCK FALSE
