SPECIFICATION Spec
CONSTANTS
  TMin = 0
  TMax = 15
  Pts <- PtsU4t
  MaxLen = 2
  FixTrunc = TRUE
  FixGuard = TRUE
  FixOct0 = TRUE
  FixSkip = TRUE
  FixUncl = TRUE
  FixCase = TRUE
  FixItems = TRUE
  ItemsOnce = FALSE
  Lenient <- LenNone
  WithLex = TRUE
  Emit = FALSE
  WithBad = TRUE
CHECK_DEADLOCK FALSE
INVARIANT ImplEqualsClaims
INVARIANT ImplEqualsClaimsC
