---------------------------- MODULE ObserverImpl ----------------------------
(***************************************************************************)
(* C19 design model: an operation is a pipeline of CORE stages (marshal,   *)
(* send, receive, parse, build result / raise) interleaved with OBSERVER   *)
(* hooks in code order (pywbem/_cim_operations.py, _cim_http.py,           *)
(* _recorder.py, _statistics.py):                                          *)
(*   stage_pywbem_args ; start_timer ; stage_http_request ;                *)
(*   stage_http_response1 ; stage_http_response2 ; stop_timer ;            *)
(*   stage_pywbem_result                                                   *)
(* An observer hook is TOTAL iff it has no exceptional edge.  The model    *)
(* states, per hook, under which configuration x response class the code   *)
(* shape can raise; TLC explores configuration x response and checks       *)
(* NonInterference (outcome with observers = outcome of the bare pipeline) *)
(* and StatsOnce.  Constants select the code shape:                        *)
(*   TruncateBytesThenDecode  TRUE: LogOperationRecorder cuts the UTF-8    *)
(*        reply at max_len BYTES and decodes the prefix (code before the   *)
(*        fix: a cut inside a multi-byte character raises)                 *)
(*   StopTimerNeedsFloat      TRUE: stop_timer adds the raw header value   *)
(*        (a non-numeric WBEMServerResponseTime raises TypeError)          *)
(*   RecorderConversionPartial TRUE: TestClientRecorder.record() converts  *)
(*        the staged arguments and the result with toyaml(), whose type    *)
(*        dispatch ends in "raise TypeError" for every value type it does  *)
(*        not list; FALSE: the conversion used by record() is total over   *)
(*        the value types pywbem itself produces (ValueShapes of a reply)  *)
(*        or is handed by its caller (ArgShapes)                           *)
(*   ResultBoundAfterValidationOnly TRUE: an operation method binds the    *)
(*        variable its finally block hands to stage_pywbem_result only     *)
(*        AFTER its own argument validation (inside the try block): a      *)
(*        locally rejected argument plus any recorder (test client or log  *)
(*        recorder) raises UnboundLocalError in the finally block          *)
(*                                                                         *)
(* Value universe of the conversion (what record() is given):              *)
(*   ArgShapes  - shape of the operation's arguments                       *)
(*     "listed"            str / CIM types / list / tuple / dict only      *)
(*     "plain_float"       an ACCEPTED object holding a Python float (a    *)
(*                         key binding given as float)                     *)
(*     "iterable_not_list" an ACCEPTED documented "iterable" that is no    *)
(*                         list/tuple (dict view, generator, set of pairs) *)
(*     "rejected"          a value of a type the operation's own argument  *)
(*                         validation rejects (set / generator / float /   *)
(*                         arbitrary object where a name, list, bool, CIM  *)
(*                         value is expected): the bare outcome is the     *)
(*                         validation exception, raised before sending     *)
(*     "rejected_none" / "rejected_count" / "rejected_flag": a value of a  *)
(*                         LISTED type the operation's own validation      *)
(*                         rejects because of WHERE it stands: None for a  *)
(*                         required argument, a negative / non-integer     *)
(*                         count or timeout, a non-boolean flag.  The      *)
(*                         binding generates them for EVERY operation      *)
(*                         method from its signature (the case distinction *)
(*                         of the operations' prologue: one validation     *)
(*                         helper per parameter kind)                      *)
(*   reply class "ok_untyped_real_key": a success whose parsed result      *)
(*     holds a plain float (KEYVALUE VALUETYPE="numeric" without TYPE      *)
(*     holding a real / INF is parsed into float, not Real32/Real64)       *)
(***************************************************************************)
EXTENDS Naturals, Sequences, FiniteSets, TLC

CONSTANTS TruncateBytesThenDecode, StopTimerNeedsFloat,
          RecorderConversionPartial, ResultBoundAfterValidationOnly

Details == {"none", "all", "paths", "summary", "int"}
Responses == {"ok_ascii", "ok_multibyte_cut_inside", "ok_multibyte_cut_between",
              "ok_untyped_real_key",
              "cimerror", "parseerror", "httperror", "connerror"}
RejectedShapes == {"rejected", "rejected_none", "rejected_count",
                   "rejected_flag"}
ArgShapes == {"listed", "plain_float", "iterable_not_list"} \cup RejectedShapes
Rejected(a) == a \in RejectedShapes
SrvTimes == {"absent", "numeric", "garbage"}

VARIABLES cfg, resp, srvtime, arg, pc, outcome, bareOutcome, counted, hookRaised
vars == <<cfg, resp, srvtime, arg, pc, outcome, bareOutcome, counted,
          hookRaised>>

Core(r, a) == IF Rejected(a) THEN "argerror"   \* local validation exception
              ELSE IF r \in {"ok_ascii", "ok_multibyte_cut_inside",
                             "ok_multibyte_cut_between", "ok_untyped_real_key"}
                   THEN "value"
              ELSE r       \* the exception family of the response class

(* the types toyaml() lists *)
ListedByToyaml(a) == a \in {"listed", "rejected_none", "rejected_count",
                            "rejected_flag"}
AnyRecorder(c) == c.recorder \/ c.api # "none" \/ c.http # "none"
ResultHoldsPlainFloat(r, a) == Core(r, a) = "value" /\ r = "ok_untyped_real_key"

Hooks == <<"stage_pywbem_args", "start_timer", "stage_http_request",
           "stage_http_response1", "stage_http_response2", "stop_timer",
           "stage_pywbem_result">>

(* can hook h raise under this configuration / response ? *)
HookRaises(h, c, r, t, a) ==
  \/ /\ h = "stage_http_response2" /\ TruncateBytesThenDecode
     /\ c.http = "int" /\ r = "ok_multibyte_cut_inside"
  \/ /\ h = "stop_timer" /\ StopTimerNeedsFloat
     /\ c.stats /\ t = "garbage" /\ r # "connerror" /\ ~Rejected(a)
  \* stage_pywbem_result -> record(): toyaml(arguments), toyaml(result)
  \/ /\ h = "stage_pywbem_result" /\ RecorderConversionPartial /\ c.recorder
     /\ (~ListedByToyaml(a) \/ ResultHoldsPlainFloat(r, a))
  \* finally: stage_pywbem_result(result, exc) with `result` still unbound
  \/ /\ h = "stage_pywbem_result" /\ ResultBoundAfterValidationOnly
     /\ AnyRecorder(c) /\ Rejected(a)
Reached(h, r, a) ==
  \* hooks after the response are skipped on connection errors; a rejected
  \* argument leaves the try block before anything is sent (the finally
  \* block still stops the timer and stages the result)
  /\ ~(r = "connerror" /\ h \in {"stage_http_response1", "stage_http_response2"})
  /\ ~(Rejected(a) /\ h \in {"stage_http_request", "stage_http_response1",
                               "stage_http_response2"})

Init == /\ cfg \in [api : Details, http : Details, stats : BOOLEAN,
                    recorder : BOOLEAN, debug : BOOLEAN]
        /\ resp \in Responses /\ srvtime \in SrvTimes /\ arg \in ArgShapes
        /\ pc = 1 /\ outcome = "running" /\ bareOutcome = Core(resp, arg)
        /\ counted = 0 /\ hookRaised = FALSE

Step == /\ pc <= Len(Hooks)
        /\ LET h == Hooks[pc] IN
           IF Reached(h, resp, arg) /\ HookRaises(h, cfg, resp, srvtime, arg)
           THEN /\ hookRaised' = TRUE /\ outcome' = "observer-exception"
                /\ pc' = Len(Hooks) + 1
                /\ counted' = counted
           ELSE /\ pc' = pc + 1
                /\ counted' = IF h = "stop_timer" /\ cfg.stats
                              THEN counted + 1 ELSE counted
                /\ outcome' = IF pc = Len(Hooks) THEN Core(resp, arg)
                              ELSE outcome
                /\ UNCHANGED hookRaised
        /\ UNCHANGED <<cfg, resp, srvtime, arg, bareOutcome>>

Spec == Init /\ [][Step]_vars

Done == pc > Len(Hooks)
NonInterference == Done => outcome = bareOutcome
ObserversTotal == ~hookRaised
StatsOnce == (Done /\ cfg.stats) => counted = 1
=============================================================================
