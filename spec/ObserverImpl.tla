---------------------------- MODULE ObserverImpl ----------------------------
(***************************************************************************)
(* C19 design model: an operation is a pipeline of CORE stages (marshal,   *)
(* send, receive, parse, build result / raise) interleaved with OBSERVER   *)
(* hooks in code order (pywbem/_cim_operations.py, _cim_http.py,           *)
(* _recorder.py, _statistics.py):                                          *)
(*   stage_pywbem_args ; start_timer ; stage_http_request ;                *)
(*   stage_http_response1 ; stage_http_response2 ; stop_timer ;            *)
(*   stage_pywbem_result                                                   *)
(* An observer hook is TOTAL iff it has no exceptional edge.  The model    *)
(* states, per hook, under which configuration x response class the code   *)
(* shape can raise; TLC explores configuration x response and checks       *)
(* NonInterference (outcome with observers = outcome of the bare pipeline) *)
(* and StatsOnce.  Constants select the code shape:                        *)
(*   TruncateBytesThenDecode  TRUE: LogOperationRecorder cuts the UTF-8    *)
(*        reply at max_len BYTES and decodes the prefix (code before the   *)
(*        fix: a cut inside a multi-byte character raises)                 *)
(*   StopTimerNeedsFloat      TRUE: stop_timer adds the raw header value   *)
(*        (a non-numeric WBEMServerResponseTime raises TypeError)          *)
(***************************************************************************)
EXTENDS Naturals, Sequences, FiniteSets, TLC

CONSTANTS TruncateBytesThenDecode, StopTimerNeedsFloat

Details == {"none", "all", "paths", "summary", "int"}
Responses == {"ok_ascii", "ok_multibyte_cut_inside", "ok_multibyte_cut_between",
              "cimerror", "parseerror", "httperror", "connerror"}
SrvTimes == {"absent", "numeric", "garbage"}

VARIABLES cfg, resp, srvtime, pc, outcome, bareOutcome, counted, hookRaised
vars == <<cfg, resp, srvtime, pc, outcome, bareOutcome, counted, hookRaised>>

Core(r) == IF r \in {"ok_ascii", "ok_multibyte_cut_inside",
                     "ok_multibyte_cut_between"} THEN "value"
           ELSE r       \* the exception family of the response class

Hooks == <<"stage_pywbem_args", "start_timer", "stage_http_request",
           "stage_http_response1", "stage_http_response2", "stop_timer",
           "stage_pywbem_result">>

(* can hook h raise under this configuration / response ? *)
HookRaises(h, c, r, t) ==
  \/ /\ h = "stage_http_response2" /\ TruncateBytesThenDecode
     /\ c.http = "int" /\ r = "ok_multibyte_cut_inside"
  \/ /\ h = "stop_timer" /\ StopTimerNeedsFloat
     /\ c.stats /\ t = "garbage" /\ r # "connerror"
Reached(h, r) ==   \* hooks after the response are skipped on connection errors
  ~(r = "connerror" /\ h \in {"stage_http_response1", "stage_http_response2"})

Init == /\ cfg \in [api : Details, http : Details, stats : BOOLEAN,
                    recorder : BOOLEAN, debug : BOOLEAN]
        /\ resp \in Responses /\ srvtime \in SrvTimes
        /\ pc = 1 /\ outcome = "running" /\ bareOutcome = Core(resp)
        /\ counted = 0 /\ hookRaised = FALSE

Step == /\ pc <= Len(Hooks)
        /\ LET h == Hooks[pc] IN
           IF Reached(h, resp) /\ HookRaises(h, cfg, resp, srvtime)
           THEN /\ hookRaised' = TRUE /\ outcome' = "observer-exception"
                /\ pc' = Len(Hooks) + 1
                /\ counted' = counted
           ELSE /\ pc' = pc + 1
                /\ counted' = IF h = "stop_timer" /\ cfg.stats
                              THEN counted + 1 ELSE counted
                /\ outcome' = IF pc = Len(Hooks) THEN Core(resp) ELSE outcome
                /\ UNCHANGED hookRaised
        /\ UNCHANGED <<cfg, resp, srvtime, bareOutcome>>

Spec == Init /\ [][Step]_vars

Done == pc > Len(Hooks)
NonInterference == Done => outcome = bareOutcome
ObserversTotal == ~hookRaised
StatsOnce == (Done /\ cfg.stats) => counted = 1
=============================================================================
