SPECIFICATION Spec
CONSTANTS
  Leaks = {}
  Pinned = TRUE
  PairMode = "none"
  Emit = FALSE
INVARIANT TypeOK
INVARIANT ImplRefinesReq
INVARIANT ClosedForm

CHECK_DEADLOCK FALSE
