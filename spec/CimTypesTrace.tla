----------------------------- MODULE CimTypesTrace -----------------------------
(***************************************************************************)
(* C06: observed vectors from the real pywbem code are judged here.        *)
(* Every "trace" is one vector (the functions are pure); e.k selects the   *)
(* part of the statement: "store" (CimTypesInt), "dt" (CimTypesDateTime),  *)
(* "real" (CimTypesReal).  Verdicts come from StoreFails / DtFails /       *)
(* RealFails; the *Drift operators compare with the code-shaped models and *)
(* only produce impl-drift notes.                                          *)
(* With the environment variable TABLES set, the class tables the harness  *)
(* needs are printed.                                                      *)
(***************************************************************************)
EXTENDS CimTypesInt, CimTypesDateTime, CimTypesReal, Json, IOUtils

VARIABLES tid, l, verdict, ts, ti, drifted

Fails(s, e) ==
  CASE e.k = "store" -> StoreFails(e)
    [] e.k = "arr" -> ArrFails(e)
    [] e.k = "dt" -> DtFails(e)
    [] e.k = "real" -> RealFails(e)
    [] OTHER -> {"Trace.KnownVectorKind"}

Drift(i, e) ==
  << CASE e.k = "store" -> StoreDrift(e)
       [] e.k = "arr" -> ArrDrift(e)
       [] e.k = "dt" -> DtDrift(e)
       [] e.k = "real" -> RealDrift(e)
       [] OTHER -> {},
     i >>

TraceBatch == JsonDeserialize(IOEnv.TRACE_FILE).traces

ASSUME "TABLES" \notin DOMAIN IOEnv \/
       PrintT(<<"TABLE", [realtypes |-> RealTypes, realclasses |-> RealClasses,
                          realroutes |-> RealRoutes,
                          tsprecs |-> TsPrecs, ivprecs |-> IvPrecs,
                          maxdelta |-> MaxDelta]>>)

TK == INSTANCE TraceKit WITH
        TTraces <- TraceBatch,
        TInit0 <- 0, TFails <- Fails, TApply <- LAMBDA s, e : s,
        TInv <- LAMBDA st : TRUE,
        TImpl0 <- 0, TImplStep <- Drift
TSpec == TK!TSpec
=============================================================================
