SPECIFICATION Spec
CONSTANTS
  DropNone = FALSE
  ObjNsIgnored = FALSE
INVARIANT ServerSawWhatCallerSupplied
CHECK_DEADLOCK FALSE
