------------------------- MODULE ListenerLifeImplOps -------------------------
(***************************************************************************)
(* X02 - what the pinned WBEMListener does with a SEQUENTIAL program of    *)
(* API calls (pure operators, transcribed from start() / stop() /          *)
(* _stop_indication_delivery() / _stop_listener_threads()).  Used only to  *)
(* measure impl drift on the recorded `ret` events (never a verdict): it   *)
(* records the behaviour the documentation does not determine, e.g. that   *)
(* start() on a running listener raises AssertionError and changes nothing,*)
(* and the pinned outcome of a failed start (see ListenerLife.tla,         *)
(* FailCleanup = "code").                                                  *)
(*   i = [http, https   the port is configured                             *)
(*        hs, hss       self._http_server / _https_server is not None      *)
(*        cb]           self._callback_thread is not None                  *)
(***************************************************************************)
EXTENDS ListenerLifeReq

Impl0 == [http |-> FALSE, https |-> FALSE, hs |-> FALSE, hss |-> FALSE,
          cb |-> FALSE, busy_http |-> FALSE, busy_https |-> FALSE,
          bad_cert |-> FALSE]

ImplStart(i) ==
  IF i.cb THEN <<"AssertionError", i>>
  ELSE IF i.http /\ ~i.hs /\ i.busy_http
       THEN <<"ListenerPortError", i>>
  ELSE LET i1 == [i EXCEPT !.hs = i.http] IN
       IF i.https /\ ~i.hss /\ i.busy_https THEN <<"ListenerPortError", i1>>
       ELSE IF i.https /\ ~i.hss /\ i.bad_cert
            THEN <<"ListenerCertificateError", i1>>
       ELSE <<"", [i1 EXCEPT !.hss = i.https, !.cb = TRUE]>>

ImplPredict(i, e) ==
  IF e.op = "start" THEN ImplStart(i)
  ELSE IF e.op \in {"stop", "exit"}
       THEN <<"", [i EXCEPT !.hs = FALSE, !.hss = FALSE, !.cb = FALSE]>>
  ELSE <<"", i>>

ImplCmp(i, e) ==
  IF e.ev = "init"
  THEN <<{}, [i EXCEPT !.http = e.arg_http # -1, !.https = e.arg_https # -1]>>
  ELSE IF e.ev = "begin"
  THEN <<{}, [i EXCEPT !.busy_http = e.busy_http, !.busy_https = e.busy_https,
                       !.bad_cert = e.bad_cert]>>
  ELSE IF e.ev # "ret" THEN <<{}, i>>
  ELSE LET p == ImplPredict(i, e) IN
       <<   F("exc:" \o e.op, e.exc = p[1])
       \cup F("http_started:" \o e.op, e.http_started = p[2].hs)
       \cup F("https_started:" \o e.op, e.https_started = p[2].hss)
       \cup F("callback_thread:" \o e.op,
              e.cb_threads = IF p[2].cb THEN 1 ELSE 0),
          p[2] >>
=============================================================================
