----------------------------- MODULE CimEqHeap -----------------------------
(***************************************************************************)
(* C05, copying: heap model.                                               *)
(*                                                                         *)
(* heap : Ref -> cell,  cell = [t: "O" object | "D" dictionary | "L" list, *)
(*                              kind, val (all immutable content of the    *)
(*                              cell), kids: << [key, ref] >>]             *)
(* An object cell has one kid per mutable slot (kb, props, quals, meths,   *)
(* params, scopes: dictionaries; value: list or embedded object/reference; *)
(* path: object); a dictionary cell one kid "#k" per stored object, a list *)
(* cell one kid "#i" per element object.  A list cell of kind "empty" is   *)
(* the EMPTY array (an array value with no elements is still a list the    *)
(* copy must own); kind "" is a non-empty array.                           *)
(*                                                                         *)
(* Actions: DoCopy(m) for m in copy / copy.copy / deepcopy / pickle, in    *)
(* the code's shape:                                                       *)
(*   .copy()    new object cell; the setters build NEW child dictionaries  *)
(*              holding the SAME child objects; cimvalue() builds a new    *)
(*              list with the same elements (ALSO when there are none), an *)
(*              embedded object / reference                                *)
(*              value is passed through; CIMInstance: path.copy(),         *)
(*              CIMClass: copy.copy(path); NocaseDict: new dict same items *)
(*   copy.copy  new cell, all slots shared (a NocaseDict has a single slot,*)
(*              its item storage: the shallow copy is an alias of it)      *)
(*   deepcopy / pickle   everything reachable is new                       *)
(* then Mutate(p, v): the cell reached from the COPY along kid path p is   *)
(* changed in place ("set": content replaced, "drop": first kid removed).  *)
(*                                                                         *)
(* Invariants                                                              *)
(*   CopyEqual     the copy's abstract state equals the original's         *)
(*   Independence  if every mutation so far addressed a cell the           *)
(*                 requirement CimEq!MustIndep says must be the copy's own *)
(*                 then the original's abstract state is unchanged         *)
(*   Tight         (documented model only) a single mutation of a cell     *)
(*                 NOT required to be independent does change the original:*)
(*                 the requirement demands exactly the documented depth    *)
(* HISTORIES (Mode = "hist"): the laws of == and hash() hold at ANY point  *)
(* of the life of an object, i.e. also after it has been hashed (put into  *)
(* a set, looked up in a dict) and modified since.  Actions on the root    *)
(* graph itself (no copy involved):                                        *)
(*   HHash(p)      hash() of the object / dictionary cell reached along p: *)
(*                 an observation; in a code-shaped variant with a hash    *)
(*                 CACHE it stores the value in every dictionary cell it   *)
(*                 visits (NocaseDict.__hash__ is what the CIM objects'    *)
(*                 __hash__ calls for their child dictionaries)            *)
(*   HMut(p, mu)   a dictionary cell: every mutator of NocaseDict, mu in   *)
(*                 setitem / delitem / pop / popitem / clear / update /    *)
(*                 setdefault; an object or list cell: "set" (attribute    *)
(*                 rebinding / element change) or "drop" - in particular   *)
(*                 the IN-PLACE change of a child object that is reachable *)
(*                 from a hashed object (inst.properties['P'].value = x)   *)
(* Invariant HashLawful, evaluated after every step: the hash the object   *)
(* reports now equals the hash of a FRESHLY BUILT equal object (which has  *)
(* no history, hence no cache): a == b => hash(a) == hash(b).              *)
(* Switch HashCache: "never" (emission only, see EmitBeh),                  *)
(* "none" (the code: the hash is computed from the       *)
(* current state on every call), "subset" (cached in the dictionary,       *)
(* dropped in __setitem__/__delitem__/pop - and so in update/setdefault -  *)
(* but NOT in the inherited clear()/popitem()), "all" (dropped by every    *)
(* mutator of the dictionary itself: still stale after an in-place change  *)
(* of a contained object).  Both cached variants must violate HashLawful.  *)
(*                                                                         *)
(* The unnamed key: a keybindings dictionary may hold an item under the    *)
(* key None (kid "#u").  Switch CopyViaCtor: NocaseDict.copy() re-inserts  *)
(* the items through the constructor, while the new dictionary still       *)
(* rejects the unnamed key: copy() RAISES for such a dictionary (must      *)
(* violate CopyEqual).                                                     *)
(*                                                                         *)
(* LAZY SLOTS and READ-ONLY OBSERVATIONS.  Every dictionary slot of a CIM   *)
(* object (keybindings, properties, qualifiers, methods, parameters,       *)
(* scopes) is lazily initialised in the code: the private slot holds None  *)
(* until the public getter is called for the first time, which stores an   *)
(* empty NocaseDict there.  A dictionary cell of kind "lazy" is such a     *)
(* slot that nobody has read yet (always without kids, val "empty"); it is *)
(* the state in which the constructor, deepcopy and pickle leave every     *)
(* EMPTY dictionary slot.  AbsState does not see the difference (no public *)
(* attribute differs).  Action                                             *)
(*   HObs(p, o)    a read-only observation of the cell reached along p,    *)
(*                 o in CimEq!ObsActs: "read" (getters: materialises the   *)
(*                 lazy slots of that object), "render" (repr / tocimxml / *)
(*                 tomof: everything below), "compare" (==: everything     *)
(*                 below), "dup" (copy() reads the object's own getters)   *)
(* changes nothing but lazy -> materialised.  Invariant ObsReadOnly: after *)
(* observations and hash() calls only, the abstract state is the initial   *)
(* one.  HashLawful compares the reported hash with that of a FRESH equal  *)
(* object = the same graph with every empty dictionary slot still lazy and *)
(* no cache (FreshOf).  Switch LazyHash: "getter" (the code: __hash__      *)
(* reads the public attributes, so it sees an empty dictionary either way  *)
(* and materialises the slots), "raw" (__hash__ reads the private slot     *)
(* \"to avoid creating the dictionary\": None before, empty dictionary      *)
(* after the first observation) - must violate HashLawful.                 *)
(*                                                                         *)
(* Regression switches (must violate Independence):                        *)
(*   ShallowChildDict  .copy() passes the child dictionaries through       *)
(*   SharedPath        CIMInstance.copy() assigns the path without copying *)
(*   EmptyListPassThrough  cimvalue() returns an empty input list itself   *)
(*                     ("nothing to convert"): copy() shares the empty     *)
(*                     array with the original                             *)
(***************************************************************************)
EXTENDS CimEq

CONSTANTS MaxRef, MaxMut, Roots, ShallowChildDict, SharedPath,
          EmptyListPassThrough, Emit,
          Mode,          \* "copy" | "hist"
          HashCache,     \* "none" | "subset" | "all"
          CopyViaCtor,   \* BOOLEAN
          LazyHash,      \* "getter" | "raw"
          ObsKinds,      \* enabled observation classes (subset of ObsActs)
          EmitLazy       \* BOOLEAN: emission criterion, see EmitBeh

VARIABLES heap, orig, cpy, abs0, hist, allmust
vars == <<heap, orig, cpy, abs0, hist, allmust>>

(* hc: the cached hash of a dictionary cell, <<>> = none, <<value>> *)
Free == [t |-> "free", kind |-> "", val |-> "", kids |-> <<>>, hc |-> <<>>]
Cell(t, kind) == [t |-> t, kind |-> kind,
                  val |-> IF kind = "lazy" THEN "empty" ELSE "v0",
                  kids |-> <<>>, hc |-> <<>>]
Raised == MaxRef + 1     \* "reference" returned by a copy that raised
NextFree(h) == CHOOSE r \in 1..MaxRef : h[r].t = "free" /\ \A q \in 1..(r - 1) : h[q].t # "free"

(* ---- tree terms for the initial object graphs ---- *)
T(t, kind, kids) == [t |-> t, kind |-> kind, kids |-> kids]
K(key, sub) == [key |-> key, sub |-> sub]
tQual == T("O", "Qualifier", <<K("value", T("L", "", <<>>))>>)
tQuals == T("D", "", <<K("#k", tQual)>>)
tLazy == T("D", "lazy", <<>>)    \* an empty dictionary slot nobody has read
tEmb == T("O", "Instance", <<K("props", tLazy), K("quals", tLazy)>>)
tRef == T("O", "InstanceName", <<K("kb", T("D", "", <<>>))>>)
tIName == T("O", "InstanceName", <<K("kb", T("D", "", <<K("#k", tRef)>>))>>)
tCName == T("O", "ClassName", <<>>)
tProp == T("O", "Property", <<K("value", T("L", "", <<K("#i", tEmb)>>)),
                               K("quals", tQuals)>>)
tPropObj == T("O", "Property", <<K("value", tEmb), K("quals", tQuals)>>)
tPropRef == T("O", "Property", <<K("value", tRef)>>)
tParm == T("O", "Parameter", <<K("value", T("L", "", <<K("#i", tEmb)>>)),
                                K("quals", tQuals)>>)
tMeth == T("O", "Method", <<K("params", T("D", "", <<K("#k", tParm)>>)),
                             K("quals", tQuals)>>)
tInst == T("O", "Instance", <<K("path", tIName),
                               K("props", T("D", "", <<K("#k", tProp)>>)),
                               K("quals", tQuals)>>)
tClass == T("O", "Class", <<K("path", tCName),
                             K("props", T("D", "", <<K("#k", tPropObj)>>)),
                             K("meths", T("D", "", <<K("#k", tMeth)>>)),
                             K("quals", tQuals)>>)
tQDecl == T("O", "QualifierDeclaration",
            <<K("value", T("L", "", <<>>)), K("scopes", T("D", "", <<>>))>>)
tDict == T("D", "NocaseDict", <<K("#k", tQual)>>)
(* dictionaries holding the unnamed key (None): a reference keybinding     *)
(* without a name, as pywbem builds it for KEYVALUE / VALUE.REFERENCE      *)
(* without KEYBINDING in a server response                                 *)
tDictU == T("D", "NocaseDict", <<K("#u", tRef)>>)
tINameU == T("O", "InstanceName", <<K("kb", T("D", "", <<K("#u", tRef)>>))>>)
tInstU == T("O", "Instance", <<K("path", tINameU),
                                K("props", T("D", "", <<K("#k", tPropRef)>>))>>)
(* array-valued objects whose array is empty *)
tEmptyL == T("L", "empty", <<>>)
tQualE == T("O", "Qualifier", <<K("value", tEmptyL)>>)
tPropE == T("O", "Property", <<K("value", tEmptyL), K("quals", tQuals)>>)
tParmE == T("O", "Parameter", <<K("value", tEmptyL), K("quals", tQuals)>>)
tQDeclE == T("O", "QualifierDeclaration",
             <<K("value", tEmptyL), K("scopes", T("D", "", <<>>))>>)

(* objects all of whose dictionary slots are empty (and still lazy) *)
tClassBare == T("O", "Class", <<K("props", tLazy), K("meths", tLazy),
                                 K("quals", tLazy)>>)
tINameBare == T("O", "InstanceName", <<K("kb", tLazy)>>)
tPropBare == T("O", "Property", <<K("quals", tLazy)>>)
tParmBare == T("O", "Parameter", <<K("quals", tLazy)>>)
tMethBare == T("O", "Method", <<K("params", tLazy), K("quals", tLazy)>>)
tQDeclBare == T("O", "QualifierDeclaration", <<K("scopes", tLazy)>>)
tInstPath == T("O", "Instance", <<K("path", tINameBare), K("props", tLazy),
                                   K("quals", tLazy)>>)

RootTree(r) ==
  CASE r = "InstanceName" -> tIName
    [] r = "ClassName" -> tCName
    [] r = "Instance" -> tInst
    [] r = "Class" -> tClass
    [] r = "Property" -> tProp
    [] r = "PropertyObj" -> tPropObj
    [] r = "PropertyRef" -> tPropRef
    [] r = "Method" -> tMeth
    [] r = "Parameter" -> tParm
    [] r = "Qualifier" -> tQual
    [] r = "QualifierDeclaration" -> tQDecl
    [] r = "NocaseDict" -> tDict
    [] r = "PropertyEmpty" -> tPropE
    [] r = "ParameterEmpty" -> tParmE
    [] r = "QualifierEmpty" -> tQualE
    [] r = "QualifierDeclarationEmpty" -> tQDeclE
    [] r = "NocaseDictUnnamed" -> tDictU
    [] r = "InstanceNameUnnamed" -> tINameU
    [] r = "InstanceUnnamed" -> tInstU
    [] r = "InstanceBare" -> tEmb
    [] r = "InstancePathBare" -> tInstPath
    [] r = "ClassBare" -> tClassBare
    [] r = "InstanceNameBare" -> tINameBare
    [] r = "PropertyBare" -> tPropBare
    [] r = "ParameterBare" -> tParmBare
    [] r = "MethodBare" -> tMethBare
    [] r = "QualifierDeclarationBare" -> tQDeclBare
AllRoots == {"InstanceName", "ClassName", "Instance", "Class", "Property",
             "PropertyObj", "PropertyRef", "Method", "Parameter", "Qualifier",
             "QualifierDeclaration", "NocaseDict", "PropertyEmpty",
             "ParameterEmpty", "QualifierEmpty", "QualifierDeclarationEmpty",
             "NocaseDictUnnamed", "InstanceNameUnnamed", "InstanceUnnamed",
             "InstanceBare", "InstancePathBare", "ClassBare",
             "InstanceNameBare", "PropertyBare", "ParameterBare", "MethodBare",
             "QualifierDeclarationBare"}

RECURSIVE Load(_, _), LoadKids(_, _, _, _)
Load(h, tr) ==      \* <<heap, ref>>
  LET r == NextFree(h)
      h1 == [h EXCEPT ![r] = Cell(tr.t, tr.kind)]
      res == LoadKids(h1, tr.kids, 1, <<>>) IN
  <<[res[1] EXCEPT ![r].kids = res[2]], r>>
LoadKids(h, ks, i, acc) ==
  IF i > Len(ks) THEN <<h, acc>>
  ELSE LET x == Load(h, ks[i].sub) IN
       LoadKids(x[1], ks, i + 1, Append(acc, [key |-> ks[i].key, ref |-> x[2]]))

(* ---- copies ---- *)
Shallow(h, r) ==    \* new cell, same content, same kid refs
  LET n == NextFree(h) IN <<[h EXCEPT ![n] = h[r]], n>>

RECURSIVE Deep(_, _), DeepKids(_, _, _, _)
Deep(h, r) ==
  LET n == NextFree(h)
      h1 == [h EXCEPT ![n] = [h[r] EXCEPT !.kids = <<>>]]
      res == DeepKids(h1, h[r].kids, 1, <<>>) IN
  <<[res[1] EXCEPT ![n].kids = res[2]], n>>
DeepKids(h, ks, i, acc) ==
  IF i > Len(ks) THEN <<h, acc>>
  ELSE LET x == Deep(h, ks[i].ref) IN
       DeepKids(x[1], ks, i + 1, Append(acc, [key |-> ks[i].key, ref |-> x[2]]))

IsDictSlot(key) == key \in {"kb", "props", "quals", "meths", "params", "scopes"}

RECURSIVE Mid(_, _), MidKids(_, _, _, _, _)
Mid(h, r) ==        \* the documented .copy()
  IF h[r].t # "O"                              \* NocaseDict.copy()
  THEN IF CopyViaCtor /\ \E i \in 1..Len(h[r].kids) : h[r].kids[i].key = "#u"
       THEN <<h, Raised>>                      \* ValueError: unnamed key
       ELSE Shallow(h, r)
  ELSE LET n == NextFree(h)
           h1 == [h EXCEPT ![n] = [h[r] EXCEPT !.kids = <<>>]]
           res == MidKids(h1, h[r].kind, h[r].kids, 1, <<>>) IN
       <<[res[1] EXCEPT ![n].kids = res[2]], n>>
MidKids(h, kind, ks, i, acc) ==
  IF i > Len(ks) THEN <<h, acc>>
  ELSE LET key == ks[i].key
           tgt == ks[i].ref
           x == IF IsDictSlot(key)
                THEN IF ShallowChildDict THEN <<h, tgt>> ELSE Shallow(h, tgt)
                ELSE IF key = "value"
                THEN IF h[tgt].t = "L"
                     THEN IF EmptyListPassThrough /\ h[tgt].kind = "empty"
                          THEN <<h, tgt>> ELSE Shallow(h, tgt)
                     ELSE <<h, tgt>>
                ELSE IF key = "path"
                THEN IF SharedPath THEN <<h, tgt>>
                     ELSE IF kind = "Instance" THEN Mid(h, tgt)
                     ELSE Shallow(h, tgt)
                ELSE <<h, tgt>> IN
       MidKids(x[1], kind, ks, i + 1, Append(acc, [key |-> key, ref |-> x[2]]))

CopyBy(m, h, r) ==
  CASE m = "copy" -> Mid(h, r)
    [] m = "copy.copy" -> IF h[r].t = "D" THEN <<h, r>> ELSE Shallow(h, r)
    [] OTHER -> Deep(h, r)            \* deepcopy, pickle round trip

(* ---- abstract state, paths ---- *)
RECURSIVE AbsState(_, _)
NormKind(k) == IF k = "lazy" THEN "" ELSE k   \* no public attribute differs
AbsState(h, r) ==
  [t |-> h[r].t, kind |-> NormKind(h[r].kind), val |-> h[r].val,
   kids |-> [i \in 1..Len(h[r].kids) |->
               [key |-> h[r].kids[i].key, sub |-> AbsState(h, h[r].kids[i].ref)]]]

RECURSIVE Paths(_, _, _)
Paths(h, r, d) ==   \* kid-index paths from r of length <= d
  {<<>>} \cup
  (IF d = 0 THEN {}
   ELSE UNION { { <<i>> \o p : p \in Paths(h, h[r].kids[i].ref, d - 1) }
                : i \in 1..Len(h[r].kids) })
RECURSIVE Follow(_, _, _)
Follow(h, r, p) == IF p = <<>> THEN r ELSE Follow(h, h[r].kids[p[1]].ref, Tail(p))
RECURSIVE StepsOf(_, _, _)
StepsOf(h, r, p) ==
  IF p = <<>> THEN <<>>
  ELSE LET kd == h[r].kids[p[1]] IN
       <<kd.key \o ":" \o h[kd.ref].t>> \o StepsOf(h, kd.ref, Tail(p))

RootKind(r) ==
  CASE r \in {"PropertyObj", "PropertyRef", "PropertyEmpty"} -> "Property"
    [] r = "ParameterEmpty" -> "Parameter"
    [] r = "QualifierEmpty" -> "Qualifier"
    [] r = "QualifierDeclarationEmpty" -> "QualifierDeclaration"
    [] r = "NocaseDictUnnamed" -> "NocaseDict"
    [] r = "InstanceNameUnnamed" -> "InstanceName"
    [] r = "InstanceUnnamed" -> "Instance"
    [] r \in {"InstanceBare", "InstancePathBare"} -> "Instance"
    [] r = "ClassBare" -> "Class"
    [] r = "InstanceNameBare" -> "InstanceName"
    [] r = "PropertyBare" -> "Property"
    [] r = "ParameterBare" -> "Parameter"
    [] r = "MethodBare" -> "Method"
    [] r = "QualifierDeclarationBare" -> "QualifierDeclaration"
    [] OTHER -> r

Empty == [r \in 1..MaxRef |-> Free]

Init ==
  \E root \in Roots :
    LET x == Load(Empty, RootTree(root)) IN
    /\ heap = x[1] /\ orig = x[2] /\ cpy = 0
    /\ abs0 = AbsState(x[1], x[2])
    /\ hist = [root |-> root, m |-> IF Mode = "hist" THEN "hist" ELSE "",
               muts |-> <<>>]
    /\ allmust = TRUE

DoCopy(m) ==
  /\ Mode = "copy"
  /\ cpy = 0
  /\ LET x == CopyBy(m, heap, orig) IN
     /\ heap' = x[1] /\ cpy' = x[2]
  /\ hist' = [hist EXCEPT !.m = m]
  /\ UNCHANGED <<orig, abs0, allmust>>

Mutate(p, v) ==
  /\ cpy \in 1..MaxRef /\ Len(hist.muts) < MaxMut
  /\ LET c == Follow(heap, cpy, p)
         st == StepsOf(heap, cpy, p) IN
     /\ IF v = "set" THEN heap' = [heap EXCEPT ![c].val = "mut" \o ToString(Len(hist.muts))]
        ELSE /\ heap[c].kids # <<>>
             /\ heap' = [heap EXCEPT ![c].kids = Tail(@)]
     /\ hist' = [hist EXCEPT !.muts = Append(@, [steps |-> st, v |-> v,
                                               key |-> IF v = "drop"
                                                       THEN heap[c].kids[1].key
                                                       ELSE ""])]
     /\ allmust' = (allmust /\ MustIndep(hist.m, RootKind(hist.root), st))
  /\ UNCHANGED <<orig, cpy, abs0>>

(* ---- histories: hash / mutate the root graph itself ---- *)
DictMutators == {"setitem", "delitem", "pop", "popitem", "clear", "update",
                 "setdefault"}
(* mutators in which the cached variant "subset" drops the cache: the      *)
(* overridden __setitem__ / __delitem__ / pop; update() and setdefault()   *)
(* are implemented on top of __setitem__                                   *)
DropsCache(mu) ==
  CASE HashCache = "subset" -> mu \in {"setitem", "delitem", "pop", "update",
                                       "setdefault"}
    [] HashCache = "never" -> FALSE
    [] OTHER -> TRUE

(* the hash as the code-shaped variant reports it: a dictionary cell with  *)
(* a cached value returns it, everything else is computed from the current *)
(* content and the hashes the kids report; same shape as AbsState          *)
RECURSIVE ImplH(_, _)
ImplH(h, r) ==
  IF h[r].t = "D" /\ h[r].kind = "lazy" /\ LazyHash = "raw"
  THEN [t |-> "None", kind |-> "", val |-> "", kids |-> <<>>]  \* the raw slot
  ELSE IF h[r].t = "D" /\ h[r].hc # <<>> THEN h[r].hc[1]
  ELSE [t |-> h[r].t, kind |-> NormKind(h[r].kind), val |-> h[r].val,
        kids |-> [i \in 1..Len(h[r].kids) |->
                    [key |-> h[r].kids[i].key,
                     sub |-> ImplH(h, h[r].kids[i].ref)]]]

RECURSIVE Reach(_, _)
Reach(h, r) == {r} \cup UNION { Reach(h, h[r].kids[i].ref)
                                 : i \in 1..Len(h[r].kids) }
(* hash(r) visits every cell below r; a caching dictionary stores its value *)
(* reading a lazy slot through its getter stores an empty dictionary there *)
Materialise(h, S) ==
  [q \in DOMAIN h |-> IF q \in S /\ h[q].t = "D" /\ h[q].kind = "lazy"
                      THEN [h[q] EXCEPT !.kind = ""] ELSE h[q]]
DirectKids(h, r) == { h[r].kids[i].ref : i \in 1..Len(h[r].kids) }
(* hash(r): the cell r itself has been reached through the getters; the    *)
(* code-shaped __hash__ reads every slot below through the getter too      *)
(* ("getter"), the variant "raw" looks at the private slots only           *)
Populate(h, r) ==
  LET h0 == Materialise(h, IF LazyHash = "raw" THEN {r} ELSE Reach(h, r)) IN
  IF HashCache = "none" THEN h0
  ELSE LET rs == Reach(h0, r) IN
       [q \in DOMAIN h0 |->
          IF q \in rs /\ h0[q].t = "D" /\ h0[q].hc = <<>> /\ h0[q].kind # "lazy"
          THEN [h0[q] EXCEPT !.hc = <<ImplH(h0, q)>>] ELSE h0[q]]

(* the freshly built equal object: every EMPTY dictionary slot is still    *)
(* lazy (constructor, deepcopy and pickle leave it so), nothing is cached  *)
IsEmptySlotDict(c) == c.t = "D" /\ c.kids = <<>> /\ c.val = "empty"
                      /\ c.kind \in {"", "lazy"}
FreshOf(h) ==
  [q \in DOMAIN h |->
     IF IsEmptySlotDict(h[q]) THEN [h[q] EXCEPT !.kind = "lazy", !.hc = <<>>]
     ELSE IF h[q].t = "free" THEN h[q] ELSE [h[q] EXCEPT !.hc = <<>>]]
FreshHash(h, r) == ImplH(FreshOf(h), r)

NoObs == {}
(* the two classes of EFFECT an observation has in this model ("compare"   *)
(* touches what "render" touches, "dup" what "read" touches): enough for   *)
(* the exhaustive check; emission uses all of ObsActs                      *)
ObsEffects == {"read", "render"}
Touched(h, c, o) == IF o \in {"render", "compare"} THEN Reach(h, c)
                    ELSE {c} \cup DirectKids(h, c)
HObs(p, o) ==
  /\ Mode = "hist" /\ Len(hist.muts) < MaxMut
  /\ LET c == Follow(heap, orig, p) IN
     /\ heap[c].t \in {"O", "D"}
     /\ heap' = Materialise(heap, Touched(heap, c, o))
     /\ hist' = [hist EXCEPT !.muts = Append(@, [steps |-> StepsOf(heap, orig, p),
                                               v |-> o, key |-> ""])]
  /\ UNCHANGED <<orig, cpy, abs0, allmust>>

HHash(p) ==
  /\ Mode = "hist" /\ Len(hist.muts) < MaxMut
  /\ LET c == Follow(heap, orig, p) IN
     /\ heap[c].t \in {"O", "D"}
     /\ heap' = Populate(heap, c)
     /\ hist' = [hist EXCEPT !.muts = Append(@, [steps |-> StepsOf(heap, orig, p),
                                               v |-> "hash", key |-> ""])]
  /\ UNCHANGED <<orig, cpy, abs0, allmust>>

HMut(p, mu) ==
  /\ Mode = "hist" /\ Len(hist.muts) < MaxMut
  /\ LET c == Follow(heap, orig, p)
         cell == heap[c]
         tok == "mut" \o ToString(Len(hist.muts))
         nokid == cell.kids = <<>>
         new ==
           IF cell.t = "D"
           THEN CASE mu \in {"setitem", "update", "setdefault"} ->
                       [cell EXCEPT !.val = tok]
                  [] mu \in {"delitem", "pop"} ->
                       IF nokid THEN [cell EXCEPT !.val = tok]
                       ELSE [cell EXCEPT !.kids = Tail(@)]
                  [] mu = "popitem" ->
                       IF nokid THEN [cell EXCEPT !.val = tok]
                       ELSE [cell EXCEPT !.kids = SubSeq(@, 1, Len(@) - 1)]
                  [] mu = "clear" ->
                       [cell EXCEPT !.kids = <<>>, !.val = "empty"]
           ELSE IF mu = "set" THEN [cell EXCEPT !.val = tok]
           ELSE [cell EXCEPT !.kids = Tail(@)]
         key == IF nokid \/ mu \in {"setitem", "update", "setdefault", "clear",
                                     "set"} THEN ""
                ELSE IF mu = "popitem" THEN cell.kids[Len(cell.kids)].key
                ELSE cell.kids[1].key IN
     /\ IF cell.t = "D" THEN mu \in DictMutators
        ELSE /\ mu \in {"set", "drop"}
             /\ mu = "drop" => ~nokid
     /\ heap' = [heap EXCEPT ![c] =
                   LET new1 == [new EXCEPT !.kind = NormKind(@)] IN
                   IF cell.t = "D" /\ DropsCache(mu)
                   THEN [new1 EXCEPT !.hc = <<>>] ELSE new1]
     /\ hist' = [hist EXCEPT !.muts = Append(@, [steps |-> StepsOf(heap, orig, p),
                                               v |-> mu, key |-> key])]
  /\ UNCHANGED <<orig, cpy, abs0, allmust>>

Next ==
  \/ \E m \in Methods : DoCopy(m)
  \/ /\ cpy \in 1..MaxRef
     /\ \E p \in Paths(heap, cpy, 6) : \E v \in {"set", "drop"} : Mutate(p, v)
  \/ /\ Mode = "hist"
     /\ \E p \in Paths(heap, orig, 6) :
          \/ HHash(p)
          \/ \E o \in ObsKinds : HObs(p, o)
          \/ \E mu \in DictMutators \cup {"set", "drop"} : HMut(p, mu)

Spec == Init /\ [][Next]_vars

(* a == b => hash(a) == hash(b), b a freshly built object equal to the     *)
(* current state of the root (no history: its hash is computed)            *)
HashLawful == Mode = "hist" => ImplH(heap, orig) = FreshHash(heap, orig)
(* the reference value is the hash of the abstract state (nothing else) *)
FreshHashIsAbs == (Mode = "hist" /\ LazyHash = "getter") =>
                    FreshHash(heap, orig) = AbsState(heap, orig)
(* observations (and hash() calls) change no public attribute *)
ObsReadOnly ==
  (Mode = "hist" /\ \A i \in 1..Len(hist.muts) :
                      hist.muts[i].v \in ObsActs \cup {"hash"}) =>
     AbsState(heap, orig) = abs0

CopyEqual == (cpy # 0 /\ hist.muts = <<>>) =>
               (cpy # Raised /\ AbsState(heap, cpy) = abs0)
Independence == (Mode = "copy" /\ allmust) => AbsState(heap, orig) = abs0
Tight == (Mode = "copy" /\ Len(hist.muts) = 1 /\ ~allmust) =>
           AbsState(heap, orig) # abs0
(* Emission.  Copy mode: every behaviour.  History mode: run with the most  *)
(* fragile variant HashCache = "never" (a cache that is never dropped) and *)
(* print exactly the histories after which THAT variant reports a stale    *)
(* hash: these are the histories on which any caching of hash values can   *)
(* be observed at all (something at or above the changed cell was hashed   *)
(* before the change).  CacheOnlyAfterHash: in every variant no cache      *)
(* exists before the first hash(), so the other histories cannot tell a    *)
(* caching implementation from the computing one.                          *)
Stale == ImplH(heap, orig) # FreshHash(heap, orig)
(* EmitLazy (run with LazyHash = "raw", the variant in which every lazy    *)
(* slot is hashed raw): exactly the histories made of hash() calls and at  *)
(* most ONE observation or clear() after which THAT variant is stale, i.e. *)
(* on which reading the private slot can be told from reading the getter   *)
LazyShape ==
  /\ \A i \in 1..Len(hist.muts) : hist.muts[i].v \in ObsActs \cup {"hash", "clear"}
  /\ Cardinality({i \in 1..Len(hist.muts) : hist.muts[i].v # "hash"}) = 1
EmitBeh == (Emit /\ Len(hist.muts) >= 1 /\ (Mode = "hist" => Stale)
            /\ (EmitLazy => LazyShape)) =>
             PrintT(<<"BEH", hist>>)
CacheOnlyAfterHash ==
  (\A i \in 1..Len(hist.muts) : hist.muts[i].v # "hash") =>
     \A q \in 1..MaxRef : heap[q].hc = <<>>
=============================================================================
