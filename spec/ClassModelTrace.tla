--------------------------- MODULE ClassModelTrace ---------------------------
(* Trace validation for C12: events recorded from the real                  *)
(* FakedWBEMConnection (CreateClass / compile_mof_string / ModifyClass /    *)
(* GetClass / EnumerateClasses / EnumerateClassNames / CreateInstance /     *)
(* EnumerateInstances / EnumerateInstanceNames / DeleteClass) are judged by *)
(* the requirement machine ClassModel, which recomputes Exposed(c) from its *)
(* own abstract forest.  All clauses violated in a trace are delivered by   *)
(* the final "End" event (tagged with the index of their event).            *)
(*                                                                         *)
(* The code-shaped machine (ClassModelImplOps, switches = the code as it    *)
(* is, see ClassModelTrace.cfg) is followed in lock step: the first event   *)
(* where the real result differs from it is printed as drift (<<"D",..>>),  *)
(* which is never a violation; it says whether the exhaustive TLC results   *)
(* about the code-shaped machine transfer to the code.                      *)
EXTENDS ClassModelImplOps, Json, IOUtils

VARIABLES tid, l, verdict, ts, ti, drifted

E_NOT_FOUND == 6
E_ALREADY_EXISTS == 11

(* fields of a returned class that the code-shaped machine predicts *)
CmpClass(x, r) ==
  F1("class.name", x.name = r.name)
  \cup F1("class.super", x.super = r.super)
  \cup F1("class.qualifiers", x.cq = r.cq)
  \cup UNION {LET a == x.el[e]
                  b == r.el[e] IN
              F1("element." \o e,
                 /\ a.present = b.present
                 /\ a.present => /\ a.ver = b.ver /\ a.origin = b.origin
                                 /\ a.prop = b.prop /\ a.quals = b.quals
                                 /\ a.hasx = b.hasx /\ a.xquals = b.xquals
                                 /\ a.pars = b.pars)
              : e \in Elems}

Busy(i, c) == IF ImplChildren(i.store, c) # {} THEN E_CLASS_HAS_CHILDREN
              ELSE IF \E x \in i.ii : x[1] = c THEN E_CLASS_HAS_INSTANCES
              ELSE 0

ImplMutate(i, e) ==      \* Create / Modify / Compile
  LET exists == e.name \in DOMAIN i.store
      asModify == e.op = "Modify" \/ (e.op = "Compile" /\ exists)
      r == IF asModify
           THEN IF ~exists THEN RErr(E_NOT_FOUND)
                ELSE IF Busy(i, e.name) # 0 THEN RErr(Busy(i, e.name))
                ELSE ImplResolve(i.store, e.name, i.store[e.name].super,
                                 e.d, e.via)
           ELSE IF exists THEN RErr(E_ALREADY_EXISTS)
                ELSE ImplResolve(i.store, e.name, e.super, e.d, e.via) IN
  << F1(e.op \o ".outcome", r.ok = e.ok)
     \cup F1(e.op \o ".code",
             r.ok \/ e.ok \/ e.via # "api" \/ r.code = e.code),
     IF r.ok THEN [i EXCEPT !.store = (e.name :> r.cls) @@
                              [x \in (DOMAIN i.store) \ {e.name} |-> i.store[x]]]
     ELSE i >>

ImplStep(i, e) ==
  CASE e.op \in {"Create", "Modify", "Compile"} -> ImplMutate(i, e)
    [] e.op = "Get" ->
         << IF e.name \notin DOMAIN i.store THEN F1("Get.outcome", ~e.ok)
            ELSE IF ~e.ok THEN {"Get.outcome"}
            ELSE {"Get." \o x : x \in
                    CmpClass(ImplGet(i.store, e.name, e.lo, e.iq, e.ico,
                                     e.hp, e.pl), e.cls)}, i >>
    [] e.op = "EnumClassNames" ->
         << IF e.name # "" /\ e.name \notin DOMAIN i.store
            THEN F1("EnumClassNames.outcome", ~e.ok)
            ELSE F1("EnumClassNames.names",
                    e.ok /\ Rng(e.names) = ImplSubNames(i.store, e.name, e.deep)
                    /\ Len(e.names) = Cardinality(Rng(e.names))), i >>
    [] e.op = "EnumClasses" ->
         << IF e.name # "" /\ e.name \notin DOMAIN i.store
            THEN F1("EnumClasses.outcome", ~e.ok)
            ELSE IF ~e.ok THEN {"EnumClasses.outcome"}
            ELSE F1("EnumClasses.names",
                    {e.classes[k].name : k \in DOMAIN e.classes} =
                       ImplSubNames(i.store, e.name, e.deep))
                 \cup UNION {LET r == e.classes[k] IN
                             IF r.name \notin DOMAIN i.store THEN {}
                             ELSE {"EnumClasses." \o x : x \in
                                     CmpClass(ImplGet(i.store, r.name, e.lo,
                                                      e.iq, "N", FALSE, <<>>),
                                              r)}
                             : k \in DOMAIN e.classes}, i >>
    [] e.op \in {"EnumInst", "EnumInstNames"} ->
         << IF e.name \notin DOMAIN i.store THEN F1(e.op \o ".outcome", ~e.ok)
            ELSE F1(e.op \o ".instances",
                    e.ok /\ Rng(e.insts) =
                       {x \in i.ii : x[1] \in ImplDesc(i.store, e.name)
                                                 \cup {e.name}}
                    /\ Len(e.insts) = Cardinality(Rng(e.insts))), i >>
    [] e.op = "CreateInst" ->
         LET can == e.name \in DOMAIN i.store /\ <<e.name, e.key>> \notin i.ii IN
         << F1("CreateInst.outcome", can = e.ok),
            IF can THEN [i EXCEPT !.ii = @ \cup {<<e.name, e.key>>}] ELSE i >>
    [] e.op = "Delete" ->
         IF e.name \notin DOMAIN i.store
         THEN << F1("Delete.outcome", ~e.ok), i >>
         ELSE LET gone == ImplDesc(i.store, e.name) \cup {e.name}
                  st2 == [x \in (DOMAIN i.store) \ gone |-> i.store[x]]
                  ii2 == {x \in i.ii : x[1] \notin gone} IN
              << F1("Delete.outcome", e.ok)
                 \cup F1("Delete.classes", Rng(e.after) = DOMAIN st2)
                 \cup F1("Delete.instances", Rng(e.iafter) = ii2),
                 [store |-> st2, ii |-> ii2] >>
    [] OTHER -> << {}, i >>

TraceBatch == JsonDeserialize(IOEnv.TRACE_FILE).traces

TK == INSTANCE TraceKit WITH
        TTraces <- TraceBatch,
        TInit0 <- InitState, TFails <- Fails, TApply <- Apply,
        TInv <- LAMBDA st : TRUE,
        TImpl0 <- [store |-> <<>>, ii |-> {}], TImplStep <- ImplStep
TSpec == TK!TSpec
=============================================================================
