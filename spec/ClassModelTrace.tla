--------------------------- MODULE ClassModelTrace ---------------------------
(* Trace validation for C12: events recorded from the real                  *)
(* FakedWBEMConnection (CreateClass / compile_mof_string / ModifyClass /    *)
(* GetClass / EnumerateClasses / EnumerateClassNames / CreateInstance /     *)
(* EnumerateInstances / EnumerateInstanceNames / DeleteClass) are judged by *)
(* the requirement machine ClassModel, which recomputes Exposed(c) from its *)
(* own abstract forest.  All clauses violated in a trace are delivered by   *)
(* the final "End" event (tagged with the index of their event).            *)
EXTENDS ClassModel, Json, IOUtils

VARIABLES tid, l, verdict, ts, ti, drifted

TraceBatch == JsonDeserialize(IOEnv.TRACE_FILE).traces

TK == INSTANCE TraceKit WITH
        TTraces <- TraceBatch,
        TInit0 <- InitState, TFails <- Fails, TApply <- Apply,
        TInv <- LAMBDA st : TRUE,
        TImpl0 <- {}, TImplStep <- LAMBDA i, e : <<{}, i>>
TSpec == TK!TSpec
=============================================================================
