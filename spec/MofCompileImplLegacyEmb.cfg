\* regression config: embedded_objects not reset by finally (must violate Reusable)
SPECIFICATION Spec
CONSTANTS
  MaxProd = 1
  MaxDepth = 6
  OnlyKinds = {"instance"}
  IncludeGuard = TRUE
  NsNoneCheck = TRUE
  HexBounds = TRUE
  CtxBounds = TRUE
  ValueWrapped = TRUE
  RepoWrapped = TRUE
  EmbFinally = FALSE
  RestoreOnReturn = TRUE
  EmbRestoreAll = TRUE
  SuperCheckFirst = TRUE
  AncestryWalk = TRUE
  GuardCanonical = TRUE
  RegisterAfterCreate = TRUE
  NsCachesInit = TRUE
  EmbNullChecked = TRUE
  OverflowWrapped = TRUE
  InstOffsetAll = TRUE
  OpenPrecheck = TRUE
  EmbLexerClone = TRUE
INVARIANT TypeOK
INVARIANT ImplRefinesReq
INVARIANT PositionFileOK
INVARIANT Reusable

CHECK_DEADLOCK FALSE
