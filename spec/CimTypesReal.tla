----------------------------- MODULE CimTypesReal -----------------------------
(***************************************************************************)
(* C06, real32/real64 part.                                                *)
(*                                                                         *)
(* "Real values written to CIM-XML parse back to the same floating point   *)
(*  value, with INF, -INF and NaN spelled as DSP0201 requires."            *)
(*                                                                         *)
(* TLC has no floating point: the specification holds the class table      *)
(* (which classes of values exist, how the special ones are spelled, what  *)
(* must come back); the harness picks concrete floats per class, pushes    *)
(* them through atomic_to_cim_xml -> CIM-XML parser and reports            *)
(* <class, text, class that came back, same bits?>; TLC judges the vector. *)
(* "same bits" is taken in the format of the type: a real32 value must     *)
(* come back as the same IEEE-754 single, a real64 as the same double.     *)
(***************************************************************************)
EXTENDS Naturals, Sequences, FiniteSets, TLC

R(name, holds) == IF holds THEN {} ELSE {name}

RealTypes == {"real32", "real64"}
Dsp0201Spelling == [pinf |-> "INF", ninf |-> "-INF", nan |-> "NaN"]
SpecialClasses == DOMAIN Dsp0201Spelling

(* classes of finite values the harness must populate (per type) *)
FiniteClasses ==
  {"pzero", "nzero",            \* +0.0, -0.0 (sign must survive)
   "denorm_min", "denorm_max", "denorm",
   "norm_min", "max", "neg_max",
   "one_third", "short_decimal", \* 1/3, 0.1, 1.5, ...
   "int_with_exponent",          \* 1e17 .. 1e22 and neighbours
   "int_no_exponent",            \* integers printed without exponent
   "beyond_2p53",                \* 2^53 +- k (real64), 2^24 +- k (real32)
   "near_pow10", "pow2",
   "float32_boundary",           \* float32 max/min/denormals as doubles
   "random_bits"}                \* seeded random bit patterns (finite)
RealClasses == SpecialClasses \cup FiniteClasses
(* "atomic"     atomic_to_cim_xml -> TupleParser.unpack_numeric             *)
(* "xml"        CIMProperty VALUE element -> parse_property                 *)
(* "keybinding" CIMInstanceName KEYVALUE element -> parse_instancename: a   *)
(*              real-typed key is a real value written to CIM-XML as well   *)
RealRoutes == {"atomic", "xml", "keybinding"}

(* observed vector e: t, route, cls, wrote, text, parsed, back, same, btype *)
RealFails(e) ==
  R("Trace.RealInputInTable",
    e.t \in RealTypes /\ e.cls \in RealClasses /\ e.route \in RealRoutes)
  \cup
  (IF e.cls \notin RealClasses THEN {} ELSE
   R("Real.WrittenAndParsed", e.wrote = "ok" /\ e.parsed = "ok")
   \cup
   (IF e.wrote # "ok" \/ e.parsed # "ok" THEN {}
    ELSE IF e.cls \in SpecialClasses THEN
      R("Real.Dsp0201Spelling." \o e.cls, e.text = Dsp0201Spelling[e.cls])
      \cup R("Real.SameValue." \o e.cls, e.back = e.cls)
    ELSE
      R("Real.SameValue.finite", e.back = "finite" /\ e.same)))

(* code-shaped expectations (drift only): the finite text has the shape    *)
(* [-]d.d[E(+|-)d] that '.11G'/'.17G' plus the '.0' patch produce, and the *)
(* parser returns the CIM class of the declared type                       *)
FiniteShapes == {"d.d", "-d.d", "d.dE+d", "-d.dE+d", "d.dE-d", "-d.dE-d"}
RealDrift(e) ==
  IF e.wrote # "ok" \/ e.parsed # "ok" THEN {}
  ELSE R("real.parsed-class",
         e.btype = (IF e.t = "real32" THEN "Real32" ELSE "Real64"))
       \cup (IF e.cls \in SpecialClasses \/ e.route = "keybinding" THEN {}
             ELSE R("real.text-shape", e.shape \in FiniteShapes))
=============================================================================
