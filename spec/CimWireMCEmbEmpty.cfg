\* Regression variant: parse_embeddedObject() tests `not val`: an EMPTY array of embedded
\* objects reads back as NULL.  ImplMeetsReq must be VIOLATED.
SPECIFICATION Spec
CONSTANTS
  Types = {"string", "uint8"}
  QualTypes = {"string", "uint8"}
  KeyTypes = {"string"}
  Shapes = {"scalar", "v", "empty"}
  StrVals <- StrValsSmall
  CharVals = {"ltr", "amp"}
  Names = {"a"}
  MaxEls = 2
  MaxDepth = 1
  MaxKids = 1
  MaxAttrs = 0
  Modes = {"entity", "cdata"}
  W <- WEmbEmpty
  RootKinds = {"inst", "class"}
  EmbPaths = FALSE
INVARIANT ImplMeetsReq
CHECK_DEADLOCK FALSE
