\* regression: pinned code, output-only parameter not refused (must violate ImplRefinesReq)
SPECIFICATION Spec
CONSTANTS
  NsArgFormatBug = FALSE
  ClassnamesAssert = FALSE
  OutOnlyUnchecked = TRUE
  PragmaCaseSensitive = FALSE
  RecompileExisting = FALSE
  Variant = "none"
  Provs <- ProvsMeth
  NsArgs <- NsArgsSmall
  SetupBehs = {"ok", "raise"}
  Targets <- TargetsSmall
  KeyU = {1}
  GenDepth = 0
  MaxStore = 1
  IwLevel = "lite"
  MethLevel = "full"
INVARIANT ImplRefinesReq
CONSTRAINT StoreBound
CHECK_DEADLOCK FALSE
