\* Behaviour emission (abstract vectors for the binding): -simulate.
SPECIFICATION Spec
CONSTANTS
  MaxLen = 4
  Maxlines = {12, 13, 16}
  Indents = {3}
  LinePos = {0, 5, 11}
  EndSpaces = {0, 3}
  Avoids = {FALSE, TRUE}
  Safe = TRUE
  AposKeep = TRUE
  CharRaw = FALSE
  WithChar16 = FALSE
INVARIANT NoStuck
CHECK_DEADLOCK FALSE
