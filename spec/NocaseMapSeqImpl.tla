--------------------------- MODULE NocaseMapSeqImpl ---------------------------
(***************************************************************************)
(* X05: the code-shaped NocaseList (NocaseMapSeqImplOps) in lock step with *)
(* the requirement machine NocaseMapSeq; TLC checks Impl => Req for every  *)
(* call sequence over items 1..NB x 1..NV + None, lists of up to MaxLen    *)
(* items, iterable arguments of up to MaxXs items (MaxXsAlt for one-shot   *)
(* iterators and NocaseList arguments), indices IdxU.                      *)
(***************************************************************************)
EXTENDS NocaseMapSeqImplOps

CONSTANTS NV, MaxLen, MaxXs, MaxXsAlt, IdxU, GenDepth, GenMax

IdxSmall == {0 - 4, 0 - 1, 0, 1, 2, 5}
IdxBig == {0 - 5, 0 - 3, 0 - 1, 0, 1, 2, 3, 6}

VARIABLES si, s, bad, hist
vars == <<si, s, bad, hist>>

KeyU == {<<b, v>> : b \in 1..NB, v \in 1..NV} \cup {NoneKey}
SeqsUpTo(S, n) == UNION {[1..m -> S] : m \in 0..n}
IterArgs == {<<"list", xs>> : xs \in SeqsUpTo(KeyU, MaxXs)}
            \cup {<<f, xs>> : f \in {"gen", "nclist"}, xs \in SeqsUpTo(KeyU, MaxXsAlt)}

Call(op, x, i, j, hasi, form, xs, n, rev, via) ==
  [op |-> op, x |-> x, i |-> i, j |-> j, hasi |-> hasi, form |-> form,
   xs |-> xs, n |-> n, rev |-> rev, via |-> via]
C0(op) == Call(op, NoneKey, 0, 0, FALSE, "", <<>>, 0, FALSE, "")

Calls ==
  {[C0(op) EXCEPT !.x = x] :
      op \in {"append", "remove", "count", "contains", "index"}, x \in KeyU}
  \cup {[C0("index") EXCEPT !.x = x, !.i = i, !.j = j, !.hasi = TRUE] :
      x \in KeyU, i \in IdxU, j \in IdxU}
  \cup {[C0(op) EXCEPT !.form = a[1], !.xs = a[2]] :
      op \in {"new", "extend", "iadd", "add"}, a \in IterArgs}
  \cup {[C0(op) EXCEPT !.i = i, !.x = x] :
      op \in {"insert", "setitem"}, i \in IdxU, x \in KeyU}
  \cup {[C0(op) EXCEPT !.i = i, !.hasi = TRUE] :
      op \in {"pop", "delitem", "getitem"}, i \in IdxU}
  \cup {C0(op) : op \in {"pop", "reverse", "clear", "reversed", "sort"}}
  \cup {[C0("sort") EXCEPT !.rev = TRUE]}
  \cup {[C0("setslice") EXCEPT !.i = i, !.j = j, !.form = a[1], !.xs = a[2]] :
      i \in IdxU, j \in IdxU, a \in IterArgs}
  \cup {[C0(op) EXCEPT !.i = i, !.j = j] :
      op \in {"delslice", "getslice"}, i \in IdxU, j \in IdxU}
  \cup {[C0(op) EXCEPT !.n = n] :
      op \in {"mul", "rmul", "imul"}, n \in {0 - 1, 0, 1, 2}}
  \cup {[C0("copy") EXCEPT !.via = v] :
      v \in {"copy", "ctor", "copy.copy", "deepcopy", "pickle0", "pickle1",
             "pickle2", "pickle5"}}
  \cup {[C0("cmp") EXCEPT !.via = o, !.form = "list", !.xs = xs] :
      o \in {"eq", "ne", "lt", "le", "gt", "ge"}, xs \in SeqsUpTo(KeyU, MaxXs)}

Event(c, r, i2) ==
  [op |-> c.op, x |-> c.x, i |-> c.i, j |-> c.j, hasi |-> c.hasi,
   form |-> c.form, xs |-> c.xs, n |-> c.n, rev |-> c.rev, via |-> c.via,
   res |-> r, dump |-> ImplDump(i2)]

Init == si = Impl0 /\ s = InitState /\ bad = {} /\ hist = <<>>

Do(c) == LET rs == ImplStep(si, c)
             e == Event(c, rs[1], rs[2])
             jd == Judge(s, e) IN
         /\ si' = rs[2]
         /\ bad' = jd.fails
         /\ s' = jd.next
         /\ hist' = IF GenDepth > 0 THEN Append(hist, c) ELSE hist

Next == bad = {} /\ \E c \in Calls : Do(c)
Spec == Init /\ [][Next]_vars

(* ---- behaviour emission (tlc -simulate): one random call per step ------ *)
Pick(S, dummy) == RandomElement(S)
GenOps == <<"append", "append", "append", "extend", "iadd", "insert", "insert",
            "remove", "remove", "pop", "pop", "index", "index", "count",
            "contains", "reverse", "sort", "setitem", "setslice", "setslice",
            "delitem", "delslice", "getitem", "getslice", "add", "mul", "rmul",
            "imul", "clear", "copy", "reversed", "new", "cmp">>
GenXs == SeqsUpTo(KeyU, GenMax)
GenVias == {"copy", "ctor", "copy.copy", "deepcopy", "pickle0", "pickle1",
            "pickle2", "pickle3", "pickle4", "pickle5"}
GenCall(op, x, i, j, flag, form, xs, n, via, cop) ==
  CASE op \in {"append", "remove", "count", "contains"} -> [C0(op) EXCEPT !.x = x]
    [] op = "index" -> IF flag THEN [C0(op) EXCEPT !.x = x, !.i = i, !.j = j, !.hasi = TRUE]
                       ELSE [C0(op) EXCEPT !.x = x]
    [] op \in {"extend", "iadd", "add", "new"} -> [C0(op) EXCEPT !.form = form, !.xs = xs]
    [] op \in {"insert", "setitem"} -> [C0(op) EXCEPT !.i = i, !.x = x]
    [] op = "pop" -> IF flag THEN [C0(op) EXCEPT !.i = i, !.hasi = TRUE] ELSE C0(op)
    [] op \in {"delitem", "getitem"} -> [C0(op) EXCEPT !.i = i, !.hasi = TRUE]
    [] op = "sort" -> [C0(op) EXCEPT !.rev = flag]
    [] op = "setslice" -> [C0(op) EXCEPT !.i = i, !.j = j, !.form = form, !.xs = xs]
    [] op \in {"delslice", "getslice"} -> [C0(op) EXCEPT !.i = i, !.j = j]
    [] op \in {"mul", "rmul", "imul"} -> [C0(op) EXCEPT !.n = n]
    [] op = "copy" -> [C0(op) EXCEPT !.via = via]
    [] op = "cmp" -> [C0(op) EXCEPT !.via = cop, !.xs = xs,
                        !.form = IF form = "gen" THEN "list" ELSE form]
    [] OTHER -> C0(op)
GenNext ==
  /\ bad = {}
  /\ \E op \in {GenOps[Pick(DOMAIN GenOps, hist)]},
        x \in {Pick(KeyU, hist)}, i \in {Pick(IdxU, hist)}, j \in {Pick(IdxU, hist)},
        flag \in {Pick(BOOLEAN, hist)},
        form \in {Pick({"list", "tuple", "gen", "nclist"}, hist)},
        xs \in {Pick(GenXs, hist)}, n \in {Pick({0 - 1, 0, 1, 2}, hist)},
        via \in {Pick(GenVias, hist)},
        cop \in {Pick({"eq", "ne", "lt", "le", "gt", "ge"}, hist)} :
        Do(GenCall(op, x, i, j, flag, form, xs, n, via, cop))
GenSpec == Init /\ [][GenNext]_vars

ImplRefinesReq == bad = {}
MappingHolds == si.main = s /\ si.sh = Folds(s) /\ si.ok
LenConstraint == Len(si.main) <= MaxLen
                 /\ (GenDepth = 0 \/ Len(hist) <= GenDepth)
=============================================================================
