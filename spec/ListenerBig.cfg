SPECIFICATION Spec
CONSTANTS
  Senders = {"s1", "s2", "s3"}
  NInd = 1
  NCb = 2
  MaxQ = 2
  LocalQueueRef = TRUE
  StopOrder = "listener-first"
  Restart = FALSE
  LateCb = FALSE
  CbList = "live"
INVARIANT ExactlyOnce
INVARIANT NeverTwice
INVARIANT CallbackOrder
INVARIANT SenderFifo
INVARIANT NoHandlerCrash
INVARIANT StopClean
PROPERTY Termination
CHECK_DEADLOCK FALSE
