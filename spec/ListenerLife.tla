---------------------------- MODULE ListenerLife ----------------------------
(***************************************************************************)
(* X02 - lifecycle of pywbem.WBEMListener: code-shaped design model        *)
(* (PlusCal), checked against the requirement machine ListenerLifeReq.     *)
(*                                                                         *)
(* The main thread executes a program of up to MaxOps API calls chosen     *)
(* freely from start() [under every environment in Envs: ports free, HTTP  *)
(* port in use, HTTPS port in use, certificate unusable], stop() and       *)
(* add_callback(c), followed by a final stop().  Beside it run the         *)
(* callback thread and the senders with their handler threads, as in       *)
(* Listener.tla (C16).  One label per code segment between two             *)
(* synchronising operations of pywbem/_listener.py:                        *)
(*   Start         start(): asserts; queue; callback thread; per port      *)
(*                 make_server (EADDRINUSE -> _stop_indication_delivery(); *)
(*                 ListenerPortError), HTTPS: load_cert_chain (->          *)
(*                 ListenerCertificateError), server thread; the outer     *)
(*                 `except Exception:` handler                             *)
(*   StopListeners _stop_listener_threads(): per port shutdown();          *)
(*                 server_close() [joins the handler threads]; join        *)
(*   StopDelivery  _stop_indication_delivery(immediate): wait for empty |  *)
(*                 discard loop; self._ind_queue = None; stop event; join  *)
(*   cb            _callback_run on its local queue reference;             *)
(*                 _deliver_indication_to_callbacks iterates the LIVE list *)
(*                 self._callbacks (sees callbacks appended meanwhile)     *)
(*   snd           a sender's requests; _handle_indication                 *)
(* Every observable step emits the event the harness records from the real *)
(* code, and the requirement machine judges it on the fly:                 *)
(*   obs = [s |-> requirement state, bad |-> clauses violated so far]      *)
(* so `ReqHolds` (bad = {}) is "every behaviour of the design is accepted  *)
(* by the requirement".                                                    *)
(*                                                                         *)
(* Constants selecting the code shape (regression variants):               *)
(*   FailCleanup       "code": the outer handler of start() only calls     *)
(*                     _stop_indication_delivery(immediate=True) (pinned   *)
(*                     tree); "full": it first stops the listener threads; *)
(*                     "none": no outer handler (before pywbem 1.9)        *)
(*   CloseOnCertFail   FALSE: the HTTPS server object whose certificate    *)
(*                     could not be loaded is dropped unclosed (pinned)    *)
(*   ClearRobust       FALSE: discard loop `while not empty(): get(block=  *)
(*                     False)` (pinned; races with the callback thread)    *)
(*   StopGuard         TRUE: `if self._http_server:` guards (pinned)       *)
(*   DupCheck          TRUE: `if callback not in self._callbacks` (pinned) *)
(*   FailStopsDelivery TRUE: the EADDRINUSE path stops the callback thread *)
(*                     itself (pinned)                                     *)
(***************************************************************************)
EXTENDS ListenerLifeReq

CONSTANTS Cfg, Envs, Senders, NInd, MaxQ, MaxOps, InitCbs, AddCbs,
          FailCleanup, CloseOnCertFail, ClearRobust, StopGuard, DupCheck,
          FailStopsDelivery

PortNames == {"http", "https"}
EnvOk == NoEnv
EnvBusyHttp == [NoEnv EXCEPT !.busy_http = TRUE]
EnvBusyHttps == [NoEnv EXCEPT !.busy_https = TRUE]
EnvBadCert == [NoEnv EXCEPT !.bad_cert = TRUE]
EnvsHttp == {EnvOk, EnvBusyHttp}
EnvsHttps == {EnvOk, EnvBusyHttps, EnvBadCert}
EnvsHttpsNoCert == {EnvOk, EnvBusyHttps}
EnvsBoth == {EnvOk, EnvBusyHttp, EnvBusyHttps, EnvBadCert}
EnvsBothHttpBusy == {EnvOk, EnvBusyHttp}
EnvsCertOnly == {EnvOk, EnvBadCert}
Cbs1 == <<1>>
TargetOf(s) == IF s = "s2" /\ "https" \in Cfg THEN "https"
               ELSE IF "http" \in Cfg THEN "http" ELSE "https"
OpSet == {[op |-> "start", env |-> e, c |-> 0] : e \in Envs}
         \cup {[op |-> "stop", env |-> NoEnv, c |-> 0]}
         \cup {[op |-> "add_callback", env |-> NoEnv, c |-> c] : c \in AddCbs}

(* --algorithm ListenerLife {
variables
  q = <<>>,             \* items in the queue object
  qref = FALSE,         \* self._ind_queue is not None
  cbSet = FALSE,        \* self._callback_thread is not None
  stopEv = FALSE,       \* stop event of the callback thread
  cbAlive = FALSE,      \* callback thread running
  srvSet = [p \in PortNames |-> FALSE],   \* self._http(s)_server is not None
  srv = [p \in PortNames |-> "none"],     \* none | bound | up
  thr = [p \in PortNames |-> FALSE],      \* server thread alive
  leaked = 0,           \* bound server sockets nobody refers to any more
  inH = {},             \* senders whose request is being handled
  cbs = InitCbs,        \* self._callbacks
  obs = [s |-> InitState, bad |-> {}],
  ops = 0, op = "", env = NoEnv, carg = 0, exc = "";

define {
  E0 == [ev |-> "", op |-> op, c |-> carg, busy_http |-> env.busy_http,
         busy_https |-> env.busy_https, bad_cert |-> env.bad_cert,
         exc |-> exc, retv |-> "none", s |-> "", n |-> 0, kind |-> "",
         th |-> 0, outcome |-> "done",
         arg_http |-> IF "http" \in Cfg THEN 1 ELSE -1,
         arg_https |-> IF "https" \in Cfg THEN 2 ELSE -1,
         http_port |-> IF "http" \in Cfg THEN 1 ELSE -1,
         https_port |-> IF "https" \in Cfg THEN 2 ELSE -1,
         http_started |-> srvSet["http"], https_started |-> srvSet["https"],
         up_http |-> srv["http"] = "up", up_https |-> srv["https"] = "up",
         cb_threads |-> IF cbAlive THEN 1 ELSE 0,
         srv_threads |-> Cardinality({p \in PortNames : thr[p]}),
         open_srv |-> Cardinality({p \in PortNames : srv[p] # "none"}) + leaked,
         logger_ok |-> TRUE, consts_ok |-> TRUE]
  Ev(ev) == [E0 EXCEPT !.ev = ev]
  ReqEv(ev, s, n, kind) == [E0 EXCEPT !.ev = ev, !.s = s, !.n = n, !.kind = kind]
  DeliverEv(c, it) == [E0 EXCEPT !.ev = "deliver", !.c = c, !.s = it[1],
                                 !.n = it[2], !.th = 1]
  InitEvs == <<Ev("init")>> \o
    [i \in 1..(2 * Len(InitCbs)) |->
       [Ev(IF i % 2 = 1 THEN "begin" ELSE "ret")
          EXCEPT !.op = "add_callback", !.c = InitCbs[(i + 1) \div 2]]]
  ReqHolds == obs.bad = {}
  StartFailHolds == obs.bad \cap StartFailClauses = {}
  OtherHolds == obs.bad \ StartFailClauses = {}
  MainDone == pc["main"] = "Done"
}

macro Emit(es) { obs := Run(obs, es) }

\* _stop_indication_delivery(immediate)
procedure StopDelivery(immediate = FALSE) {
SD0: if (qref) {
       if (~immediate) {
SD1:     while (q # <<>>) { SD1s: skip };        \* while not empty(): sleep
       } else {
SD2:     while (q # <<>>) {                       \* while not empty():
SD2g:      if (q = <<>>) {                        \* get(block=False)
             if (~ClearRobust) { exc := "Empty"; return };
           } else { q := Tail(q) };               \* discarded
SD2t:      skip;                                  \* task_done()
         };
       };
SD3:   qref := FALSE;                             \* self._ind_queue = None
     };
SD4: if (cbSet) {
       stopEv := TRUE;                            \* _callback_thread.stop()
SD5:   await ~cbAlive;                            \* join()
       cbSet := FALSE;
     };
SDr: return;
}

\* _stop_listener_threads()
procedure StopListeners() {
SL1: if (srvSet["http"]) {
       srv["http"] := "bound";                    \* shutdown()
SL1c:  await \A s \in inH : TargetOf(s) # "http"; \* server_close() + join
       srv["http"] := "none"; thr["http"] := FALSE; srvSet["http"] := FALSE;
     } else if (~StopGuard) { exc := "AttributeError"; return };
SL2: if (srvSet["https"]) {
       srv["https"] := "bound";
SL2c:  await \A s \in inH : TargetOf(s) # "https";
       srv["https"] := "none"; thr["https"] := FALSE; srvSet["https"] := FALSE;
     } else if (~StopGuard) { exc := "AttributeError"; return };
SLr: return;
}

procedure Start() {
ST0: if (cbSet \/ qref) { exc := "AssertionError"; return };
ST1: q := <<>>; qref := TRUE;                     \* new queue
ST1b: stopEv := FALSE; cbAlive := TRUE; cbSet := TRUE;   \* thread start
ST2: if ("http" \in Cfg /\ ~srvSet["http"]) {
       if (env.busy_http) {                       \* make_server: EADDRINUSE
         if (FailStopsDelivery) { call StopDelivery(FALSE) };
ST2f:    exc := "ListenerPortError"; goto STX;
       } else {
         srv["http"] := "bound";                  \* make_server
ST2s:    srvSet["http"] := TRUE; thr["http"] := TRUE; srv["http"] := "up";
       };
     };
ST3: if ("https" \in Cfg /\ ~srvSet["https"]) {
       if (env.busy_https) {
         if (FailCleanup = "full") { call StopListeners() };
ST3d:    if (FailStopsDelivery) { call StopDelivery(FALSE) };
ST3f:    exc := "ListenerPortError"; goto STX;
       } else {
         srv["https"] := "bound";
ST3c:    if (env.bad_cert) {                      \* load_cert_chain fails
           if (~CloseOnCertFail) { leaked := leaked + 1 };
           srv["https"] := "none";                \* local `server` dropped
           exc := "ListenerCertificateError"; goto STX;
         } else {
           srvSet["https"] := TRUE; thr["https"] := TRUE; srv["https"] := "up";
         };
       };
     };
ST4: return;
STX: if (FailCleanup = "none") { return }         \* no outer handler
     else if (FailCleanup = "full") { call StopListeners() };
STX2: call StopDelivery(TRUE);                    \* except Exception:
STX3: return;
}

fair process (main = "main") {
MI:  Emit(InitEvs);
ML:  while (ops <= MaxOps) {
       if (ops = MaxOps) { op := "stop"; env := NoEnv; carg := 0 }
       else { with (o \in OpSet) { op := o.op; env := o.env; carg := o.c } };
MB:    Emit(<<Ev("begin")>>);
       if (op = "start") { call Start() }
       else if (op = "stop") { call StopListeners() }
       else if (~DupCheck \/ carg \notin Rng(cbs)) { cbs := Append(cbs, carg) };
MB2:   if (op = "stop" /\ exc = "") { call StopDelivery(FALSE) };
MR:    Emit(<<Ev("ret")>>);
       ops := ops + 1; exc := "";
     };
ME:  Emit(<<Ev("end")>>);
}

fair process (cb = "cb")
variables item = NoItem, ci = 1;
{
C0: await cbAlive;
C1: either { await q # <<>>; item := Head(q); q := Tail(q); ci := 1 }
    or     { await q = <<>>;                      \* timeout: queue.Empty
C1e:         if (stopEv) { goto Cx } else { goto C1 } };
C3: while (ci <= Len(cbs)) {                      \* for callback in _callbacks
      Emit(<<DeliverEv(cbs[ci], item)>>); ci := ci + 1 };
C4: goto C1;                                      \* task_done()
Cx: cbAlive := FALSE; goto C0;
}

fair process (snd \in Senders)
variables n = 1, rf = 0;
{
S0: while (n <= NInd) {
      either { await srv[TargetOf(self)] = "up";
               inH := inH \cup {self};
               Emit(<<ReqEv("req", self, n, "")>>) }
      or     { \* connection refused: once while the program runs (then the
               \* sender waits for a listener), and at the end (gives up)
               await srv[TargetOf(self)] # "up" /\ (rf = 0 \/ MainDone);
               Emit(<<ReqEv("req", self, n, ""), ReqEv("resp", self, n, "refused")>>);
               if (MainDone) { n := NInd + 1 } else { rf := 1 };
               goto S0 };
H1:   if (~qref) {                                \* "queue not set up"
H1r:    Emit(<<ReqEv("resp", self, n, "ok")>>); goto H3;
      };
H2:   if (~qref) {                                \* None.put: handler dies
        Emit(<<ReqEv("resp", self, n, "dropped")>>);
      } else if (MaxQ > 0 /\ Len(q) >= MaxQ) {
H2f:    Emit(<<ReqEv("resp", self, n, "err")>>);
      } else {
        q := Append(q, <<self, n>>);
H2r:    Emit(<<ReqEv("resp", self, n, "ok")>>);
      };
H3:   inH := inH \ {self}; n := n + 1;
    };
}
} *)
\* BEGIN TRANSLATION
VARIABLES pc, q, qref, cbSet, stopEv, cbAlive, srvSet, srv, thr, leaked, inH, 
          cbs, obs, ops, op, env, carg, exc, stack

(* define statement *)
E0 == [ev |-> "", op |-> op, c |-> carg, busy_http |-> env.busy_http,
       busy_https |-> env.busy_https, bad_cert |-> env.bad_cert,
       exc |-> exc, retv |-> "none", s |-> "", n |-> 0, kind |-> "",
       th |-> 0, outcome |-> "done",
       arg_http |-> IF "http" \in Cfg THEN 1 ELSE -1,
       arg_https |-> IF "https" \in Cfg THEN 2 ELSE -1,
       http_port |-> IF "http" \in Cfg THEN 1 ELSE -1,
       https_port |-> IF "https" \in Cfg THEN 2 ELSE -1,
       http_started |-> srvSet["http"], https_started |-> srvSet["https"],
       up_http |-> srv["http"] = "up", up_https |-> srv["https"] = "up",
       cb_threads |-> IF cbAlive THEN 1 ELSE 0,
       srv_threads |-> Cardinality({p \in PortNames : thr[p]}),
       open_srv |-> Cardinality({p \in PortNames : srv[p] # "none"}) + leaked,
       logger_ok |-> TRUE, consts_ok |-> TRUE]
Ev(ev) == [E0 EXCEPT !.ev = ev]
ReqEv(ev, s, n, kind) == [E0 EXCEPT !.ev = ev, !.s = s, !.n = n, !.kind = kind]
DeliverEv(c, it) == [E0 EXCEPT !.ev = "deliver", !.c = c, !.s = it[1],
                               !.n = it[2], !.th = 1]
InitEvs == <<Ev("init")>> \o
  [i \in 1..(2 * Len(InitCbs)) |->
     [Ev(IF i % 2 = 1 THEN "begin" ELSE "ret")
        EXCEPT !.op = "add_callback", !.c = InitCbs[(i + 1) \div 2]]]
ReqHolds == obs.bad = {}
StartFailHolds == obs.bad \cap StartFailClauses = {}
OtherHolds == obs.bad \ StartFailClauses = {}
MainDone == pc["main"] = "Done"

VARIABLES immediate, item, ci, n, rf

vars == << pc, q, qref, cbSet, stopEv, cbAlive, srvSet, srv, thr, leaked, inH, 
           cbs, obs, ops, op, env, carg, exc, stack, immediate, item, ci, n, 
           rf >>

ProcSet == {"main"} \cup {"cb"} \cup (Senders)

Init == (* Global variables *)
        /\ q = <<>>
        /\ qref = FALSE
        /\ cbSet = FALSE
        /\ stopEv = FALSE
        /\ cbAlive = FALSE
        /\ srvSet = [p \in PortNames |-> FALSE]
        /\ srv = [p \in PortNames |-> "none"]
        /\ thr = [p \in PortNames |-> FALSE]
        /\ leaked = 0
        /\ inH = {}
        /\ cbs = InitCbs
        /\ obs = [s |-> InitState, bad |-> {}]
        /\ ops = 0
        /\ op = ""
        /\ env = NoEnv
        /\ carg = 0
        /\ exc = ""
        (* Procedure StopDelivery *)
        /\ immediate = [ self \in ProcSet |-> FALSE]
        (* Process cb *)
        /\ item = NoItem
        /\ ci = 1
        (* Process snd *)
        /\ n = [self \in Senders |-> 1]
        /\ rf = [self \in Senders |-> 0]
        /\ stack = [self \in ProcSet |-> << >>]
        /\ pc = [self \in ProcSet |-> CASE self = "main" -> "MI"
                                        [] self = "cb" -> "C0"
                                        [] self \in Senders -> "S0"]

SD0(self) == /\ pc[self] = "SD0"
             /\ IF qref
                   THEN /\ IF ~immediate[self]
                              THEN /\ pc' = [pc EXCEPT ![self] = "SD1"]
                              ELSE /\ pc' = [pc EXCEPT ![self] = "SD2"]
                   ELSE /\ pc' = [pc EXCEPT ![self] = "SD4"]
             /\ UNCHANGED << q, qref, cbSet, stopEv, cbAlive, srvSet, srv, thr, 
                             leaked, inH, cbs, obs, ops, op, env, carg, exc, 
                             stack, immediate, item, ci, n, rf >>

SD3(self) == /\ pc[self] = "SD3"
             /\ qref' = FALSE
             /\ pc' = [pc EXCEPT ![self] = "SD4"]
             /\ UNCHANGED << q, cbSet, stopEv, cbAlive, srvSet, srv, thr, 
                             leaked, inH, cbs, obs, ops, op, env, carg, exc, 
                             stack, immediate, item, ci, n, rf >>

SD1(self) == /\ pc[self] = "SD1"
             /\ IF q # <<>>
                   THEN /\ pc' = [pc EXCEPT ![self] = "SD1s"]
                   ELSE /\ pc' = [pc EXCEPT ![self] = "SD3"]
             /\ UNCHANGED << q, qref, cbSet, stopEv, cbAlive, srvSet, srv, thr, 
                             leaked, inH, cbs, obs, ops, op, env, carg, exc, 
                             stack, immediate, item, ci, n, rf >>

SD1s(self) == /\ pc[self] = "SD1s"
              /\ TRUE
              /\ pc' = [pc EXCEPT ![self] = "SD1"]
              /\ UNCHANGED << q, qref, cbSet, stopEv, cbAlive, srvSet, srv, 
                              thr, leaked, inH, cbs, obs, ops, op, env, carg, 
                              exc, stack, immediate, item, ci, n, rf >>

SD2(self) == /\ pc[self] = "SD2"
             /\ IF q # <<>>
                   THEN /\ pc' = [pc EXCEPT ![self] = "SD2g"]
                   ELSE /\ pc' = [pc EXCEPT ![self] = "SD3"]
             /\ UNCHANGED << q, qref, cbSet, stopEv, cbAlive, srvSet, srv, thr, 
                             leaked, inH, cbs, obs, ops, op, env, carg, exc, 
                             stack, immediate, item, ci, n, rf >>

SD2g(self) == /\ pc[self] = "SD2g"
              /\ IF q = <<>>
                    THEN /\ IF ~ClearRobust
                               THEN /\ exc' = "Empty"
                                    /\ pc' = [pc EXCEPT ![self] = Head(stack[self]).pc]
                                    /\ immediate' = [immediate EXCEPT ![self] = Head(stack[self]).immediate]
                                    /\ stack' = [stack EXCEPT ![self] = Tail(stack[self])]
                               ELSE /\ pc' = [pc EXCEPT ![self] = "SD2t"]
                                    /\ UNCHANGED << exc, stack, immediate >>
                         /\ q' = q
                    ELSE /\ q' = Tail(q)
                         /\ pc' = [pc EXCEPT ![self] = "SD2t"]
                         /\ UNCHANGED << exc, stack, immediate >>
              /\ UNCHANGED << qref, cbSet, stopEv, cbAlive, srvSet, srv, thr, 
                              leaked, inH, cbs, obs, ops, op, env, carg, item, 
                              ci, n, rf >>

SD2t(self) == /\ pc[self] = "SD2t"
              /\ TRUE
              /\ pc' = [pc EXCEPT ![self] = "SD2"]
              /\ UNCHANGED << q, qref, cbSet, stopEv, cbAlive, srvSet, srv, 
                              thr, leaked, inH, cbs, obs, ops, op, env, carg, 
                              exc, stack, immediate, item, ci, n, rf >>

SD4(self) == /\ pc[self] = "SD4"
             /\ IF cbSet
                   THEN /\ stopEv' = TRUE
                        /\ pc' = [pc EXCEPT ![self] = "SD5"]
                   ELSE /\ pc' = [pc EXCEPT ![self] = "SDr"]
                        /\ UNCHANGED stopEv
             /\ UNCHANGED << q, qref, cbSet, cbAlive, srvSet, srv, thr, leaked, 
                             inH, cbs, obs, ops, op, env, carg, exc, stack, 
                             immediate, item, ci, n, rf >>

SD5(self) == /\ pc[self] = "SD5"
             /\ ~cbAlive
             /\ cbSet' = FALSE
             /\ pc' = [pc EXCEPT ![self] = "SDr"]
             /\ UNCHANGED << q, qref, stopEv, cbAlive, srvSet, srv, thr, 
                             leaked, inH, cbs, obs, ops, op, env, carg, exc, 
                             stack, immediate, item, ci, n, rf >>

SDr(self) == /\ pc[self] = "SDr"
             /\ pc' = [pc EXCEPT ![self] = Head(stack[self]).pc]
             /\ immediate' = [immediate EXCEPT ![self] = Head(stack[self]).immediate]
             /\ stack' = [stack EXCEPT ![self] = Tail(stack[self])]
             /\ UNCHANGED << q, qref, cbSet, stopEv, cbAlive, srvSet, srv, thr, 
                             leaked, inH, cbs, obs, ops, op, env, carg, exc, 
                             item, ci, n, rf >>

StopDelivery(self) == SD0(self) \/ SD3(self) \/ SD1(self) \/ SD1s(self)
                         \/ SD2(self) \/ SD2g(self) \/ SD2t(self)
                         \/ SD4(self) \/ SD5(self) \/ SDr(self)

SL1(self) == /\ pc[self] = "SL1"
             /\ IF srvSet["http"]
                   THEN /\ srv' = [srv EXCEPT !["http"] = "bound"]
                        /\ pc' = [pc EXCEPT ![self] = "SL1c"]
                        /\ UNCHANGED << exc, stack >>
                   ELSE /\ IF ~StopGuard
                              THEN /\ exc' = "AttributeError"
                                   /\ pc' = [pc EXCEPT ![self] = Head(stack[self]).pc]
                                   /\ stack' = [stack EXCEPT ![self] = Tail(stack[self])]
                              ELSE /\ pc' = [pc EXCEPT ![self] = "SL2"]
                                   /\ UNCHANGED << exc, stack >>
                        /\ srv' = srv
             /\ UNCHANGED << q, qref, cbSet, stopEv, cbAlive, srvSet, thr, 
                             leaked, inH, cbs, obs, ops, op, env, carg, 
                             immediate, item, ci, n, rf >>

SL1c(self) == /\ pc[self] = "SL1c"
              /\ \A s \in inH : TargetOf(s) # "http"
              /\ srv' = [srv EXCEPT !["http"] = "none"]
              /\ thr' = [thr EXCEPT !["http"] = FALSE]
              /\ srvSet' = [srvSet EXCEPT !["http"] = FALSE]
              /\ pc' = [pc EXCEPT ![self] = "SL2"]
              /\ UNCHANGED << q, qref, cbSet, stopEv, cbAlive, leaked, inH, 
                              cbs, obs, ops, op, env, carg, exc, stack, 
                              immediate, item, ci, n, rf >>

SL2(self) == /\ pc[self] = "SL2"
             /\ IF srvSet["https"]
                   THEN /\ srv' = [srv EXCEPT !["https"] = "bound"]
                        /\ pc' = [pc EXCEPT ![self] = "SL2c"]
                        /\ UNCHANGED << exc, stack >>
                   ELSE /\ IF ~StopGuard
                              THEN /\ exc' = "AttributeError"
                                   /\ pc' = [pc EXCEPT ![self] = Head(stack[self]).pc]
                                   /\ stack' = [stack EXCEPT ![self] = Tail(stack[self])]
                              ELSE /\ pc' = [pc EXCEPT ![self] = "SLr"]
                                   /\ UNCHANGED << exc, stack >>
                        /\ srv' = srv
             /\ UNCHANGED << q, qref, cbSet, stopEv, cbAlive, srvSet, thr, 
                             leaked, inH, cbs, obs, ops, op, env, carg, 
                             immediate, item, ci, n, rf >>

SL2c(self) == /\ pc[self] = "SL2c"
              /\ \A s \in inH : TargetOf(s) # "https"
              /\ srv' = [srv EXCEPT !["https"] = "none"]
              /\ thr' = [thr EXCEPT !["https"] = FALSE]
              /\ srvSet' = [srvSet EXCEPT !["https"] = FALSE]
              /\ pc' = [pc EXCEPT ![self] = "SLr"]
              /\ UNCHANGED << q, qref, cbSet, stopEv, cbAlive, leaked, inH, 
                              cbs, obs, ops, op, env, carg, exc, stack, 
                              immediate, item, ci, n, rf >>

SLr(self) == /\ pc[self] = "SLr"
             /\ pc' = [pc EXCEPT ![self] = Head(stack[self]).pc]
             /\ stack' = [stack EXCEPT ![self] = Tail(stack[self])]
             /\ UNCHANGED << q, qref, cbSet, stopEv, cbAlive, srvSet, srv, thr, 
                             leaked, inH, cbs, obs, ops, op, env, carg, exc, 
                             immediate, item, ci, n, rf >>

StopListeners(self) == SL1(self) \/ SL1c(self) \/ SL2(self) \/ SL2c(self)
                          \/ SLr(self)

ST0(self) == /\ pc[self] = "ST0"
             /\ IF cbSet \/ qref
                   THEN /\ exc' = "AssertionError"
                        /\ pc' = [pc EXCEPT ![self] = Head(stack[self]).pc]
                        /\ stack' = [stack EXCEPT ![self] = Tail(stack[self])]
                   ELSE /\ pc' = [pc EXCEPT ![self] = "ST1"]
                        /\ UNCHANGED << exc, stack >>
             /\ UNCHANGED << q, qref, cbSet, stopEv, cbAlive, srvSet, srv, thr, 
                             leaked, inH, cbs, obs, ops, op, env, carg, 
                             immediate, item, ci, n, rf >>

ST1(self) == /\ pc[self] = "ST1"
             /\ q' = <<>>
             /\ qref' = TRUE
             /\ pc' = [pc EXCEPT ![self] = "ST1b"]
             /\ UNCHANGED << cbSet, stopEv, cbAlive, srvSet, srv, thr, leaked, 
                             inH, cbs, obs, ops, op, env, carg, exc, stack, 
                             immediate, item, ci, n, rf >>

ST1b(self) == /\ pc[self] = "ST1b"
              /\ stopEv' = FALSE
              /\ cbAlive' = TRUE
              /\ cbSet' = TRUE
              /\ pc' = [pc EXCEPT ![self] = "ST2"]
              /\ UNCHANGED << q, qref, srvSet, srv, thr, leaked, inH, cbs, obs, 
                              ops, op, env, carg, exc, stack, immediate, item, 
                              ci, n, rf >>

ST2(self) == /\ pc[self] = "ST2"
             /\ IF "http" \in Cfg /\ ~srvSet["http"]
                   THEN /\ IF env.busy_http
                              THEN /\ IF FailStopsDelivery
                                         THEN /\ /\ immediate' = [immediate EXCEPT ![self] = FALSE]
                                                 /\ stack' = [stack EXCEPT ![self] = << [ procedure |->  "StopDelivery",
                                                                                          pc        |->  "ST2f",
                                                                                          immediate |->  immediate[self] ] >>
                                                                                      \o stack[self]]
                                              /\ pc' = [pc EXCEPT ![self] = "SD0"]
                                         ELSE /\ pc' = [pc EXCEPT ![self] = "ST2f"]
                                              /\ UNCHANGED << stack, immediate >>
                                   /\ srv' = srv
                              ELSE /\ srv' = [srv EXCEPT !["http"] = "bound"]
                                   /\ pc' = [pc EXCEPT ![self] = "ST2s"]
                                   /\ UNCHANGED << stack, immediate >>
                   ELSE /\ pc' = [pc EXCEPT ![self] = "ST3"]
                        /\ UNCHANGED << srv, stack, immediate >>
             /\ UNCHANGED << q, qref, cbSet, stopEv, cbAlive, srvSet, thr, 
                             leaked, inH, cbs, obs, ops, op, env, carg, exc, 
                             item, ci, n, rf >>

ST2f(self) == /\ pc[self] = "ST2f"
              /\ exc' = "ListenerPortError"
              /\ pc' = [pc EXCEPT ![self] = "STX"]
              /\ UNCHANGED << q, qref, cbSet, stopEv, cbAlive, srvSet, srv, 
                              thr, leaked, inH, cbs, obs, ops, op, env, carg, 
                              stack, immediate, item, ci, n, rf >>

ST2s(self) == /\ pc[self] = "ST2s"
              /\ srvSet' = [srvSet EXCEPT !["http"] = TRUE]
              /\ thr' = [thr EXCEPT !["http"] = TRUE]
              /\ srv' = [srv EXCEPT !["http"] = "up"]
              /\ pc' = [pc EXCEPT ![self] = "ST3"]
              /\ UNCHANGED << q, qref, cbSet, stopEv, cbAlive, leaked, inH, 
                              cbs, obs, ops, op, env, carg, exc, stack, 
                              immediate, item, ci, n, rf >>

ST3(self) == /\ pc[self] = "ST3"
             /\ IF "https" \in Cfg /\ ~srvSet["https"]
                   THEN /\ IF env.busy_https
                              THEN /\ IF FailCleanup = "full"
                                         THEN /\ stack' = [stack EXCEPT ![self] = << [ procedure |->  "StopListeners",
                                                                                       pc        |->  "ST3d" ] >>
                                                                                   \o stack[self]]
                                              /\ pc' = [pc EXCEPT ![self] = "SL1"]
                                         ELSE /\ pc' = [pc EXCEPT ![self] = "ST3d"]
                                              /\ stack' = stack
                                   /\ srv' = srv
                              ELSE /\ srv' = [srv EXCEPT !["https"] = "bound"]
                                   /\ pc' = [pc EXCEPT ![self] = "ST3c"]
                                   /\ stack' = stack
                   ELSE /\ pc' = [pc EXCEPT ![self] = "ST4"]
                        /\ UNCHANGED << srv, stack >>
             /\ UNCHANGED << q, qref, cbSet, stopEv, cbAlive, srvSet, thr, 
                             leaked, inH, cbs, obs, ops, op, env, carg, exc, 
                             immediate, item, ci, n, rf >>

ST3d(self) == /\ pc[self] = "ST3d"
              /\ IF FailStopsDelivery
                    THEN /\ /\ immediate' = [immediate EXCEPT ![self] = FALSE]
                            /\ stack' = [stack EXCEPT ![self] = << [ procedure |->  "StopDelivery",
                                                                     pc        |->  "ST3f",
                                                                     immediate |->  immediate[self] ] >>
                                                                 \o stack[self]]
                         /\ pc' = [pc EXCEPT ![self] = "SD0"]
                    ELSE /\ pc' = [pc EXCEPT ![self] = "ST3f"]
                         /\ UNCHANGED << stack, immediate >>
              /\ UNCHANGED << q, qref, cbSet, stopEv, cbAlive, srvSet, srv, 
                              thr, leaked, inH, cbs, obs, ops, op, env, carg, 
                              exc, item, ci, n, rf >>

ST3f(self) == /\ pc[self] = "ST3f"
              /\ exc' = "ListenerPortError"
              /\ pc' = [pc EXCEPT ![self] = "STX"]
              /\ UNCHANGED << q, qref, cbSet, stopEv, cbAlive, srvSet, srv, 
                              thr, leaked, inH, cbs, obs, ops, op, env, carg, 
                              stack, immediate, item, ci, n, rf >>

ST3c(self) == /\ pc[self] = "ST3c"
              /\ IF env.bad_cert
                    THEN /\ IF ~CloseOnCertFail
                               THEN /\ leaked' = leaked + 1
                               ELSE /\ TRUE
                                    /\ UNCHANGED leaked
                         /\ srv' = [srv EXCEPT !["https"] = "none"]
                         /\ exc' = "ListenerCertificateError"
                         /\ pc' = [pc EXCEPT ![self] = "STX"]
                         /\ UNCHANGED << srvSet, thr >>
                    ELSE /\ srvSet' = [srvSet EXCEPT !["https"] = TRUE]
                         /\ thr' = [thr EXCEPT !["https"] = TRUE]
                         /\ srv' = [srv EXCEPT !["https"] = "up"]
                         /\ pc' = [pc EXCEPT ![self] = "ST4"]
                         /\ UNCHANGED << leaked, exc >>
              /\ UNCHANGED << q, qref, cbSet, stopEv, cbAlive, inH, cbs, obs, 
                              ops, op, env, carg, stack, immediate, item, ci, 
                              n, rf >>

ST4(self) == /\ pc[self] = "ST4"
             /\ pc' = [pc EXCEPT ![self] = Head(stack[self]).pc]
             /\ stack' = [stack EXCEPT ![self] = Tail(stack[self])]
             /\ UNCHANGED << q, qref, cbSet, stopEv, cbAlive, srvSet, srv, thr, 
                             leaked, inH, cbs, obs, ops, op, env, carg, exc, 
                             immediate, item, ci, n, rf >>

STX(self) == /\ pc[self] = "STX"
             /\ IF FailCleanup = "none"
                   THEN /\ pc' = [pc EXCEPT ![self] = Head(stack[self]).pc]
                        /\ stack' = [stack EXCEPT ![self] = Tail(stack[self])]
                   ELSE /\ IF FailCleanup = "full"
                              THEN /\ stack' = [stack EXCEPT ![self] = << [ procedure |->  "StopListeners",
                                                                            pc        |->  "STX2" ] >>
                                                                        \o stack[self]]
                                   /\ pc' = [pc EXCEPT ![self] = "SL1"]
                              ELSE /\ pc' = [pc EXCEPT ![self] = "STX2"]
                                   /\ stack' = stack
             /\ UNCHANGED << q, qref, cbSet, stopEv, cbAlive, srvSet, srv, thr, 
                             leaked, inH, cbs, obs, ops, op, env, carg, exc, 
                             immediate, item, ci, n, rf >>

STX2(self) == /\ pc[self] = "STX2"
              /\ /\ immediate' = [immediate EXCEPT ![self] = TRUE]
                 /\ stack' = [stack EXCEPT ![self] = << [ procedure |->  "StopDelivery",
                                                          pc        |->  "STX3",
                                                          immediate |->  immediate[self] ] >>
                                                      \o stack[self]]
              /\ pc' = [pc EXCEPT ![self] = "SD0"]
              /\ UNCHANGED << q, qref, cbSet, stopEv, cbAlive, srvSet, srv, 
                              thr, leaked, inH, cbs, obs, ops, op, env, carg, 
                              exc, item, ci, n, rf >>

STX3(self) == /\ pc[self] = "STX3"
              /\ pc' = [pc EXCEPT ![self] = Head(stack[self]).pc]
              /\ stack' = [stack EXCEPT ![self] = Tail(stack[self])]
              /\ UNCHANGED << q, qref, cbSet, stopEv, cbAlive, srvSet, srv, 
                              thr, leaked, inH, cbs, obs, ops, op, env, carg, 
                              exc, immediate, item, ci, n, rf >>

Start(self) == ST0(self) \/ ST1(self) \/ ST1b(self) \/ ST2(self)
                  \/ ST2f(self) \/ ST2s(self) \/ ST3(self) \/ ST3d(self)
                  \/ ST3f(self) \/ ST3c(self) \/ ST4(self) \/ STX(self)
                  \/ STX2(self) \/ STX3(self)

MI == /\ pc["main"] = "MI"
      /\ obs' = Run(obs, InitEvs)
      /\ pc' = [pc EXCEPT !["main"] = "ML"]
      /\ UNCHANGED << q, qref, cbSet, stopEv, cbAlive, srvSet, srv, thr, 
                      leaked, inH, cbs, ops, op, env, carg, exc, stack, 
                      immediate, item, ci, n, rf >>

ML == /\ pc["main"] = "ML"
      /\ IF ops <= MaxOps
            THEN /\ IF ops = MaxOps
                       THEN /\ op' = "stop"
                            /\ env' = NoEnv
                            /\ carg' = 0
                       ELSE /\ \E o \in OpSet:
                                 /\ op' = o.op
                                 /\ env' = o.env
                                 /\ carg' = o.c
                 /\ pc' = [pc EXCEPT !["main"] = "MB"]
            ELSE /\ pc' = [pc EXCEPT !["main"] = "ME"]
                 /\ UNCHANGED << op, env, carg >>
      /\ UNCHANGED << q, qref, cbSet, stopEv, cbAlive, srvSet, srv, thr, 
                      leaked, inH, cbs, obs, ops, exc, stack, immediate, item, 
                      ci, n, rf >>

MB == /\ pc["main"] = "MB"
      /\ obs' = Run(obs, (<<Ev("begin")>>))
      /\ IF op = "start"
            THEN /\ stack' = [stack EXCEPT !["main"] = << [ procedure |->  "Start",
                                                            pc        |->  "MB2" ] >>
                                                        \o stack["main"]]
                 /\ pc' = [pc EXCEPT !["main"] = "ST0"]
                 /\ cbs' = cbs
            ELSE /\ IF op = "stop"
                       THEN /\ stack' = [stack EXCEPT !["main"] = << [ procedure |->  "StopListeners",
                                                                       pc        |->  "MB2" ] >>
                                                                   \o stack["main"]]
                            /\ pc' = [pc EXCEPT !["main"] = "SL1"]
                            /\ cbs' = cbs
                       ELSE /\ IF ~DupCheck \/ carg \notin Rng(cbs)
                                  THEN /\ cbs' = Append(cbs, carg)
                                  ELSE /\ TRUE
                                       /\ cbs' = cbs
                            /\ pc' = [pc EXCEPT !["main"] = "MB2"]
                            /\ stack' = stack
      /\ UNCHANGED << q, qref, cbSet, stopEv, cbAlive, srvSet, srv, thr, 
                      leaked, inH, ops, op, env, carg, exc, immediate, item, 
                      ci, n, rf >>

MB2 == /\ pc["main"] = "MB2"
       /\ IF op = "stop" /\ exc = ""
             THEN /\ /\ immediate' = [immediate EXCEPT !["main"] = FALSE]
                     /\ stack' = [stack EXCEPT !["main"] = << [ procedure |->  "StopDelivery",
                                                                pc        |->  "MR",
                                                                immediate |->  immediate["main"] ] >>
                                                            \o stack["main"]]
                  /\ pc' = [pc EXCEPT !["main"] = "SD0"]
             ELSE /\ pc' = [pc EXCEPT !["main"] = "MR"]
                  /\ UNCHANGED << stack, immediate >>
       /\ UNCHANGED << q, qref, cbSet, stopEv, cbAlive, srvSet, srv, thr, 
                       leaked, inH, cbs, obs, ops, op, env, carg, exc, item, 
                       ci, n, rf >>

MR == /\ pc["main"] = "MR"
      /\ obs' = Run(obs, (<<Ev("ret")>>))
      /\ ops' = ops + 1
      /\ exc' = ""
      /\ pc' = [pc EXCEPT !["main"] = "ML"]
      /\ UNCHANGED << q, qref, cbSet, stopEv, cbAlive, srvSet, srv, thr, 
                      leaked, inH, cbs, op, env, carg, stack, immediate, item, 
                      ci, n, rf >>

ME == /\ pc["main"] = "ME"
      /\ obs' = Run(obs, (<<Ev("end")>>))
      /\ pc' = [pc EXCEPT !["main"] = "Done"]
      /\ UNCHANGED << q, qref, cbSet, stopEv, cbAlive, srvSet, srv, thr, 
                      leaked, inH, cbs, ops, op, env, carg, exc, stack, 
                      immediate, item, ci, n, rf >>

main == MI \/ ML \/ MB \/ MB2 \/ MR \/ ME

C0 == /\ pc["cb"] = "C0"
      /\ cbAlive
      /\ pc' = [pc EXCEPT !["cb"] = "C1"]
      /\ UNCHANGED << q, qref, cbSet, stopEv, cbAlive, srvSet, srv, thr, 
                      leaked, inH, cbs, obs, ops, op, env, carg, exc, stack, 
                      immediate, item, ci, n, rf >>

C1 == /\ pc["cb"] = "C1"
      /\ \/ /\ q # <<>>
            /\ item' = Head(q)
            /\ q' = Tail(q)
            /\ ci' = 1
            /\ pc' = [pc EXCEPT !["cb"] = "C3"]
         \/ /\ q = <<>>
            /\ pc' = [pc EXCEPT !["cb"] = "C1e"]
            /\ UNCHANGED <<q, item, ci>>
      /\ UNCHANGED << qref, cbSet, stopEv, cbAlive, srvSet, srv, thr, leaked, 
                      inH, cbs, obs, ops, op, env, carg, exc, stack, immediate, 
                      n, rf >>

C1e == /\ pc["cb"] = "C1e"
       /\ IF stopEv
             THEN /\ pc' = [pc EXCEPT !["cb"] = "Cx"]
             ELSE /\ pc' = [pc EXCEPT !["cb"] = "C1"]
       /\ UNCHANGED << q, qref, cbSet, stopEv, cbAlive, srvSet, srv, thr, 
                       leaked, inH, cbs, obs, ops, op, env, carg, exc, stack, 
                       immediate, item, ci, n, rf >>

C3 == /\ pc["cb"] = "C3"
      /\ IF ci <= Len(cbs)
            THEN /\ obs' = Run(obs, (<<DeliverEv(cbs[ci], item)>>))
                 /\ ci' = ci + 1
                 /\ pc' = [pc EXCEPT !["cb"] = "C3"]
            ELSE /\ pc' = [pc EXCEPT !["cb"] = "C4"]
                 /\ UNCHANGED << obs, ci >>
      /\ UNCHANGED << q, qref, cbSet, stopEv, cbAlive, srvSet, srv, thr, 
                      leaked, inH, cbs, ops, op, env, carg, exc, stack, 
                      immediate, item, n, rf >>

C4 == /\ pc["cb"] = "C4"
      /\ pc' = [pc EXCEPT !["cb"] = "C1"]
      /\ UNCHANGED << q, qref, cbSet, stopEv, cbAlive, srvSet, srv, thr, 
                      leaked, inH, cbs, obs, ops, op, env, carg, exc, stack, 
                      immediate, item, ci, n, rf >>

Cx == /\ pc["cb"] = "Cx"
      /\ cbAlive' = FALSE
      /\ pc' = [pc EXCEPT !["cb"] = "C0"]
      /\ UNCHANGED << q, qref, cbSet, stopEv, srvSet, srv, thr, leaked, inH, 
                      cbs, obs, ops, op, env, carg, exc, stack, immediate, 
                      item, ci, n, rf >>

cb == C0 \/ C1 \/ C1e \/ C3 \/ C4 \/ Cx

S0(self) == /\ pc[self] = "S0"
            /\ IF n[self] <= NInd
                  THEN /\ \/ /\ srv[TargetOf(self)] = "up"
                             /\ inH' = (inH \cup {self})
                             /\ obs' = Run(obs, (<<ReqEv("req", self, n[self], "")>>))
                             /\ pc' = [pc EXCEPT ![self] = "H1"]
                             /\ UNCHANGED <<n, rf>>
                          \/ /\ srv[TargetOf(self)] # "up" /\ (rf[self] = 0 \/ MainDone)
                             /\ obs' = Run(obs, (<<ReqEv("req", self, n[self], ""), ReqEv("resp", self, n[self], "refused")>>))
                             /\ IF MainDone
                                   THEN /\ n' = [n EXCEPT ![self] = NInd + 1]
                                        /\ rf' = rf
                                   ELSE /\ rf' = [rf EXCEPT ![self] = 1]
                                        /\ n' = n
                             /\ pc' = [pc EXCEPT ![self] = "S0"]
                             /\ inH' = inH
                  ELSE /\ pc' = [pc EXCEPT ![self] = "Done"]
                       /\ UNCHANGED << inH, obs, n, rf >>
            /\ UNCHANGED << q, qref, cbSet, stopEv, cbAlive, srvSet, srv, thr, 
                            leaked, cbs, ops, op, env, carg, exc, stack, 
                            immediate, item, ci >>

H1(self) == /\ pc[self] = "H1"
            /\ IF ~qref
                  THEN /\ pc' = [pc EXCEPT ![self] = "H1r"]
                  ELSE /\ pc' = [pc EXCEPT ![self] = "H2"]
            /\ UNCHANGED << q, qref, cbSet, stopEv, cbAlive, srvSet, srv, thr, 
                            leaked, inH, cbs, obs, ops, op, env, carg, exc, 
                            stack, immediate, item, ci, n, rf >>

H1r(self) == /\ pc[self] = "H1r"
             /\ obs' = Run(obs, (<<ReqEv("resp", self, n[self], "ok")>>))
             /\ pc' = [pc EXCEPT ![self] = "H3"]
             /\ UNCHANGED << q, qref, cbSet, stopEv, cbAlive, srvSet, srv, thr, 
                             leaked, inH, cbs, ops, op, env, carg, exc, stack, 
                             immediate, item, ci, n, rf >>

H2(self) == /\ pc[self] = "H2"
            /\ IF ~qref
                  THEN /\ obs' = Run(obs, (<<ReqEv("resp", self, n[self], "dropped")>>))
                       /\ pc' = [pc EXCEPT ![self] = "H3"]
                       /\ q' = q
                  ELSE /\ IF MaxQ > 0 /\ Len(q) >= MaxQ
                             THEN /\ pc' = [pc EXCEPT ![self] = "H2f"]
                                  /\ q' = q
                             ELSE /\ q' = Append(q, <<self, n[self]>>)
                                  /\ pc' = [pc EXCEPT ![self] = "H2r"]
                       /\ obs' = obs
            /\ UNCHANGED << qref, cbSet, stopEv, cbAlive, srvSet, srv, thr, 
                            leaked, inH, cbs, ops, op, env, carg, exc, stack, 
                            immediate, item, ci, n, rf >>

H2f(self) == /\ pc[self] = "H2f"
             /\ obs' = Run(obs, (<<ReqEv("resp", self, n[self], "err")>>))
             /\ pc' = [pc EXCEPT ![self] = "H3"]
             /\ UNCHANGED << q, qref, cbSet, stopEv, cbAlive, srvSet, srv, thr, 
                             leaked, inH, cbs, ops, op, env, carg, exc, stack, 
                             immediate, item, ci, n, rf >>

H2r(self) == /\ pc[self] = "H2r"
             /\ obs' = Run(obs, (<<ReqEv("resp", self, n[self], "ok")>>))
             /\ pc' = [pc EXCEPT ![self] = "H3"]
             /\ UNCHANGED << q, qref, cbSet, stopEv, cbAlive, srvSet, srv, thr, 
                             leaked, inH, cbs, ops, op, env, carg, exc, stack, 
                             immediate, item, ci, n, rf >>

H3(self) == /\ pc[self] = "H3"
            /\ inH' = inH \ {self}
            /\ n' = [n EXCEPT ![self] = n[self] + 1]
            /\ pc' = [pc EXCEPT ![self] = "S0"]
            /\ UNCHANGED << q, qref, cbSet, stopEv, cbAlive, srvSet, srv, thr, 
                            leaked, cbs, obs, ops, op, env, carg, exc, stack, 
                            immediate, item, ci, rf >>

snd(self) == S0(self) \/ H1(self) \/ H1r(self) \/ H2(self) \/ H2f(self)
                \/ H2r(self) \/ H3(self)

(* Allow infinite stuttering to prevent deadlock on termination. *)
Terminating == /\ \A self \in ProcSet: pc[self] = "Done"
               /\ UNCHANGED vars

Next == main \/ cb
           \/ (\E self \in ProcSet:  \/ StopDelivery(self) \/ StopListeners(self)
                                     \/ Start(self))
           \/ (\E self \in Senders: snd(self))
           \/ Terminating

Spec == /\ Init /\ [][Next]_vars
        /\ /\ WF_vars(main)
           /\ WF_vars(Start("main"))
           /\ WF_vars(StopListeners("main"))
           /\ WF_vars(StopDelivery("main"))
        /\ WF_vars(cb)
        /\ \A self \in Senders : WF_vars(snd(self))

Termination == <>(\A self \in ProcSet: pc[self] = "Done")

\* END TRANSLATION

MainTerminates == <>(pc["main"] = "Done")
=============================================================================
