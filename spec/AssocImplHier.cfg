\* Class hierarchy as part of the repository: ABX absent / subclass of AB / of ABS, per namespace,
\* added between creates.  Must hold.
SPECIFICATION Spec
CONSTANTS
  LegacyBreak = FALSE
  SwapIn = ""
  NoShadow = FALSE
  NoPreCheck = FALSE
  XParU = {"AB", "ABS"}
  ModEnds = "off"
  ShallowSub = FALSE
  IgnoreNs = FALSE
  ModSharedPath = FALSE
  MaxMod = 0
  NodeU <- NodeU5
  MaxAssoc = 2
  CreateNs = {1, 2}
  ClsU = {"ABS", "ABX"}
  AcU <- AcHier
  RcU <- RcSmall
  RlU <- RlHier
  GenDepth = 0
INVARIANT ImplEqualsDecl
CHECK_DEADLOCK FALSE
