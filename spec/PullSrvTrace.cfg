SPECIFICATION TSpec
CONSTANTS
  NObj = 0
  MaxId = 0
  Nss = {1, 2}
  Maxes <- MaxesSmall
  Kinds = {1}
  Toggles = TRUE
  DefaultMax = 100
  LegacyPullZero = FALSE
  LegacyTrimRaw = FALSE
  GenDepth = 0
  Srvs = {1, 2}
  Ots <- OtsOne
  Coes <- CoesOne
  Flts <- FltsOne
  SharedContextTable = FALSE
  ExpireSessions = FALSE
  RandArgs = FALSE
  Cover = FALSE
CHECK_DEADLOCK FALSE
