\* The pinned tree: CIMProperty.tocimxml() writes an embedded instance that has a path WITH
\* the path (VALUE.NAMEDINSTANCE inside the embedded object string); parse_embeddedObject()
\* refuses it.  ImplMeetsReq must be VIOLATED (ParserAccepts.CIMXMLParseError).
SPECIFICATION Spec
CONSTANTS
  Types = {"string", "uint8"}
  QualTypes = {}
  KeyTypes = {"string"}
  Shapes = {"scalar", "v"}
  StrVals <- StrValsKey
  CharVals = {"ltr"}
  Names = {"a"}
  MaxEls = 3
  MaxDepth = 1
  MaxKids = 1
  MaxAttrs = 0
  Modes = {"entity"}
  W <- WEmbPath
  RootKinds = {"inst"}
  EmbPaths = TRUE
INVARIANT ImplMeetsReq
CHECK_DEADLOCK FALSE
