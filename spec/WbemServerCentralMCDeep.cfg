\* "deep": p1 (central methodology not implemented) is referenced by p2;
\* up to 6 association instances among ECTP of p2 and A1/A2 over 4 resources
SPECIFICATION Spec
CONSTANTS
  Variant = "code"
  PinnedAssert = FALSE
  EctpU <- EctpDeep
  RpU <- RpDeep
  A1U <- ADeep
  A2U <- ADeep
  MaxEdges = 6
  Modes1 <- OnlyUnsup
  ModesO <- OnlyImpl
  QuerySet = "scoping"
INVARIANT ImplRefinesReq
CHECK_DEADLOCK FALSE
