\* regression configuration (must FAIL): no `return` after the queue.Full error response -> two responses on one connection
SPECIFICATION Spec
CONSTANTS
  MaxReq = 3
  Alphabet <- QueuePlain
  San = TRUE
  ClChk = TRUE
  Threaded = TRUE
  FinalValid = FALSE
  QCap = 1
  Gating = TRUE
  QfRet = FALSE
  Echo = "xml10"
  PName = "exact"
  Deep = "caught"
  LexG = "full"
INVARIANT InvExactlyOneResponse
CHECK_DEADLOCK FALSE
