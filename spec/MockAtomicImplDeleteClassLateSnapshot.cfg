SPECIFICATION Spec
CONSTANTS
  Rollback = TRUE
  NsProviderOrder = "fixed"
  MaxBatch = 3
  MultiNsPrecheck = "all-first"
  RollbackKinds = "all"
  SchemaListRollback = TRUE
  DeleteClassUndo = TRUE
  RollbackScope = "repository"
  DeleteClassInstances = "per-class"
  NsAlias = "nocase"
  MultiNsDelete = "all-first"
INVARIANT Atomic
INVARIANT Completes
CHECK_DEADLOCK FALSE
