SPECIFICATION Spec
CONSTANTS
  MaxRef = 60
  MaxMut = 1
  Roots <- AllRoots
  ShallowChildDict = FALSE
  SharedPath = FALSE
  EmptyListPassThrough = FALSE
  Mode = "copy"
  HashCache = "none"
  LazyHash = "getter"
  ObsKinds <- ObsActs
  EmitLazy = FALSE
  CopyViaCtor = TRUE
  Emit = FALSE
INVARIANT CopyEqual
CHECK_DEADLOCK FALSE
