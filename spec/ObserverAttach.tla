--------------------------- MODULE ObserverAttach ---------------------------
(***************************************************************************)
(* C19 design model of SWITCHING THE OBSERVERS ON (pywbem/_logging.py      *)
(* configure_logger -> WBEMConnection._activate_logger, add_operation_     *)
(* recorder, LogOperationRecorder.stage_wbem_connection, __str__/__repr__).*)
(*                                                                         *)
(* A plan is the ORDER in which a history enables observers on one         *)
(* connection:                                                             *)
(*   "rec"        conn.add_operation_recorder(TestClientRecorder(...))     *)
(*   "log_api" / "log_http"   configure_logger(<name>, connection=conn):   *)
(*                one _activate_logger call                                *)
(*   "log_all"    configure_logger('all', connection=conn): two calls      *)
(*   "log_ctor"   configure_logger(<any name>, connection=True), then the  *)
(*                constructor attaches the log recorder (first action of a *)
(*                plan only)                                               *)
(* _activate_logger searches the connection's recorder list for the log    *)
(* recorder and creates + adds one when there is none; add_operation_      *)
(* recorder refuses a second recorder of a class that is already attached  *)
(* (ValueError, documented; plans attach the test client recorder at most  *)
(* once) and then stages the connection data: repr(conn) for detail levels *)
(* all / paths / <int>, str(conn) for summary.  repr(conn) lists the items *)
(* of the x509 dict the connection was constructed with.                   *)
(* Code shapes (constants):                                                *)
(*   SearchStopsAtFirstRecorder  TRUE: the search loop leaves after the    *)
(*        first recorder whatever its class                                *)
(*   ReprNeedsKeyFile            TRUE: repr() reads x509['key_file']       *)
(*        although the item is optional                                    *)
(* Universe of the connection the observers are switched on for (what      *)
(* str()/repr() have to render): X509Shapes; the binding adds the other    *)
(* constructor arguments repr() renders (ca_certs, no_verification,        *)
(* timeout, creds None), for which the model has no case distinction.      *)
(***************************************************************************)
EXTENDS Naturals, Sequences, FiniteSets, TLC

CONSTANTS SearchStopsAtFirstRecorder, ReprNeedsKeyFile, MaxPlan

Actions == {"rec", "log_api", "log_http", "log_all", "log_ctor"}
X509Shapes == {"none", "cert_only", "cert_and_key", "cert_and_null_key"}
DetailKinds == {"all", "paths", "summary", "int"}

SeqsUpTo(S, n) == UNION {[1..k -> S] : k \in 1..n}
Count(p, a) == Cardinality({i \in DOMAIN p : p[i] = a})
Plans == {p \in SeqsUpTo(Actions, MaxPlan) :
            /\ Count(p, "rec") <= 1
            /\ \A i \in DOMAIN p : p[i] = "log_ctor" => i = 1}

VARIABLES x509, detail, plan, pc, recorders, raised
vars == <<x509, detail, plan, pc, recorders, raised>>

Has(rs, k) == \E i \in DOMAIN rs : rs[i] = k
Found(rs) == IF SearchStopsAtFirstRecorder
             THEN Len(rs) > 0 /\ rs[1] = "log"
             ELSE Has(rs, "log")
ConnDataRaises == ReprNeedsKeyFile /\ x509 = "cert_only" /\ detail # "summary"

(* one _activate_logger(connection=conn) call: <<recorder list, raised>> *)
Activate(rs) ==
  IF Found(rs) THEN <<rs, FALSE>>
  ELSE IF Has(rs, "log") THEN <<rs, TRUE>>      \* same class added twice
  ELSE <<Append(rs, "log"), ConnDataRaises>>    \* appended, then staged

Do(a, rs) ==
  CASE a = "rec" -> <<Append(rs, "rec"), FALSE>>
    [] a \in {"log_api", "log_http"} -> Activate(rs)
    [] a = "log_all" -> LET r1 == Activate(rs) IN
                        IF r1[2] THEN r1 ELSE Activate(r1[1])
    [] a = "log_ctor" -> <<<<"log">>, ConnDataRaises>>

Init == /\ x509 \in X509Shapes /\ detail \in DetailKinds /\ plan \in Plans
        /\ pc = 1 /\ recorders = << >> /\ raised = FALSE

Step == /\ pc <= Len(plan)
        /\ LET r == Do(plan[pc], recorders) IN
           /\ recorders' = r[1]
           /\ raised' = (raised \/ r[2])
        /\ pc' = pc + 1
        /\ UNCHANGED <<x509, detail, plan>>

Spec == Init /\ [][Step]_vars

Done == pc > Len(plan)
SwitchOnTotal == ~raised
OneLogRecorder == Count(recorders, "log") <= 1
LoggingOnWhenAsked ==
  Done => ((\E i \in DOMAIN plan : plan[i] # "rec") <=> Has(recorders, "log"))
=============================================================================
