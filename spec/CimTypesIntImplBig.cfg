SPECIFICATION Spec
CONSTANTS
  InfExc = "ValueError"
  StringSlotLax = FALSE
  RangeCheck = TRUE
  AnyCimIntAsIs = FALSE
  Deltas <- DeltasBig
INVARIANT ImplWithinReq
CHECK_DEADLOCK FALSE
