\* regression config: parser.file not restored after an include returns (must violate PositionFileOK)
SPECIFICATION Spec
CONSTANTS
  MaxProd = 1
  MaxDepth = 6
  OnlyKinds = {"garbage"}
  IncludeGuard = TRUE
  NsNoneCheck = TRUE
  HexBounds = TRUE
  CtxBounds = TRUE
  ValueWrapped = TRUE
  RepoWrapped = TRUE
  EmbFinally = TRUE
  RestoreOnReturn = FALSE
  EmbRestoreAll = TRUE
  SuperCheckFirst = TRUE
  AncestryWalk = TRUE
  GuardCanonical = TRUE
  RegisterAfterCreate = TRUE
  NsCachesInit = TRUE
  EmbNullChecked = TRUE
  OverflowWrapped = TRUE
  InstOffsetAll = TRUE
  OpenPrecheck = TRUE
  EmbLexerClone = TRUE
INVARIANT TypeOK
INVARIANT ImplRefinesReq
INVARIANT PositionFileOK
INVARIANT Reusable

CHECK_DEADLOCK FALSE
