\* all sequences of 3 requests over the single-deviation classes (39)
SPECIFICATION Spec
CONSTANTS
  MaxReq = 3
  Alphabet <- UpTo1
  San = TRUE
  ClChk = TRUE
  Threaded = TRUE
  FinalValid = FALSE
  QCap = 0
  Gating = FALSE
  QfRet = TRUE
  Echo = "xml10"
  PName = "exact"
  Deep = "caught"
  LexG = "full"
INVARIANT InvAllClauses
INVARIANT InvNeverStuck
INVARIANT InvDelivered
INVARIANT InvNoSpurious
CHECK_DEADLOCK FALSE
