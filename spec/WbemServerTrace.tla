--------------------------- MODULE WbemServerTrace ---------------------------
(* X06 - trace validation for the WBEMServer object: every recorded event  *)
(* of the real code (attribute access / create_namespace / delete_namespace*)
(* / get_selected_profiles against a pywbem_mock server built from the     *)
(* world of the first event) is judged against the requirement machine     *)
(* WbemServer (verdicts).  The code-shaped WbemServerImplOps (with the     *)
(* defects of the pinned code switched on) is followed in lock step and    *)
(* compared including spellings and status codes (impl drift only).        *)
EXTENDS WbemServerImplOps, Json, IOUtils

VARIABLES tid, l, verdict, ts, ti, drifted

D(name, same) == IF same THEN {} ELSE {name}
NmSet(q) == {NmOf(q[j]) : j \in DOMAIN q}
Impl0 == [w |-> InitState.w, v |-> Server0(InitState.w), c |-> Client0]

ViewCmp(wd, sv, cl, view) ==
  LET r == EnsureNamespaces(wd, sv, cl) IN
  <<D("view.kind", view.k = r[1].k)
    \cup D("view.names", r[1].k # "ok" \/ view.k # "ok" \/ NmSet(view.names) = r[2].nss),
    r[2]>>

ImplCmp(i, e) ==
  CASE e.op = "world" ->
         <<{}, [w |-> e.w, v |-> Server0(e.w), c |-> Client0]>>
    [] e.op = "new" -> <<{}, [i EXCEPT !.c = Client0]>>
    [] e.op = "interop" ->
         LET r == DetermineInterop(i.w, i.v, i.c) IN
         <<D("interop.kind", e.res.k = r[1].k)
           \cup D("interop.name", r[1].k # "ok" \/ e.res.k # "ok" \/
                  Nm(e.res.id, e.res.cs) = r[2].interop[1]),
           [i EXCEPT !.c = r[2]]>>
    [] e.op \in {"namespaces", "classname", "paths"} ->
         LET r == EnsureNamespaces(i.w, i.v, i.c)
             both == r[1].k = "ok" /\ e.res.k = "ok" IN
         <<D(e.op \o ".kind", e.res.k = r[1].k)
           \cup D(e.op \o ".value",
                  ~both \/
                  (CASE e.op = "namespaces" -> NmSet(e.res.names) = r[2].nss
                     [] e.op = "classname" -> e.res.cls = r[2].cls
                     [] OTHER -> NmSet(e.res.names) = r[2].paths)),
           [i EXCEPT !.c = r[2]]>>
    [] e.op \in {"create", "delete"} ->
         LET r == IF e.op = "create" THEN ImplCreate(i.w, i.v, i.c, e.n)
                  ELSE ImplDelete(i.w, i.v, i.c, e.n)
             vc == ViewCmp(i.w, r[2], r[3], e.view) IN
         <<D(e.op \o ".kind", e.res.k = r[1].k)
           \cup D(e.op \o ".code", e.res.code = r[1].code)
           \cup D(e.op \o ".ret", e.res.k # "ok" \/ r[1].k # "ok" \/ e.res.ret = r[1].ret)
           \cup D(e.op \o ".server", NmSet(e.srvns) = r[2].ns)
           \cup vc[1],
           [i EXCEPT !.v = r[2], !.c = vc[2]]>>
    [] e.op \in {"brand", "version"} ->
         LET r == ImplBrandOp(i.w, i.v, i.c, e.op) IN
         <<D(e.op \o ".kind", e.res.k = r[1].k)
           \cup D(e.op \o ".value", e.res.k # "ok" \/ r[1].k # "ok" \/ e.res.val = r[1].val),
           [i EXCEPT !.c = r[2]]>>
    [] e.op = "profiles" ->
         LET r == DetermineInterop(i.w, i.v, i.c) IN
         <<D("profiles.kind", e.res.k = r[1].k), [i EXCEPT !.c = r[2]]>>
    [] e.op = "select" ->
         LET r == ImplSelect(i.w, i.v, i.c, e.org, e.name, e.ver) IN
         <<D("select.kind", e.res.k = r[1].k)
           \cup D("select.ids", e.res.k # "ok" \/ r[1].k # "ok" \/ Rng(e.res.ids) = r[1].ids),
           [i EXCEPT !.c = r[2]]>>
    [] OTHER -> <<{}, i>>

TraceBatch == JsonDeserialize(IOEnv.TRACE_FILE).traces

TK == INSTANCE TraceKit WITH
        TTraces <- TraceBatch,
        TInit0 <- InitState, TFails <- Fails, TApply <- Apply,
        TInv <- WellFormed,
        TImpl0 <- Impl0, TImplStep <- ImplCmp
TSpec == TK!TSpec
=============================================================================
