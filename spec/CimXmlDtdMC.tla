----------------------------- MODULE CimXmlDtdMC -----------------------------
(***************************************************************************)
(* C03 - model check of the DTD oracle itself.                             *)
(* For every element of the (generated) DSP0203 table and every word of    *)
(* child names up to MaxLen over the symbols of its content model plus one *)
(* foreign name, the derivative matcher used on documents agrees with the  *)
(* declarative end-position semantics.  ASSUMEs: every content model is    *)
(* satisfiable, refers to declared elements only, attribute sets disjoint. *)
(* Regression switch Variant = "peg": an ordered-choice/greedy matcher     *)
(* without backtracking (a realistic shortcut) must be caught              *)
(* (INSTANCENAME (KEYBINDING* | KEYVALUE? | VALUE.REFERENCE?)).            *)
(***************************************************************************)
EXTENDS CimXmlDtd

CONSTANTS MaxLen, Variant

VARIABLES el, w

Foreign == "#foreign"
Words(S, n) == UNION {[1..k -> S] : k \in 0..n}

(* committed-choice matcher: returns one end position or 0 *)
RECURSIVE PegEnd(_, _, _), PegSeq(_, _, _, _), PegAlt(_, _, _, _), PegStar(_, _, _)
PegEnd(r, v, i) ==
  CASE r.k = "sym" -> IF i <= Len(v) /\ v[i] = r.s THEN i + 1 ELSE 0
    [] r.k = "eps" -> i
    [] r.k = "null" -> 0
    [] r.k = "any" -> Len(v) + 1
    [] r.k = "seq" -> PegSeq(r.a, 1, v, i)
    [] r.k = "alt" -> PegAlt(r.a, 1, v, i)
    [] r.k = "opt" -> LET j == PegEnd(r.x, v, i) IN IF j = 0 THEN i ELSE j
    [] r.k = "star" -> PegStar(r.x, v, i)
    [] r.k = "plus" -> LET j == PegEnd(r.x, v, i) IN
                       IF j = 0 THEN 0 ELSE PegStar(r.x, v, j)
PegSeq(a, n, v, i) ==
  IF n > Len(a) THEN i
  ELSE LET j == PegEnd(a[n], v, i) IN
       IF j = 0 THEN 0 ELSE PegSeq(a, n + 1, v, j)
PegAlt(a, n, v, i) ==
  IF n > Len(a) THEN 0
  ELSE LET j == PegEnd(a[n], v, i) IN
       IF j # 0 THEN j ELSE PegAlt(a, n + 1, v, i)
PegStar(x, v, i) ==
  LET j == PegEnd(x, v, i) IN
  IF j = 0 \/ j = i THEN i ELSE PegStar(x, v, j)
MatchesPeg(r, v) == PegEnd(r, v, 1) = Len(v) + 1

Used(r, v) == IF Variant = "peg" THEN MatchesPeg(r, v) ELSE Matches(r, v)

Init == /\ el \in DtdElements
        /\ w \in Words(Symbols(DtdTable[el].content) \cup {Foreign}, MaxLen)
Next == UNCHANGED <<el, w>>
Spec == Init /\ [][Next]_<<el, w>>

Agree == Used(DtdTable[el].content, w) = MatchesD(DtdTable[el].content, w)

ForeignRejected ==
  (\E i \in DOMAIN w : w[i] = Foreign) => ~Matches(DtdTable[el].content, w)

ASSUME DOMAIN DtdTable = DtdElements
ASSUME \A e \in DtdElements :
         /\ Symbols(DtdTable[e].content) \subseteq DtdElements
         /\ DtdTable[e].req \cap DtdTable[e].opt = {}
         /\ DOMAIN DtdTable[e].enum \subseteq DtdTable[e].req \cup DtdTable[e].opt
         /\ DtdTable[e].tok \subseteq DtdTable[e].req \cup DtdTable[e].opt
         /\ (DtdTable[e].pcdata \/ DtdTable[e].empty => DtdTable[e].content = REmpty)
         /\ \E v \in Words(Symbols(DtdTable[e].content), 2) :
               Matches(DtdTable[e].content, v)
=============================================================================
