\* every request class, one request: the repaired code shape meets every clause
SPECIFICATION Spec
CONSTANTS
  MaxReq = 1
  Alphabet <- AllRequests
  San = TRUE
  ClChk = TRUE
  Threaded = TRUE
  FinalValid = FALSE
  QCap = 0
  Gating = FALSE
  QfRet = TRUE
  Echo = "xml10"
  PName = "exact"
  Deep = "caught"
  LexG = "full"
INVARIANT InvAllClauses
INVARIANT InvNeverStuck
INVARIANT InvDelivered
INVARIANT InvNoSpurious
CHECK_DEADLOCK FALSE
