---------------------------- MODULE PullSrvTrace ----------------------------
(***************************************************************************)
(* Trace validation (code -> spec) for C14: a batch of traces recorded     *)
(* from the real mock server is checked against the requirement machine    *)
(* PullSrv, evaluating every clause and every session invariant at every   *)
(* step.  Verdicts are total: a trace ends with                            *)
(*    <<"V", tid, "ok", n>>  or  <<"V", tid, "rej", i, {clause names}>>    *)
(* In lock step the code-shaped machine PullSrvImpl computes its own       *)
(* response; a difference is reported as <<"D", tid, i, what>> (impl_drift,*)
(* never a violation).                                                     *)
(***************************************************************************)
EXTENDS PullSrvImpl, Json, IOUtils

Batch == JsonDeserialize(IOEnv.TRACE_FILE)
Traces == Batch.traces
NT == Len(Traces)

VARIABLES tid, l, verdict
tvars == <<si, s, bad, hist, pick, tid, l, verdict>>

TInit == /\ tid \in 1..NT /\ l = 1 /\ verdict = "run"
         /\ si = ImplInit /\ s = InitState(Nss, Srvs) /\ bad = {} /\ hist = <<>>
         /\ pick = NoPick

CallOf(e) == Call(e.op, e.srv, e.k, e.ns, e.all,
                  IF e.op = "SetPull" THEN e.ok ELSE e.tradok, e.m, e.id, e.ot, e.coe,
                  e.flt)

Drift(e, r, st2) ==
  IF e.op \in {"RemoveNs", "SetPull"} THEN {}
  ELSE F("ok", e.ok = r.ok)
       \cup (IF e.ok /\ r.ok
             THEN F("objs", e.objs = r.objs) \cup F("eos", e.eos = r.eos)
                  \cup F("ctxpresent", (e.ctx = 0) = (r.ctx = 0))
             ELSE {})
       \cup F("nctx", e.nctx = -1 \/ e.nctx = Cardinality(DOMAIN st2.ctx[T(e.srv)]))

TNext ==
  /\ verdict = "run"
  /\ UNCHANGED <<tid, hist, pick>>
  /\ IF l > Len(Traces[tid])
     THEN /\ verdict' = "ok"
          /\ PrintT(<<"V", tid, "ok", l - 1>>)
          /\ UNCHANGED <<si, s, bad, l>>
     ELSE LET e == Traces[tid][l]
              fl == Fails(s, e) \cup
                    (IF SessionInv(Apply(s, e)) THEN {} ELSE {"SessionInvariant"})
              rs == ImplStep(si, CallOf(e))
              dr == Drift(e, rs[1], rs[2]) IN
          IF fl = {}
          THEN /\ s' = Apply(s, e)
               /\ l' = l + 1
               /\ bad' = bad
               \* follow the real server for the impl state when it drifted
               /\ si' = rs[2]
               /\ (IF dr = {} THEN TRUE ELSE PrintT(<<"D", tid, l, dr>>))
               /\ UNCHANGED verdict
          ELSE /\ verdict' = "rej"
               /\ PrintT(<<"V", tid, "rej", l, fl>>)
               /\ UNCHANGED <<si, s, bad, l>>

TSpec == TInit /\ [][TNext]_tvars
=============================================================================
