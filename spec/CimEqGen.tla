------------------------------ MODULE CimEqGen ------------------------------
(***************************************************************************)
(* Enumeration for the C05 binding (spec -> code).  TLC prints             *)
(*   <<"OBJ", kind, id, node>>           every object of the universe      *)
(*   <<"NEAR", kind, i, j, AbsEq>>       the pairs that are not plainly    *)
(*        different: AbsEq # "F", or one attribute / one name / only the   *)
(*        children apart (the harness adds a seeded sample of the others)  *)
(*   <<"CLS", kind, {ids}>>              the classes of the coarsest       *)
(*        admissible == (loose canon) with > 1 member: source of triples   *)
(*   <<"SHAPE", kind, id, shape>>        the cell structure of the object  *)
(*        as the copy requirement sees it: per child group the number of   *)
(*        bag entries (and whether one has the value None, whether one is  *)
(*        stored under the unnamed key None) or the shape of               *)
(*        the value slot (absent / none / scalar / EMPTY array / array /   *)
(*        object / array of objects / datetime value, by value);           *)
(*        the harness copies and mutates at                                *)
(*        least one object of every (kind, shape) class                    *)
(* The harness builds real objects from the nodes; every observed vector   *)
(* goes back to TLC (CimEqTrace) for the verdict.                          *)
(***************************************************************************)
EXTENDS CimEqU, SequencesExt

CONSTANT GenKinds

Apart(a, b) ==
  \/ /\ a.nm = b.nm /\ a.ch = b.ch /\ Len(a.at) = Len(b.at)
     /\ Cardinality({i \in 1..Len(a.at) : a.at[i] # b.at[i]}) = 1
  \/ /\ a.at = b.at /\ a.ch = b.ch
     /\ Cardinality({i \in 1..Len(a.nm) : a.nm[i].b # b.nm[i].b}) = 1
  \/ /\ a.at = b.at /\ a.ch # b.ch /\ (Len(a.nm) > 0 \/ a.k = "NocaseDict")
     /\ \A i \in 1..Len(a.nm) : a.nm[i].b = b.nm[i].b

SlotShape(g) ==
  IF g = <<>> THEN "absent"
  ELSE LET v == g[1].n IN
       IF v.k = "S" THEN (IF IsNone(v) THEN "none" ELSE "scalar")
       ELSE IF v.k = "DateTime" THEN "datetime:" \o v.at[5]
       ELSE IF v.k = "L"
       THEN (IF v.ch[1] = <<>> THEN "empty-array"
             ELSE IF v.ch[1][1].n.k = "DateTime"
             THEN "array-of-datetime:" \o v.ch[1][1].n.at[5]
             ELSE IF v.ch[1][1].n.k = "S" THEN "array"
             ELSE "array-of-objects")
       ELSE "object"
RECURSIVE DeepDt(_), DeepDtG(_, _, _)
DeepDt(n) ==      \* text of the first datetime value held at or below n, or ""
  IF n.k = "DateTime" THEN n.at[5] ELSE DeepDtG(n, 1, 1)
DeepDtG(n, g, i) ==
  IF g > Len(n.ch) THEN ""
  ELSE IF i > Len(n.ch[g]) THEN DeepDtG(n, g + 1, 1)
  ELSE LET x == DeepDt(n.ch[g][i].n) IN
       IF x # "" THEN x ELSE DeepDtG(n, g, i + 1)
BagShape(g) ==
  ToString(Len(g)) \o (IF \E i \in 1..Len(g) : IsNone(g[i].n)
                        THEN "+none" ELSE "")
                  \o (IF \E i \in 1..Len(g) : g[i].key = NoName
                        THEN "+unnamed" ELSE "")
(* a CIMDateTime is an immutable leaf: its own class is the value itself   *)
(* (every datetime of the universe, in particular every field-boundary     *)
(* class, is copied every way, stand-alone and inside each holder)         *)
CopyShape(n) ==
  IF n.k = "DateTime" THEN <<n.at[5]>>
  ELSE [g \in 1..Len(n.ch) |->
          IF IsBag(n.k, g) THEN BagShape(n.ch[g]) ELSE SlotShape(n.ch[g])]
       \o (IF DeepDt(n) = "" THEN <<>> ELSE <<"holds " \o DeepDt(n)>>)

Emit(k) ==
  LET s == SetToSeq(U(k))
      n == Len(s)
      lc == [i \in 1..n |-> Canon(s[i], "loose", "", "")] IN
  /\ \A i \in 1..n : PrintT(<<"OBJ", k, i, s[i]>>)
  /\ \A i \in 1..n : PrintT(<<"SHAPE", k, i, CopyShape(s[i])>>)
  /\ \A i \in 1..n : \A j \in (i + 1)..n :
       LET e == AbsEq(s[i], s[j]) IN
       (e # "F" \/ Apart(s[i], s[j])) => PrintT(<<"NEAR", k, i, j, e>>)
  /\ \A i \in 1..n :
       LET cl == {j \in 1..n : lc[j] = lc[i]} IN
       (Cardinality(cl) > 1 /\ \A j \in cl : j >= i) => PrintT(<<"CLS", k, cl>>)

ASSUME \A k \in GenKinds : Emit(k)
=============================================================================
