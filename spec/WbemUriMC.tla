----------------------------- MODULE WbemUriMC -----------------------------
(***************************************************************************)
(* TLC: the four laws of C07 on the code-shaped Print / Parse of WbemUri   *)
(* for EVERY abstract path of a structured small-scope universe:           *)
(*   U1 all header shapes (host kinds incl. IPv6+port / userinfo, multi-   *)
(*      level namespaces, class) x instance / class path                   *)
(*   U2 one key x every string over the 13-class alphabet up to StrLen,    *)
(*      special strings (datetime / URI look-alikes), every typed value    *)
(*   U3 two keys, all case variants of the key names, reduced value set    *)
(*   U4 nested references to depth 3                                       *)
(* stage 0: <<p, fmt>>   laws (i) round trip, (ii) canonical, (iii) printed*)
(*          URI accepted  (+ cimobject = path without host)                *)
(* stage 1: a single-symbol mutation (substitute / insert / delete) of the *)
(*          printed URI: (iv) both parsers return a path or ValueError     *)
(* With EMIT_FILE set, the universe with the printed texts is written as   *)
(* JSON for the harness (which concretises every path, and applies the     *)
(* Mutations operator to the texts to drive the real parsers).             *)
(***************************************************************************)
EXTENDS WbemUri, Json, IOUtils, FiniteSetsExt

CONSTANTS V,            \* design variant (record, see WbemUri)
          StrLen,       \* strings up to this length, exhaustively
          MutFmts,      \* formats whose printed URIs are mutated
          MutAll        \* TRUE: mutate all of the universe, FALSE: U1+U3+U4

FmtsStdHist == {"standard", "historical"}
FmtsAll == AllFmts

(* ------------------------------ universe ------------------------------- *)
Str(s) == Val("string", "", s, <<>>)
IntV(w, s) == Val("int", w, s, <<>>)
RealV(w, s) == Val("real", w, s, <<>>)
Ref(p) == Val("reference", "", <<>>, <<p>>)
Inst(hh, h, hn, n, c, kb) == Path("inst", hh, h, hn, n, c, kb)

(* host kinds: none, DNS name, dotted name + port, IPv6 literal without    *)
(* letters + port, IPv6 literal with hex letters of both cases + port,     *)
(* userinfo                                                                *)
(* DNS name with a hyphen inside a label                                   *)
HyHost == <<"a", "mi", "B", "dot", "a">>
(* IPv6 literal with a zone ID, delimiter %25 (RFC 6874), + port           *)
ZoneHost == <<"lb", "H", "N1", "col", "col", "h", "pz", "a", "rb", "col",
              "N5">>
Hosts == {<<>>, <<"a">>, <<"A", "dot", "b", "col", "N5">>, ZoneHost,
          <<"lb", "col", "col", "N1", "rb", "col", "N5">>,
          <<"lb", "H", "N1", "col", "col", "h", "rb", "col", "N5">>,
          <<"a", "col", "b", "at", "A">>, HyHost}
Ip6NoPort == <<"lb", "h", "H", "col", "col", "H", "rb">>
Nss == {<<>>, <<"a">>, <<"A", "sl", "b">>, <<"a", "sl", "B", "sl", "a">>}
Clss == {<<"a">>, <<"A", "b">>}
One == <<KB(<<"a">>, IntV("py", <<"N1">>))>>

U1 == {Path(k, h # <<>>, h, n # <<>>, n, c, IF k = "inst" THEN One ELSE <<>>) :
         k \in {"inst", "class"}, h \in Hosts, n \in Nss, c \in Clss}

StrAlpha == {"a", "A", "dq", "bs", "com", "eq", "lf", "dot", "col", "sl",
             "sp", "N1", "sq"}
Strings == UNION {[1..k -> StrAlpha] : k \in 0..StrLen}
Special == {<<"DT">>, <<"DT", "a">>, <<"a", "DT">>, <<"DT", "lf">>,
            <<"DI">>, <<"DTs">>, <<"DIs">>, <<"DTs", "a">>, <<"a", "DIs">>,
            <<"DIs", "lf">>,
            <<"a", "dot", "a", "eq", "N1">>,
            <<"sl", "col", "a", "dot", "a", "eq", "N1">>,
            <<"a", "col", "A", "dot", "a", "eq", "T">>,
            <<"a", "dot", "a", "eq", "dq", "a", "dq">>,
            <<"a", "dot", "a", "eq", "N1", "ex">>,
            <<"a", "dot", "a", "eq", "dq", "a", "lf", "dq">>,
            <<"a", "dot", "b", "eq", "a">>, <<"a", "dot", "a", "eq">>,
            <<"N1", "dot", "N5">>, <<"T">>, <<"INF">>, <<"N1", "ex">>,
            <<"a", "lf", "lf", "b">>, <<"bs", "dq", "bs", "bs", "dq">>}
Ints == {IntV("py", <<"N0">>), IntV("py", <<"N1">>), IntV("py", <<"mi", "N1">>),
         IntV("py", <<"N18446744073709551615">>),
         IntV("py", <<"mi", "N9223372036854775808">>),
         IntV("uint8", <<"N0">>), IntV("uint8", <<"N255">>),
         IntV("sint8", <<"mi", "N128">>), IntV("sint8", <<"N127">>),
         IntV("uint16", <<"N65535">>), IntV("sint16", <<"mi", "N32768">>),
         IntV("sint16", <<"N32767">>), IntV("uint32", <<"N4294967295">>),
         IntV("sint32", <<"mi", "N2147483648">>),
         IntV("sint32", <<"N2147483647">>),
         IntV("uint64", <<"N18446744073709551615">>),
         IntV("sint64", <<"mi", "N9223372036854775808">>),
         IntV("sint64", <<"N9223372036854775807">>)}
(* {plain, negative} x {no exponent, e+, e-} with a fraction; exponent    *)
(* without fraction with both signs                                        *)
RealLits == {<<"N1", "dot", "N5">>, <<"mi", "N1", "dot", "N5">>,
             <<"N1", "dot", "N5", "ex">>, <<"N1", "ex">>, <<"N1", "ex2">>,
             <<"mi", "N1", "dot", "N5", "ex2">>,
             <<"mi", "N1", "dot", "N5", "ex">>, <<"N1", "dot", "N5", "ex2">>,
             <<"INF">>, <<"mi", "INF">>, <<"NAN">>}
Reals == {RealV(w, s) : w \in {"py", "real32", "real64"}, s \in RealLits}
Others == {Val("boolean", "", <<"T">>, <<>>), Val("boolean", "", <<"F">>, <<>>),
           Val("datetime", "", <<"DT">>, <<>>),
           Val("datetime", "", <<"DI">>, <<>>),
           Val("datetime", "", <<"DTs">>, <<>>),
           Val("datetime", "", <<"DIs">>, <<>>)}
          \* char16-typed keys (pywbem.Char16 objects) over the whole string
          \* alphabet (incl. both quotes, backslash, newline)
          \cup {Val("char16", "", <<c>>, <<>>) : c \in StrAlpha}
Values == {Str(s) : s \in Strings \cup Special} \cup Ints \cup Reals
          \cup Others
U2 == {Inst(FALSE, <<>>, FALSE, <<>>, <<"A">>, <<KB(<<"a">>, v)>>) :
         v \in Values}
      \cup {Inst(TRUE, <<"a">>, TRUE, <<"a", "sl", "B">>, <<"b">>,
                 <<KB(<<"B">>, v)>>) : v \in Values}

(* reduced value set for combinations                                      *)
Reduced == {Str(<<"dq">>), Str(<<"bs", "a">>), Str(<<"com", "a", "eq">>),
            Str(<<"A">>), IntV("uint8", <<"N5">>), RealV("py", <<"N1", "dot", "N5">>),
            Val("boolean", "", <<"T">>, <<>>),
            Val("datetime", "", <<"DT">>, <<>>)}
U3 == {Inst(FALSE, <<>>, TRUE, <<"a">>, <<"a">>, <<KB(k1, v1), KB(k2, v2)>>) :
         k1 \in {<<"a">>, <<"A">>, <<"a", "B">>},
         k2 \in {<<"b">>, <<"B">>, <<"A", "a">>},
         v1 \in Reduced, v2 \in Reduced}
      \cup {Inst(FALSE, <<>>, FALSE, <<>>, <<"a">>,
                 <<KB(<<"b">>, v), KB(<<"B", "a">>, v), KB(<<"a">>, v)>>) :
              v \in Reduced}

(* nested references, depth 3                                              *)
Inner3 == {Inst(FALSE, <<>>, hn, IF hn THEN <<"a">> ELSE <<>>, <<"b">>,
                <<KB(<<"a">>, v)>>) :
             hn \in BOOLEAN,
             v \in {Str(<<"dq">>), Str(<<"bs">>), Str(<<"A">>),
                    Str(<<"a", "lf">>), IntV("py", <<"N1">>),
                    RealV("py", <<"N1", "dot", "N5", "ex">>),
                    Val("datetime", "", <<"DI">>, <<>>),
                    Val("datetime", "", <<"DTs">>, <<>>),
                    Val("char16", "", <<"sq">>, <<>>)}}
Inner2 == {Inst(h # <<>>, h, h # <<>>, IF h # <<>> THEN <<"a">> ELSE <<>>,
                <<"B">>, <<KB(<<"A">>, v)>>) :
             h \in {<<>>, <<"A">>, Ip6NoPort},
             v \in {Ref(q) : q \in Inner3} \cup {Str(<<"dq", "bs">>)}}
U4 == {Inst(FALSE, <<>>, TRUE, <<"a">>, <<"a">>, kb) :
         kb \in {<<KB(<<"a">>, Ref(q))>> : q \in Inner2 \cup Inner3}
                \cup {<<KB(<<"B">>, Ref(q)), KB(<<"a">>, Str(<<"eq">>))>> :
                        q \in Inner3}
                \* a reference to a path on a host with a hyphen
                \cup {<<KB(<<"a">>,
                           Ref(Inst(TRUE, HyHost, TRUE, <<"a">>, <<"B">>,
                                    One)))>>}
                \* a reference to a path on an IPv6 host with a zone ID
                \cup {<<KB(<<"a">>,
                           Ref(Inst(TRUE, ZoneHost, TRUE, <<"a">>, <<"B">>,
                                    One)))>>}
                \* a reference next to a reduced precision datetime key
                \cup {<<KB(<<"b">>, Ref(q)),
                        KB(<<"A">>, Val("datetime", "", <<"DIs">>, <<>>))>> :
                        q \in Inner3}}

Universe == U1 \cup U2 \cup U3 \cup U4
MutUniverse == IF MutAll THEN Universe ELSE U1 \cup U3 \cup U4

(* ------------------------------ variants of a path --------------------- *)
Flip(c) == CASE c = "a" -> "A" [] c = "A" -> "a" [] c = "b" -> "B"
             [] c = "B" -> "b" [] c = "h" -> "H" [] c = "H" -> "h"
             [] OTHER -> c
FlipSeq(q) == [i \in DOMAIN q |-> Flip(q[i])]
UpSeq(q) == [i \in DOMAIN q |-> IF q[i] = "a" THEN "A"
                                ELSE IF q[i] = "b" THEN "B"
                                ELSE IF q[i] = "h" THEN "H" ELSE q[i]]

(* G in {Flip, Up, Lower} applied to every name, recursively, and the      *)
(* keybinding order reversed                                               *)
RECURSIVE Recase(_, _)
RecaseSeq(g, q) == CASE g = "flip" -> FlipSeq(q) [] g = "up" -> UpSeq(q)
                     [] OTHER -> LowerSeq(q)
RecaseKb(g, kb) ==
  Reverse([i \in DOMAIN kb |->
             KB(RecaseSeq(g, kb[i].k),
                IF kb[i].v.t = "reference"
                THEN Val("reference", "", <<>>, <<Recase(g, kb[i].v.r[1])>>)
                ELSE kb[i].v)])
Recase(g, p) ==
  Path(p.kind, p.hashost, RecaseSeq(g, p.host), p.hasns, RecaseSeq(g, p.ns),
       RecaseSeq(g, p.cls), RecaseKb(g, p.kb))
Variants(p) == {Recase(g, p) : g \in {"flip", "up", "low"}}

(* ------------------------------ mutations ------------------------------ *)
MutSyms == {"a", "A", "N1", "N0", "sl", "col", "dot", "eq", "com", "dq", "sq",
            "bs", "lf", "sp", "mi", "lb", "at", "ot", "T", "DT", "ex",
            "DTs"}
Mutations(t) ==
  {[i \in 1..Len(t) |-> IF i = k THEN c ELSE t[i]] :
     k \in 1..Len(t), c \in MutSyms}
  \cup {SubSeq(t, 1, k) \o <<c>> \o SubSeq(t, k + 1, Len(t)) :
          k \in 0..Len(t), c \in MutSyms}
  \cup {SubSeq(t, 1, k - 1) \o SubSeq(t, k + 1, Len(t)) : k \in 1..Len(t)}

(* ------------------------------ machine -------------------------------- *)
VARIABLES stage, p, fmt, m
vars == <<stage, p, fmt, m>>

Init == stage = 0 /\ p \in Universe /\ fmt \in AllFmts /\ m = <<>>
Next == /\ stage = 0 /\ fmt \in MutFmts /\ p \in MutUniverse
        /\ stage' = 1 /\ p' = NoPath /\ fmt' = ""
        /\ m' \in Mutations(PrintU(V, p, fmt))
Spec == Init /\ [][Next]_vars
(* emission only (no exploration)                                          *)
EmitSpec == (stage = 2 /\ p = NoPath /\ fmt = "" /\ m = <<>>) /\ [][FALSE]_vars

Txt == PrintU(V, p, fmt)
Parsed == ParseU(V, p.kind, Txt)

(* (iii) every printed URI is in the parser's language                     *)
PrintedAccepted == stage = 0 => Parsed.ok
(* (i) round trip up to exactly the three documented losses                *)
RoundTrip == (stage = 0 /\ fmt \in RoundTripFmts) =>
               (Parsed.ok /\ PathApprox(p, Parsed.p))
(* the CIMObject header value denotes the path without its host (the      *)
(* code applies the format recursively, so nested hosts are dropped too)   *)
RECURSIVE DropHost(_)
DropHost(q) ==
  Path(q.kind, FALSE, <<>>, q.hasns, q.ns, q.cls,
       [i \in DOMAIN q.kb |->
          KB(q.kb[i].k, IF q.kb[i].v.t = "reference"
                        THEN Val("reference", "", <<>>,
                                 <<DropHost(q.kb[i].v.r[1])>>)
                        ELSE q.kb[i].v)])
CimObject == (stage = 0 /\ fmt = "cimobject") =>
               (Parsed.ok /\ PathApprox(DropHost(p), Parsed.p))
(* (ii) equal up to case / order  =>  identical canonical URI             *)
Canonical == (stage = 0 /\ fmt = "canonical") =>
               \A q \in Variants(p) : PathSame(p, q) /\ Canon(V, q) = Txt
(* (iv) parser totality on single-symbol mutations                         *)
Total == stage = 1 =>
           /\ ParseInst(V, m).ok \/ ParseInst(V, m).err = "ValueError"
           /\ ParseClass(V, m).ok \/ ParseClass(V, m).err = "ValueError"

(* the exempt strings are exactly the look-alikes (vacuity guard)          *)
ASSUME Exempt(<<"DT">>) /\ Exempt(<<"a", "dot", "a", "eq", "N1">>)
       /\ Exempt(<<"DIs">>) /\ ~Exempt(<<"DTs", "a">>)
       /\ ~Exempt(<<"DT", "a">>) /\ ~Exempt(<<"a", "dot", "b", "eq", "a">>)
       /\ ~Exempt(<<"a", "lf">>) /\ ~Exempt(<<>>)

(* ------------------------------ emission ------------------------------- *)
ASSUME "EMIT_FILE" \notin DOMAIN IOEnv \/ IOEnv.EMIT_FILE = "" \/
       /\ JsonSerialize(IOEnv.EMIT_FILE,
            [paths |-> SetToSeq({[p |-> q, mut |-> q \in MutUniverse,
                                  text |-> [f \in AllFmts |-> PrintU(V, q, f)]] :
                                   q \in Universe}),
             mutsyms |-> SetToSeq(MutSyms)])
       /\ PrintT(<<"EMITTED", Cardinality(Universe)>>)
=============================================================================
