SPECIFICATION Spec
CONSTANTS
  V <- VFixed
  StrLen = 3
  MutFmts <- FmtsAll
  MutAll = FALSE
INVARIANT PrintedAccepted
INVARIANT RoundTrip
INVARIANT CimObject
INVARIANT Canonical
INVARIANT Total
CHECK_DEADLOCK FALSE
