--------------------------- MODULE NocaseMapSeqTrace ---------------------------
(* X05: trace validation of NocaseList histories recorded from the real code  *)
(* against NocaseMapSeq (verdicts), with the code-shaped NocaseMapSeqImplOps  *)
(* followed in lock step (drift only).                                        *)
EXTENDS NocaseMapSeqImplOps, Json, IOUtils

VARIABLES tid, l, verdict, ts, ti, drifted

TraceBatch == JsonDeserialize(IOEnv.TRACE_FILE).traces

TK == INSTANCE TraceKit WITH
        TTraces <- TraceBatch,
        TInit0 <- InitState, TFails <- Fails, TApply <- Apply,
        TInv <- LAMBDA st : TRUE,
        TImpl0 <- Impl0, TImplStep <- ImplCmp
TSpec == TK!TSpec
=============================================================================
