------------------------- MODULE CimTypesDateTimeMC -------------------------
(***************************************************************************)
(* TLC: the print/parse laws of C06 on the transcribed CIMDateTime          *)
(* algorithms, for every abstract value over the boundary classes of every  *)
(* field, every UTC offset class and every legal precision, and closure of  *)
(* the law under single-symbol mutations of valid strings; a value given as *)
(* a datetime object prints as its DSP0004 string under every tzinfo        *)
(* carrier class (CtorHolds).                                               *)
(* The value space is explored in two stages (group, member) so that the    *)
(* work spreads over the workers.  With EMIT_DIR set, the values / strings  *)
(* the harness must drive through the real code are written as JSON.        *)
(***************************************************************************)
EXTENDS CimTypesDateTime, Json, IOUtils, FiniteSetsExt, SequencesExt

CONSTANTS Years, Months, DaysOfMonth, Hours, Minutes, Seconds, Usecs,
          IvDays, IvHours, Offsets

YearsS == {1, 2000, 9999}
YearsL == {1, 2000, 2023, 9999}
MonthsS == {1, 2, 12}
MonthsL == {1, 2, 6, 12}
DomS == {1, 28, 29, 31}
DomL == {1, 28, 29, 30, 31}
LowHighS(n) == {0, n}
LowHighL(n) == {0, 1, n \div 2, n - 1, n}
HoursS == LowHighS(23)
HoursL == LowHighL(23)
SixtyS == LowHighS(59)
SixtyL == LowHighL(59)
UsecsS == {0, 1, 123456, 999999}
UsecsL == {0, 1, 123456, 999990, 999999}
IvDaysS == {0, 1, 99999998, 99999999}
IvDaysL == {0, 1, 9, 10, 12345678, 99999990, 99999998, 99999999}
OffsetsAll == {-999, -721, -720, -1, 0, 1, 720, 721, 999} \cup WrapOffsets

VARIABLES stage, grp, item
vars == <<stage, grp, item>>

NoItem == [x |-> NoValue, m |-> << >>]

TsOf(y, mo) ==
  {Trunc(Ts(y, mo, q[1], q[2], q[3], q[4], q[5], q[6], q[7])) :
     q \in {r \in DaysOfMonth \X Hours \X Minutes \X Seconds \X Usecs
                  \X Offsets \X TsPrecs : r[1] <= DaysIn(y, mo)}}
IvOf(d) ==
  {Trunc(Iv(d, q[1], q[2], q[3], q[4], q[5])) :
     q \in IvHours \X Minutes \X Seconds \X Usecs \X IvPrecs}

(* values driven through the real constructors: all-minimum, all-maximum   *)
(* and a leap-day base with one field at a time at each boundary, under    *)
(* every offset and precision; every interval value                        *)
BaseTs == <<2000, 2, 29, 12, 30, 30, 123456>>
OneOff(i, val) == [BaseTs EXCEPT ![i] = val]
DriveFields ==
  {<<1, 1, 1, 0, 0, 0, 0>>, <<9999, 12, 31, 23, 59, 59, 999999>>, BaseTs}
  \cup {OneOff(1, 2024), OneOff(1, 4), OneOff(1, 9996)}  \* Feb 29 stays valid
  \cup {OneOff(2, 12), OneOff(2, 1), OneOff(3, 1), OneOff(3, 28)}
  \cup {OneOff(4, h) : h \in HoursL} \cup {OneOff(5, m) : m \in SixtyL}
  \cup {OneOff(6, s) : s \in SixtyL} \cup {OneOff(7, u) : u \in UsecsL}
DriveTs ==
  {Trunc(Ts(f[1], f[2], f[3], f[4], f[5], f[6], f[7], o, p)) :
     <<f, o, p>> \in {t \in DriveFields \X OffsetsAll \X TsPrecs :
                        t[1][3] <= DaysIn(t[1][1], t[1][2])}}

MutBase ==
  {Ts(2000, 2, 29, 23, 59, 59, 999999, -999, -1),
   Ts(1, 1, 1, 0, 0, 0, 0, 720, -1),
   Trunc(Ts(2024, 12, 31, 12, 30, 30, 123456, 0, 17)),
   Trunc(Ts(9999, 12, 31, 23, 59, 59, 999999, 1, 8)),
   Trunc(Ts(2023, 6, 15, 1, 1, 1, 1, -1, 4)),
   Iv(99999999, 23, 59, 59, 999999, -1),
   Iv(0, 0, 0, 0, 0, -1),
   Trunc(Iv(12345678, 12, 30, 30, 123456, 12)),
   Trunc(Iv(1, 1, 1, 1, 1, 19)),
   Trunc(Iv(5, 0, 0, 0, 0, 0))}
MutSeq == SetToSeq(MutBase)

Groups == {<<"ts", y, mo>> : <<y, mo>> \in Years \X Months}
          \cup {<<"iv", d, 0>> : d \in IvDays}
          \cup {<<"drive", 0, 0>>}
          \cup {<<"mut", i, 0>> : i \in 1..Len(MutSeq)}

Members(g) ==
  CASE g[1] = "ts" -> {[x |-> x, m |-> << >>] : x \in TsOf(g[2], g[3])}
    [] g[1] = "iv" -> {[x |-> x, m |-> << >>] : x \in IvOf(g[2])}
    [] g[1] = "drive" -> {[x |-> x, m |-> << >>] : x \in DriveTs}
    [] g[1] = "mut" -> {[x |-> MutSeq[g[2]], m |-> m] :
                          m \in Mutations(Str(MutSeq[g[2]]))}

(* the tzinfo carriers under which a value is given as a datetime object   *)
CarriersOf(it) ==
  IF it.m = << >> /\ it.x.kind = "ts" /\ it.x.prec = -1
  THEN {c \in TzCarriers : CarrierCan(c, it.x.off)} ELSE {}

EmitOn == "EMIT_DIR" \in DOMAIN IOEnv
Emit(g) ==
  IF ~EmitOn THEN TRUE
  ELSE IF g[1] = "ts" THEN TRUE
  ELSE /\ JsonSerialize(
            IOEnv.EMIT_DIR \o "/" \o g[1] \o ToString(g[2]) \o ".json",
            SetToSeq({[x |-> it.x, s |-> Str(it.x), m |-> it.m,
                       cs |-> SetToSeq(CarriersOf(it))] :
                        it \in Members(g)}))
       /\ (g[1] # "drive" \/
           JsonSerialize(
             IOEnv.EMIT_DIR \o "/carriers.tab",
             [c \in TzCarriers |->
                SetToSeq({o \in -999..999 : CarrierCan(c, o)})]))

Init == stage = 0 /\ grp \in Groups /\ item = NoItem
Next == /\ stage = 0
        /\ Emit(grp)
        /\ stage' = 1
        /\ grp' = grp
        /\ item' \in Members(grp)
Spec == Init /\ [][Next]_vars

IsValue == stage = 1 /\ item.m = << >>
RoundTrip == IsValue => (Expressible(item.x) /\ RoundTripLaw(item.x))
CopySame == IsValue => ImplCopy(item.x) = item.x
CtorHolds == (IsValue /\ item.x.kind = "ts" /\ item.x.prec = -1) =>
               \A c \in CarriersOf(item) : CtorLaw(c, item.x)
ParseClosed == (stage = 1 /\ item.m # << >>) => ParseClosedLaw(item.m)
=============================================================================
