SPECIFICATION Spec
CONSTANTS
  CopyObject = TRUE
  TypeOrder = "cimtype_first"
  MaxLen = 2
INVARIANT Emit
CHECK_DEADLOCK FALSE
