SPECIFICATION Spec
CONSTANTS
  K = 1
  Variant = {}
  Emit = TRUE
INVARIANTS EmitInv
CHECK_DEADLOCK FALSE
