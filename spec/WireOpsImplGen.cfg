SPECIFICATION Spec
CONSTANTS
  K = 1
  Variant = "fixed"
  Emit = TRUE
INVARIANTS EmitInv
CHECK_DEADLOCK FALSE
