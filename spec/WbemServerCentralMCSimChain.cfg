

SPECIFICATION Spec
CONSTANTS
  Variant = "code"
  PinnedAssert = TRUE
  EctpU <- EctpChain
  RpU <- RpChain
  A1U <- A1Chain
  A2U <- A2Chain
  MaxEdges = 11
  Modes1 <- OnlyUnsup
  ModesO <- OnlyImpl
  QuerySet = "scoping"
CHECK_DEADLOCK FALSE
