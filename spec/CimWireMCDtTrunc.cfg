\* Regression variant: CIMDateTime.minutes_from_utc computed as truncated hours * 60 + minutes
\* of the absolute value: a timestamp west of UTC by a non-whole number of hours is written with
\* another offset.  ImplMeetsReq must be VIOLATED.
SPECIFICATION Spec
CONSTANTS
  Types = {"datetime"}
  QualTypes = {"datetime"}
  KeyTypes = {"datetime"}
  Shapes = {"scalar", "v"}
  StrVals <- StrValsKey
  CharVals = {"ltr"}
  Names = {"a"}
  MaxEls = 2
  MaxDepth = 0
  MaxKids = 1
  MaxAttrs = 0
  Modes = {"entity"}
  W <- WDtTrunc
  RootKinds = {"prop", "ipath"}
  EmbPaths = FALSE
INVARIANT ImplMeetsReq
CHECK_DEADLOCK FALSE
