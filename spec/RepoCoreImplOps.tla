--------------------------- MODULE RepoCoreImplOps ---------------------------
(* Pure operators of the code-shaped machine of the mock's instance         *)
(* operations (see RepoCoreImpl.tla for the description).                   *)
EXTENDS RepoCore

CONSTANT AliasKeys      \* BOOLEAN: legacy code handed out the dict key object
CONSTANT ArrayOneWay    \* BOOLEAN: realistic wrong variant: is_array checked in
                        \* one direction only (array for scalar)

IRow(ns, c, k, r) == [idx |-> <<ns, c, k>>, path |-> <<ns, c, k>>, row |-> r,
                      handed |-> FALSE]
Lookup(st, ns, c, k) ==
  {x \in st : x.idx = <<ns, c, k>> /\ x.path = <<ns, c, k>>}
Cur(x) == [x.row EXCEPT !.ns = x.path[1], !.cls = x.path[2], !.k = x.path[3]]
DumpSeq(st) ==
  LET D == {Cur(x) : x \in st} IN
  CHOOSE q \in [1..Cardinality(st) -> D] :
     \/ Cardinality(D) < Cardinality(st)      \* duplicates show up as such
     \/ \A i, j \in 1..Cardinality(st) : q[i] = q[j] => i = j
SeqOf(S) == CHOOSE q \in [1..Cardinality(S) -> S] :
               \A i, j \in 1..Cardinality(S) : q[i] = q[j] => i = j

Resp(ok, code, rk, rinsts) ==
  [ok |-> ok, code |-> code, rk |-> rk, rinsts |-> rinsts]
NoKey == [ns |-> 0, cls |-> "", k |-> 0]
Err(code) == Resp(FALSE, code, NoKey, <<>>)

(* _validate_property on every supplied property: declared by the creation  *)
(* class, same CIM type, same is_array                                      *)
ValidateShape(cls, tok) ==
  \/ tok = "none"
  \/ /\ tok # "undeclared"
     /\ LET sh == ShapeByTok[tok] IN
        /\ sh.on \in Exposed(cls)
        /\ sh.ty = DeclType(sh.on)
        /\ IF ArrayOneWay THEN (sh.arr = "ar") => DeclArr(sh.on)
           ELSE (sh.arr = "ar") = DeclArr(sh.on)
ValidateProps(c) ==
  ValidateShape(c.cls, c.badprop) /\ \A p \in Given(c) : p \in Exposed(c.cls)

ImplCreate(st, c) ==
  IF c.ns \notin LiveNs THEN <<Err(E_INVALID_NAMESPACE), st>>
  ELSE IF c.cls \notin Classes THEN <<Err(E_INVALID_CLASS), st>>
  ELSE IF ~ValidateProps(c) THEN <<Err(E_INVALID_PARAMETER), st>>
  ELSE IF c.k = 0 THEN <<Err(E_INVALID_PARAMETER), st>>   \* from_instance strict
  ELSE IF Lookup(st, c.ns, c.cls, c.k) # {} THEN <<Err(E_ALREADY_EXISTS), st>>
  ELSE <<Resp(TRUE, 0, [ns |-> c.ns, cls |-> c.cls, k |-> c.k], <<>>),
         st \cup {[IRow(c.ns, c.cls, c.k, NewRow(c)) EXCEPT
                     !.handed = AliasKeys]}>>

ImplModify(st, c) ==
  IF c.icls # c.cls THEN <<Err(E_INVALID_PARAMETER), st>>  \* names compared
  ELSE IF c.ns \notin LiveNs THEN <<Err(E_INVALID_NAMESPACE), st>>
  ELSE IF c.cls \notin Classes THEN <<Err(E_INVALID_CLASS), st>>
  ELSE IF Lookup(st, c.ns, c.cls, c.k) = {} THEN <<Err(E_NOT_FOUND), st>>
  ELSE IF PlistUndeclared(c) THEN <<Err(E_INVALID_PARAMETER), st>>
  ELSE IF ~ValidateProps(c) THEN <<Err(E_INVALID_PARAMETER), st>>
  ELSE IF c.kprop \notin {0, c.k} THEN <<Err(E_INVALID_PARAMETER), st>>
  \* listed key property not supplied: would be set to the NULL default
  ELSE IF c.kprop = 0 /\ KeyListed(c) THEN <<Err(E_INVALID_PARAMETER), st>>
  ELSE LET x == CHOOSE y \in Lookup(st, c.ns, c.cls, c.k) : TRUE
           nv(p) == IF p \notin Exposed(c.cls) THEN "na"
                    ELSE IF c.hasplist
                         THEN IF p \in Rng(c.plist)
                              THEN Norm(c.cls, p, ValOf(c.vals, p))
                              ELSE ValOf(x.row, p)
                         ELSE IF ValOf(c.vals, p) # "unset"
                              THEN ValOf(c.vals, p) ELSE ValOf(x.row, p)
           nr == Row(c.ns, c.cls, c.k, nv("s"), nv("t"), nv("u")) IN
       <<Resp(TRUE, 0, NoKey, <<>>),
         (st \ {x}) \cup {[x EXCEPT !.row = nr]}>>

ImplDelete(st, c) ==
  IF c.ns \notin LiveNs THEN <<Err(E_INVALID_NAMESPACE), st>>
  ELSE IF c.cls \notin Classes THEN <<Err(E_INVALID_CLASS), st>>
  ELSE IF Lookup(st, c.ns, c.cls, c.k) = {} THEN <<Err(E_NOT_FOUND), st>>
  ELSE <<Resp(TRUE, 0, NoKey, <<>>), st \ Lookup(st, c.ns, c.cls, c.k)>>

ImplGet(st, c) ==
  IF c.ns \notin LiveNs THEN <<Err(E_INVALID_NAMESPACE), st>>
  ELSE IF c.cls \notin Classes THEN <<Err(E_INVALID_CLASS), st>>
  ELSE IF Lookup(st, c.ns, c.cls, c.k) = {} THEN <<Err(E_NOT_FOUND), st>>
  ELSE LET x == CHOOSE y \in Lookup(st, c.ns, c.cls, c.k) : TRUE IN
       <<Resp(TRUE, 0, NoKey,
              <<View([c EXCEPT !.deep = TRUE], c.cls, Cur(x))>>), st>>

ImplScope(st, c) == {x \in st : x.path[1] = c.ns /\ x.path[2] \in Subtree(c.cls)}
ImplEnum(st, c) ==
  IF c.ns \notin LiveNs THEN <<Err(E_INVALID_NAMESPACE), st>>
  ELSE IF c.cls \notin Classes THEN <<Err(E_INVALID_CLASS), st>>
  ELSE <<Resp(TRUE, 0, NoKey,
              SeqOf({View(c, c.cls, Cur(x)) : x \in ImplScope(st, c)})), st>>
ImplEnumNames(st, c) ==
  IF c.ns \notin LiveNs THEN <<Err(E_INVALID_NAMESPACE), st>>
  ELSE IF c.cls \notin Classes THEN <<Err(E_INVALID_CLASS), st>>
  ELSE <<Resp(TRUE, 0, NoKey,
              SeqOf({NameRow(Cur(x)) : x \in ImplScope(st, c)})), st>>

ImplStep(st, c) ==
  CASE c.op = "Create" -> ImplCreate(st, c)
    [] c.op = "Modify" -> ImplModify(st, c)
    [] c.op = "Delete" -> ImplDelete(st, c)
    [] c.op = "Get" -> ImplGet(st, c)
    [] c.op = "Enum" -> ImplEnum(st, c)
    [] c.op = "EnumNames" -> ImplEnumNames(st, c)

=============================================================================
