\* An instance transmitted WITH its path: keybindings of the path x same-named properties
\* (CimWire!KeyRel: free / shape / type / agree / value) x path form (no namespace / namespace /
\* namespace + host).  Must pass; EmitKeyProp prints the trees for the binding (one worker).
SPECIFICATION Spec
CONSTANTS
  Types = {"string", "uint8"}
  QualTypes = {}
  KeyTypes = {"string", "uint8"}
  Shapes = {"scalar", "null", "v"}
  StrVals <- StrValsKey
  CharVals = {"ltr"}
  Names = {"a"}
  MaxEls = 4
  MaxDepth = 0
  MaxKids = 1
  MaxAttrs = 0
  Modes = {"entity", "cdata"}
  W <- WFixed
  RootKinds = {"inst"}
  EmbPaths = FALSE
INVARIANT NormIdempotent
INVARIANT ReqAcceptsNorm
INVARIANT ReqRejects
INVARIANT ReqKeepsOwnKeys
INVARIANT ImplMeetsReq
INVARIANT EmitKeyProp
CHECK_DEADLOCK FALSE
