SPECIFICATION Spec
CONSTANTS
  AliasKeys = FALSE
  ArrayOneWay = FALSE
  NsU = {1, 3}
  ClsU = {"A", "B", "Z"}
  KeyU = {1, 2}
  ValS = {"unset", "null", "v1", "v2"}
  ValT = {"unset", "v1"}
  ValU = {"unset", "v1"}
  BadU = {"none", "s_uint8_sc_null", "u_string_sc_val", "u_string_sc_null"}
  GenDepth = 8
INVARIANT ImplRefinesReq
CONSTRAINT GenConstraint
CHECK_DEADLOCK FALSE
