SPECIFICATION Spec
CONSTANTS
  AliasKeys = FALSE
  NsU = {1, 3}
  ClsU = {"A", "B", "Z"}
  KeyU = {1, 2}
  ValS = {"unset", "null", "v1", "v2"}
  ValT = {"unset", "v1"}
  ValU = {"unset", "v1"}
  BadU = {"none", "undeclared", "wrongnull"}
  GenDepth = 8
INVARIANT ImplRefinesReq
CONSTRAINT GenConstraint
CHECK_DEADLOCK FALSE
