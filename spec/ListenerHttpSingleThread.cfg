\* regression configuration (must FAIL): server without ThreadingMixIn: a waiting handler blocks later indications
SPECIFICATION Spec
CONSTANTS
  MaxReq = 2
  Alphabet <- Exits
  San = TRUE
  ClChk = TRUE
  Threaded = FALSE
  FinalValid = FALSE
  QCap = 0
  Gating = FALSE
  QfRet = TRUE
  Echo = "xml10"
  PName = "exact"
  Deep = "caught"
  LexG = "full"
INVARIANT InvNeverStuck
CHECK_DEADLOCK FALSE
