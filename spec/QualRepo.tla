------------------------------ MODULE QualRepo ------------------------------
(***************************************************************************)
(* X01 (extension) - requirement machine for the QUALIFIER-DECLARATION     *)
(* repository of the pywbem mock WBEM server (pywbem_mock.                 *)
(* FakedWBEMConnection): per namespace a keyed map                         *)
(*        qualifier name (case-insensitive)  ->  declaration               *)
(* with CIM status codes, isolation of the repository from client objects, *)
(* "a failed call changes nothing", and the interplay with namespaces and  *)
(* with classes that use a declaration.                                    *)
(*                                                                         *)
(* THE REQUIREMENT (clauses; sources in brackets - pywbem's own docstrings *)
(* / docs, or DSP0200 which the docstrings cite):                          *)
(*                                                                         *)
(* R1 Get     GetQualifier returns the declaration stored under the name   *)
(*            (compared case-insensitively) in the namespace; unknown name *)
(*            => CIM_ERR_NOT_FOUND; unknown namespace =>                   *)
(*            CIM_ERR_INVALID_NAMESPACE.  [MainProvider.GetQualifier       *)
(*            docstring "Raises"; WBEMConnection.GetQualifier "(case       *)
(*            independent)"; DSP0200 5.4.2.20]                             *)
(* R2 Set     SetQualifier creates the declaration, or REPLACES the one    *)
(*            with the same name; no other entry changes; unknown          *)
(*            namespace => CIM_ERR_INVALID_NAMESPACE.  [WBEMConnection.    *)
(*            SetQualifier "Create or modify"; MainProvider.SetQualifier;  *)
(*            DSP0200 5.4.2.21]                                            *)
(* R3 Delete  DeleteQualifier removes exactly the named declaration;       *)
(*            unknown name => CIM_ERR_NOT_FOUND; unknown namespace =>      *)
(*            CIM_ERR_INVALID_NAMESPACE; a declaration that a class of the *)
(*            namespace uses (on the class, a property, a method or a      *)
(*            parameter) is NOT deleted: CIM_ERR_FAILED.  [MainProvider.   *)
(*            DeleteQualifier docstring: "Deletes a single qualifier       *)
(*            declaration if it is in the CIM repository for this          *)
(*            namespace and is not being used by any class in the          *)
(*            namespace", Raises ... CIM_ERR_FAILED; DSP0200 5.4.2.22 is   *)
(*            silent about use]                                            *)
(* R4 Enum    EnumerateQualifiers returns exactly the declarations of the  *)
(*            namespace, each once; unknown namespace =>                   *)
(*            CIM_ERR_INVALID_NAMESPACE.  [MainProvider.EnumerateQualifiers*)
(*            ; DSP0200 5.4.2.19]                                          *)
(* R5 Args    a QualifierName that is not a string / a QualifierDeclaration*)
(*            that is not a CIMQualifierDeclaration is refused with        *)
(*            TypeError, ValueError or CIM_ERR_INVALID_PARAMETER           *)
(*            [WBEMConnection class docstring "Exceptions indicating       *)
(*            programming errors"; parameter types in the docstrings;      *)
(*            DSP0200 CIM_ERR_INVALID_PARAMETER]                           *)
(* R6 AddObj  add_cimobjects adds the given declarations; if one "already  *)
(*            exists in the target namespace with the same name (comparing *)
(*            case insensitively), this method fails, and the CIM          *)
(*            repository remains unchanged"; unknown namespace =>          *)
(*            CIM_ERR_INVALID_NAMESPACE; an object that is not a CIM class,*)
(*            instance or qualifier declaration (alone or in the list) =>  *)
(*            TypeError or ValueError, nothing added.                      *)
(*            [FakedWBEMConnection.add_cimobjects docstring; "Raises:      *)
(*            ValueError: Invalid input CIM object in `objects` parameter. *)
(*            TypeError: Invalid type in `objects` parameter." / CIMError] *)
(* R7 Compile compile_mof_string adds the declared qualifier types; "If a  *)
(*            CIM class or CIM qualifier type to be added already exists   *)
(*            in the target namespace with the same name (comparing case   *)
(*            insensitively), this method raises CIMError"; unknown        *)
(*            namespace => CIM_ERR_INVALID_NAMESPACE; "In all cases where  *)
(*            this method raises an exception, the CIM repository remains  *)
(*            unchanged".  [FakedWBEMConnection.compile_mof_string         *)
(*            docstring; any CIMError or MOFCompileError is accepted as    *)
(*            the failure]                                                 *)
(* R8 AddNs   add_namespace: None => ValueError; existing (case-           *)
(*            insensitive, slashes stripped) => CIM_ERR_ALREADY_EXISTS;    *)
(*            otherwise the namespace exists afterwards and is empty.      *)
(*            [FakedWBEMConnection.add_namespace docstring]                *)
(* R9 RemoveNs remove_namespace: None => ValueError; unknown =>            *)
(*            CIM_ERR_NOT_FOUND; a namespace that still contains qualifier *)
(*            declarations (or classes) => CIM_ERR_NAMESPACE_NOT_EMPTY;    *)
(*            the default namespace of the connection =>                   *)
(*            CIM_ERR_NAMESPACE_NOT_EMPTY ("This namespace cannot be       *)
(*            deleted from the CIM repository"); otherwise the namespace is*)
(*            gone.  [FakedWBEMConnection.remove_namespace docstring]      *)
(* R10 MapFaithful  after every successful call the repository (namespaces,*)
(*            declarations per namespace as seen through                   *)
(*            EnumerateQualifiers AND through GetQualifier, class names)   *)
(*            equals the reference map: operations change only what R1-R9  *)
(*            say; names are unique per namespace.                         *)
(* R11 Atomic a call that raises leaves the repository unchanged.          *)
(*            [R6/R7 texts; DSP0200: an operation either succeeds or       *)
(*            returns an error and has no effect]                          *)
(* R12 Isolated  the repository holds copies: mutating an object passed to *)
(*            or returned from any call does not change the repository.    *)
(*            [BaseObjectStore.create / update: "The object is copied into *)
(*            the object store so the user can safely modify the original  *)
(*            object without affecting the store"; get(copy=True) "returns *)
(*            a copy ... to insure that modifying the returned object does *)
(*            not change the data store"; add_cimobjects: "adds a copy of  *)
(*            the objects presented so that the user may modify the objects*)
(*            without impacting the repository"]                           *)
(*                                                                         *)
(* FREEDOM (accepted, R-sound): result order; lexical case of returned     *)
(* names; None vs DSP0201 default of flavor attributes; which code wins    *)
(* when several error conditions hold; TypeError vs ValueError vs          *)
(* INVALID_PARAMETER for R5; the exception class/status of R6/R7 failures; *)
(* everything about CreateClass / DeleteClass (environment operations,     *)
(* followed as observed - they are C12's subject).                         *)
(*                                                                         *)
(* Event style: Fails(s,e) = violated clauses, Apply(s,e) = next state.    *)
(* Abstract ids: namespaces 1..3 (1 = default namespace of the connection, *)
(* argument 0 = None), qualifier names 1.., declaration contents are opaque*)
(* tokens ("d1".., "mutated", "unclassified").  Case / slashes / object    *)
(* shapes are randomised by the concretisation.                            *)
(***************************************************************************)
EXTENDS Naturals, Integers, Sequences, FiniteSets, TLC

DefaultNs == 1
Eff(ns) == IF ns = 0 THEN DefaultNs ELSE ns      \* namespace=None

(* CIM status codes (DSP0200) *)
E_FAILED == 1
E_INVALID_NAMESPACE == 3
E_INVALID_PARAMETER == 4
E_NOT_FOUND == 6
E_ALREADY_EXISTS == 11
E_NAMESPACE_NOT_EMPTY == 20
CimCodes == 1..28
(* pseudo codes for non-CIMError exceptions (projection of the binding) *)
P_TYPEERROR == 100
P_VALUEERROR == 101
P_MOFERROR == 102         \* pywbem.MOFCompileError family
P_OTHER == 199            \* anything else: never admissible

Rng(q) == {q[i] : i \in DOMAIN q}
F(name, holds) == IF holds THEN {} ELSE {name}
CS(cond, codes) == IF cond THEN codes ELSE {}

QRow(ns, q, d) == [ns |-> ns, q |-> q, d |-> d]
CRow(ns, c, uses) == [ns |-> ns, c |-> c, uses |-> uses]
CName(r) == [ns |-> r.ns, c |-> r.c]

InitState == [live |-> {1, 2}, quals |-> {}, cls |-> {}]

NsOk(s, e) == Eff(e.ns) \in s.live
Decl(s, ns, q) == {r \in s.quals : r.ns = ns /\ r.q = q}
InNs(s, ns) == {r \in s.quals : r.ns = ns}
Used(s, ns, q) == \E r \in s.cls : r.ns = ns /\ \E u \in r.uses : u.q = q
ItemQs(e) == {it.q : it \in Rng(e.items)}
NoDupItems(e) == Cardinality(ItemQs(e)) = Len(e.items)
Existing(s, e) == \E it \in Rng(e.items) : Decl(s, Eff(e.ns), it.q) # {}

ArgCodes == {P_TYPEERROR, P_VALUEERROR, E_INVALID_PARAMETER}
BadArg(e) == CS(e.arg # "ok", ArgCodes)
BadNs(s, e) == CS(~NsOk(s, e), {E_INVALID_NAMESPACE})

Outcome(op, must, e) ==
     F(op \o ".SucceedsWhenValid", must # {} \/ e.ok)
\cup F(op \o ".FailsWhenInvalid", must = {} \/ ~e.ok)
\cup F(op \o ".DocumentedStatusCode", e.ok \/ must = {} \/ e.code \in must)

(*------------------------------ SetQualifier ------------------------------*)
SetMust(s, e) == BadArg(e) \cup BadNs(s, e)
SetApply(s, e) ==
  [s EXCEPT !.quals = (@ \ Decl(s, Eff(e.ns), e.q))
                      \cup {QRow(Eff(e.ns), e.q, e.d)}]

(*------------------------------ GetQualifier ------------------------------*)
GetMust(s, e) ==
  BadArg(e) \cup BadNs(s, e)
  \cup CS(e.arg = "ok" /\ NsOk(s, e) /\ Decl(s, Eff(e.ns), e.q) = {},
          {E_NOT_FOUND})
GetFails(s, e) ==
  Outcome("Get", GetMust(s, e), e)
  \cup F("Get.ReturnsStoredDeclaration",
         ~e.ok \/ GetMust(s, e) # {} \/
         (e.rq = e.q /\ Decl(s, Eff(e.ns), e.q) = {QRow(Eff(e.ns), e.q, e.rd)}))

(*----------------------------- DeleteQualifier ----------------------------*)
DeleteMust(s, e) ==
  BadArg(e) \cup BadNs(s, e)
  \cup CS(e.arg = "ok" /\ NsOk(s, e) /\ Decl(s, Eff(e.ns), e.q) = {},
          {E_NOT_FOUND})
  \cup CS(e.arg = "ok" /\ NsOk(s, e) /\ Decl(s, Eff(e.ns), e.q) # {}
          /\ Used(s, Eff(e.ns), e.q), {E_FAILED})
DeleteApply(s, e) == [s EXCEPT !.quals = @ \ Decl(s, Eff(e.ns), e.q)]

(*--------------------------- EnumerateQualifiers --------------------------*)
EnumMust(s, e) == BadNs(s, e)
EnumFails(s, e) ==
  Outcome("Enum", EnumMust(s, e), e)
  \cup F("Enum.ExactlyDeclaredQualifiers",
         ~e.ok \/ EnumMust(s, e) # {} \/
         (/\ Rng(e.rlist) = {[q |-> r.q, d |-> r.d] : r \in InNs(s, Eff(e.ns))}
          /\ Len(e.rlist) = Cardinality(InNs(s, Eff(e.ns)))))

(*------------------------ add_cimobjects / compile ------------------------*)
AddObjMust(s, e) ==
  CS(e.arg # "ok", {P_TYPEERROR, P_VALUEERROR})
  \cup BadNs(s, e)
  \cup CS(NsOk(s, e) /\ Existing(s, e),
          CimCodes \cup {P_VALUEERROR, P_TYPEERROR})
CompileMust(s, e) ==
  BadNs(s, e)
  \cup CS(NsOk(s, e) /\ Existing(s, e), CimCodes \cup {P_MOFERROR})
ItemsApply(s, e) ==
  [s EXCEPT !.quals = @ \cup {QRow(Eff(e.ns), it.q, it.d) : it \in Rng(e.items)}]

(*------------------------------- namespaces -------------------------------*)
AddNsMust(s, e) ==
  CS(e.ns = 0, {P_VALUEERROR}) \cup CS(e.ns \in s.live, {E_ALREADY_EXISTS})
RemoveNsMust(s, e) ==
  CS(e.ns = 0, {P_VALUEERROR})
  \cup CS(e.ns # 0 /\ e.ns \notin s.live, {E_NOT_FOUND})
  \cup CS(e.ns \in s.live /\ e.ns = DefaultNs, {E_NAMESPACE_NOT_EMPTY})
  \cup CS(e.ns \in s.live /\
          (InNs(s, e.ns) # {} \/ \E r \in s.cls : r.ns = e.ns),
          {E_NAMESPACE_NOT_EMPTY})

(*----------------- classes: environment, followed as observed -------------*)
ClassAt(s, e) == {r \in s.cls : r.ns = Eff(e.ns) /\ r.c = e.cls}
CreateClassApply(s, e) ==
  [s EXCEPT !.cls = (@ \ ClassAt(s, e))
                    \cup {CRow(Eff(e.ns), e.cls, Rng(e.uses))}]
DeleteClassApply(s, e) == [s EXCEPT !.cls = @ \ ClassAt(s, e)]

(*-------------------------------- dispatch --------------------------------*)
Must(s, e) ==
  CASE e.op = "Set" -> SetMust(s, e)
    [] e.op = "Get" -> GetMust(s, e)
    [] e.op = "Delete" -> DeleteMust(s, e)
    [] e.op = "Enum" -> EnumMust(s, e)
    [] e.op = "AddObj" -> AddObjMust(s, e)
    [] e.op = "Compile" -> CompileMust(s, e)
    [] e.op = "AddNs" -> AddNsMust(s, e)
    [] e.op = "RemoveNs" -> RemoveNsMust(s, e)
    [] OTHER -> {}

Apply(s, e) ==
  IF ~e.ok THEN s
  ELSE IF e.op = "CreateClass" THEN CreateClassApply(s, e)
  ELSE IF e.op = "DeleteClass" THEN DeleteClassApply(s, e)
  ELSE IF Must(s, e) # {} THEN s
  ELSE CASE e.op = "Set" -> SetApply(s, e)
         [] e.op = "Delete" -> DeleteApply(s, e)
         [] e.op \in {"AddObj", "Compile"} -> ItemsApply(s, e)
         [] e.op = "AddNs" -> [s EXCEPT !.live = @ \cup {e.ns}]
         [] e.op = "RemoveNs" -> [s EXCEPT !.live = @ \ {e.ns}]
         [] OTHER -> s

OpFails(s, e) ==
  CASE e.op = "Set" -> Outcome("Set", SetMust(s, e), e)
    [] e.op = "Get" -> GetFails(s, e)
    [] e.op = "Delete" -> Outcome("Delete", DeleteMust(s, e), e)
    [] e.op = "Enum" -> EnumFails(s, e)
    [] e.op = "AddObj" ->
         Outcome("AddObj", AddObjMust(s, e), e)
         \cup F("UnsupportedEvent.DuplicateItems", NoDupItems(e))
    [] e.op = "Compile" ->
         Outcome("Compile", CompileMust(s, e), e)
         \cup F("UnsupportedEvent.DuplicateItems", NoDupItems(e))
    [] e.op = "AddNs" -> Outcome("AddNs", AddNsMust(s, e), e)
    [] e.op = "RemoveNs" -> Outcome("RemoveNs", RemoveNsMust(s, e), e)
    [] e.op \in {"CreateClass", "DeleteClass"} -> {}
    [] OTHER -> {"UnknownOperation"}

(*----------------------- the repository after the call --------------------*)
SameAs(d, st) ==
  /\ Rng(d.live) = st.live
  /\ Rng(d.quals) = st.quals
  /\ Rng(d.classes) = {CName(r) : r \in st.cls}

DumpFails(s, e) ==
  LET d == e.dump
      s2 == Apply(s, e) IN
  IF e.ok
  THEN F("MapFaithful.Namespaces", Rng(d.live) = s2.live)
       \cup F("MapFaithful.QualifierDeclarations", Rng(d.quals) = s2.quals)
       \cup F("MapFaithful.GetAgreesWithEnumerate", Rng(d.gets) = Rng(d.quals))
       \cup F("MapFaithful.NoDuplicateNames",
              Len(d.quals) = Cardinality(Rng(d.quals))
              /\ Len(d.live) = Cardinality(Rng(d.live)))
       \cup F("MapFaithful.ClassesAsObserved",
              Rng(d.classes) = {CName(r) : r \in s2.cls})
  ELSE F("Atomic.FailedCallLeftRepositoryUnchanged",
         SameAs(d, s) /\ Rng(d.gets) = s.quals)

(* e.mdump: the same observation taken again after the client mutated every *)
(* object it passed to or got back from this call                           *)
IsoFails(s, e) ==
  F("Isolated.ClientMutationDoesNotChangeRepository",
    /\ Rng(e.mdump.live) = Rng(e.dump.live)
    /\ Rng(e.mdump.quals) = Rng(e.dump.quals)
    /\ Rng(e.mdump.gets) = Rng(e.dump.gets)
    /\ Rng(e.mdump.classes) = Rng(e.dump.classes))

Fails(s, e) ==
  IF OpFails(s, e) # {} THEN OpFails(s, e)
  ELSE IF DumpFails(s, e) # {} THEN DumpFails(s, e)
  ELSE IsoFails(s, e)

(*------------------------------ state invariants --------------------------*)
KeyUnique(s) == \A r1, r2 \in s.quals :
                   (r1.ns = r2.ns /\ r1.q = r2.q) => r1 = r2
WellFormed(s) ==
  /\ \A r \in s.quals : r.ns \in s.live /\ r.q > 0
  /\ \A r \in s.cls : r.ns \in s.live
(* consequence of R3 + the environment (CreateClass refuses undeclared     *)
(* qualifiers): checked on the design model only, never on traces          *)
UsedIsDeclared(s) ==
  \A r \in s.cls : \A u \in r.uses : Decl(s, r.ns, u.q) # {}
=============================================================================
