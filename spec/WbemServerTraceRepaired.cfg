SPECIFICATION TSpec
CONSTANTS
  PinnedDupCheck = FALSE
  PinnedDeleteCase = FALSE
  PinnedBrand = FALSE
  Variant = "code"
CHECK_DEADLOCK FALSE
