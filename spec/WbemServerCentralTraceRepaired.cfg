SPECIFICATION TSpec
CONSTANTS
  Variant = "code"
  PinnedAssert = FALSE
CHECK_DEADLOCK FALSE
