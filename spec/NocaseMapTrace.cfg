SPECIFICATION TSpec
CONSTANTS
  PinnedPopSentinel = TRUE
  PinnedCtorNone = TRUE
  KeepOldKey = FALSE
  MoveToEnd = FALSE
  LowerFold = FALSE
  CopyShares = FALSE
  LegacyCopy = FALSE
  ViewsSnapshot = FALSE
  SetDefaultPut = FALSE
  EszBase = 2
  NB = 3
CHECK_DEADLOCK FALSE
