SPECIFICATION Spec
CONSTANTS
  TMin = 0
  TMax = 15
  MaxHist = 3
  ShareValuesList = TRUE
INVARIANT HistBehaviourOK
CHECK_DEADLOCK FALSE
