SPECIFICATION Spec
CONSTANTS
  Sticky = FALSE
  CloseInFinally = TRUE
  Fams = {1, 2}
  MaxN = 3
  ParamsFirst = FALSE
  TimeoutErr = "CIMError"
  Upo = "N"
INVARIANT ImplRefinesReq
INVARIANT FlagsConsistent
CHECK_DEADLOCK FALSE
