SPECIFICATION TSpec
CONSTANTS
  AliasKeys = FALSE
CHECK_DEADLOCK FALSE
