SPECIFICATION TSpec
CONSTANTS
  AliasKeys = FALSE
  ArrayOneWay = FALSE
CHECK_DEADLOCK FALSE
