\* The repaired design, embedded objects: strings of <= 4 symbols, depth 1..3.
SPECIFICATION Spec
CONSTANTS
  Alphabet <- Cls
  MaxLen = 4
  Depths = {1, 2, 3}
  Modes = {"entity", "cdata"}
  V <- CrFixed
  AttrAll = FALSE
INVARIANT RoundTrip
INVARIANT AttrRoundTrip
INVARIANT WriterTotal
INVARIANT Stable
CHECK_DEADLOCK FALSE
