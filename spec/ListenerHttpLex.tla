--------------------------- MODULE ListenerHttpLex ---------------------------
(* C17 - alphabets of requests whose body carries a lexeme class at one of  *)
(* the positions the CIM-XML reader converts (ListenerHttpReq: LexAt).      *)
(* In a module of its own: TLC evaluates constant definitions when it       *)
(* starts, the other configurations need not pay for these.                 *)
EXTENDS ListenerHttp

(* every lexeme class at every converted position, everything else valid   *)
LexPairs == {px \in LexPositions \X AllLexemes : px[2] \in LexAt[px[1]]}
LexAlone == {[ValidReq EXCEPT !.body = LexBodyOf(px[1], px[2]),
                              !.lpos = px[1], !.lex = px[2]] : px \in LexPairs}
(* ... and with one more deviation in another dimension                    *)
Mods == ({"verb"} \X Verbs) \cup ({"accept"} \X HdrVals)
        \cup ({"charset"} \X HdrVals) \cup ({"range"} \X RangeVals)
        \cup ({"ctype"} \X HdrVals) \cup ({"cenc"} \X HdrVals)
        \cup ({"clen"} \X CLens)
Mod(c, m) == CASE m[1] = "verb" -> [c EXCEPT !.verb = m[2]]
               [] m[1] = "accept" -> [c EXCEPT !.accept = m[2]]
               [] m[1] = "charset" -> [c EXCEPT !.charset = m[2]]
               [] m[1] = "range" -> [c EXCEPT !.range = m[2]]
               [] m[1] = "ctype" -> [c EXCEPT !.ctype = m[2]]
               [] m[1] = "cenc" -> [c EXCEPT !.cenc = m[2]]
               [] m[1] = "clen" -> [c EXCEPT !.clen = m[2]]
(* (one comprehension: TLC's union of large sets is quadratic)             *)
LexUpTo2 == {r \in {Mod(c, m) : c \in LexAlone, m \in Mods} :
               HdrPosConsistent(r)}

EmitLex == PrintT(<<"LEX1", {Tup(c) : c \in LexAlone}>>)
=============================================================================
