SPECIFICATION Spec
CONSTANTS
  TMin = 0
  TMax = 15
  Pts <- PtsU4t
  MaxLen = 4
  FixTrunc = TRUE
  FixGuard = TRUE
  FixOct0 = TRUE
  FixSkip = TRUE
  FixUncl = TRUE
  Emit = TRUE
  WithBad = FALSE
INVARIANT EmitUInv
CHECK_DEADLOCK FALSE
