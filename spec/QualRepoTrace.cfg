SPECIFICATION TSpec
CONSTANTS
  UpdateCopies = TRUE
  GuardDefaultNs = TRUE
  CompileReplaces = FALSE
  GetCopies = TRUE
  UseScan = "all"
  AddRollback = TRUE
  NsEmptyQuals = TRUE
  AddTypeError = TRUE
CHECK_DEADLOCK FALSE
