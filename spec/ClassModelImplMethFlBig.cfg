SPECIFICATION Spec
CONSTANTS
  ClassLevelPropagate = FALSE
  ParamResolve = TRUE
  InitRestated = TRUE
  OriginFromSuper = FALSE
  AllowModifyBusy = FALSE
  SigCheck = TRUE
  Parent <- Chain3
  Mode = "methfl"
  QSels = {{1}, {3}}
  Vias = {"mof"}
  InstKeys = {}
  WithModify = FALSE
  AllFlags = FALSE
  GenDepth = 0
INVARIANT ImplRefinesReq
INVARIANT MappingHolds
INVARIANT GetFullOk
INVARIANT EnumOk
CHECK_DEADLOCK FALSE
