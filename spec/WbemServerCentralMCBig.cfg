\* thorough: 3 profiles x 4 resources, up to 4 association instances
SPECIFICATION Spec
CONSTANTS
  Variant = "code"
  PinnedAssert = FALSE
  EctpU <- EctpWide
  RpU <- RpWide
  A1U <- AWide
  A2U <- AWide
  MaxEdges = 4
  Modes1 <- AllModes
  ModesO <- AllModes
  QuerySet = "core"
INVARIANT ImplRefinesReq
CHECK_DEADLOCK FALSE
