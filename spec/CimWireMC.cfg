\* The repaired design (CR escaped, NULL entries parse, char16 keybindings typed,
\* boolean parameter values parsed).  "Pointwise" configuration: every element kind
\* with every type x shape x value class, alone or below one parent, at most two
\* attributes set, both escaping modes.
SPECIFICATION Spec
CONSTANTS
  Types = {"string", "char16", "boolean", "uint8", "sint64", "real32", "datetime", "reference"}
  QualTypes = {"string", "boolean"}
  KeyTypes = {"string", "char16", "uint8", "boolean", "numeric"}
  Shapes = {"null", "nulla", "scalar", "empty", "v", "n", "vn"}
  StrVals <- StrValsSmall
  CharVals = {"ltr", "amp"}
  Names = {"a"}
  MaxEls = 2
  MaxDepth = 1
  MaxKids = 1
  MaxAttrs = 1
  Modes = {"entity", "cdata"}
  W <- WFixed
  RootKinds = {"inst", "class", "ipath", "cpath", "prop", "pval", "qual", "qdecl", "meth", "parm"}
  EmbPaths = FALSE
INVARIANT NormIdempotent
INVARIANT ReqAcceptsNorm
INVARIANT ReqRejects
INVARIANT ImplMeetsReq
CHECK_DEADLOCK FALSE
