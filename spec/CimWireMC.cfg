\* The repaired design (CR escaped, NULL entries parse, char16 keybindings typed,
\* boolean parameter values parsed): every tree of <= 3 elements, both modes.
SPECIFICATION Spec
CONSTANTS
  Types = {"string", "char16", "boolean", "uint8", "real32", "datetime", "reference"}
  QualTypes = {"string", "boolean"}
  KeyTypes = {"string", "char16", "uint8", "numeric"}
  Shapes = {"null", "nulla", "scalar", "empty", "v", "n", "vn"}
  StrVals <- StrValsSmall
  CharVals = {"ltr", "amp"}
  Names = {"a", "b"}
  MaxEls = 3
  MaxDepth = 2
  MaxKids = 2
  Modes = {"entity", "cdata"}
  W <- WFixed
  RootKinds = {"inst", "class", "ipath", "cpath", "prop", "pval", "qual", "qdecl", "meth", "parm"}
INVARIANT NormIdempotent
INVARIANT ReqAcceptsNorm
INVARIANT ReqRejects
INVARIANT ImplMeetsReq
CHECK_DEADLOCK FALSE
