\* thorough: bounded indication queue of 2, tester may hold the callback: all histories of 5 requests
\* over the tiny queue alphabet (3); scripts that force the queue.Full branch are printed
SPECIFICATION Spec
CONSTANTS
  MaxReq = 5
  Alphabet <- QueueTiny
  San = TRUE
  ClChk = TRUE
  Threaded = TRUE
  FinalValid = FALSE
  QCap = 2
  Gating = TRUE
  QfRet = TRUE
  Echo = "xml10"
  PName = "exact"
  Deep = "caught"
  LexG = "full"
INVARIANT InvAllClauses
INVARIANT InvNeverStuck
INVARIANT InvDelivered
INVARIANT InvNoSpurious
INVARIANT InvQueueBound
INVARIANT InvEmitScripts
CHECK_DEADLOCK FALSE
