SPECIFICATION Spec
CONSTANTS
  MockVerifiesOpen = FALSE
  PrettyNoneWithoutDebug = FALSE
  SuspendedMinZero = FALSE
  LenInBytes = FALSE
  SnapshotShallow = FALSE
  SuspendNotSticky = FALSE
  CopySharesStatistics = FALSE
  LastReplyNotReset = FALSE
  StopOnlyOnSuccess = FALSE
  Mode = "stats"
  En0 = {TRUE, FALSE}
  Names = {"A", "B", "C"}
  Fam = {}
  OpShapes <- OpsHttpLife
  MaxConn = 1
  MaxSteps = 40
  GenDepth = 40
  Advs = {0, 1, 2, 5}
  Lens <- LensSim
  Srvs <- SrvsSim
  MaxSnap = 2
CHECK_DEADLOCK FALSE
