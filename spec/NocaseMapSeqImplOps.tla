------------------------- MODULE NocaseMapSeqImplOps -------------------------
(***************************************************************************)
(* Code-shaped transcription of NocaseList                                 *)
(* (pywbem/_vendor/nocaselist/_nocaselist.py): a list subclass that keeps  *)
(* a second list `_casefolded_list` in step with the inherited one.        *)
(* Impl state: main = the inherited list (items <<b, v>>), sh = the shadow *)
(* (fold numbers), ok = the shadow attribute exists.  Every method is      *)
(* transcribed as its sequence of operations on the two lists, including   *)
(* the order in which they are done (so that an exception between the two  *)
(* leaves them out of step, as in the code).                               *)
(*                                                                         *)
(* Switches.  "Pinned..." = TRUE is the pinned tree (defects found by this *)
(* extension); FALSE is the repaired algorithm the requirement holds for:  *)
(*   PinnedRemove      remove(): shadow.remove(casefold(value)) and then   *)
(*                     list.remove(value) - the latter compares exactly    *)
(*   PinnedIterTwice   extend() / += iterate the argument twice (a         *)
(*                     one-shot iterator is empty the second time)         *)
(*   PinnedSetSliceIter  ncl[i:j] = iterator: casefolds the argument       *)
(*                     after the inherited list consumed it                *)
(*   PinnedPickleLow   pickle protocols 0 and 1: no state is pickled for   *)
(*                     an empty __getstate__() result, so __setstate__     *)
(*                     never runs and the shadow is missing                *)
(* Regression variants (realistic mistakes, never the code):               *)
(*   LowerFold         lower() instead of casefold()                       *)
(*   ReverseKeepsShadow  reverse() does not rebuild the shadow             *)
(*   CopyAliasShadow   NocaseList(ncl) reuses ncl._casefolded_list         *)
(*                     without .copy()                                     *)
(*   InsertAppends     insert() appends to the shadow                      *)
(***************************************************************************)
EXTENDS NocaseMapSeq

CONSTANTS PinnedRemove, PinnedIterTwice, PinnedSetSliceIter, PinnedPickleLow,
          LowerFold, ReverseKeepsShadow, CopyAliasShadow, InsertAppends,
          EszBase, NB

IFold(k) == IF k = NoneKey THEN 0
            ELSE IF LowerFold /\ k[1] = EszBase /\ k[2] = 1 THEN 100 + k[1]
            ELSE k[1]
IFolds(q) == [i \in DOMAIN q |-> IFold(q[i])]

Impl0 == [main |-> <<>>, sh |-> <<>>, ok |-> TRUE]
Mk(main) == [main |-> main, sh |-> IFolds(main), ok |-> TRUE]
IsErr(r) == r.tag = "err"

ShFirstIn(sh, f, lo, hi) ==
  LET S == {i \in DOMAIN sh : i >= lo /\ i <= hi /\ sh[i] = f} IN
  IF S = {} THEN 0 ELSE Min(S)
ShFirst(sh, f) == ShFirstIn(sh, f, 1, Len(sh))
ExactFirst(main, x) ==
  LET S == {i \in DOMAIN main : main[i] = x} IN
  IF S = {} THEN 0 ELSE Min(S)

(* probe through the public API: count()/index() use the shadow only *)
IProbe(i) ==
  [b \in 1..(NB + 1) |->
     LET base == b - 1
         f == IF base = 0 THEN 0 ELSE IFold(<<base, 2>>) IN
     IF ~i.ok THEN <<base, 0 - 2, 0 - 2>>
     ELSE <<base, Cardinality({j \in DOMAIN i.sh : i.sh[j] = f}),
            ShFirst(i.sh, f) - 1>>]
IList(i, ty) == [RList(i.main, ty) EXCEPT !.probe = IProbe(i)]

I_extend(i, form, xs) ==
  \* super().extend(values); for value in values: shadow.append(casefold(v))
  [i EXCEPT !.main = i.main \o xs,
            !.sh = IF PinnedIterTwice /\ form = "gen" THEN i.sh
                   ELSE i.sh \o IFolds(xs)]

I_remove(i, x) ==
  LET f == IFold(x)
      p == ShFirst(i.sh, f) IN
  IF p = 0 THEN <<RErr("ValueError"), i>>
  ELSE IF PinnedRemove
  THEN LET i1 == [i EXCEPT !.sh = DelAt(i.sh, p)]
           q == ExactFirst(i.main, x) IN
       IF q = 0 THEN <<RErr("ValueError"), i1>>
       ELSE <<RNone, [i1 EXCEPT !.main = DelAt(i.main, q)]>>
  ELSE <<RNone, [i EXCEPT !.sh = DelAt(i.sh, p), !.main = DelAt(i.main, p)]>>

I_pop(i, idx) ==      \* shadow.pop(index) first, then list.pop(index)
  IF ~ValidIdx(idx, Len(i.sh)) THEN <<RErr("IndexError"), i>>
  ELSE LET i1 == [i EXCEPT !.sh = DelAt(i.sh, Idx1(idx, Len(i.sh)))] IN
       IF ~ValidIdx(idx, Len(i.main)) THEN <<RErr("IndexError"), i1>>
       ELSE <<RItem(i.main[Idx1(idx, Len(i.main))]),
              [i1 EXCEPT !.main = DelAt(i.main, Idx1(idx, Len(i.main)))]>>

I_copyctor(i) ==      \* NocaseList(self)
  [main |-> i.main, sh |-> i.sh, ok |-> TRUE]

I_copy(i, e) ==
  \* the harness appends <<1, 1>> to the returned list afterwards
  LET c == IF e.via \in {"copy", "ctor"} THEN I_copyctor(i) ELSE Mk(i.main)
      low == PinnedPickleLow /\ e.via \in {"pickle0", "pickle1"}
      r == IF low THEN [c EXCEPT !.ok = FALSE] ELSE c
      alias == CopyAliasShadow /\ e.via \in {"copy", "ctor"} IN
  <<IList(r, "NocaseList"),
    IF alias THEN [i EXCEPT !.sh = Append(i.sh, IFold(<<1, 1>>))] ELSE i>>

ImplStep(i, e) ==
  LET n == Len(i.main)
      f == IFold(e.x) IN
  CASE e.op = "new" -> <<RNone, Mk(e.xs)>>   \* list.__init__ then fold self
    [] e.op = "append" ->
         <<RNone, [i EXCEPT !.main = Append(i.main, e.x), !.sh = Append(i.sh, f)]>>
    [] e.op \in {"extend", "iadd"} -> <<RNone, I_extend(i, e.form, e.xs)>>
    [] e.op = "insert" ->
         <<RNone, [i EXCEPT
            !.main = Splice(i.main, Clamp(e.i, n), Clamp(e.i, n), <<e.x>>),
            !.sh = IF InsertAppends THEN Append(i.sh, f)
                   ELSE Splice(i.sh, Clamp(e.i, Len(i.sh)),
                               Clamp(e.i, Len(i.sh)), <<f>>)]>>
    [] e.op = "remove" -> I_remove(i, e.x)
    [] e.op = "pop" -> I_pop(i, IF e.hasi THEN e.i ELSE 0 - 1)
    [] e.op = "index" ->
         LET m == Len(i.sh)
             p == IF e.hasi THEN ShFirstIn(i.sh, f, Clamp(e.i, m) + 1, Clamp(e.j, m))
                  ELSE ShFirst(i.sh, f) IN
         IF p = 0 THEN <<RErr("ValueError"), i>> ELSE <<RVal(p - 1), i>>
    [] e.op = "count" ->
         <<RVal(Cardinality({j \in DOMAIN i.sh : i.sh[j] = f})), i>>
    [] e.op = "contains" -> <<RBool(ShFirst(i.sh, f) # 0), i>>
    [] e.op = "reverse" ->
         <<RNone, IF ReverseKeepsShadow THEN [i EXCEPT !.main = Rev(i.main)]
                  ELSE Mk(Rev(i.main))>>
    [] e.op = "sort" ->
         IF Unsortable(i.main) THEN <<RErr("TypeError"), i>>
         ELSE LET keyed == [j \in DOMAIN i.main |-> <<IFold(i.main[j]), j>>]
                  perm == SortSeq([j \in DOMAIN i.main |-> j],
                     LAMBDA a, b : IF keyed[a][1] = keyed[b][1] THEN a < b
                                   ELSE IF e.rev THEN keyed[a][1] > keyed[b][1]
                                   ELSE keyed[a][1] < keyed[b][1]) IN
              <<RNone, Mk([j \in DOMAIN i.main |-> i.main[perm[j]]])>>
    [] e.op = "setitem" ->
         IF ~ValidIdx(e.i, n) THEN <<RErr("IndexError"), i>>
         ELSE <<RNone, [i EXCEPT !.main[Idx1(e.i, n)] = e.x,
                                 !.sh[Idx1(e.i, Len(i.sh))] = f]>>
    [] e.op = "setslice" ->
         LET m == Len(i.sh)
             i1 == [i EXCEPT !.main = Splice(i.main, Lo(e.i, n), Hi(e.i, e.j, n), e.xs)] IN
         IF PinnedSetSliceIter /\ e.form = "gen"
         THEN <<RErr("AttributeError"), i1>>
         ELSE <<RNone, [i1 EXCEPT !.sh = Splice(i.sh, Lo(e.i, m), Hi(e.i, e.j, m),
                                               IFolds(e.xs))]>>
    [] e.op = "delitem" ->
         IF ~ValidIdx(e.i, n) THEN <<RErr("IndexError"), i>>
         ELSE <<RNone, [i EXCEPT !.main = DelAt(i.main, Idx1(e.i, n)),
                                 !.sh = DelAt(i.sh, Idx1(e.i, Len(i.sh)))]>>
    [] e.op = "delslice" ->
         <<RNone, [i EXCEPT
            !.main = Splice(i.main, Lo(e.i, n), Hi(e.i, e.j, n), <<>>),
            !.sh = Splice(i.sh, Lo(e.i, Len(i.sh)), Hi(e.i, e.j, Len(i.sh)), <<>>)]>>
    [] e.op = "getitem" ->
         IF ~ValidIdx(e.i, n) THEN <<RErr("IndexError"), i>>
         ELSE <<RItem(i.main[Idx1(e.i, n)]), i>>
    [] e.op = "getslice" ->       \* inherited: a plain list
         <<[RList(SubSeq(i.main, Lo(e.i, n) + 1, Hi(e.i, e.j, n)), "list")
              EXCEPT !.probe = <<>>], i>>
    [] e.op = "add" ->
         IF e.form \in {"list", "tuple", "nclist"}
         THEN <<IList(I_extend(I_copyctor(i), e.form, e.xs), "NocaseList"), i>>
         ELSE <<RErr("TypeError"), i>>
    [] e.op \in {"mul", "rmul"} ->
         \* lst = NocaseList(); n times lst.extend(self)
         <<IList(Mk(Rep(i.main, e.n)), "NocaseList"), i>>
    [] e.op = "imul" ->
         <<RNone, [i EXCEPT !.main = Rep(i.main, e.n),
                            !.sh = IF e.n <= 0 THEN <<>>
                                   ELSE i.sh \o IFolds(Rep(i.main, e.n - 1))]>>
    [] e.op = "clear" -> <<RNone, [i EXCEPT !.main = <<>>, !.sh = <<>>]>>
    [] e.op = "copy" -> I_copy(i, e)
    [] e.op = "reversed" ->
         <<IList(IF ReverseKeepsShadow
                 THEN [I_copyctor(i) EXCEPT !.main = Rev(i.main)]
                 ELSE Mk(Rev(i.main)), "NocaseList"), i>>
    [] e.op = "cmp" -> <<Compare(e.via, i.sh, IFolds(e.xs)), i>>
    [] OTHER -> <<RErr("UNKNOWN-OP"), i>>

ImplDump(i) == [items |-> i.main, len |-> Len(i.main), probe |-> IProbe(i)]

ImplCmp(i, e) ==
  LET rs == ImplStep(i, e)
      r == rs[1]
      d == ImplDump(rs[2])
      cut(x) == [x EXCEPT !.probe = <<>>, !.type = ""] IN
  << F("result", cut(e.res) = cut(r))
     \cup F("items", e.dump.items = d.items)
     \cup F("probe", \A a \in DOMAIN e.dump.probe : \A c \in DOMAIN d.probe :
              e.dump.probe[a][1] = d.probe[c][1] => e.dump.probe[a] = d.probe[c]),
     rs[2] >>
=============================================================================
