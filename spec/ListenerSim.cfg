SPECIFICATION Spec
CONSTANTS
  Senders = {"s1", "s2"}
  NInd = 2
  NCb = 2
  MaxQ = 1
  LocalQueueRef = TRUE
  StopOrder = "listener-first"
  Restart = FALSE
  LateCb = FALSE
  CbList = "live"







CHECK_DEADLOCK FALSE
