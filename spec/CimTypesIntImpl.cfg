SPECIFICATION Spec
CONSTANTS
  InfExc = "ValueError"
  StringSlotLax = FALSE
  RangeCheck = TRUE
  AnyCimIntAsIs = FALSE
  ArrayHeadShortcut = FALSE
  Deltas <- DeltasSmall
INVARIANT ImplWithinReq
INVARIANT ArrImplWithinReq
CHECK_DEADLOCK FALSE
