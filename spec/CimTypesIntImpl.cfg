SPECIFICATION Spec
CONSTANTS
  InfExc = "ValueError"
  StringSlotLax = FALSE
  RangeCheck = TRUE
  AnyCimIntAsIs = FALSE
  Deltas <- DeltasSmall
INVARIANT ImplWithinReq
CHECK_DEADLOCK FALSE
