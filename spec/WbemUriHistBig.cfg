SPECIFICATION Spec
CONSTANTS
  V <- VFixed
  MaxLen = 4
  HistFmts = {"standard", "canonical"}
  PrintFmts = {"standard", "canonical"}
INVARIANT HistRoundTrip
INVARIANT HistIndependent
INVARIANT HistWellFormed
CHECK_DEADLOCK FALSE
