SPECIFICATION Spec
CONSTANTS
  V <- VFixed
  MaxLen = 4
  HistFmts = {"standard"}
  PrintFmts = {"standard", "canonical"}
  ObsSeq <- ObsStdCanon
INVARIANT HistRoundTrip
INVARIANT HistIndependent
INVARIANT HistWellFormed
CHECK_DEADLOCK FALSE
