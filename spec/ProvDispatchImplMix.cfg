\* quick, both provider types on the same class (descriptors 1 and 3), few shapes
SPECIFICATION Spec
CONSTANTS
  NsArgFormatBug = FALSE
  ClassnamesAssert = FALSE
  OutOnlyUnchecked = FALSE
  PragmaCaseSensitive = FALSE
  RecompileExisting = FALSE
  Variant = "none"
  Provs <- ProvsMix
  NsArgs <- NsArgsSmall
  SetupBehs = {"ok", "raise"}
  Targets <- TargetsSmall
  KeyU = {1}
  GenDepth = 0
  MaxStore = 1
  IwLevel = "lite"
  MethLevel = "lite"
INVARIANT ImplRefinesReq
INVARIANT MappingHolds
INVARIANT ReqWellFormed
CONSTRAINT StoreBound
CHECK_DEADLOCK FALSE
