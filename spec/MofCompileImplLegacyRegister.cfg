\* regression config: class name recorded as known before CreateClass succeeded: after a failed compile a class depending on that name is rejected on the same compiler (must violate Reusable)
SPECIFICATION Spec
CONSTANTS
  MaxProd = 1
  MaxDepth = 6
  OnlyKinds = {"class"}
  IncludeGuard = TRUE
  NsNoneCheck = TRUE
  HexBounds = TRUE
  CtxBounds = TRUE
  ValueWrapped = TRUE
  RepoWrapped = TRUE
  EmbFinally = TRUE
  RestoreOnReturn = TRUE
  EmbRestoreAll = TRUE
  SuperCheckFirst = TRUE
  AncestryWalk = TRUE
  GuardCanonical = TRUE
  RegisterAfterCreate = FALSE
  NsCachesInit = TRUE
  EmbNullChecked = TRUE
  OverflowWrapped = TRUE
  InstOffsetAll = TRUE
  OpenPrecheck = TRUE
  EmbLexerClone = TRUE
INVARIANT TypeOK
INVARIANT ImplRefinesReq
INVARIANT PositionFileOK
INVARIANT Reusable

CHECK_DEADLOCK FALSE
