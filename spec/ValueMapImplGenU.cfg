SPECIFICATION Spec
CONSTANTS
  TMin = 0
  TMax = 15
  Pts <- PtsU4t
  MaxLen = 3
  FixTrunc = TRUE
  FixGuard = TRUE
  FixOct0 = TRUE
  FixSkip = TRUE
  FixUncl = TRUE
  FixCase = TRUE
  FixItems = TRUE
  ItemsOnce = FALSE
  Lenient <- LenNone
  WithLex = FALSE
  Emit = TRUE
  WithBad = FALSE
INVARIANT EmitUInv
CHECK_DEADLOCK FALSE
