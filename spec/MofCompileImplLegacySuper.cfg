\* regression config: MOFWBEMConnection.CreateClass stores the class before it looks the superclass up: class X : X is accepted, instance of X never ends (must violate ImplRefinesReq: RecursionError)
SPECIFICATION Spec
CONSTANTS
  MaxProd = 1
  MaxDepth = 6
  OnlyKinds = {"class"}
  IncludeGuard = TRUE
  NsNoneCheck = TRUE
  HexBounds = TRUE
  CtxBounds = TRUE
  ValueWrapped = TRUE
  RepoWrapped = TRUE
  EmbFinally = TRUE
  RestoreOnReturn = TRUE
  EmbRestoreAll = TRUE
  SuperCheckFirst = FALSE
  AncestryWalk = FALSE
  GuardCanonical = TRUE
  RegisterAfterCreate = TRUE
  NsCachesInit = TRUE
  EmbNullChecked = TRUE
  OverflowWrapped = TRUE
  InstOffsetAll = TRUE
  OpenPrecheck = TRUE
  EmbLexerClone = TRUE
INVARIANT TypeOK
INVARIANT ImplRefinesReq
INVARIANT PositionFileOK
INVARIANT Reusable

CHECK_DEADLOCK FALSE
