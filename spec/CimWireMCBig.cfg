\* Thorough tier: all 15 CIM types, one attribute set.
SPECIFICATION Spec
CONSTANTS
  Types = {"string", "char16", "boolean", "datetime", "reference", "uint8", "sint8", "uint16", "sint16", "uint32", "sint32", "uint64", "sint64", "real32", "real64"}
  QualTypes = {"string", "boolean", "uint8"}
  KeyTypes = {"string", "char16", "uint8", "boolean", "numeric"}
  Shapes = {"null", "nulla", "scalar", "empty", "v", "n", "vn"}
  StrVals <- StrValsSmall
  CharVals = {"ltr", "amp"}
  Names = {"a"}
  MaxEls = 2
  MaxDepth = 1
  MaxKids = 1
  MaxAttrs = 1
  Modes = {"entity", "cdata"}
  W <- WFixed
  RootKinds = {"inst", "class", "ipath", "cpath", "prop", "pval", "qual", "qdecl", "meth", "parm"}
  EmbPaths = FALSE
INVARIANT NormIdempotent
INVARIANT ReqAcceptsNorm
INVARIANT ReqRejects
INVARIANT ImplMeetsReq
CHECK_DEADLOCK FALSE
