--------------------------- MODULE ListenerLifeReq ---------------------------
(***************************************************************************)
(* X02 - lifecycle of pywbem.WBEMListener: requirement machine (event      *)
(* style, pure operators; the only source of verdicts).                    *)
(*                                                                         *)
(* There is no given statement; the clauses below are what pywbem's own    *)
(* documentation promises (pywbem/_listener.py docstrings = docs/          *)
(* indication.rst via autodoc, docs/changes.rst).  Where the documentation *)
(* is silent every behaviour is accepted.                                  *)
(*                                                                         *)
(* StartFail   start(): "Raises: ListenerCertificateError: Error with the  *)
(*             certificate file or its private key file when using HTTPS.  *)
(*             ListenerPortError: WBEM listener port is already in use.    *)
(*             ... OSError: Other error"  (changes.rst 1.9.0: ListenerStart*)
(*             Error instead of OSError), and "If this method raises an    *)
(*             exception, the callback thread and listener threads are     *)
(*             cleaned up again."  Class docstring: "The listener must be  *)
(*             stopped in order to free the TCP/IP port it listens on" -   *)
(*             so a listener that is not started holds no port.            *)
(*   .ProblemReported / .DocumentedException / .NoSpuriousFailure          *)
(*   .CallbackThreadCleanedUp / .ListenerThreadsCleanedUp / .PortsFreed    *)
(* Start       "first the callback thread is started ... Then, the         *)
(*             listener threads for HTTP and HTTPS are started (depending  *)
(*             on which ports have been specified)"; http_started: "whether*)
(*             the listener is started for the HTTP port"                  *)
(*   .StartedMatchesPorts / .ThreadsRunning                                *)
(*             "The WBEM listener must not already be running": start() on *)
(*             a running listener is outside the contract - everything is  *)
(*             accepted from then on (phase "undef").  A listener that was *)
(*             stopped, or whose start() failed, is not running, so start()*)
(*             is in contract again (restart).                             *)
(* Stop        stop(): "This method can also be called when the WBEM       *)
(*             listener was already stopped."  "the listener threads are   *)
(*             first stopped to make sure that no new indications can be   *)
(*             received. Then, the callback thread completes its delivery  *)
(*             of indications that are in the indication queue, and when   *)
(*             the queue is empty, the callback thread is stopped."  No    *)
(*             exception is documented.                                    *)
(*   .NoException / .ThreadsStopped / .PortsFreed / .NotStartedAfterwards  *)
(*   .NoRequestInProgress / .AcceptedIndicationsDelivered                  *)
(* Stopped     consequence of the two texts above for the time between a   *)
(*             stop() / failed start() and the next start(): nothing is    *)
(*             received and nothing is delivered (in particular nothing    *)
(*             stale after a restart).                                     *)
(*   .NoIndicationAccepted / .NoDelivery                                   *)
(* Context     __enter__: "Returns the listener object. Note that the enter*)
(*             method does not start the listener."  __exit__: "Stops the  *)
(*             listener by calling stop()", returns False.                 *)
(*   .EnterReturnsListener / .EnterDoesNotStart / .ExitReturnsFalse        *)
(*             (+ all Stop clauses for __exit__)                           *)
(* AddCallback "The callback function will be called for each indication   *)
(*             this listener receives"; "If the callback function is       *)
(*             already known to the listener, it will not be added."; "All *)
(*             of the defined callbacks will be executed for each          *)
(*             indication. They will be executed serially in the order that*)
(*             they were added and on the same thread."  Whether an        *)
(*             indication received BEFORE add_callback() returned reaches  *)
(*             the new callback is not said: both accepted.                *)
(*   Deliver.KnownCallback / Deliver.NeverTwice / Deliver.OnlyAccepted     *)
(*   Deliver.RefusedNeverDelivered / Deliver.RegistrationOrder             *)
(*   Deliver.OneIndicationAtATime / Deliver.SameThread                     *)
(*   AddCallback.NoException                                               *)
(* Props       http_port/https_port: "int: HTTP port at which this listener*)
(*             can be reached. None means there is no port set up";        *)
(*             http_started/https_started: "whether the listener is started*)
(*             for the HTTP port. If no port is set up for HTTP, False is  *)
(*             returned."; logger: "Each listener object has its own       *)
(*             separate logger object with the name pywbem.listener.{id}". *)
(*             Evaluated on the snapshot every API call event carries, i.e.*)
(*             in every lifecycle state.                                   *)
(*             host, certfile, keyfile, max_ind_queue_size: the values the *)
(*             constructor was given (certfile/keyfile: "None means there  *)
(*             is no certificate file being used (that is, no port is set  *)
(*             up for HTTPS)").                                            *)
(*   .PortsAsConfigured / .LoggerStable / .StartedReflectsServer           *)
(*   .NoPortNoStart / .UnchangedByNonLifecycleCall / .ReadNeverRaises      *)
(*   .ConstructorArgumentsKept                                             *)
(*                                                                         *)
(* Events (all fields present in every event, monomorphic):                *)
(*   ev  "init"     constructor returned: arg_http, arg_https (-1 = None)  *)
(*       "begin"    an API call starts: op, c (add_callback), busy_http,   *)
(*                  busy_https, bad_cert (start: what the environment      *)
(*                  holds for this attempt)                                *)
(*       "ret"      it returned/raised: op, exc (class name, "" = none;    *)
(*                  the name of the first DOCUMENTED class in the MRO if   *)
(*                  there is one), retv, + snapshot                        *)
(*       "req"/"resp"  a sender's request s,n begins / got its answer kind *)
(*                  "ok" | "err" | "refused" | "dropped"                   *)
(*       "deliver"  callback c invoked with indication s,n on thread th    *)
(*       "end"      outcome ("done" unless the execution hung)             *)
(*   snapshot: http_port https_port http_started https_started (properties)*)
(*       up_http up_https (server really serving) cb_threads srv_threads   *)
(*       (live threads) open_srv (server sockets not closed) logger_ok     *)
(*       consts_ok (host/certfile/keyfile/max_ind_queue_size as given)     *)
(***************************************************************************)
EXTENDS Integers, Sequences, FiniteSets, TLC

F(name, holds) == IF holds THEN {} ELSE {name}
Rng(q) == {q[i] : i \in DOMAIN q}
Idx(q, x) == IF x \in Rng(q) THEN CHOOSE i \in DOMAIN q : q[i] = x ELSE 0
NoItem == <<"", 0>>
Item(e) == <<e.s, e.n>>
NoEnv == [busy_http |-> FALSE, busy_https |-> FALSE, bad_cert |-> FALSE]

InitState ==
  [phase |-> "new",      \* new stopped starting running stopping undef
   op |-> "",            \* call in progress
   http |-> -1, https |-> -1,          \* configured ports
   hs |-> FALSE, hss |-> FALSE,        \* *_started in the last snapshot
   env |-> NoEnv,        \* environment of the start() in progress
   cbs |-> <<>>,         \* callbacks in registration order (no duplicates)
   adding |-> 0,         \* callback whose add_callback() has not returned
   pending |-> {},       \* requests being handled
   need |-> {},          \* <<item, c>>: c was registered when item arrived
   tent |-> {},          \* acknowledged while start() was still in progress
   oblig |-> {},         \* acknowledged by a started listener
   acked |-> {}, refused |-> {},
   dl |-> {},            \* <<item, c>> delivered
   cur |-> NoItem,       \* indication whose delivery is in progress / last
   thr |-> {}]           \* <<item, thread>>

Ports(s) == (IF s.http # -1 THEN {"http"} ELSE {}) \cup
            (IF s.https # -1 THEN {"https"} ELSE {})
Registered(s) == Rng(s.cbs) \ {s.adding}
Complete(s, x) == \A c \in Rng(s.cbs) : <<x, c>> \in s.need => <<x, c>> \in s.dl
LastIdx(s, x) ==
  LET is == {Idx(s.cbs, p[2]) : p \in {d \in s.dl : d[1] = x}} IN
  IF is = {} THEN 0 ELSE CHOOSE m \in is : \A k \in is : k <= m

(* clauses that hold in every state, also outside the contract *)
PropsAlways(s, e) ==
     F("Props.PortsAsConfigured",
       e.http_port = s.http /\ e.https_port = s.https)
\cup F("Props.LoggerStable", e.logger_ok)
\cup F("Props.ConstructorArgumentsKept", e.consts_ok)
\cup F("Props.NoPortNoStart",
       (s.http = -1 => ~e.http_started) /\ (s.https = -1 => ~e.https_started))

Props(s, e) ==
     PropsAlways(s, e)
\cup F("Props.StartedReflectsServer",
       e.http_started = e.up_http /\ e.https_started = e.up_https)

Unchanged(s, e) ==
  F("Props.UnchangedByNonLifecycleCall",
    e.http_started = s.hs /\ e.https_started = s.hss)

StoppedSnapshot(pfx, e) ==
     F(pfx \o ".ThreadsStopped",
       e.cb_threads = 0 /\ e.srv_threads = 0 /\ ~e.up_http /\ ~e.up_https)
\cup F(pfx \o ".PortsFreed", e.open_srv = 0)
\cup F(pfx \o ".NotStartedAfterwards", ~e.http_started /\ ~e.https_started)

StartRet(s, e) ==
  LET exp == (IF (s.env.busy_http /\ s.http # -1) \/
                 (s.env.busy_https /\ s.https # -1)
              THEN {"ListenerPortError"} ELSE {})
             \cup (IF s.env.bad_cert /\ s.https # -1
                   THEN {"ListenerCertificateError"} ELSE {}) IN
  IF e.exc = ""
  THEN    F("StartFail.ProblemReported", exp = {})
     \cup F("Start.StartedMatchesPorts",
            e.http_started = (s.http # -1) /\ e.https_started = (s.https # -1))
     \cup F("Start.ThreadsRunning",
            e.cb_threads = 1 /\ e.srv_threads = Cardinality(Ports(s)))
  ELSE    (IF exp = {} THEN {"StartFail.NoSpuriousFailure"}
           ELSE F("StartFail.DocumentedException", e.exc \in exp))
     \cup F("StartFail.CallbackThreadCleanedUp", e.cb_threads = 0)
     \cup F("StartFail.ListenerThreadsCleanedUp",
            e.srv_threads = 0 /\ ~e.up_http /\ ~e.up_https /\
            ~e.http_started /\ ~e.https_started)
     \cup F("StartFail.PortsFreed", e.open_srv = 0)

StopRet(s, e) ==
     F("Stop.NoException", e.exc = "")
\cup StoppedSnapshot("Stop", e)
\cup F("Stop.NoRequestInProgress", s.pending = {})
\cup F("Stop.AcceptedIndicationsDelivered", \A x \in s.oblig : Complete(s, x))
\cup (IF e.op = "exit" THEN F("Context.ExitReturnsFalse", e.retv = "false")
      ELSE {})

DeliverFails(s, e) ==
  LET x == Item(e)
      c == e.c
      i == Idx(s.cbs, c) IN
     F("Deliver.KnownCallback", i # 0)
\cup (IF i = 0 THEN {} ELSE
     F("Deliver.NeverTwice", <<x, c>> \notin s.dl)
\cup F("Deliver.OnlyAccepted", x \in s.acked \/ x \in s.pending)
\cup F("Deliver.RefusedNeverDelivered", x \notin s.refused)
     \* "in the order that they were added", none left out
\cup F("Deliver.RegistrationOrder",
       /\ i > LastIdx(s, x)
       /\ \A k \in 1..(i - 1) :
             <<x, s.cbs[k]>> \in s.need => <<x, s.cbs[k]>> \in s.dl)
     \* "serially": an indication is finished before the next one begins
\cup F("Deliver.OneIndicationAtATime",
       x = s.cur \/ ({d \in s.dl : d[1] = x} = {} /\
                     (s.cur = NoItem \/ Complete(s, s.cur))))
\cup F("Deliver.SameThread", \A p \in s.thr : p[1] = x => p[2] = e.th)
\cup F("Stopped.NoDelivery", s.phase # "stopped"))

Fails(s, e) ==
  IF e.ev = "init" THEN
       F("Props.PortsAsConfigured",
         e.http_port = e.arg_http /\ e.https_port = e.arg_https)
  \cup F("Props.LoggerStable", e.logger_ok)
  \cup F("Props.ConstructorArgumentsKept", e.consts_ok)
  \cup F("Props.StartedReflectsServer",
         e.http_started = e.up_http /\ e.https_started = e.up_https)
  \cup StoppedSnapshot("Init", e)
  ELSE IF e.ev = "end" THEN F("End.ExecutionCompleted", e.outcome = "done")
  ELSE IF s.phase = "undef" THEN
       (IF e.ev = "ret" THEN PropsAlways(s, e) ELSE {})
  ELSE IF e.ev = "ret" THEN
       (IF e.op = "start" THEN Props(s, e) \cup StartRet(s, e)
        ELSE IF e.op \in {"stop", "exit"} THEN Props(s, e) \cup StopRet(s, e)
        ELSE IF e.op = "enter" THEN
               Props(s, e) \cup Unchanged(s, e)
          \cup F("Context.EnterReturnsListener", e.retv = "self" /\ e.exc = "")
          \cup F("Context.EnterDoesNotStart",
                 e.http_started = s.hs /\ e.https_started = s.hss)
        ELSE IF e.op = "add_callback" THEN
               Props(s, e) \cup Unchanged(s, e)
          \cup F("AddCallback.NoException", e.exc = "")
        ELSE   Props(s, e) \cup Unchanged(s, e)
          \cup F("Props.ReadNeverRaises", e.exc = ""))
  ELSE IF e.ev = "resp" THEN
       F("Response.AfterRequest", e.kind = "refused" \/ Item(e) \in s.pending)
  \cup F("Stopped.NoIndicationAccepted",
         ~(e.kind = "ok" /\ s.phase = "stopped"))
  ELSE IF e.ev = "deliver" THEN DeliverFails(s, e)
  ELSE {}

Apply(s, e) ==
  IF e.ev = "init" THEN
    [s EXCEPT !.phase = "stopped", !.http = e.arg_http, !.https = e.arg_https,
              !.hs = e.http_started, !.hss = e.https_started]
  ELSE IF e.ev = "begin" THEN
    IF e.op = "start" THEN
      [s EXCEPT !.op = e.op,
                !.phase = IF @ = "stopped" THEN "starting" ELSE "undef",
                !.env = [busy_http |-> e.busy_http, busy_https |-> e.busy_https,
                         bad_cert |-> e.bad_cert],
                !.tent = {}]
    ELSE IF e.op \in {"stop", "exit"} THEN
      [s EXCEPT !.op = e.op, !.phase = IF @ = "undef" THEN @ ELSE "stopping"]
    ELSE IF e.op = "add_callback" THEN
      IF e.c \in Rng(s.cbs) THEN [s EXCEPT !.op = e.op]
      ELSE [s EXCEPT !.op = e.op, !.cbs = Append(@, e.c), !.adding = e.c]
    ELSE [s EXCEPT !.op = e.op]
  ELSE IF e.ev = "ret" THEN
    LET s1 == [s EXCEPT !.op = "", !.adding = 0, !.hs = e.http_started,
                        !.hss = e.https_started] IN
    IF s.phase = "undef" THEN s1
    ELSE IF e.op = "start" THEN
      IF e.exc = "" THEN [s1 EXCEPT !.phase = "running",
                                    !.oblig = @ \cup s.tent, !.tent = {}]
      ELSE [s1 EXCEPT !.phase = "stopped", !.tent = {}]
    ELSE IF e.op \in {"stop", "exit"} THEN
      [s1 EXCEPT !.phase = "stopped", !.oblig = {}]
    ELSE s1
  ELSE IF e.ev = "req" THEN
    [s EXCEPT !.pending = @ \cup {Item(e)},
              !.need = @ \cup {<<Item(e), c>> : c \in Registered(s)}]
  ELSE IF e.ev = "resp" THEN
    IF e.kind = "ok" THEN
      [s EXCEPT !.pending = @ \ {Item(e)}, !.acked = @ \cup {Item(e)},
                !.tent = IF s.phase = "starting" THEN @ \cup {Item(e)} ELSE @,
                !.oblig = IF s.phase \in {"running", "stopping"}
                          THEN @ \cup {Item(e)} ELSE @]
    ELSE IF e.kind = "err" THEN
      [s EXCEPT !.pending = @ \ {Item(e)}, !.refused = @ \cup {Item(e)}]
    ELSE [s EXCEPT !.pending = @ \ {Item(e)}]
  ELSE IF e.ev = "deliver" THEN
    [s EXCEPT !.dl = @ \cup {<<Item(e), e.c>>}, !.cur = Item(e),
              !.thr = @ \cup {<<Item(e), e.th>>}]
  ELSE s

(* fold a sequence of events: used by the design model ListenerLife.tla *)
RECURSIVE Run(_, _)
Run(o, es) ==
  IF es = <<>> THEN o
  ELSE Run([s |-> Apply(o.s, Head(es)),
            bad |-> o.bad \cup Fails(o.s, Head(es))], Tail(es))

StartFailClauses ==
  {"StartFail.ProblemReported", "StartFail.NoSpuriousFailure",
   "StartFail.DocumentedException", "StartFail.CallbackThreadCleanedUp",
   "StartFail.ListenerThreadsCleanedUp", "StartFail.PortsFreed"}
=============================================================================
