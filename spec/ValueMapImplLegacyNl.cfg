SPECIFICATION Spec
CONSTANTS
  TMin = 0
  TMax = 15
  Pts <- PtsU4t
  MaxLen = 2
  FixTrunc = TRUE
  FixGuard = TRUE
  FixOct0 = TRUE
  FixSkip = TRUE
  FixUncl = TRUE
  FixCase = TRUE
  FixItems = TRUE
  ItemsOnce = FALSE
  Lenient <- LenNl
  WithLex = TRUE
  Emit = FALSE
  WithBad = FALSE
CHECK_DEADLOCK FALSE
INVARIANT ImplEqualsClaims
