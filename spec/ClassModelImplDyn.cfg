SPECIFICATION Spec
CONSTANTS
  ClassLevelPropagate = FALSE
  ParamResolve = TRUE
  InitRestated = TRUE
  OriginFromSuper = FALSE
  AllowModifyBusy = FALSE
  SigCheck = TRUE
  Parent <- Chain3
  Mode = "dyn"
  QSels = {{}}
  Vias = {"api"}
  InstKeys = {1}
  WithModify = TRUE
  AllFlags = FALSE
  GenDepth = 0
INVARIANT ImplRefinesReq
INVARIANT MappingHolds
INVARIANT GetFullOk
INVARIANT EnumOk
CHECK_DEADLOCK FALSE
