---------------------------- MODULE CimTypesIntMC ----------------------------
(***************************************************************************)
(* TLC: for EVERY cell of the decision table                               *)
(*     Store(container, declared type, value class, value)                 *)
(* the code-shaped model's outcome is admissible for the requirement.      *)
(* With EMIT_DIR set in the environment the table is written as JSON       *)
(* (one input per cell) for the harness, which runs every cell on the real *)
(* code.  The table is explored in two stages so that the work is spread   *)
(* over the workers.                                                       *)
(***************************************************************************)
EXTENDS CimTypesInt, Json, IOUtils, FiniteSetsExt, SequencesExt

CONSTANTS Deltas         \* deltas around every anchor

DeltasSmall == {-1, 0, 1}
DeltasBig == {-2, -1, 0, 1, 2}

VARIABLES stage, cell
vars == <<stage, cell>>

Values == {V(a, d) : a \in Anchors, d \in Deltas}
Types == DeclTypes \cup {"infer"}

Cells(c, dt) ==
  {[c |-> c, dt |-> dt, vc |-> vc, v |-> v] :
     <<vc, v>> \in {p \in ValueClasses \X Values :
                      Applicable(c, dt, p[1], p[2])}}
(* with EMIT_DIR set, the cells of every (container, type) pair are written *)
(* to <EMIT_DIR>/<container>_<type>.json when that pair is expanded         *)
Emit(c, dt) ==
  IF "EMIT_DIR" \notin DOMAIN IOEnv THEN TRUE
  ELSE IF IOEnv.EMIT_DIR = "" THEN TRUE
  ELSE JsonSerialize(IOEnv.EMIT_DIR \o "/" \o c \o "_" \o dt \o ".json",
                     SetToSeq(Cells(c, dt)))

(* array cells: stage 2; cell.items is the item sequence *)
ArrCells(c, dt) ==
  IF c \in ArrContainers /\ dt \in DeclTypes
  THEN {[c |-> c, dt |-> dt, items |-> s] : s \in ArrShapes(dt)}
  ELSE {}
EmitArr(c, dt) ==
  IF "EMIT_DIR" \notin DOMAIN IOEnv THEN TRUE
  ELSE IF IOEnv.EMIT_DIR = "" \/ ArrCells(c, dt) = {} THEN TRUE
  ELSE JsonSerialize(IOEnv.EMIT_DIR \o "/arr_" \o c \o "_" \o dt \o ".json",
                     SetToSeq(ArrCells(c, dt)))

Init == stage = 0 /\ cell \in {[c |-> c, dt |-> dt, vc |-> "", v |-> NoV,
                                  items |-> <<>>] :
                                 <<c, dt>> \in Containers \X Types}
Next == /\ stage = 0
        /\ Emit(cell.c, cell.dt)
        /\ EmitArr(cell.c, cell.dt)
        /\ \/ /\ stage' = 1
              /\ cell' \in {x @@ [items |-> <<>>] : x \in Cells(cell.c, cell.dt)}
           \/ /\ stage' = 2
              /\ cell' \in {x @@ [vc |-> "arr", v |-> NoV] :
                              x \in ArrCells(cell.c, cell.dt)}
Spec == Init /\ [][Next]_vars

ImplWithinReq ==
  stage = 1 =>
    StoreFails(ImplEvent(cell.c, cell.dt, cell.vc, cell.v)) = {}

ArrImplWithinReq ==
  stage = 2 => ArrFails(ImplArrEvent(cell.c, cell.dt, cell.items)) = {}

(* some sanity about the number model *)
ASSUME \A t \in IntTypes : Accept(t, MinOf[t]) /\ Accept(t, MaxOf[t])
         /\ ~Accept(t, V(MinOf[t].a, MinOf[t].d - 1))
         /\ ~Accept(t, V(MaxOf[t].a, MaxOf[t].d + 1))
ASSUME \A v \in Values, w \in Values : Leq(v, w) \/ Leq(w, v)

=============================================================================
