\* full query universe (argument errors, GetCentralInstances answers) on
\* worlds with up to 2 association instances
SPECIFICATION Spec
CONSTANTS
  Variant = "code"
  PinnedAssert = FALSE
  EctpU <- EctpWide
  RpU <- RpWide
  A1U <- AWide
  A2U <- AWide
  MaxEdges = 2
  Modes1 <- AllModes
  ModesO <- AllModes
  QuerySet = "full"
INVARIANT ImplRefinesReq
INVARIANT ReqTotal
CHECK_DEADLOCK FALSE
