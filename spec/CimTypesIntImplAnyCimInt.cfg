SPECIFICATION Spec
CONSTANTS
  InfExc = "ValueError"
  StringSlotLax = FALSE
  RangeCheck = TRUE
  AnyCimIntAsIs = TRUE
  ArrayHeadShortcut = FALSE
  Deltas <- DeltasSmall
INVARIANT ImplWithinReq
CHECK_DEADLOCK FALSE
