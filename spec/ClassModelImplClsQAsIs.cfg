SPECIFICATION Spec
CONSTANTS
  ClassLevelPropagate = FALSE
  ParamResolve = TRUE
  InitRestated = TRUE
  OriginFromSuper = FALSE
  AllowModifyBusy = FALSE
  SigCheck = TRUE
  Parent <- Chain3
  Mode = "clsq"
  QSels = {{1}, {2}, {3}}
  Vias = {"api"}
  InstKeys = {}
  WithModify = FALSE
  AllFlags = FALSE
  GenDepth = 0
INVARIANT ImplRefinesReq
INVARIANT MappingHolds
INVARIANT GetFullOk
INVARIANT EnumOk
CHECK_DEADLOCK FALSE
