\* NULL multiplicity: array values with no, one and two or more NULL entries (adjacent,
\* separated, NULL or value last) in every valued element kind, alone or below an
\* instance / class, repaired design.  Must pass.
SPECIFICATION Spec
CONSTANTS
  Types = {"string", "uint8"}
  QualTypes = {"string", "uint8"}
  KeyTypes = {"string"}
  Shapes = {"null", "nulla", "empty", "vn", "nv", "vv", "nn", "nvn", "nnv", "vnn", "nvnv"}
  StrVals <- StrValsSmall
  CharVals = {"ltr", "amp"}
  Names = {"a"}
  MaxEls = 2
  MaxDepth = 1
  MaxKids = 1
  MaxAttrs = 0
  Modes = {"entity", "cdata"}
  W <- WFixed
  RootKinds = {"inst", "class", "prop", "pval", "qual", "qdecl"}
  EmbPaths = FALSE
INVARIANT NormIdempotent
INVARIANT ReqAcceptsNorm
INVARIANT ReqRejects
INVARIANT ImplMeetsReq
CHECK_DEADLOCK FALSE
