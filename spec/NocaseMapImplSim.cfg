SPECIFICATION GenSpec
CONSTANTS
  PinnedPopSentinel = FALSE
  PinnedCtorNone = FALSE
  KeepOldKey = FALSE
  MoveToEnd = FALSE
  LowerFold = FALSE
  CopyShares = FALSE
  LegacyCopy = FALSE
  ViewsSnapshot = FALSE
  SetDefaultPut = FALSE
  EszBase = 2
  NB = 3
  NV = 3
  ValU = {1, 2}
  MaxPairs = 1
  MaxPairsAlt = 1
  GenDepth = 14
  GenMax = 3
INVARIANT ImplRefinesReq
INVARIANT ReqWellFormed
INVARIANT MappingHolds
CONSTRAINT GenConstraint
CHECK_DEADLOCK FALSE
