\* The repaired design: CR in character data is written as &#13;.
\* All strings of <= 4 symbols over the 13-class alphabet, both modes, depth 0
\* (thorough tier: <= 5, XmlTextMCFixedBig.cfg; embedded depths: *Deep*.cfg).
SPECIFICATION Spec
CONSTANTS
  Alphabet <- Cls
  MaxLen = 4
  Depths = {0}
  Modes = {"entity", "cdata"}
  V <- CrFixed
  AttrAll = FALSE
INVARIANT RoundTrip
INVARIANT AttrRoundTrip
INVARIANT Attr0
INVARIANT WriterTotal
INVARIANT Stable
CHECK_DEADLOCK FALSE
