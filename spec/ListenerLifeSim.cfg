\* behaviour generation (pinned shape, HTTP+HTTPS)
SPECIFICATION Spec
CONSTANTS
  Cfg = {"http", "https"}
  Envs <- EnvsBoth
  Senders = {"s1", "s2"}
  NInd = 2
  MaxQ = 1
  MaxOps = 3
  InitCbs <- Cbs1
  AddCbs = {1, 2}
  FailCleanup = "code"
  CloseOnCertFail = FALSE
  ClearRobust = FALSE
  StopGuard = TRUE
  DupCheck = TRUE
  FailStopsDelivery = TRUE
CHECK_DEADLOCK FALSE
