\* regression configuration (must FAIL): the guards in front of type_from_name() / int(x, 16) only
\* look at the beginning of the text -> a built-in exception leaves the reader, handler dies
SPECIFICATION Spec
CONSTANTS
  MaxReq = 1
  Alphabet <- LexAlone
  San = TRUE
  ClChk = TRUE
  Threaded = TRUE
  FinalValid = FALSE
  QCap = 0
  Gating = FALSE
  QfRet = TRUE
  Echo = "xml10"
  PName = "exact"
  Deep = "caught"
  LexG = "prefix"
INVARIANT InvNoDroppedConnection
CHECK_DEADLOCK FALSE
