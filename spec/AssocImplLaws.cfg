SPECIFICATION Spec
CONSTANTS
  LegacyBreak = FALSE
  SwapIn = ""
  NoShadow = FALSE
  NodeU <- NodeU4
  MaxAssoc = 2
  CreateNs = {1}
  ClsU = {"AB", "ABS", "AT", "AL"}
  AcU <- AcSmall
  RcU <- RcSmall
  RlU <- RlSmall
  GenDepth = 0
INVARIANT DeclSymmetric
INVARIANT DeclMonotone
INVARIANT ClassNamesEqFull
CHECK_DEADLOCK FALSE
