SPECIFICATION Spec
CONSTANTS
  K = 1
  Variant = {"ns_drop_empty"}
  Emit = FALSE
INVARIANTS ImplValid ImplHeaders ImplReqOk
CHECK_DEADLOCK FALSE
