SPECIFICATION Spec
CONSTANTS
  CopyObject = TRUE
  TypeOrder = "builtin_first"
  MaxLen = 3
INVARIANT ServerSawWhatCallerSupplied
INVARIANT CallerObjectsUntouched
CHECK_DEADLOCK FALSE
