SPECIFICATION Spec
CONSTANTS
  MaxRef = 60
  MaxMut = 3
  Roots <- AllRoots
  ShallowChildDict = FALSE
  SharedPath = FALSE
  EmptyListPassThrough = FALSE
  Mode = "hist"
  HashCache = "none"
  LazyHash = "getter"
  ObsKinds <- NoObs
  EmitLazy = FALSE
  CopyViaCtor = FALSE
  Emit = FALSE
INVARIANT HashLawful
INVARIANT ObsReadOnly
INVARIANT FreshHashIsAbs
INVARIANT CacheOnlyAfterHash
CHECK_DEADLOCK FALSE
