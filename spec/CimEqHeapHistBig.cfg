SPECIFICATION Spec
CONSTANTS
  MaxRef = 60
  MaxMut = 3
  Roots <- AllRoots
  ShallowChildDict = FALSE
  SharedPath = FALSE
  EmptyListPassThrough = FALSE
  Mode = "hist"
  HashCache = "none"
  CopyViaCtor = FALSE
  Emit = FALSE
INVARIANT HashLawful
INVARIANT CacheOnlyAfterHash
CHECK_DEADLOCK FALSE
