SPECIFICATION Spec
CONSTANTS
  MockVerifiesOpen = TRUE
  PrettyNoneWithoutDebug = TRUE
  SuspendedMinZero = TRUE
  LenInBytes = TRUE
  SnapshotShallow = FALSE
  SuspendNotSticky = FALSE
  CopySharesStatistics = FALSE
  LastReplyNotReset = FALSE
  StopOnlyOnSuccess = FALSE
  Mode = "http"
  En0 = {TRUE}
  Names = {"EnumerateInstanceNames", "GetInstance"}
  Fam = {"op", "stats"}
  OpShapes <- OpsHttpStat
  MaxConn = 1
  MaxSteps = 6
  GenDepth = 0
  Advs = {0, 2}
  Lens <- LensSmall
  Srvs <- SrvsSmall
  MaxSnap = 1
INVARIANT ImplRefinesReq
INVARIANT ReqWellFormed
INVARIANT MappingHolds
CHECK_DEADLOCK FALSE
