\* Behaviour emission (-simulate): abstract trees whose array values have no, one and
\* two or more NULL entries (all ShapeSeq shapes), all value types, for the binding.
SPECIFICATION Spec
CONSTANTS
  Types = {"string", "char16", "boolean", "datetime", "uint8", "sint8", "uint16", "sint16", "uint32", "sint32", "uint64", "sint64", "real32", "real64"}
  QualTypes = {"string", "boolean", "uint32", "real64", "datetime", "char16", "sint8"}
  KeyTypes = {"string", "uint8"}
  Shapes = {"null", "nulla", "empty", "vn", "nv", "vv", "nn", "nvn", "nnv", "vnn", "nvnv"}
  StrVals <- StrValsSim
  CharVals = {"ltr", "sp", "lt", "amp", "quot", "apos", "nbsp"}
  Names = {"a", "b", "c"}
  MaxEls = 5
  MaxDepth = 2
  MaxKids = 3
  MaxAttrs = 2
  Modes = {"entity", "cdata"}
  W <- WFixed
  RootKinds = {"inst", "class", "prop", "pval", "qual", "qdecl"}
  EmbPaths = FALSE
INVARIANT NormIdempotent
CHECK_DEADLOCK FALSE
