\* MUST FAIL: stop() without the `if self._http_server` guards
SPECIFICATION Spec
CONSTANTS
  Cfg = {"http"}
  Envs <- EnvsHttp
  Senders = {"s1"}
  NInd = 2
  MaxQ = 1
  MaxOps = 2
  InitCbs <- Cbs1
  AddCbs = {2}
  FailCleanup = "code"
  CloseOnCertFail = FALSE
  ClearRobust = FALSE
  StopGuard = FALSE
  DupCheck = TRUE
  FailStopsDelivery = TRUE
INVARIANT StartFailHolds
INVARIANT OtherHolds
PROPERTY MainTerminates
CHECK_DEADLOCK FALSE
