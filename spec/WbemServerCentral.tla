------------------------- MODULE WbemServerCentral -------------------------
(***************************************************************************)
(* X06 - requirement for pywbem.WBEMServer.get_central_instances().        *)
(*                                                                         *)
(* Sources: docstring of WBEMServer.get_central_instances (pywbem/         *)
(* _server.py), docs/appendix.rst "Profile advertisement methodologies",   *)
(* DSP1033 as cited there.                                                 *)
(*                                                                         *)
(* A WORLD is what the WBEM server holds and how it behaves:               *)
(*   ectp  set of <<profile, element>>   CIM_ElementConformsToProfile      *)
(*                                       (ConformantStandard, ManagedElement)*)
(*   rp    set of <<ante, dep>>          CIM_ReferencedProfile             *)
(*                                       (Antecedent, Dependent)           *)
(*   a1,a2 set of <<x, y>>               instances of two resource         *)
(*                                       associations A1, A2 (Left, Right) *)
(*   cm    profile -> "impl" | "unsup" | "err"                             *)
(*         how the server answers the traversal of                         *)
(*         CIM_ElementConformsToProfile from that profile: it works,       *)
(*         CIM_ERR_NOT_SUPPORTED (= central class methodology not          *)
(*         implemented), or another CIM error (code ErrCode)               *)
(* Resources r1..r6 have fixed classes (ClsOf); C2 is a subclass of C.     *)
(* No association instance connects an object with itself.                 *)
(*                                                                         *)
(* A QUERY is one call: p (profile), cc/sc ("" = None), sp = [given, path],*)
(* dir, ptype ("path" | "other": profile_path is no CIMInstanceName),      *)
(* gci = "off" (try_gci_method=False) or the way the server answers the    *)
(* GetCentralInstances method: "notimpl" (METHOD_NOT_FOUND /               *)
(* METHOD_NOT_AVAILABLE / NOT_SUPPORTED), "failed" (CIM_ERR_FAILED),       *)
(* "ok" (return value 0, out parameter CentralInstances = gl), "rcfail"    *)
(* (return value # 0), "err" (another CIM error, code ErrCode).            *)
(*                                                                         *)
(* Clauses (an observed outcome is [k, code, S]: kind = "ok" or the name   *)
(* of the exception class, CIM status code or 0, SET of returned paths -   *)
(* order and multiplicity of the returned list are not documented):        *)
(*                                                                         *)
(*  Args.ValueErrorOrTypeError   reference_direction not 'dmtf'/'snia' =>  *)
(*        ValueError; profile_path not a CIMInstanceName => TypeError      *)
(*        ("Raises: ValueError: user errors regarding input parameter      *)
(*        values; TypeError: ... parameter types"); both wrong: either.    *)
(*  Gci.ResultOfMethod           method asked for and it works => exactly  *)
(*        the paths it returned ("GetCentralInstances methodology").       *)
(*  Gci.FailureIsModelError      method returns nonzero => ModelError.     *)
(*  Gci.ServerErrorPropagates    other CIM error => that CIMError          *)
(*        ("Exceptions raised by WBEMConnection").  CIM_ERR_FAILED: the    *)
(*        documentation is silent whether it means "not implemented";      *)
(*        both readings are accepted (observed: treated as not             *)
(*        implemented).                                                    *)
(*  Central.ExactlyConformingElements   central class methodology          *)
(*        implemented => exactly the elements associated through           *)
(*        CIM_ElementConformsToProfile, possibly none ("is associated      *)
(*        directly with the set of central instances"; methodologies are   *)
(*        tried in the documented order, so the scoping parameters are     *)
(*        ignored here).                                                   *)
(*  Central.ServerErrorPropagates                                          *)
(*  Scoping.*  (only when the central class methodology is not implemented)*)
(*        ParametersRequired: one of central_class, scoping_class,         *)
(*        scoping_path is None => ValueError.                              *)
(*        MalformedPath: a scoping path alternates association, class,     *)
(*        ..., association (odd length); anything else is a user error     *)
(*        regarding an input parameter value => ValueError.                *)
(*        OneReferencingProfile: the scoping profile is THE profile at     *)
(*        the Dependent ('dmtf') / Antecedent ('snia') end of the          *)
(*        CIM_ReferencedProfile instances that reference p at the other    *)
(*        end; none or several => ModelError.                              *)
(*        ScopingProfileCentralInstances: the scoping profile's central    *)
(*        instances are looked up (central class methodology); a server    *)
(*        error propagates; none => ModelError; methodology not            *)
(*        implemented there => ModelError or ValueError (documentation     *)
(*        silent which; observed ValueError).                              *)
(*        ReachableAlongReversedPath: otherwise the result is exactly the  *)
(*        set of instances c of central_class (subclasses included) such   *)
(*        that a walk  s = x0 -a_n- x1 ... -a_1- x_n = c  exists from a    *)
(*        central instance s of the scoping profile along the REVERSED     *)
(*        scoping path with every intermediate x_i of the class the path   *)
(*        names ("navigates down along the reversed scoping path").        *)
(*  When several error conditions of the scoping stage hold, any of their  *)
(*  exceptions is accepted (the order of the checks is not documented).    *)
(***************************************************************************)
EXTENDS Naturals, Sequences, FiniteSets, TLC

Profiles == {"p1", "p2", "p3"}
AllRes == {"r1", "r2", "r3", "r4", "r5", "r6"}
ClsOf(r) == CASE r = "r1" -> "S" [] r = "r2" -> "M" [] r = "r3" -> "C"
              [] r = "r4" -> "C2" [] r = "r5" -> "S" [] r = "r6" -> "C"
              [] OTHER -> "?"
IsA(c, d) == c = d \/ (c = "C2" /\ d = "C")
AssocNames == {"A1", "A2"}
ClassNames == {"S", "M", "C", "C2"}
ErrCode == 2                       \* CIM_ERR_ACCESS_DENIED

Rng(q) == {q[i] : i \in DOMAIN q}

(*------------------------------ graph ------------------------------------*)
Edges(W, a) == IF a = "A1" THEN W.a1 ELSE IF a = "A2" THEN W.a2 ELSE {}
Adj(W, a) == Edges(W, a) \cup {<<e[2], e[1]>> : e \in Edges(W, a)}
Ectp(W, p) == {e[2] : e \in {x \in W.ectp : x[1] = p}}
(* the profiles at the `dir` end of the CIM_ReferencedProfile instances    *)
(* that have p at the other end                                            *)
Up(W, p, dir) ==
  IF dir = "dmtf" THEN {e[2] : e \in {x \in W.rp : x[1] = p /\ x[2] # p}}
  ELSE {e[1] : e \in {x \in W.rp : x[2] = p /\ x[1] # p}}

(*--------------------------- scoping path --------------------------------*)
WellFormedPath(sp) ==
  /\ Len(sp) \in {1, 3, 5}
  /\ \A i \in DOMAIN sp : IF i \in {1, 3, 5} THEN sp[i] \in AssocNames
                          ELSE sp[i] \in ClassNames
(* hops from the scoping instance down to the central instance:            *)
(* <<assoc, class of the far end>>                                         *)
Hops(sp, cc) ==
  LET n == (Len(sp) + 1) \div 2 IN
  [i \in 1..n |-> <<sp[Len(sp) - 2 * (i - 1)],
                    IF i = n THEN cc ELSE sp[Len(sp) - 2 * (i - 1) - 1]>>]
Touched(W) == {e[2] : e \in W.ectp} \cup {e[1] : e \in W.a1 \cup W.a2}
              \cup {e[2] : e \in W.a1 \cup W.a2}
Walks(W, hops) ==
  {w \in [0..Len(hops) -> Touched(W)] :
     \A i \in 1..Len(hops) : /\ <<w[i - 1], w[i]>> \in Adj(W, hops[i][1])
                             /\ IsA(ClsOf(w[i]), hops[i][2])}
ReachableFrom(W, X, hops) ==
  {w[Len(hops)] : w \in {v \in Walks(W, hops) : v[0] \in X}}

(*------------------------------ outcomes ---------------------------------*)
Out(k, code, S) == [k |-> k, code |-> code, S |-> S]
Exc(k) == Out(k, 0, {})
CimErr(code) == Out("CIMError", code, {})

BadDir(Q) == Q.dir \notin {"dmtf", "snia"}
BadPath(Q) == Q.ptype # "path"
GciDecides(Q) == Q.gci \in {"ok", "rcfail", "err"}
GciMay(Q) == Q.gci = "failed"      \* documentation silent: may propagate

ParamsMissing(Q) == Q.cc = "" \/ Q.sc = "" \/ ~Q.sp.given
Malformed(Q) == Q.sp.given /\ ~WellFormedPath(Q.sp.path)

ScopingErrors(W, Q) ==
  LET ups == Up(W, Q.p, Q.dir) IN
  (IF ParamsMissing(Q) THEN {Exc("ValueError")} ELSE {})
  \cup (IF Malformed(Q) THEN {Exc("ValueError")} ELSE {})
  \cup (IF Cardinality(ups) # 1 THEN {Exc("ModelError")}
        ELSE LET q == CHOOSE x \in ups : TRUE IN
             CASE W.cm[q] = "err" -> {CimErr(ErrCode)}
               [] W.cm[q] = "unsup" -> {Exc("ModelError"), Exc("ValueError")}
               [] OTHER -> IF Ectp(W, q) = {} THEN {Exc("ModelError")} ELSE {})

ScopingResult(W, Q) ==
  LET q == CHOOSE x \in Up(W, Q.p, Q.dir) : TRUE IN
  ReachableFrom(W, Ectp(W, q), Hops(Q.sp.path, Q.cc))

AfterGci(W, Q) ==
  CASE W.cm[Q.p] = "impl" -> {Out("ok", 0, Ectp(W, Q.p))}
    [] W.cm[Q.p] = "err" -> {CimErr(ErrCode)}
    [] OTHER -> IF ScopingErrors(W, Q) # {} THEN ScopingErrors(W, Q)
                ELSE {Out("ok", 0, ScopingResult(W, Q))}

(* the set of admissible outcomes of query Q in world W *)
Adm(W, Q) ==
  IF BadDir(Q) \/ BadPath(Q)
  THEN (IF BadDir(Q) THEN {Exc("ValueError")} ELSE {})
       \cup (IF BadPath(Q) THEN {Exc("TypeError")} ELSE {})
  ELSE CASE Q.gci = "ok" -> {Out("ok", 0, Rng(Q.gl))}
         [] Q.gci = "rcfail" -> {Exc("ModelError")}
         [] Q.gci = "err" -> {CimErr(ErrCode)}
         [] Q.gci = "failed" -> {CimErr(1)} \cup AfterGci(W, Q)
         [] OTHER -> AfterGci(W, Q)

(* name of the clause that decides query Q in world W *)
Clause(W, Q) ==
  IF BadDir(Q) \/ BadPath(Q) THEN "Args.ValueErrorOrTypeError"
  ELSE IF Q.gci = "ok" THEN "Gci.ResultOfMethod"
  ELSE IF Q.gci = "rcfail" THEN "Gci.FailureIsModelError"
  ELSE IF Q.gci = "err" THEN "Gci.ServerErrorPropagates"
  ELSE IF W.cm[Q.p] = "impl" THEN "Central.ExactlyConformingElements"
  ELSE IF W.cm[Q.p] = "err" THEN "Central.ServerErrorPropagates"
  ELSE IF ParamsMissing(Q) THEN "Scoping.ParametersRequired"
  ELSE IF Malformed(Q) THEN "Scoping.MalformedPath"
  ELSE IF Cardinality(Up(W, Q.p, Q.dir)) # 1 THEN "Scoping.OneReferencingProfile"
  ELSE IF ScopingErrors(W, Q) # {} THEN "Scoping.ScopingProfileCentralInstances"
  ELSE "Scoping.ReachableAlongReversedPath"

Verdict(W, Q, o) == IF o \in Adm(W, Q) THEN {} ELSE {Clause(W, Q)}

(*----------------- event style (trace validation) -------------------------*)
(* events: [op |-> "world", w |-> world as JSON]                            *)
(*         [op |-> "gci", q |-> query, res |-> [k, code, L]]                *)
PairSet(q) == {<<q[i][1], q[i][2]>> : i \in DOMAIN q}
WorldOf(j) == [ectp |-> PairSet(j.ectp), rp |-> PairSet(j.rp),
               a1 |-> PairSet(j.a1), a2 |-> PairSet(j.a2),
               cm |-> [p \in Profiles |-> j.cm[p]]]
EmptyWorld == [ectp |-> {}, rp |-> {}, a1 |-> {}, a2 |-> {},
               cm |-> [p \in Profiles |-> "impl"]]
WorldOk(W) ==
  /\ W.ectp \subseteq Profiles \X AllRes /\ W.rp \subseteq Profiles \X Profiles
  /\ W.a1 \subseteq AllRes \X AllRes /\ W.a2 \subseteq AllRes \X AllRes
  /\ \A e \in W.rp \cup W.a1 \cup W.a2 : e[1] # e[2]
  /\ \A p \in Profiles : W.cm[p] \in {"impl", "unsup", "err"}

InitState == [W |-> EmptyWorld]
Observed(e) == Out(e.res.k, e.res.code, Rng(e.res.L))
Fails(s, e) ==
  CASE e.op = "world" -> IF WorldOk(WorldOf(e.w)) THEN {} ELSE {"BadWorld"}
    [] e.op = "gci" -> Verdict(s.W, e.q, Observed(e))
    [] OTHER -> {"UnknownOperation"}
Apply(s, e) == IF e.op = "world" THEN [s EXCEPT !.W = WorldOf(e.w)] ELSE s
=============================================================================
