\* MUST FAIL (pinned discard loop): start() raises queue.Empty
SPECIFICATION Spec
CONSTANTS
  Cfg = {"http", "https"}
  Envs <- EnvsCertOnly
  Senders = {"s1"}
  NInd = 2
  MaxQ = 1
  MaxOps = 1
  InitCbs <- Cbs1
  AddCbs = {}
  FailCleanup = "full"
  CloseOnCertFail = TRUE
  ClearRobust = FALSE
  StopGuard = TRUE
  DupCheck = TRUE
  FailStopsDelivery = TRUE
INVARIANT StartFailHolds
INVARIANT OtherHolds
PROPERTY MainTerminates
CHECK_DEADLOCK FALSE
