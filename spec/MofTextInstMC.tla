--------------------------- MODULE MofTextInstMC ---------------------------
(***************************************************************************)
(* Model check of the instance level of C08 over the whole universe        *)
(* "class declares (none / NULL / scalar / array) x instance gives         *)
(* (absent / NULL / value shapes)" for every CIM type; one TLA+ step per   *)
(* stage: object -> tomof() text -> compiled instance.                     *)
(*                                                                         *)
(*   InstRoundTrip   the compiled instance is the original one             *)
(*   NullStaysNull   a property given as NULL compiles to NULL whatever    *)
(*                   the class declares                                    *)
(*   AbsentStaysOut  a property the instance does not have is not added    *)
(*                                                                         *)
(* MofTextInstMC.cfg is the repaired design (= the unchanged tree for      *)
(* ordinary properties; for embedded-object properties the unchanged tree  *)
(* is the variant EmbInnerResets + EmbDropsNullItem) and must pass; it     *)
(* also PRINTS the universe, which the driver concretises case by case.    *)
(* MofTextInstMCLegacyNull.cfg (SkipNull) must FAIL; the other wrong       *)
(* variants, the unchanged tree's embedded branch among them, are refuted  *)
(* by the ASSUME below (number of refuting cases printed).                 *)
(***************************************************************************)
EXTENDS MofTextInst

CONSTANTS SkipNull, FillAbsent, OmitNull, EmbSkipsFalsy, Emit

V == [skipNull |-> SkipNull, fillAbsent |-> FillAbsent, omitNull |-> OmitNull,
      embSkipsFalsy |-> EmbSkipsFalsy, embInnerResets |-> FALSE,
      embDropsNullItem |-> FALSE]

VARIABLE st
vars == <<st>>

Init == \E c \in Universe :
          st = [c |-> c, phase |-> "object", text |-> {}, comp |-> {}]

WriteMof == /\ st.phase = "object"
            /\ st' = [st EXCEPT !.phase = "text",
                                !.text = Tomof(Orig(st.c), V)]
CompileMof == /\ st.phase = "text"
              /\ st' = [st EXCEPT !.phase = "compiled",
                                  !.comp = Compile(st.text, ClassOf(st.c),
                                                   st.c, V)]
Finished == st.phase = "compiled" /\ UNCHANGED st
Next == WriteMof \/ CompileMof \/ Finished
Spec == Init /\ [][Next]_vars

InstRoundTrip == st.phase = "compiled" => st.comp = Orig(st.c)
NullStaysNull ==
  (st.phase = "compiled" /\ st.c.gives = "null")
     => [name |-> "P", val |-> "NULL"] \in st.comp
AbsentStaysOut ==
  (st.phase = "compiled" /\ st.c.gives = "absent")
     => \A p \in st.comp : p.name # "P"

(* sensitivity of the model: every single wrong variant is refuted by a    *)
(* case of the universe, and exactly where it should be                    *)
Wrong(f) == [Repaired EXCEPT ![f] = TRUE]
Refuting(f) == {c \in Universe : ~RoundTrips(c, Wrong(f))}
ASSUME /\ \A c \in Universe : RoundTrips(c, Repaired)
       /\ \A c \in Universe : c.emb = "" => RoundTrips(c, Pinned)
       /\ Refuting("skipNull") =
            {c \in Universe : /\ c.emb = "" /\ c.gives = "null"
                              /\ c.dflt \in {"scalar", "array"}}
       /\ Refuting("fillAbsent") = {c \in Universe : c.gives = "absent"}
       /\ Refuting("omitNull") = {c \in Universe : c.gives = "null"}
       /\ Refuting("embSkipsFalsy") = NullOrEmptyEmbCases
       /\ Refuting("embInnerResets") = NestedEmbCases
       /\ Refuting("embDropsNullItem") = NullItemEmbCases
       /\ \A c \in Universe : RoundTrips(c, Pinned) = (c \notin PinnedEmbCases)
       /\ \A f \in {"skipNull", "fillAbsent", "omitNull", "embSkipsFalsy",
                     "embInnerResets", "embDropsNullItem"} :
            PrintT(<<"REFUTED", f, Cardinality(Refuting(f))>>)

(* emission of the universe; the last field: position tag ("nested" and    *)
(* "null-item": the unchanged tree is the variant that does not round-trip *)
(* this case)                                                              *)
ASSUME ~Emit \/ \A c \in Universe :
         PrintT(<<"CASE", c.type, c.arr, c.dflt, c.gives, c.shape, c.emb,
                  c.depth, CaseTag(c)>>)
=============================================================================
