SPECIFICATION Spec
CONSTANTS
  Leaks = {}
  Pinned = FALSE
  PairMode = "none"
  Emit = FALSE
INVARIANT TypeOK
INVARIANT ImplRefinesReq
INVARIANT ClosedForm
INVARIANT NoStuckStage
PROPERTY Terminates
CHECK_DEADLOCK FALSE
