\* MUST FAIL (pinned tree): certificate failure leaves the HTTPS socket bound
SPECIFICATION Spec
CONSTANTS
  Cfg = {"https"}
  Envs <- EnvsCertOnly
  Senders = {"s2"}
  NInd = 1
  MaxQ = 1
  MaxOps = 1
  InitCbs <- Cbs1
  AddCbs = {}
  FailCleanup = "code"
  CloseOnCertFail = FALSE
  ClearRobust = FALSE
  StopGuard = TRUE
  DupCheck = TRUE
  FailStopsDelivery = TRUE
INVARIANT StartFailHolds
INVARIANT OtherHolds
PROPERTY MainTerminates
CHECK_DEADLOCK FALSE
