SPECIFICATION SpecPar
CONSTANTS
  K = 2
  Variant = {}
  Emit = FALSE
INVARIANTS ImplValid ImplHeaders ImplReqOk
CHECK_DEADLOCK FALSE
