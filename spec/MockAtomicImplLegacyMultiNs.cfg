SPECIFICATION Spec
CONSTANTS
  Rollback = TRUE
  NsProviderOrder = "fixed"
  MaxBatch = 3
  MultiNsPrecheck = "interleaved"
  RollbackKinds = "all"
  SchemaListRollback = TRUE
  DeleteClassUndo = TRUE
  RollbackScope = "repository"
  DeleteClassInstances = "subtree-first"
  NsAlias = "nocase"
  MultiNsDelete = "all-first"
INVARIANT Atomic
INVARIANT Completes
CHECK_DEADLOCK FALSE
