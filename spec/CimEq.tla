------------------------------- MODULE CimEq -------------------------------
(***************************************************************************)
(* C05 - equality, hashing and copying of CIM objects are lawful.          *)
(* Requirement module (pure operators; the only source of verdicts).       *)
(*                                                                         *)
(* Abstract CIM objects are uniform trees ("nodes"):                       *)
(*   [k  |-> kind,                                                         *)
(*    nm |-> << name-valued public attributes >>   name = [b |-> base,     *)
(*                                  c |-> lexical variant]; None = NoName  *)
(*    at |-> << every other scalar public attribute, as a value token >>   *)
(*    ch |-> << child groups >>  group = << [key |-> name, n |-> node] >>  *)
(*   ]                                                                     *)
(* A bag entry whose key is NoName is stored under the UNNAMED key (None):  *)
(* the keybinding without a name that pywbem builds for a KEYVALUE /       *)
(* VALUE.REFERENCE without KEYBINDING in a server response (DSP0201); it   *)
(* is a key like any other (matches only itself).                          *)
(* A child group is either a BAG keyed by the folded key (keybindings,     *)
(* properties, methods, parameters, qualifiers, scopes, dictionary items)  *)
(* or an ordered SEQUENCE (the `value` slot, array elements, `path`).      *)
(* The concrete order of the entries and the variant `c` of every name are *)
(* present in the node (they matter for the concrete object) but AbsEq     *)
(* never looks at them.  Attribute layout per kind:                        *)
(*   InstanceName  nm <<classname, host, namespace>>  ch <<keybindings>>   *)
(*   ClassName     nm <<classname, host, namespace>>                       *)
(*   Instance      nm <<classname>>     ch <<path, properties, qualifiers>>*)
(*   Class         nm <<classname, superclass>>                            *)
(*                                ch <<path, properties, methods, quals>>  *)
(*   Property      nm <<name, reference_class, class_origin>>              *)
(*       at <<type, embedded_object, is_array, array_size, propagated>>    *)
(*       ch <<value, qualifiers>>                                          *)
(*   Method        nm <<name, class_origin>>  at <<return_type, propagated>>*)
(*       ch <<parameters, qualifiers>>                                     *)
(*   Parameter     nm <<name, reference_class>>                            *)
(*       at <<type, embedded_object, is_array, array_size>>                *)
(*       ch <<value, qualifiers>>                                          *)
(*   Qualifier     nm <<name>>  at <<type, propagated, overridable,        *)
(*       tosubclass, toinstance, translatable>>  ch <<value>>              *)
(*   QualifierDeclaration nm <<name>>  at <<type, is_array, array_size,    *)
(*       overridable, tosubclass, toinstance, translatable>>               *)
(*       ch <<value, scopes>>                                              *)
(*   DateTime      at <<"ts"|"iv", instant, utc offset, precision, text>>  *)
(*   NocaseDict    ch <<items>>                                            *)
(*   S (scalar)    at <<token, numeric value or "">>                       *)
(*   L (array)     ch <<elements>>                                         *)
(*                                                                         *)
(* AbsEq is four-valued:                                                   *)
(*   "T" the statement demands ==,   "F" the statement demands !=,         *)
(*   "U" the statement is silent (same number in different Python types,   *)
(*       e.g. 1 / 1.0 / True / Uint8(1); None vs the DSP0201 default of a  *)
(*       flag; CIMDateTime spellings of the same instant): T or F accepted,*)
(*   "X" a value slot holds objects of different kinds (== across kinds is *)
(*       out of scope and raises TypeError by design): F or raising        *)
(*       accepted, T is not.                                               *)
(*                                                                         *)
(* Lexical case of names.  The base `b` of a name is its class under       *)
(* simple lower-casing: two spellings with the same base differ ONLY in    *)
(* lexical case and the statement demands that they are not distinguished. *)
(* Outside ASCII there are spellings that full Unicode case folding        *)
(* identifies although lower-casing does not ("Straße" / "STRASSE", final  *)
(* sigma, long s).  Whether such a pair "differs only in lexical case" is  *)
(* not decided by the statement: FoldOf(b) is the class under full case    *)
(* folding, and two names with different bases in the same fold class      *)
(* compare "U" (either answer accepted, but every law - symmetry,          *)
(* negation, a == b => equal hash, membership - still binds the answer     *)
(* actually given).  The same holds for the keys of a bag.                 *)
(***************************************************************************)
EXTENDS Naturals, Sequences, FiniteSets, TLC

NoName == [b |-> "", c |-> 0]

(* special-fold name classes: base "n6s" (e.g. "STRASSE") folds to the    *)
(* class of base "n6" (e.g. "Straße") under full case folding only        *)
FoldOf(b) == IF b = "n6s" THEN "n6" ELSE b

IsBag(k, g) ==
  CASE k = "InstanceName" -> TRUE
    [] k = "Instance" -> g \in {2, 3}
    [] k = "Class" -> g \in {2, 3, 4}
    [] k = "Property" -> g = 2
    [] k = "Method" -> TRUE
    [] k = "Parameter" -> g = 2
    [] k = "QualifierDeclaration" -> g = 2
    [] k = "NocaseDict" -> TRUE
    [] OTHER -> FALSE

(* DSP0201 default of a flag attribute ("" = the attribute has none) *)
DefaultOf(k, i) ==
  CASE k = "Property" /\ i \in {3, 5} -> "False"
    [] k = "Method" /\ i = 2 -> "False"
    [] k = "Parameter" /\ i = 3 -> "False"
    [] k = "Qualifier" /\ i \in {2, 5, 6} -> "False"
    [] k = "Qualifier" /\ i \in {3, 4} -> "True"
    [] k = "QualifierDeclaration" /\ i \in {2, 6, 7} -> "False"
    [] k = "QualifierDeclaration" /\ i \in {4, 5} -> "True"
    [] OTHER -> ""

Comb(S) == IF "X" \in S THEN "X"
           ELSE IF "F" \in S THEN "F"
           ELSE IF "U" \in S THEN "U" ELSE "T"

NameEq(x, y) == IF x.b = y.b THEN "T"
                ELSE IF FoldOf(x.b) = FoldOf(y.b) THEN "U" ELSE "F"

AtEq(k, i, x, y) ==
  IF x = y THEN "T"
  ELSE IF DefaultOf(k, i) # "" /\ {x, y} = {"none", DefaultOf(k, i)} THEN "U"
  ELSE "F"

ScalarEq(a, b) ==
  IF a.at[1] = b.at[1] THEN "T"
  ELSE IF a.at[2] # "" /\ a.at[2] = b.at[2] THEN "U"
  ELSE "F"

DtEq(a, b) ==
  IF a.at[1] # b.at[1] \/ a.at[2] # b.at[2] THEN "F"
  ELSE IF a.at[3] = b.at[3] /\ a.at[4] = b.at[4] THEN "T" ELSE "U"

IsNone(n) == n.k = "S" /\ n.at[1] = "none"

RECURSIVE AbsEq(_, _), GroupEq(_, _, _, _)

GroupEq(k, g, ga, gb) ==
  IF Len(ga) # Len(gb) THEN "F"
  ELSE IF IsBag(k, g)
  THEN Comb({ LET m == {j \in 1..Len(gb) : gb[j].key.b = ga[i].key.b}
                  mf == {j \in 1..Len(gb) :
                           FoldOf(gb[j].key.b) = FoldOf(ga[i].key.b)} IN
              IF m # {} THEN AbsEq(ga[i].n, gb[CHOOSE j \in m : TRUE].n)
              ELSE IF mf # {}      \* keys equal under full case folding only
              THEN Comb({"U", AbsEq(ga[i].n, gb[CHOOSE j \in mf : TRUE].n)})
              ELSE "F"
              : i \in 1..Len(ga) })
  ELSE Comb({ AbsEq(ga[i].n, gb[i].n) : i \in 1..Len(ga) })

AbsEq(a, b) ==
  IF a.k # b.k
  THEN IF IsNone(a) \/ IsNone(b) THEN "F"        \* None never equals a value
       ELSE IF {a.k, b.k} = {"S", "L"} THEN "F"  \* scalar vs array
       ELSE "X"
  ELSE IF a.k = "S" THEN ScalarEq(a, b)
  ELSE IF a.k = "DateTime" THEN DtEq(a, b)
  ELSE IF Len(a.nm) # Len(b.nm) \/ Len(a.at) # Len(b.at) \/ Len(a.ch) # Len(b.ch)
  THEN "MALFORMED"
  ELSE Comb({ NameEq(a.nm[i], b.nm[i]) : i \in 1..Len(a.nm) }
            \cup { AtEq(a.k, i, a.at[i], b.at[i]) : i \in 1..Len(a.at) }
            \cup { GroupEq(a.k, g, a.ch[g], b.ch[g]) : g \in 1..Len(a.ch) })

(***************************************************************************)
(* Hash classes.  Canon(n, mode) is a homogeneous tree                     *)
(*   [t, g, p, s, kids]  (tag, group, position/key, payload, set of kids)  *)
(* mode "strict": kernel of AbsEq = "T" (finest admissible ==)             *)
(* mode "loose" : coarsest admissible == (every "U" pair identified)       *)
(* mode "py"    : what Python value semantics do today (numbers by value,  *)
(*                datetimes by instant, None distinct from a default,      *)
(*                names by lower(), dictionary keys by casefold())         *)
(* AbsHashClass is the loose canon: a lawful hash may be any function of   *)
(* it that is constant on the classes of the == actually implemented.      *)
(***************************************************************************)
RECURSIVE Canon(_, _, _, _)
Canon(n, mode, gtag, ptag) ==
  LET payload ==
        IF n.k = "S"
        THEN IF mode \in {"loose", "py"} /\ n.at[2] # ""
             THEN <<"num", n.at[2]>> ELSE <<"tok", n.at[1]>>
        ELSE IF n.k = "DateTime"
        THEN IF mode = "strict" THEN <<n.at[1], n.at[2], n.at[3], n.at[4]>>
             ELSE <<n.at[1], n.at[2]>>
        ELSE [i \in 1..Len(n.nm) |->
                IF mode = "loose" THEN FoldOf(n.nm[i].b) ELSE n.nm[i].b]
             \o [i \in 1..Len(n.at) |->
                   IF mode = "loose" /\ n.at[i] = "none"
                      /\ DefaultOf(n.k, i) # ""
                   THEN DefaultOf(n.k, i) ELSE n.at[i]]
  IN [t |-> n.k, g |-> gtag, p |-> ptag, s |-> payload,
      kids |-> UNION { { Canon(n.ch[g][i].n, mode, ToString(g),
                               IF IsBag(n.k, g)
                               THEN IF mode = "strict" THEN n.ch[g][i].key.b
                                    ELSE FoldOf(n.ch[g][i].key.b)
                               ELSE ToString(i))
                         : i \in 1..Len(n.ch[g]) } : g \in 1..Len(n.ch) }]

AbsHashClass(n) == Canon(n, "loose", "", "")

(***************************************************************************)
(* Copying: which cells of a copy must be the copy's own.                  *)
(* A mutation is addressed by the steps from the copied object to the cell *)
(* that is changed in place (rebinding an attribute of an object cell,     *)
(* inserting/deleting/replacing an item of a dictionary or list cell).     *)
(* Step tokens: "<slot>:<D|L|O>" (dictionary / list / object reached),     *)
(* "#k:O" (object stored under a dictionary key), "#i:O" (array element).  *)
(*   deepcopy, pickle : every reachable cell                               *)
(*   copy.copy        : only the object itself (attribute rebinding); a    *)
(*                      NocaseDict has no attribute but its item storage,  *)
(*                      which a "completely shallow" copy shares: free     *)
(*   .copy()          : the documented middle depth - the object, its      *)
(*                      child dictionaries, its value list, its path (for  *)
(*                      an instance: to the middle depth of the path);     *)
(*                      NOT the child objects, embedded objects and        *)
(*                      reference values, which the documentation lists as *)
(*                      shared or leaves open (accepted both ways).        *)
(***************************************************************************)
DictSlots == {"kb:D", "props:D", "quals:D", "meths:D", "params:D", "scopes:D"}

RECURSIVE FreshUnderCopy(_, _)
FreshUnderCopy(k, st) ==
  IF st = <<>> THEN TRUE
  ELSE IF st[1] \in DictSlots \/ st[1] = "value:L" THEN Len(st) = 1
  ELSE IF st[1] = "path:O"
  THEN IF k = "Instance" THEN FreshUnderCopy("InstanceName", Tail(st))
       ELSE Len(st) = 1
  ELSE FALSE

Methods == {"copy", "copy.copy", "deepcopy", "pickle"}

MustIndep(m, k, st) ==
  CASE m \in {"deepcopy", "pickle"} -> TRUE
    [] m = "copy.copy" -> st = <<>> /\ k # "NocaseDict"
    [] m = "copy" -> FreshUnderCopy(k, st)
    [] OTHER -> FALSE

(***************************************************************************)
(* Events (vectors observed on the real objects) and their verdicts.       *)
(* Observed results are "T" / "F" / "E" (TypeError raised); anything else  *)
(* is "UNCLASSIFIED..." and rejected.                                      *)
(***************************************************************************)
Obs == {"T", "F", "E"}
Neg(x) == CASE x = "T" -> "F" [] x = "F" -> "T" [] OTHER -> x
Acc(exp) == CASE exp = "T" -> {"T"}
              [] exp = "F" -> {"F"}
              [] exp = "U" -> {"T", "F"}
              [] exp = "X" -> {"F", "E"}
              [] OTHER -> {}
C(name, ok) == IF ok THEN {} ELSE {name}

FailsPair(e) ==
  LET exp == AbsEq(e.a, e.b) IN
  C("Unclassified", {e.eab, e.eba, e.nab, e.nba, e.eaa, e.ebb, e.h, e.hs,
                     e.inset, e.indict} \subseteq Obs
                    /\ exp \in {"T", "F", "U", "X"})
  \cup C("Eq.IgnoresCaseAndOrder", exp # "T" \/ (e.eab = "T" /\ e.eba = "T"))
  \cup C("Eq.DistinguishesAttributes",
         exp \notin {"F", "X"} \/ (e.eab \in Acc(exp) /\ e.eba \in Acc(exp)))
  \cup C("Eq.NoErrorWithinKind",
         exp \notin {"T", "F", "U"} \/ (e.eab # "E" /\ e.eba # "E"))
  \cup C("Eq.Symmetric", e.eab = e.eba \/ (exp = "X" /\ "E" \in {e.eab, e.eba}))
  \cup C("Eq.Reflexive", e.eaa = "T" /\ e.ebb = "T")
  \cup C("Ne.IsNegation", e.nab = Neg(e.eab) /\ e.nba = Neg(e.eba))
  \cup C("Hash.EqualImpliesEqualHash",
         (e.eab # "T" /\ e.eba # "T") \/ e.h = "T")
  \cup C("Hash.SetDictMembership",
         exp = "X" \/ e.eab \notin {"T", "F"}
         \/ (e.inset = e.eab /\ e.indict = e.eab))
  \* e.h compares the hash values taken BEFORE the comparisons and the
  \* membership tests were evaluated; e.hs: hash(a) and hash(b) taken again
  \* AFTER them are the same values (==, !=, `in` are read-only observations)
  \cup C("Hash.StableUnderObservation", e.hs = "T")

FailsTriple(e) ==
  C("Unclassified", {e.eab, e.ebc, e.eac, e.hab, e.hbc, e.hac} \subseteq Obs)
  \cup C("Eq.Transitive", ~(e.eab = "T" /\ e.ebc = "T") \/ e.eac = "T")
  \cup C("Hash.EqualImpliesEqualHash",
         /\ (e.eab = "T" => e.hab = "T")
         /\ (e.ebc = "T" => e.hbc = "T")
         /\ (e.eac = "T" => e.hac = "T"))

FailsCopy(e) ==
  C("Unclassified", {e.ceq, e.ceqr, e.cne, e.h} \subseteq Obs
                    /\ e.m \in Methods
                    /\ \A i \in 1..Len(e.muts) :
                          e.muts[i].same \in {"T", "F"})
  \cup C("Copy.EqualsOriginal",
         e.ceq = "T" /\ e.ceqr = "T" /\ e.cne = "F"
         /\ AbsEq(e.o, e.c) \in {"T", "U"})
  \cup C("Copy.EqualHash", e.h = "T")
  \cup C("Copy.Independent",
         \A i \in 1..Len(e.muts) :
            MustIndep(e.m, e.k, e.muts[i].steps) => e.muts[i].same = "T")

(***************************************************************************)
(* Histories.  The laws bind objects at ANY point of their life: `a` is an *)
(* object after a history of hash() calls (as made by sets and dicts) and  *)
(* in-place changes through its public interface - every mutator of its    *)
(* dictionaries (setitem, delitem, pop, popitem, clear, update,            *)
(* setdefault), attribute assignment on it or on a child object reachable  *)
(* from it ("set" / "drop"), list changes; `b` is a freshly built object   *)
(* with the attributes `a` has NOW.  The event is judged like any pair:    *)
(* in particular a == b => hash(a) == hash(b) and set / dict membership.   *)
(* The history itself needs no verdict beyond being one we understand.     *)
(***************************************************************************)
(* READ-ONLY OBSERVATIONS are part of a history as well: they change no     *)
(* public attribute, so the object after them still has to satisfy every   *)
(* law against a freshly built object (which nobody has looked at yet) -   *)
(* in particular hash(a) == hash(b), with the hash values taken before a   *)
(* and b are compared.  Classes of observations (the concrete call is      *)
(* chosen by the harness):                                                 *)
(*   "read"     attribute getters, len / iteration / `in` of a dictionary  *)
(*   "render"   repr(), str(), tocimxml(), tocimxmlstr(), tomof()          *)
(*   "compare"  ==, != against an equal and against another object         *)
(*   "dup"      copy(), copy.copy, copy.deepcopy, pickle.dumps of it       *)
ObsActs == {"read", "render", "compare", "dup"}
HistActs == {"hash", "setitem", "delitem", "pop", "popitem", "clear", "update",
             "setdefault", "set", "drop"} \cup ObsActs
FailsHist(e) ==
  FailsPair(e)
  \cup C("Unclassified", \A i \in 1..Len(e.acts) : e.acts[i].v \in HistActs)

InitState == 0
Apply(s, e) == s
Fails(s, e) ==
  CASE e.ev = "pair" -> FailsPair(e)
    [] e.ev = "triple" -> FailsTriple(e)
    [] e.ev = "copy" -> FailsCopy(e)
    [] e.ev = "hist" -> FailsHist(e)
    [] OTHER -> {"Unclassified"}
=============================================================================
