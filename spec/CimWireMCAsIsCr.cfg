\* Pinned tree: CR in a string value is written verbatim.  ImplMeetsReq must be VIOLATED.
SPECIFICATION Spec
CONSTANTS
  Types = {"string", "char16", "boolean", "uint8"}
  QualTypes = {"boolean"}
  KeyTypes = {"string", "char16", "uint8", "boolean", "numeric"}
  Shapes = {"null", "nulla", "scalar", "empty", "v", "n", "vn"}
  StrVals <- StrValsSmall
  CharVals = {"ltr", "amp"}
  Names = {"a"}
  MaxEls = 2
  MaxDepth = 1
  MaxKids = 1
  MaxAttrs = 0
  Modes = {"entity", "cdata"}
  W <- WCr
  RootKinds = {"inst", "class", "ipath", "cpath", "prop", "pval", "qual", "qdecl", "meth", "parm"}
  EmbPaths = FALSE
INVARIANT ImplMeetsReq
CHECK_DEADLOCK FALSE
