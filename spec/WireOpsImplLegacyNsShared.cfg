SPECIFICATION Spec
CONSTANTS
  K = 1
  Variant = {"ns_shared"}
  Emit = FALSE
INVARIANTS ImplValid ImplHeaders ImplReqOk
CHECK_DEADLOCK FALSE
