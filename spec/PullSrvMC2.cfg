SPECIFICATION Spec
CONSTANTS
  NObj = 2
  Ids = {1, 2}
  Nss = {1}
  Maxes <- MaxesTiny
  Kinds = {1}
  Toggles = FALSE
  Srvs = {1, 2}
  Ots <- OtsOne
  Coes <- CoesOne
INVARIANT Inv_NothingTwice
INVARIANT Inv_NothingLost
INVARIANT Inv_ExactlyTraditional
INVARIANT Inv_ClosedNotOpen
INVARIANT Inv_OpenWereIssued
PROPERTY ClosedStaysClosed
PROPERTY Monotone
PROPERTY Isolated
CHECK_DEADLOCK FALSE
