\* regression config: compile_embedded_value tokenizes the nested text with the base lexer itself instead of a clone (must violate PositionLineOK: an error in a later text reports a line counted from the end of the nested texts)
SPECIFICATION Spec
CONSTANTS
  MaxProd = 1
  MaxDepth = 6
  OnlyKinds = {"instance"}
  IncludeGuard = TRUE
  NsNoneCheck = TRUE
  HexBounds = TRUE
  CtxBounds = TRUE
  ValueWrapped = TRUE
  RepoWrapped = TRUE
  EmbFinally = TRUE
  RestoreOnReturn = TRUE
  EmbRestoreAll = TRUE
  SuperCheckFirst = TRUE
  AncestryWalk = TRUE
  GuardCanonical = TRUE
  RegisterAfterCreate = TRUE
  NsCachesInit = TRUE
  EmbNullChecked = TRUE
  OverflowWrapped = TRUE
  InstOffsetAll = TRUE
  OpenPrecheck = TRUE
  EmbLexerClone = FALSE
INVARIANT TypeOK
INVARIANT ImplRefinesReq
INVARIANT PositionFileOK
INVARIANT PositionLineOK
INVARIANT Reusable

CHECK_DEADLOCK FALSE
