\* quick, method side: valid descriptors 3,4 (method; 4 needs the schema pragma)
\* + 2 refused descriptors, every InvokeMethod shape, <= 1 instance
SPECIFICATION Spec
CONSTANTS
  NsArgFormatBug = FALSE
  ClassnamesAssert = FALSE
  OutOnlyUnchecked = FALSE
  PragmaCaseSensitive = FALSE
  RecompileExisting = FALSE
  Variant = "none"
  Provs <- ProvsMeth
  NsArgs <- NsArgsSmall
  SetupBehs = {"ok", "raise"}
  Targets <- TargetsSmall
  KeyU = {1}
  GenDepth = 0
  MaxStore = 1
  IwLevel = "lite"
  MethLevel = "full"
INVARIANT ImplRefinesReq
INVARIANT MappingHolds
INVARIANT ReqWellFormed
CONSTRAINT StoreBound
CHECK_DEADLOCK FALSE
