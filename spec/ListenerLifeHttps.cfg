\* pinned code shape, HTTPS only, usable certificate
SPECIFICATION Spec
CONSTANTS
  Cfg = {"https"}
  Envs <- EnvsHttpsNoCert
  Senders = {"s2"}
  NInd = 1
  MaxQ = 1
  MaxOps = 2
  InitCbs <- Cbs1
  AddCbs = {1}
  FailCleanup = "code"
  CloseOnCertFail = FALSE
  ClearRobust = FALSE
  StopGuard = TRUE
  DupCheck = TRUE
  FailStopsDelivery = TRUE
INVARIANT StartFailHolds
INVARIANT OtherHolds
PROPERTY MainTerminates
CHECK_DEADLOCK FALSE
