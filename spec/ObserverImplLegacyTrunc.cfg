SPECIFICATION Spec
CONSTANTS
  TruncateBytesThenDecode = TRUE
  StopTimerNeedsFloat = FALSE
  RecorderConversionPartial = FALSE
INVARIANT NonInterference
INVARIANT ObserversTotal
INVARIANT StatsOnce
CHECK_DEADLOCK FALSE
