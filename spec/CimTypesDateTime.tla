--------------------------- MODULE CimTypesDateTime ---------------------------
(***************************************************************************)
(* C06, CIM datetime part.                                                 *)
(*                                                                         *)
(* "For every CIMDateTime x whose value DSP0004 can express (interval of   *)
(*  0..99999999 days, UTC offset within +-999 minutes), str(x) is a        *)
(*  25-character DSP0004 datetime string and CIMDateTime(str(x)) equals x  *)
(*  with the same kind (timestamp or interval), UTC offset and precision." *)
(*                                                                         *)
(* An abstract datetime value is  [kind, f, off, prec]:                    *)
(*   kind "ts": f = <<year, month, day, hour, minute, second, microsec>>   *)
(*   kind "iv": f = <<days, hours, minutes, seconds, microsecs>>, off = 0  *)
(*   prec = 0-based index of the first asterisk, -1 if none                *)
(* A string is a sequence of one-character strings.                        *)
(*                                                                         *)
(* Str and Parse are transcribed from pywbem/_cim_types.py                 *)
(* (CIMDateTime.__str__/_to_str/minutes_from_utc, __init__/_to_int and the *)
(* checks datetime()/timedelta() perform).  Parse(s, TRUE) is the code's   *)
(* reading (its sign class [+|-] also admits "|"), Parse(s, FALSE) the     *)
(* DSP0004 reading used by the requirement.                                *)
(***************************************************************************)
EXTENDS Integers, Sequences, FiniteSets, TLC

CONSTANTS
  PartialUsecAsterisks, \* FALSE: regression - _to_str stars the whole
                        \*   microsecond field
  NegOffsetFix,         \* FALSE: regression - minutes_from_utc without the
                        \*   utcoffset().days == -1 correction
  CopyKeepsPrecision,   \* FALSE: CIMDateTime(other) drops precision (pinned)
  ForeignTzNorm         \* "keep": CIMDateTime(datetime) keeps the tzinfo object
                        \*   it is given (tree); "seconds": regression - a tzinfo
                        \*   that is not a MinutesFromUTC is replaced by
                        \*   MinutesFromUTC(utcoffset().seconds // 60)

G(name, holds) == IF holds THEN {} ELSE {name}
Mod(a, b) == a - (a \div b) * b
Max2(a, b) == IF a > b THEN a ELSE b

Dg == <<"0", "1", "2", "3", "4", "5", "6", "7", "8", "9">>
DigitSyms == {Dg[i] : i \in 1..10}
DVal == [c \in DigitSyms |-> (CHOOSE i \in 1..10 : Dg[i] = c) - 1]
DA == DigitSyms \cup {"*"}

Pow10(n) == CASE n = 0 -> 1 [] n = 1 -> 10 [] n = 2 -> 100 [] n = 3 -> 1000
              [] n = 4 -> 10000 [] n = 5 -> 100000 [] n = 6 -> 1000000
              [] n = 7 -> 10000000 [] n = 8 -> 100000000
              [] n = 9 -> 1000000000
NumDigits(n) == CHOOSE k \in 1..10 :
                  (k = 10 \/ n < Pow10(k)) /\ (k = 1 \/ n >= Pow10(k - 1))
(* f'{n:0{w}d}' : at least w digits *)
Digits(n, w) == LET ww == Max2(w, NumDigits(n)) IN
                [i \in 1..ww |-> Dg[Mod(n \div Pow10(ww - i), 10) + 1]]
Stars(n) == [i \in 1..n |-> "*"]

Leap(y) == Mod(y, 4) = 0 /\ (Mod(y, 100) # 0 \/ Mod(y, 400) = 0)
DaysIn(y, m) == IF m = 2 THEN (IF Leap(y) THEN 29 ELSE 28)
                ELSE IF m \in {4, 6, 9, 11} THEN 30 ELSE 31

NoValue == [kind |-> "none", f |-> << >>, off |-> 0, prec |-> -1]
Ts(y, mo, d, h, mi, s, us, off, p) ==
  [kind |-> "ts", f |-> <<y, mo, d, h, mi, s, us>>, off |-> off, prec |-> p]
Iv(d, h, mi, s, us, p) ==
  [kind |-> "iv", f |-> <<d, h, mi, s, us>>, off |-> 0, prec |-> p]

TsPrecs == {-1, 4, 6, 8, 10, 12, 15, 16, 17, 18, 19, 20}
IvPrecs == {-1, 0, 8, 10, 12, 15, 16, 17, 18, 19, 20}

(* what python's datetime() / timedelta() accept *)
ValidTs(f) == /\ f[1] \in 1..9999 /\ f[2] \in 1..12
              /\ f[3] >= 1 /\ f[3] <= DaysIn(f[1], f[2])
              /\ f[4] \in 0..23 /\ f[5] \in 0..59 /\ f[6] \in 0..59
              /\ f[7] \in 0..999999

(* values the statement quantifies over *)
Expressible(x) ==
  \/ /\ x.kind = "ts" /\ Len(x.f) = 7 /\ ValidTs(x.f)
     /\ x.off >= -999 /\ x.off <= 999 /\ x.prec \in TsPrecs \cup {0}
  \/ /\ x.kind = "iv" /\ Len(x.f) = 5
     /\ x.f[1] >= 0 /\ x.f[1] <= 99999999 /\ x.f[2] \in 0..23
     /\ x.f[3] \in 0..59 /\ x.f[4] \in 0..59 /\ x.f[5] \in 0..999999
     /\ x.off = 0 /\ x.prec \in IvPrecs

(* a value "with precision p" has the minimum in every starred position *)
UsecTrunc(us, p) == IF p < 15 THEN 0
                    ELSE (us \div Pow10(21 - p)) * Pow10(21 - p)
Trunc(x) ==
  LET p == x.prec f == x.f IN
  IF p < 0 THEN x
  ELSE IF x.kind = "ts" THEN
    [x EXCEPT !.f = <<IF p <= 0 THEN 0 ELSE f[1], IF p <= 4 THEN 1 ELSE f[2],
                      IF p <= 6 THEN 1 ELSE f[3], IF p <= 8 THEN 0 ELSE f[4],
                      IF p <= 10 THEN 0 ELSE f[5], IF p <= 12 THEN 0 ELSE f[6],
                      UsecTrunc(f[7], p)>>]
  ELSE
    [x EXCEPT !.f = <<IF p <= 0 THEN 0 ELSE f[1], IF p <= 8 THEN 0 ELSE f[2],
                      IF p <= 10 THEN 0 ELSE f[3], IF p <= 12 THEN 0 ELSE f[4],
                      UsecTrunc(f[5], p)>>]

---------------------------------------------------------------------------
(* __str__ *)
FieldStr(x, value, begin, len) ==
  LET vs == Digits(value, len) IN
  IF x.prec >= 0 /\ x.prec < begin + len
  THEN LET pi == IF PartialUsecAsterisks \/ begin # 15
                 THEN Max2(0, x.prec - begin) ELSE 0 IN
       SubSeq(vs, 1, pi) \o Stars(len - pi)
  ELSE vs

(* utcoffset() = timedelta(minutes=off), which python normalises to        *)
(* (days, seconds) with 0 <= seconds < 86400 (|off| < 1440)                *)
UtcDays(off) == IF off < 0 THEN -1 ELSE 0
UtcSecondsDiv60(off) == off - UtcDays(off) * 1440   \* utcoffset().seconds // 60

(* minutes_from_utc computed from that (days, seconds) pair                *)
MinutesFromUtc(off) ==
  LET days == UtcDays(off)
      minutes == UtcSecondsDiv60(off) IN
  IF days = -1 /\ NegOffsetFix THEN 0 - (1440 - minutes) ELSE minutes

Str(x) ==
  IF x.kind = "iv" THEN
    FieldStr(x, x.f[1], 0, 8) \o FieldStr(x, x.f[2], 8, 2)
    \o FieldStr(x, x.f[3], 10, 2) \o FieldStr(x, x.f[4], 12, 2) \o <<".">>
    \o FieldStr(x, x.f[5], 15, 6) \o <<":", "0", "0", "0">>
  ELSE
    LET o == MinutesFromUtc(x.off) IN
    FieldStr(x, x.f[1], 0, 4) \o FieldStr(x, x.f[2], 4, 2)
    \o FieldStr(x, x.f[3], 6, 2) \o FieldStr(x, x.f[4], 8, 2)
    \o FieldStr(x, x.f[5], 10, 2) \o FieldStr(x, x.f[6], 12, 2) \o <<".">>
    \o FieldStr(x, x.f[7], 15, 6)
    \o <<IF o < 0 THEN "-" ELSE "+">> \o Digits(IF o < 0 THEN 0 - o ELSE o, 3)

---------------------------------------------------------------------------
(* __init__ from a string *)
Bad == [ok |-> FALSE, v |-> NoValue]
Ok(x) == [ok |-> TRUE, v |-> x]

StarIdx(s) == {i \in 1..Len(s) : s[i] = "*"}
MinS(S) == CHOOSE i \in S : \A j \in S : i <= j
MaxS(S) == CHOOSE i \in S : \A j \in S : i >= j

RECURSIVE NumUpTo(_, _)
NumUpTo(fs, k) == IF k = 0 THEN 0 ELSE NumUpTo(fs, k - 1) * 10 + DVal[fs[k]]

(* _to_int: -1 = ValueError *)
ToInt(fs, minv, isUsec) ==
  LET st == StarIdx(fs) IN
  IF st = {} THEN NumUpTo(fs, Len(fs))
  ELSE LET first == MinS(st) - 1
           after == MaxS(st) IN
       IF \E i \in (first + 1)..after : fs[i] # "*" THEN -1
       ELSE IF after # Len(fs) THEN -1
       ELSE IF ~isUsec THEN (IF first # 0 THEN -1 ELSE minv)
       ELSE NumUpTo([i \in 1..Len(fs) |-> IF fs[i] = "*" THEN "0" ELSE fs[i]],
                    Len(fs))

AllIn(s, lo, hi, S) == \A i \in lo..hi : s[i] \in S

TsMatch(s, lax) ==
  /\ Len(s) >= 25 /\ AllIn(s, 1, 14, DA) /\ s[15] = "." /\ AllIn(s, 16, 21, DA)
  /\ s[22] \in (IF lax THEN {"+", "-", "|"} ELSE {"+", "-"})
  /\ AllIn(s, 23, 25, DigitSyms)
IvMatch(s) ==
  /\ Len(s) >= 25 /\ AllIn(s, 1, 14, DA) /\ s[15] = "." /\ AllIn(s, 16, 21, DA)
  /\ s[22] = ":" /\ AllIn(s, 23, 25, {"0"})

(* the whole-string asterisk rules; returns "err" or the precision *)
StarRule(s) ==
  LET st == StarIdx(s) IN
  IF st = {} THEN -1
  ELSE LET first == MinS(st) - 1
           after == MaxS(st) IN
       IF \E i \in (first + 1)..after : s[i] \notin {"*", "."} THEN -2
       ELSE IF after # 21 THEN -2
       ELSE first

(* timedelta(days, hours, minutes, seconds, microseconds) normalised *)
NormIv(d, h, mi, s, us, p) ==
  LET mi2 == mi + s \div 60
      h2 == h + mi2 \div 60 IN
  Iv(d + h2 \div 24, Mod(h2, 24), Mod(mi2, 60), Mod(s, 60), us, p)

Parse(s, lax) ==
  IF TsMatch(s, lax) THEN
    LET p == StarRule(s) IN
    IF p = -2 THEN Bad
    ELSE LET y == ToInt(SubSeq(s, 1, 4), 0, FALSE)
             mo == ToInt(SubSeq(s, 5, 6), 1, FALSE)
             d == ToInt(SubSeq(s, 7, 8), 1, FALSE)
             h == ToInt(SubSeq(s, 9, 10), 0, FALSE)
             mi == ToInt(SubSeq(s, 11, 12), 0, FALSE)
             sc == ToInt(SubSeq(s, 13, 14), 0, FALSE)
             us == ToInt(SubSeq(s, 16, 21), 0, TRUE)
             off == NumUpTo(SubSeq(s, 23, 25), 3) IN
         IF -1 \in {y, mo, d, h, mi, sc, us} THEN Bad
         ELSE IF ~ValidTs(<<y, mo, d, h, mi, sc, us>>) THEN Bad
         ELSE Ok(Ts(y, mo, d, h, mi, sc, us,
                    IF s[22] = "-" THEN 0 - off ELSE off, p))
  ELSE IF IvMatch(s) THEN
    LET p == StarRule(s) IN
    IF p = -2 THEN Bad
    ELSE LET d == ToInt(SubSeq(s, 1, 8), 0, FALSE)
             h == ToInt(SubSeq(s, 9, 10), 0, FALSE)
             mi == ToInt(SubSeq(s, 11, 12), 0, FALSE)
             sc == ToInt(SubSeq(s, 13, 14), 0, FALSE)
             us == ToInt(SubSeq(s, 16, 21), 0, TRUE) IN
         IF -1 \in {d, h, mi, sc, us} THEN Bad
         ELSE Ok(NormIv(d, h, mi, sc, us, p))
  ELSE Bad

(* CIMDateTime(datetime object).  A python datetime carries its UTC offset *)
(* in a tzinfo object; WHICH class carries it is a dimension of the input  *)
(* space ("all datetime ... inputs to CIMDateTime, every UTC offset        *)
(* -999..+999"): none (naive, documented as UTC), pywbem's MinutesFromUTC, *)
(* or a foreign one - datetime.timezone, a user-defined tzinfo subclass,   *)
(* a zoneinfo zone (fixed-offset zones Etc/GMT+12 .. Etc/GMT-14).          *)
TzCarriers == {"naive", "MinutesFromUTC", "timezone", "usertz", "zoneinfo"}
ForeignTz(c) == c \in {"timezone", "usertz", "zoneinfo"}
CarrierCan(c, off) ==
  CASE c = "naive" -> off = 0
    [] c = "zoneinfo" -> Mod(off, 60) = 0 /\ off >= -720 /\ off <= 840
    [] OTHER -> off > -1440 /\ off < 1440
(* __init__, branch isinstance(dtarg, datetime): the wall-clock fields are *)
(* kept; the offset the object then holds                                  *)
HeldOffset(c, off) ==
  IF c = "naive" THEN 0
  ELSE IF ForeignTz(c) /\ ForeignTzNorm = "seconds" THEN UtcSecondsDiv60(off)
  ELSE off
ImplFromDatetime(c, x) == [x EXCEPT !.off = HeldOffset(c, x.off)]
(* a negative offset wrapped by a day (1440 + off) is itself within +-999  *)
(* iff off <= 999 - 1440: both sides of that boundary are offset classes   *)
WrapOffsets == {999 - 1440, 1000 - 1440}

(* CIMDateTime(other) *)
ImplCopy(x) == IF CopyKeepsPrecision THEN x ELSE [x EXCEPT !.prec = -1]

---------------------------------------------------------------------------
(* the laws TLC checks on the transcription (CimTypesDateTimeMC)           *)
RoundTripLaw(x) ==
  /\ Len(Str(x)) = 25
  /\ Parse(Str(x), FALSE) = Ok(x)
(* the object built from a datetime object prints as the DSP0004 string of *)
(* the value that was given, whatever tzinfo class carried the offset      *)
CtorLaw(c, x) ==
  LET h == ImplFromDatetime(c, x) IN
  /\ Len(Str(h)) = 25
  /\ Parse(Str(h), FALSE) = Ok(x)
(* every x reachable by parsing any string prints and re-parses as itself  *)
ParseClosedLaw(m) ==
  LET r == Parse(m, TRUE) IN
  (r.ok /\ Expressible(r.v)) => RoundTripLaw(r.v)

MutSyms == {"0", "9", "*", ".", "+", "-", ":", "|", "x"}
Mutations(s) ==
  {[s EXCEPT ![i] = c] : <<i, c>> \in (1..Len(s)) \X MutSyms}
  \cup {SubSeq(s, 1, Len(s) - 1), Append(s, "0"), Append(s, "*")}

---------------------------------------------------------------------------
(* REQUIREMENT on one observed vector e:                                   *)
(*   route    how x was made ("str","datetime","timedelta","copy","mut",   *)
(*            "random...")                                                 *)
(*   built    "ok" or the name of the exception the constructor raised     *)
(*   haswant/want   the abstract value that was concretised (if any)       *)
(*   obs      x as seen through .datetime/.timedelta/.minutes_from_utc/    *)
(*            .precision/.is_interval                                      *)
(*   s        str(x) as symbols                                            *)
(*   rt       [built, eq, obs] for x2 = CIMDateTime(str(x)); eq = (x2 == x)*)
(*   inp      the input string (routes "str", "mut"), else << >>           *)
(*   carrier  routes "datetime": the TzCarriers class of the tzinfo of the *)
(*            datetime object given (informational), else ""               *)
(* x is "a CIMDateTime whose value DSP0004 can express" if the value seen  *)
(* through its attributes is expressible, or if it was built from a        *)
(* datetime / timedelta OBJECT whose value is expressible (the statement   *)
(* quantifies over those inputs; dtarg is "the value from which the object *)
(* is initialized"): then str(x) must be the DSP0004 string of that value. *)
GivenObject(e) == e.route \in {"datetime", "timedelta"} /\ e.haswant
                  /\ Expressible(e.want)
DtFails(e) ==
  IF e.built # "ok" THEN {}
  ELSE IF ~(Expressible(e.obs) \/ GivenObject(e)) THEN {}
  ELSE
    G("DateTime.Str25", Len(e.s) = 25)
    \cup G("DateTime.StrIsDSP0004ForX", Parse(e.s, FALSE) = Ok(e.obs))
    \cup (IF GivenObject(e)
          THEN G("DateTime.StrIsDSP0004ForGivenValue",
                 Parse(e.s, FALSE) = Ok(e.want))
          ELSE {})
    \cup G("DateTime.RoundTrip.Parses", e.rt.built = "ok")
    \cup (IF e.rt.built # "ok" THEN {} ELSE
            G("DateTime.RoundTrip.Equal", e.rt.eq)
            \cup G("DateTime.RoundTrip.SameKind", e.rt.obs.kind = e.obs.kind)
            \cup G("DateTime.RoundTrip.SameOffset", e.rt.obs.off = e.obs.off)
            \cup G("DateTime.RoundTrip.SamePrecision",
                   e.rt.obs.prec = e.obs.prec))

(* drift between the real constructor and the transcription (no verdict)   *)
DtDrift(e) ==
  (IF e.route \in {"str", "mut"} THEN
     LET p == Parse(e.inp, TRUE) IN
     G("dt.parse-accepts", (e.built = "ok") = p.ok)
     \cup G("dt.parse-exception", e.built \in {"ok", "ValueError"})
     \cup G("dt.parse-value", ~(e.built = "ok" /\ p.ok) \/ e.obs = p.v)
   ELSE {})
  \cup
  (IF e.haswant /\ e.route # "copy"
   THEN G("dt.ctor-value:" \o e.route, e.built = "ok" /\ e.obs = e.want)
   ELSE {})
  \cup
  \* the copy constructor CIMDateTime(other) is outside the statement of C06
  \* (it speaks of str(x) and CIMDateTime(str(x))): a copy that differs from
  \* its source is reported as drift only (R-sound)
  (IF e.route = "copy" /\ e.haswant
   THEN G("dt.copy-differs-from-source", e.obs = e.want)
   ELSE {})
  \cup
  (IF e.built = "ok" /\ Expressible(e.obs)
   THEN G("dt.str", e.s = Str(e.obs)) ELSE {})
=============================================================================
