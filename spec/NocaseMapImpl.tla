---------------------------- MODULE NocaseMapImpl ----------------------------
(***************************************************************************)
(* X05: the code-shaped NocaseDict (NocaseMapImplOps) in lock step with    *)
(* the requirement machine (NocaseMap); TLC checks Impl => Req for every   *)
(* call sequence over the universe: bases 1..NB x variants 1..NV + None,   *)
(* values ValU, update arguments of up to MaxPairs pairs (MaxPairsAlt for  *)
(* the mapping forms and the constructor), up to one keyword argument.     *)
(* The forms list/tuple/generator of pairs and of objects with a name      *)
(* attribute have the same abstract meaning ("pairs") and are varied by    *)
(* the harness when it concretises.                                        *)
(***************************************************************************)
EXTENDS NocaseMapImplOps

CONSTANTS NV, ValU, MaxPairs, MaxPairsAlt, GenDepth, GenMax

VARIABLES si, s, bad, hist
vars == <<si, s, bad, hist>>

KeyU == {<<b, v>> : b \in 1..NB, v \in 1..NV} \cup {NoneKey}
StrKeyU == KeyU \ {NoneKey}
PairU == {Item(k, v) : k \in KeyU, v \in ValU}
SeqsUpTo(S, n) == UNION {[1..m -> S] : m \in 0..n}
KwSeqs == {<<>>} \cup {<<Item(k, v)>> : k \in StrKeyU, v \in ValU}
Forms == {"pairs", "dict", "ncdict"}

Call(op, k, val, hasd, form, pairs, kw, nargs, flag, via) ==
  [op |-> op, k |-> k, val |-> val, hasd |-> hasd, form |-> form,
   pairs |-> pairs, kw |-> kw, nargs |-> nargs, flag |-> flag, via |-> via]
C0(op) == Call(op, NoneKey, 0, FALSE, "", <<>>, <<>>, 0, FALSE, "")

Calls ==
  {[C0(op) EXCEPT !.k = k, !.val = v] :
      op \in {"setitem"}, k \in KeyU, v \in ValU}
  \cup {[C0(op) EXCEPT !.k = k] :
      op \in {"getitem", "contains", "delitem"}, k \in KeyU}
  \cup {[C0(op) EXCEPT !.k = k, !.val = v, !.hasd = TRUE] :
      op \in {"get", "pop", "setdefault"}, k \in KeyU, v \in ValU}
  \cup {[C0(op) EXCEPT !.k = k] :
      op \in {"get", "pop", "setdefault"}, k \in KeyU}
  \cup {C0(op) : op \in {"popitem", "clear", "kbnew"}}
  \cup {[C0("setunnamed") EXCEPT !.flag = f] : f \in BOOLEAN}
  \cup {[C0("order") EXCEPT !.via = o] : o \in {"lt", "ge"}}
  \cup {[C0("copy") EXCEPT !.via = o] :
      o \in {"copy", "copy.copy", "deepcopy", "pickle"}}
  \cup {[C0("update") EXCEPT !.form = "pairs", !.pairs = p, !.nargs = 1] :
      p \in SeqsUpTo(PairU, MaxPairs)}
  \cup {[C0(op) EXCEPT !.form = f, !.pairs = p, !.nargs = 1] :
      op \in {"update", "new"}, f \in Forms, p \in SeqsUpTo(PairU, MaxPairsAlt)}
  \cup {[C0(op) EXCEPT !.form = "pairs", !.pairs = p, !.kw = kw, !.nargs = 1] :
      op \in {"update", "new"}, p \in SeqsUpTo(PairU, 1), kw \in KwSeqs}
  \cup {[C0(op) EXCEPT !.form = "none", !.kw = kw] :
      op \in {"update", "new"}, kw \in KwSeqs}
  \cup {[C0(op) EXCEPT !.form = "pairs", !.pairs = p, !.nargs = 2] :
      op \in {"update", "new"}, p \in SeqsUpTo(PairU, 1)}
  \cup {[C0("fromkeys") EXCEPT !.form = "pairs", !.nargs = 1, !.val = v,
                               !.pairs = [j \in DOMAIN q |-> Item(q[j], v)]] :
      q \in SeqsUpTo(KeyU, MaxPairs), v \in ValU \cup {0}}

Event(c, r, i2) ==
  [op |-> c.op, k |-> c.k, val |-> c.val, hasd |-> c.hasd, form |-> c.form,
   pairs |-> c.pairs, kw |-> c.kw, nargs |-> c.nargs, flag |-> c.flag,
   via |-> c.via, res |-> r, dump |-> ImplDump(i2)]

Init == si = Impl0 /\ s = InitState /\ bad = {} /\ hist = <<>>

Do(c) == LET rs == ImplStep(si, c)
             e == Event(c, rs[1], rs[2])
             j == Judge(s, e) IN
         /\ si' = rs[2]
         /\ bad' = j.fails
         /\ s' = j.next
         /\ hist' = IF GenDepth > 0 THEN Append(hist, c) ELSE hist

Next == bad = {} /\ \E c \in Calls : Do(c)
Spec == Init /\ [][Next]_vars

(* ---- behaviour emission (tlc -simulate): one random call per step ------ *)
(* TLC's simulator enumerates all successors of a state, so the generator   *)
(* draws the components of ONE call with RandomElement (the dummy parameter *)
(* keeps TLC from caching the draw as a constant).                          *)
Pick(S, dummy) == RandomElement(S)
GenOps == <<"setitem", "setitem", "setitem", "getitem", "contains", "delitem",
            "get", "pop", "pop", "setdefault", "setdefault", "popitem",
            "clear", "setunnamed", "kbnew", "order", "copy", "update",
            "update", "update", "new", "fromkeys">>
GenForms == <<"pairs", "pairs", "dict", "odict", "ncdict", "none", "two">>
GenPairSeqs == SeqsUpTo(PairU, GenMax)
GenKeySeqs == SeqsUpTo(KeyU, GenMax)
GenCall(op, k, v, hasd, form, pairs, keys, kw, flag, ord, via) ==
  CASE op = "setitem" -> [C0(op) EXCEPT !.k = k, !.val = v]
    [] op \in {"getitem", "contains", "delitem"} -> [C0(op) EXCEPT !.k = k]
    [] op \in {"get", "pop", "setdefault"} ->
         [C0(op) EXCEPT !.k = k, !.hasd = hasd, !.val = IF hasd THEN v ELSE 0]
    [] op = "setunnamed" -> [C0(op) EXCEPT !.flag = flag]
    [] op = "order" -> [C0(op) EXCEPT !.via = ord]
    [] op = "copy" -> [C0(op) EXCEPT !.via = via]
    [] op \in {"update", "new"} ->
         CASE form = "none" -> [C0(op) EXCEPT !.form = "none", !.kw = kw]
           [] form = "two" -> [C0(op) EXCEPT !.form = "pairs", !.nargs = 2,
                                            !.pairs = SubSeq(pairs, 1, 1)]
           [] OTHER -> [C0(op) EXCEPT !.form = form, !.pairs = pairs,
                                     !.kw = kw, !.nargs = 1]
    [] op = "fromkeys" ->
         [C0(op) EXCEPT !.form = "pairs", !.nargs = 1, !.val = IF hasd THEN v ELSE 0,
            !.pairs = [j \in DOMAIN keys |-> Item(keys[j], IF hasd THEN v ELSE 0)]]
    [] OTHER -> C0(op)
GenNext ==
  /\ bad = {}
  /\ \E op \in {GenOps[Pick(DOMAIN GenOps, hist)]},
        k \in {Pick(KeyU, hist)}, v \in {Pick(ValU, hist)},
        hasd \in {Pick(BOOLEAN, hist)},
        form \in {GenForms[Pick(DOMAIN GenForms, hist)]},
        pairs \in {Pick(GenPairSeqs, hist)}, keys \in {Pick(GenKeySeqs, hist)},
        kw \in {Pick(KwSeqs, hist)}, flag \in {Pick(BOOLEAN, hist)},
        ord \in {Pick({"lt", "le", "gt", "ge"}, hist)},
        via \in {Pick({"copy", "copy.copy", "deepcopy", "pickle"}, hist)} :
        Do(GenCall(op, k, v, hasd, form, pairs, keys, kw, flag, ord, via))
GenSpec == Init /\ [][GenNext]_vars

ImplRefinesReq == bad = {}
ReqWellFormed == FoldUnique(s)
MappingHolds == DItems(si.data) = s.items /\ si.unn = s.unn
GenConstraint == GenDepth = 0 \/ Len(hist) <= GenDepth
=============================================================================
