---------------------------- MODULE NocaseMapImpl ----------------------------
(***************************************************************************)
(* X05: the code-shaped NocaseDict (NocaseMapImplOps) in lock step with    *)
(* the requirement machine (NocaseMap); TLC checks Impl => Req for every   *)
(* call sequence over the universe: bases 1..NB x variants 1..NV + None,   *)
(* values Vals, update/constructor arguments of up to MaxPairs pairs and   *)
(* up to one keyword argument, all argument forms.                         *)
(***************************************************************************)
EXTENDS NocaseMapImplOps

CONSTANTS NV, ValU, MaxPairs, GenDepth

VARIABLES si, s, bad, hist
vars == <<si, s, bad, hist>>

KeyU == {<<b, v>> : b \in 1..NB, v \in 1..NV} \cup {NoneKey}
StrKeyU == KeyU \ {NoneKey}
PairU == {Item(k, v) : k \in KeyU, v \in ValU}
SeqsUpTo(S, n) == UNION {[1..m -> S] : m \in 0..n}
PairSeqs == SeqsUpTo(PairU, MaxPairs)
KwSeqs == {<<>>} \cup {<<Item(k, v)>> : k \in StrKeyU, v \in ValU}
Forms == {"pairs", "dict", "ncdict"}

Call(op, k, val, hasd, form, pairs, kw, nargs, flag, via) ==
  [op |-> op, k |-> k, val |-> val, hasd |-> hasd, form |-> form,
   pairs |-> pairs, kw |-> kw, nargs |-> nargs, flag |-> flag, via |-> via]
C0(op) == Call(op, NoneKey, 0, FALSE, "", <<>>, <<>>, 0, FALSE, "")

Calls ==
  {[C0(op) EXCEPT !.k = k, !.val = v] :
      op \in {"setitem"}, k \in KeyU, v \in ValU}
  \cup {[C0(op) EXCEPT !.k = k] :
      op \in {"getitem", "contains", "delitem"}, k \in KeyU}
  \cup {[C0(op) EXCEPT !.k = k, !.val = v, !.hasd = TRUE] :
      op \in {"get", "pop", "setdefault"}, k \in KeyU, v \in ValU}
  \cup {[C0(op) EXCEPT !.k = k] :
      op \in {"get", "pop", "setdefault"}, k \in KeyU}
  \cup {C0(op) : op \in {"popitem", "clear", "kbnew"}}
  \cup {[C0("setunnamed") EXCEPT !.flag = f] : f \in BOOLEAN}
  \cup {[C0("order") EXCEPT !.via = o] : o \in {"lt", "ge"}}
  \cup {[C0("copy") EXCEPT !.via = o] :
      o \in {"copy", "copy.copy", "deepcopy", "pickle"}}
  \cup {[C0(op) EXCEPT !.form = f, !.pairs = p, !.kw = kw, !.nargs = 1] :
      op \in {"update", "new"}, f \in Forms, p \in PairSeqs, kw \in KwSeqs}
  \cup {[C0(op) EXCEPT !.form = "none", !.kw = kw] :
      op \in {"update", "new"}, kw \in KwSeqs}
  \cup {[C0(op) EXCEPT !.form = "pairs", !.pairs = p, !.nargs = 2] :
      op \in {"update", "new"}, p \in SeqsUpTo(PairU, 1)}
  \cup {[C0("fromkeys") EXCEPT !.form = "pairs", !.nargs = 1, !.val = v,
                               !.pairs = [j \in DOMAIN q |-> Item(q[j], v)]] :
      q \in SeqsUpTo(KeyU, MaxPairs), v \in ValU \cup {0}}

Event(c, r, i2) ==
  [op |-> c.op, k |-> c.k, val |-> c.val, hasd |-> c.hasd, form |-> c.form,
   pairs |-> c.pairs, kw |-> c.kw, nargs |-> c.nargs, flag |-> c.flag,
   via |-> c.via, res |-> r, dump |-> ImplDump(i2)]

Init == si = Impl0 /\ s = InitState /\ bad = {} /\ hist = <<>>

Do(c) == LET rs == ImplStep(si, c)
             e == Event(c, rs[1], rs[2]) IN
         /\ si' = rs[2]
         /\ bad' = Fails(s, e)
         /\ s' = Apply(s, e)
         /\ hist' = IF GenDepth > 0 THEN Append(hist, c) ELSE hist

Next == bad = {} /\ \E c \in Calls : Do(c)
Spec == Init /\ [][Next]_vars

ImplRefinesReq == bad = {}
ReqWellFormed == FoldUnique(s)
MappingHolds == DItems(si.data) = s.items /\ si.unn = s.unn
GenConstraint == GenDepth = 0 \/ Len(hist) <= GenDepth
=============================================================================
