--------------------------- MODULE MofCompileTrace ---------------------------
(***************************************************************************)
(* Trace validation for C09: compile calls recorded from the real MOF      *)
(* compiler (harness/mofgen.py) judged by the requirement machine          *)
(* MofCompile.  In lock step the code-shaped prediction of                 *)
(* MofCompileImplOps (intended code shape, all constants TRUE) is compared *)
(* with what the code did: differences on calls that satisfy the           *)
(* requirement are printed as <<"D", ..>> (impl drift, never a violation). *)
(* The stricter reading of PositionInside (column inside the reported      *)
(* line) is reported the same way.                                         *)
(***************************************************************************)
EXTENDS MofCompileImplOps, Json, IOUtils

VARIABLES tid, l, verdict, ts, ti, drifted

OutClass(e) == IF e.out \in {"ok"} \cup MOFErrors THEN e.out
               ELSE IF IsOSError(e) THEN "OSError"
               ELSE IF IsMOFCompileError(e) THEN "MOFCompileError" ELSE e.out

ImplCmp(i, e) ==
  << (IF e.call = "bad"
      THEN F("outcome." \o OutClass(e), OutClass(e) \in Predict(e.ses))
      \* i = 1: the later text names a class without a valid declaration
      \* (part H) or is a defective production (part I); it may be rejected
      ELSE F("good.outcome", e.out = "ok" \/ (i = 1 /\ e.out \in MOFErrors)))
     \cup F("position.column_in_line",
            ~(IsMOFCompileError(e) /\ e.haspos)
            \/ \E c \in Cands(e) : ColInLine(e, c)),
     IF e.call = "bad" THEN (IF LaterInvalid(e.ses) THEN 1 ELSE 0) ELSE i >>

TraceBatch == JsonDeserialize(IOEnv.TRACE_FILE).traces

TK == INSTANCE TraceKit WITH
        TTraces <- TraceBatch,
        TInit0 <- InitState, TFails <- Fails, TApply <- Apply,
        TInv <- LAMBDA st : TRUE,
        TImpl0 <- 0, TImplStep <- ImplCmp
TSpec == TK!TSpec
=============================================================================
