\* behaviour generation (pinned shape, HTTP only)
SPECIFICATION Spec
CONSTANTS
  Cfg = {"http"}
  Envs <- EnvsHttp
  Senders = {"s1", "s2"}
  NInd = 2
  MaxQ = 1
  MaxOps = 4
  InitCbs <- Cbs1
  AddCbs = {1, 2}
  FailCleanup = "code"
  CloseOnCertFail = FALSE
  ClearRobust = FALSE
  StopGuard = TRUE
  DupCheck = TRUE
  FailStopsDelivery = TRUE
CHECK_DEADLOCK FALSE
