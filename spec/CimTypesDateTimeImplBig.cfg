SPECIFICATION Spec
CONSTANTS
  PartialUsecAsterisks = TRUE
  NegOffsetFix = TRUE
  CopyKeepsPrecision = TRUE
  ForeignTzNorm = "keep"
  Years <- YearsL
  Months <- MonthsL
  DaysOfMonth <- DomL
  Hours <- HoursL
  Minutes <- SixtyL
  Seconds <- SixtyL
  Usecs <- UsecsL
  IvDays <- IvDaysL
  IvHours <- HoursL
  Offsets <- OffsetsAll
INVARIANT RoundTrip
INVARIANT CopySame
INVARIANT CtorHolds
INVARIANT ParseClosed
CHECK_DEADLOCK FALSE
