----------------------------- MODULE MockAtomic -----------------------------
(***************************************************************************)
(* C11: a failed repository-changing call on the mock changes nothing.     *)
(*                                                                         *)
(* Requirement machine (event style).  The repository is a set of items    *)
(* (namespaces, classes, instances, qualifier types; the harness supplies  *)
(* one opaque token per item: kind|namespace|name|content-digest).  An     *)
(* event carries the operation family, whether it raised, and the complete *)
(* content after the call.  The statement constrains exactly one thing:    *)
(*        raised  =>  content after = content before                       *)
(* for every operation family it lists.                                    *)
(***************************************************************************)
EXTENDS Naturals, Sequences, FiniteSets, TLC

Rng(q) == {q[i] : i \in DOMAIN q}
F(name, holds) == IF holds THEN {} ELSE {name}

Families == {"compile_mof_string", "compile_mof_file", "compile_schema_classes",
             "add_cimobjects", "CreateClass", "ModifyClass", "DeleteClass",
             "SetQualifier", "DeleteQualifier", "CreateInstance",
             "ModifyInstance", "DeleteInstance", "add_namespace",
             "remove_namespace"}

InitState == [repo |-> {}, started |-> FALSE]

(* Events: [op, ok, after]; the first event of a trace is "Init" and        *)
(* carries the starting content.  `after` is the complete content after the *)
(* call, taken through the repository's public store API.                   *)
Fails(s, e) ==
  IF e.op = "Init" THEN F("Trace.StartsWithInit", ~s.started)
  ELSE F("KnownOperationFamily", e.op \in Families)
       \cup F("Trace.StartsWithInit", s.started)
       \cup F("Atomic." \o e.op, e.ok \/ Rng(e.after) = s.repo)

Apply(s, e) == [repo |-> Rng(e.after), started |-> TRUE]
=============================================================================
