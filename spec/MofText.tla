------------------------------ MODULE MofText ------------------------------
(***************************************************************************)
(* C08: MOF produced by tomof() recompiles to the same objects.            *)
(*                                                                         *)
(* Part 1 (text level): pywbem's MOF string generator and the MOF          *)
(* compiler's string reader over a character CLASS alphabet.               *)
(*                                                                         *)
(*   source symbols (what a CIM string may contain)                        *)
(*     "g"  ordinary character (letter that is neither a hex digit nor an  *)
(*          escape letter, punctuation, non-ASCII)                         *)
(*     "1"  hexadecimal digit character                                    *)
(*     "n"  escape letter (b f n r t)                                      *)
(*     "x"  the letters x X                                                *)
(*     "_"  blank                                                          *)
(*     "Q"  double quote    "A"  apostrophe    "B"  backslash              *)
(*     "C"  control character written as \xNNNN (U+0001..U+001F except ..) *)
(*     "N"  control character with a named escape (\b \t \n \f \r)         *)
(*   text symbols: the above without "C","N" plus "L" (line feed)          *)
(*                                                                         *)
(*   Esc      = pywbem._cim_obj._mof_escaped                               *)
(*   FoldStep = one iteration of the `while True` loop of mofstr(),        *)
(*              transcribed statement by statement                         *)
(*   Lex      = the stringValue / charValue token regexps of the compiler  *)
(*              (adjacent literals are concatenated by p_stringValueList)  *)
(*   Unesc    = pywbem._mof_compiler._fixStringValue                       *)
(*                                                                         *)
(* Variants (parameters, so that one module serves all configurations):    *)
(*   P.safe      FALSE: a word is split at column avl_len-1 wherever that  *)
(*               falls (pywbem <= 1.7);  TRUE: never inside an escape      *)
(*   aposKeep    FALSE: _fixStringValue has no branch for \' and drops the *)
(*               apostrophe;  TRUE: \' denotes an apostrophe (DSP0004)     *)
(*   charRaw     TRUE: a charValue token is used as is (quotes included);  *)
(*               FALSE: it is unescaped like a string                      *)
(*                                                                         *)
(* Part 2 (requirement machine, event style): `Fails(s, e)` names the      *)
(* clauses of the statement violated by one observed <original object,     *)
(* tomof() text, compiled object> triple.                                  *)
(***************************************************************************)
EXTENDS Naturals, Integers, Sequences, FiniteSets, TLC

Src == {"g", "1", "n", "x", "_", "Q", "A", "B", "C", "N"}

Rng(q) == {q[i] : i \in DOMAIN q}
F(name, holds) == IF holds THEN {} ELSE {name}
MaxOf(S) == CHOOSE x \in S : \A y \in S : y <= x
MinI(a, b) == IF a < b THEN a ELSE b
Blanks(n) == [i \in 1..n |-> "_"]

(*-------------------------- _mof_escaped ---------------------------------*)
EscSym(c) ==
  CASE c = "Q" -> <<"B", "Q">>
    [] c = "A" -> <<"B", "A">>
    [] c = "B" -> <<"B", "B">>
    [] c = "C" -> <<"B", "x", "1", "1", "1", "1">>
    [] c = "N" -> <<"B", "n">>
    [] OTHER   -> <<c>>

RECURSIVE EscFrom(_, _)
EscFrom(s, i) == IF i > Len(s) THEN <<>> ELSE EscSym(s[i]) \o EscFrom(s, i + 1)
Esc(s) == EscFrom(s, 1)

(* offsets in Esc(s) at which an escaped unit ends (0 = start) *)
RECURSIVE BoundsFrom(_, _, _)
BoundsFrom(s, i, off) ==
  IF i > Len(s) THEN {off}
  ELSE {off} \cup BoundsFrom(s, i + 1, off + Len(EscSym(s[i])))
EscBounds(s) == BoundsFrom(s, 1, 0)

(*------------------------------ mofstr -----------------------------------*)
(* Python  value.rfind(c, 0, end)  (0-based result, -1 if absent)          *)
RFind(v, c, end) ==
  LET S == {i \in 1..MinI(end, Len(v)) : v[i] = c}
  IN IF S = {} THEN -1 ELSE MaxOf(S) - 1

(* the repaired split position: largest p' <= p that does not cut an       *)
(* escape sequence of the escaped text v; if the very first unit does not  *)
(* fit, keep it whole (progress)                                           *)
RECURSIVE SafeSplit(_, _, _)
SafeSplit(v, i, p) ==
  IF i > p \/ i >= Len(v) THEN p
  ELSE IF v[i + 1] = "B"
       THEN LET n == IF i + 2 <= Len(v) /\ v[i + 2] = "x" THEN 6 ELSE 2
            IN IF i + n - 1 > p
               THEN (IF i > 0 THEN i - 1 ELSE i + n - 1)
               ELSE SafeSplit(v, i + n, p)
       ELSE SafeSplit(v, i + 1, p)

(* P = [indent, maxline, endsp, avoid, safe, quote]                        *)
(* st = [value, lp, out, done, err, cut, cuts]                             *)
(*   cut/cuts: offset of the emitted prefix of the escaped text, and the   *)
(*   set of all part boundaries (observation only)                         *)
FoldInit(v, lp) ==
  [value |-> v, lp |-> lp, out |-> <<>>, done |-> FALSE, err |-> FALSE,
   cut |-> 0, cuts |-> {}]

FoldStep(st, P) ==
  LET value == st.value
      q     == <<P.quote>>
      avl0  == P.maxline - st.lp - 2                 \* quote_len = 2
      \* "Decide whether to start a new line"
      newl  == /\ Len(value) > avl0 - P.endsp
               /\ \/ P.avoid
                  \/ avl0 < 0
                  \/ RFind(value, "_", avl0) < 0
      lp1   == IF newl THEN P.indent ELSE st.lp
      avl   == IF newl THEN P.maxline - P.indent - 2 ELSE avl0
      out1  == IF newl THEN st.out \o <<"L">> \o Blanks(P.indent) ELSE st.out
  IN
  IF Len(value) <= avl - P.endsp
  THEN \* "the entire string fits (that is a last line, then)"
       [st EXCEPT !.value = <<>>,
                  !.out = out1 \o q \o value \o q,
                  !.lp = lp1 + 2 + Len(value),
                  !.done = TRUE,
                  !.cut = st.cut + Len(value)]
  ELSE \* "Split the string and output the next part"
       LET sp0  == RFind(value, "_", avl)
           sp   == IF sp0 >= 0 THEN sp0
                   ELSE IF P.safe THEN SafeSplit(value, 0, avl - 1)
                   ELSE avl - 1
           part == SubSeq(value, 1, MinI(sp + 1, Len(value)))
           rest == SubSeq(value, sp + 2, Len(value))
       IN [st EXCEPT !.value = rest,
                     !.out = out1 \o q \o part \o q,
                     !.lp = lp1 + 2 + Len(part),
                     !.done = (rest = <<>>),
                     !.err = (rest # <<>> /\ rest = value),   \* the assert
                     !.cut = st.cut + Len(part),
                     !.cuts = IF rest = <<>> THEN st.cuts
                              ELSE st.cuts \cup {st.cut + Len(part)}]

RECURSIVE FoldRun(_, _)
FoldRun(st, P) == IF st.done \/ st.err THEN st ELSE FoldRun(FoldStep(st, P), P)
Fold(s, lp, P) == FoldRun(FoldInit(Esc(s), lp), P)

(*------------------- lexer: stringValue / charValue ----------------------*)
(* simpleEscape [bfnrt'"\\]; hexEscape [xX][0-9a-fA-F]{1,4}                *)
IsSimpleEsc(c) == c \in {"n", "Q", "A", "B"}

(* One escape sequence starting at the backslash t[i]: number of symbols   *)
(* the regexp needs at least (2, or 3 for \x + one digit); 0 = no match    *)
EscNeed(t, i) ==
  IF i + 1 > Len(t) THEN 0
  ELSE IF IsSimpleEsc(t[i + 1]) THEN 2
  ELSE IF t[i + 1] = "x" /\ i + 2 <= Len(t) /\ t[i + 2] = "1" THEN 3
  ELSE 0

(* Scan the text: mode "out" skips anything but quotes; a double quote     *)
(* opens a stringValue, an apostrophe a charValue.  Result: ok + the raw   *)
(* token contents (without quotes) + token kinds.                          *)
RECURSIVE LexFrom(_, _, _, _, _, _)
LexFrom(t, i, mode, cur, toks, kinds) ==
  IF i > Len(t)
  THEN [ok |-> mode = "out", toks |-> toks, kinds |-> kinds]
  ELSE LET c == t[i] IN
  IF mode = "out"
  THEN IF c = "Q" THEN LexFrom(t, i + 1, "str", <<>>, toks, kinds)
       ELSE IF c = "A" THEN
         \* charValue: exactly one cChar
         IF i + 1 > Len(t) THEN [ok |-> FALSE, toks |-> toks, kinds |-> kinds]
         ELSE IF t[i + 1] = "B"
              THEN LET n == EscNeed(t, i + 1) IN
                   IF n = 0 THEN [ok |-> FALSE, toks |-> toks, kinds |-> kinds]
                   ELSE LET hexmore == {k \in 0..3 :
                                  /\ n = 3
                                  /\ \A m \in 0..k : i + 3 + m <= Len(t)
                                                     /\ t[i + 3 + m] = "1"}
                            len == IF n = 2 THEN 2 ELSE 3 + MaxOf(hexmore)
                            \* the regexp backtracks: any 1..4 digits such
                            \* that the closing apostrophe follows
                            lens == IF n = 2 THEN {2}
                                    ELSE {3 + k : k \in hexmore}
                            good == {m \in lens : i + 1 + m <= Len(t)
                                                  /\ t[i + 1 + m] = "A"}
                        IN IF good = {}
                           THEN [ok |-> FALSE, toks |-> toks, kinds |-> kinds]
                           ELSE LET m == MaxOf(good) IN
                                LexFrom(t, i + 2 + m, "out", <<>>,
                                        Append(toks, SubSeq(t, i + 1, i + m)),
                                        Append(kinds, "char"))
              ELSE IF t[i + 1] \in {"A", "L"} \/ i + 2 > Len(t) \/ t[i + 2] # "A"
                   THEN [ok |-> FALSE, toks |-> toks, kinds |-> kinds]
                   ELSE LexFrom(t, i + 3, "out", <<>>,
                                Append(toks, <<t[i + 1]>>), Append(kinds, "char"))
       ELSE LexFrom(t, i + 1, "out", cur, toks, kinds)
  ELSE \* inside a stringValue
       IF c = "Q" THEN LexFrom(t, i + 1, "out", <<>>, Append(toks, cur),
                               Append(kinds, "str"))
       ELSE IF c = "L" THEN [ok |-> FALSE, toks |-> toks, kinds |-> kinds]
       ELSE IF c = "B"
            THEN LET n == EscNeed(t, i) IN
                 IF n = 0 THEN [ok |-> FALSE, toks |-> toks, kinds |-> kinds]
                 ELSE LexFrom(t, i + n, "str", cur \o SubSeq(t, i, i + n - 1),
                              toks, kinds)
            ELSE LexFrom(t, i + 1, "str", Append(cur, c), toks, kinds)

Lex(t) == LexFrom(t, 1, "out", <<>>, <<>>, <<>>)

(*--------------------------- _fixStringValue -----------------------------*)
(* s = token content; i = 0-based index as in the Python loop.             *)
(* Result [ok, rv]; ok = FALSE models IndexError / MOFParseError.          *)
RECURSIVE UnescFrom(_, _, _, _, _)
UnescFrom(s, i, esc, rv, aposKeep) ==
  IF i > Len(s) - 1 THEN [ok |-> TRUE, rv |-> rv]
  ELSE LET ch == s[i + 1] IN
  IF ch = "B" /\ ~esc THEN UnescFrom(s, i + 1, TRUE, rv, aposKeep)
  ELSE IF ~esc THEN UnescFrom(s, i + 1, FALSE, Append(rv, ch), aposKeep)
  ELSE IF ch = "Q" THEN UnescFrom(s, i + 1, FALSE, Append(rv, "Q"), aposKeep)
  ELSE IF ch = "n" THEN UnescFrom(s, i + 1, FALSE, Append(rv, "N"), aposKeep)
  ELSE IF ch = "B" THEN UnescFrom(s, i + 1, FALSE, Append(rv, "B"), aposKeep)
  ELSE IF ch = "x" THEN
       \* i += 1; while j < 4: c = s[i + j] ...  (IndexError past the end)
       LET i1 == i + 1
           isHex(k) == i1 + k + 1 <= Len(s) /\ s[i1 + k + 1] = "1"
           j == IF ~isHex(0) THEN 0 ELSE IF ~isHex(1) THEN 1
                ELSE IF ~isHex(2) THEN 2 ELSE IF ~isHex(3) THEN 3 ELSE 4
           indexError == j < 4 /\ i1 + j + 1 > Len(s)
       IN IF indexError \/ j = 0 THEN [ok |-> FALSE, rv |-> rv]
          ELSE UnescFrom(s, i1 + j, FALSE, Append(rv, "C"), aposKeep)
  ELSE IF ch = "A" /\ aposKeep
       THEN UnescFrom(s, i + 1, FALSE, Append(rv, "A"), aposKeep)
  ELSE UnescFrom(s, i + 1, FALSE, rv, aposKeep)    \* no branch: dropped

Unesc(tok, aposKeep) == UnescFrom(tok, 0, FALSE, <<>>, aposKeep)

(* Read a text that consists of the literal(s) of ONE value: adjacent      *)
(* stringValues are concatenated; a charValue stands alone.                *)
RECURSIVE ConcatFrom(_, _, _)
ConcatFrom(toks, k, aposKeep) ==
  IF k > Len(toks) THEN [ok |-> TRUE, rv |-> <<>>]
  ELSE LET u == Unesc(toks[k], aposKeep)
           r == ConcatFrom(toks, k + 1, aposKeep)
       IN [ok |-> u.ok /\ r.ok, rv |-> u.rv \o r.rv]

Bad == [ok |-> FALSE, rv |-> <<>>]

Read(t, aposKeep, charRaw) ==
  LET lx == Lex(t) IN
  IF ~lx.ok \/ Len(lx.toks) = 0 THEN Bad
  ELSE IF \A k \in DOMAIN lx.kinds : lx.kinds[k] = "str"
       THEN ConcatFrom(lx.toks, 1, aposKeep)
  ELSE IF Len(lx.toks) = 1                       \* a single charValue
       THEN IF charRaw THEN [ok |-> TRUE, rv |-> <<"A">> \o lx.toks[1] \o <<"A">>]
            ELSE Unesc(lx.toks[1], aposKeep)
  ELSE Bad

(* What the literal(s) denote by DSP0004 (escapes honoured, \' included)   *)
Denote(t) == Read(t, TRUE, FALSE)

(***************************************************************************)
(* Part 2: requirement machine for observed events.                        *)
(*                                                                         *)
(* op = "fold":  one call of the real mofstr() and the real compiler's     *)
(*   reading of its output                                                 *)
(*     s, indent, maxline, lp, endsp, avoid   the vector                   *)
(*     out, olp        text returned by mofstr (class projection), new pos *)
(*     flat            text returned for an unlimited line length          *)
(*     accepted        the compiler accepted a declaration holding `out`   *)
(*     srctok, gottok  the exact source / compiled string (opaque tokens)  *)
(*     got             class projection of the compiled string             *)
(* op = "obj":   one object: original and compiled, flattened to elements  *)
(*     orig, comp : sequences of                                           *)
(*       [path, et, type, arr, asize, ref, emb, super, isnull, val,        *)
(*        ovr, tosub, transl, toinst, dovr, dtosub, dtransl, dtoinst,      *)
(*        scopes]                                                          *)
(*     generated, accepted, lit = [has, s, out, flat, got]  (the one       *)
(*     string/char16 literal of a unit object: source classes, its text    *)
(*     region, the same generated without folding, compiled classes)       *)
(***************************************************************************)
InitState == 0
Apply(s, e) == s

DfltFlavor == [ovr |-> "T", tosub |-> "T", transl |-> "F", toinst |-> "F"]
NormF(f, d) == IF f = "N" THEN d ELSE f

(* qualifier declaration: flavors equal after DSP0004 defaulting *)
DeclFlavorsOk(o, c) ==
  /\ NormF(o.ovr, "T") = NormF(c.ovr, "T")
  /\ NormF(o.tosub, "T") = NormF(c.tosub, "T")
  /\ NormF(o.transl, "F") = NormF(c.transl, "F")
  /\ NormF(o.toinst, "F") = NormF(c.toinst, "F")

(* qualifier value: equal after defaulting, or the original left the      *)
(* flavor open and the compiler filled in the declaration's flavor         *)
OneFlavorOk(of, cf, df, dflt) ==
  \/ NormF(of, dflt) = NormF(cf, dflt)
  \/ of = "N" /\ cf = df
QualFlavorsOk(o, c) ==
  /\ OneFlavorOk(o.ovr, c.ovr, o.dovr, "T")
  /\ OneFlavorOk(o.tosub, c.tosub, o.dtosub, "T")
  /\ OneFlavorOk(o.transl, c.transl, o.dtransl, "F")
  /\ OneFlavorOk(o.toinst, c.toinst, o.dtoinst, "F")

ElemFails(o, c) ==
  F("Names", o.et = c.et /\ o.super = c.super)
  \cup F("Types." \o o.type,
         /\ o.type = c.type /\ o.ref = c.ref
         /\ (o.emb = "" \/ c.emb = "" \/ o.emb = c.emb))
  \cup F("ArrayShape", o.arr = c.arr /\ o.asize = c.asize)
  \cup F((IF o.et = "qual" THEN "QualifierValues." ELSE "Values.") \o o.type,
         o.isnull = c.isnull /\ o.val = c.val)
  \cup (IF o.et = "qdecl"
        THEN F("Flavors.declaration", DeclFlavorsOk(o, c))
             \cup F("Scopes", Rng(o.scopes) = Rng(c.scopes))
        ELSE IF o.et = "qual" THEN F("Flavors.qualifier", QualFlavorsOk(o, c))
        ELSE {})

Paths(es) == {es[i].path : i \in DOMAIN es}
AtPath(es, p) == es[CHOOSE i \in DOMAIN es : es[i].path = p]

(* diagnosis (never a clause on its own; added only when a clause fails):   *)
(* which side is at fault.  `flat` is the same literal generated with an   *)
(* unlimited line length (no folding).                                     *)
GenDenotes(src, out) == LET d == Denote(out) IN d.ok /\ d.rv = src

LitFails(accepted, src, out, got) ==
  F("Literal.ArrivesAsDenoted", ~(accepted /\ GenDenotes(src, out)) \/ got = src)

LitDiag(src, out, flat) ==
  IF ~GenDenotes(src, flat) THEN {"diag.EscapingDoesNotDenoteOriginal"}
  ELSE IF ~GenDenotes(src, out) THEN {"diag.FoldingBreaksLiteral"}
  ELSE {}

ObjFails(e) ==
  LET core ==
        IF ~e.generated THEN {"TomofReturnsText"}
        ELSE IF ~e.accepted THEN {"CompilerAccepts"}
        ELSE F("Names", Paths(e.orig) = Paths(e.comp)
                        /\ Cardinality(Paths(e.orig)) = Len(e.orig)
                        /\ Cardinality(Paths(e.comp)) = Len(e.comp))
             \cup UNION {ElemFails(AtPath(e.orig, p), AtPath(e.comp, p)) :
                           p \in Paths(e.orig) \cap Paths(e.comp)}
      lit == IF e.lit.has /\ e.generated
             THEN LitFails(e.accepted, e.lit.s, e.lit.out, e.lit.got)
             ELSE {}
      all == core \cup lit
  IN IF all # {} /\ e.lit.has /\ e.generated
     THEN all \cup LitDiag(e.lit.s, e.lit.out, e.lit.flat)
     ELSE all

FoldFails(e) ==
  LET all == F("CompilerAccepts", e.accepted)
             \cup F("Values.string", ~e.accepted \/ e.gottok = e.srctok)
             \cup LitFails(e.accepted, e.s, e.out, e.got)
  IN IF all # {} THEN all \cup LitDiag(e.s, e.out, e.flat) ELSE all

Fails(s, e) ==
  IF e.op = "fold" THEN FoldFails(e)
  ELSE IF e.op = "obj" THEN ObjFails(e)
  ELSE {"UnknownEvent"}

(* binding of the transcription (impl drift, never a violation) *)
FoldParams(e, safe) ==
  [indent |-> e.indent, maxline |-> e.maxline, endsp |-> e.endsp,
   avoid |-> e.avoid, safe |-> safe, quote |-> "Q"]

FoldDrift(e) ==
  LET a == Fold(e.s, e.lp, FoldParams(e, TRUE))
      b == Fold(e.s, e.lp, FoldParams(e, FALSE))
      same(r) == ~r.err /\ r.out = e.out /\ r.lp = e.olp
  IN IF same(a) THEN {}
     ELSE IF same(b) THEN {"mofstr.splits-inside-escapes-variant"}
     ELSE {"mofstr.output-differs-from-both-variants"}

ImplStep(i, e) == << IF e.op = "fold" THEN FoldDrift(e) ELSE {}, i >>
=============================================================================
