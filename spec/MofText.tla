------------------------------ MODULE MofText ------------------------------
(***************************************************************************)
(* C08: MOF produced by tomof() recompiles to the same objects.            *)
(*                                                                         *)
(* Part 1 (text level): pywbem's MOF string generator and the MOF          *)
(* compiler's string reader over a character CLASS alphabet.               *)
(*                                                                         *)
(*   source symbols (what a CIM string may contain)                        *)
(*     "g"  ordinary character (letter that is neither a hex digit nor an  *)
(*          escape letter, punctuation, non-ASCII)                         *)
(*     "1"  hexadecimal digit character                                    *)
(*     "n"  escape letter (b f n r t)                                      *)
(*     "x"  the letters x X                                                *)
(*     "_"  blank                                                          *)
(*     "Q"  double quote    "A"  apostrophe    "B"  backslash              *)
(*     "C"  control character written as \xNNNN (U+0001..U+001F except ..) *)
(*     "N"  control character with a named escape (\b \t \n \f \r)         *)
(*   text symbols: the above without "C","N" plus "L" (line feed)          *)
(*                                                                         *)
(*   Esc      = pywbem._cim_obj._mof_escaped                               *)
(*   FoldStep = one iteration of the `while True` loop of mofstr(),        *)
(*              transcribed statement by statement                         *)
(*   Lex      = the stringValue / charValue token regexps of the compiler  *)
(*              (adjacent literals are concatenated by p_stringValueList)  *)
(*   Unesc    = pywbem._mof_compiler._fixStringValue                       *)
(*                                                                         *)
(* Variants (parameters, so that one module serves all configurations):    *)
(*   P.safe      FALSE: a word is split at column avl_len-1 wherever that  *)
(*               falls (pywbem <= 1.7);  TRUE: never inside an escape      *)
(*   aposKeep    FALSE: _fixStringValue has no branch for \' and drops the *)
(*               apostrophe;  TRUE: \' denotes an apostrophe (DSP0004)     *)
(*   charRaw     TRUE: a charValue token is used as is (quotes included);  *)
(*               FALSE: it is unescaped like a string                      *)
(*                                                                         *)
(* Part 2 (requirement machine, event style): `Fails(s, e)` names the      *)
(* clauses of the statement violated by one observed <original object,     *)
(* tomof() text, compiled object> triple.                                  *)
(***************************************************************************)
EXTENDS Naturals, Integers, Sequences, FiniteSets, TLC

Src == {"g", "1", "n", "x", "_", "Q", "A", "B", "C", "N"}

Rng(q) == {q[i] : i \in DOMAIN q}
F(name, holds) == IF holds THEN {} ELSE {name}
MaxOf(S) == CHOOSE x \in S : \A y \in S : y <= x
MinI(a, b) == IF a < b THEN a ELSE b
Blanks(n) == [i \in 1..n |-> "_"]

(*-------------------------- _mof_escaped ---------------------------------*)
EscSym(c) ==
  CASE c = "Q" -> <<"B", "Q">>
    [] c = "A" -> <<"B", "A">>
    [] c = "B" -> <<"B", "B">>
    [] c = "C" -> <<"B", "x", "1", "1", "1", "1">>
    [] c = "N" -> <<"B", "n">>
    [] OTHER   -> <<c>>

RECURSIVE EscFrom(_, _)
EscFrom(s, i) == IF i > Len(s) THEN <<>> ELSE EscSym(s[i]) \o EscFrom(s, i + 1)
Esc(s) == EscFrom(s, 1)

(* offsets in Esc(s) at which an escaped unit ends (0 = start) *)
RECURSIVE BoundsFrom(_, _, _)
BoundsFrom(s, i, off) ==
  IF i > Len(s) THEN {off}
  ELSE {off} \cup BoundsFrom(s, i + 1, off + Len(EscSym(s[i])))
EscBounds(s) == BoundsFrom(s, 1, 0)

(*------------------------------ mofstr -----------------------------------*)
(* Python  value.rfind(c, 0, end)  (0-based result, -1 if absent)          *)
RFind(v, c, end) ==
  LET S == {i \in 1..MinI(end, Len(v)) : v[i] = c}
  IN IF S = {} THEN -1 ELSE MaxOf(S) - 1

(* the repaired split position: largest p' <= p that does not cut an       *)
(* escape sequence of the escaped text v; if the very first unit does not  *)
(* fit, keep it whole (progress)                                           *)
RECURSIVE SafeSplit(_, _, _)
SafeSplit(v, i, p) ==
  IF i > p \/ i >= Len(v) THEN p
  ELSE IF v[i + 1] = "B"
       THEN LET n == IF i + 2 <= Len(v) /\ v[i + 2] = "x" THEN 6 ELSE 2
            IN IF i + n - 1 > p
               THEN (IF i > 0 THEN i - 1 ELSE i + n - 1)
               ELSE SafeSplit(v, i + n, p)
       ELSE SafeSplit(v, i + 1, p)

(* P = [indent, maxline, endsp, avoid, safe, quote]                        *)
(* st = [value, lp, out, done, err, cut, cuts]                             *)
(*   cut/cuts: offset of the emitted prefix of the escaped text, and the   *)
(*   set of all part boundaries (observation only)                         *)
FoldInit(v, lp) ==
  [value |-> v, lp |-> lp, out |-> <<>>, done |-> FALSE, err |-> FALSE,
   cut |-> 0, cuts |-> {}]

FoldStep(st, P) ==
  LET value == st.value
      q     == <<P.quote>>
      avl0  == P.maxline - st.lp - 2                 \* quote_len = 2
      \* "Decide whether to start a new line"
      newl  == /\ Len(value) > avl0 - P.endsp
               /\ \/ P.avoid
                  \/ avl0 < 0
                  \/ RFind(value, "_", avl0) < 0
      lp1   == IF newl THEN P.indent ELSE st.lp
      avl   == IF newl THEN P.maxline - P.indent - 2 ELSE avl0
      out1  == IF newl THEN st.out \o <<"L">> \o Blanks(P.indent) ELSE st.out
  IN
  IF Len(value) <= avl - P.endsp
  THEN \* "the entire string fits (that is a last line, then)"
       [st EXCEPT !.value = <<>>,
                  !.out = out1 \o q \o value \o q,
                  !.lp = lp1 + 2 + Len(value),
                  !.done = TRUE,
                  !.cut = st.cut + Len(value)]
  ELSE \* "Split the string and output the next part"
       LET sp0  == RFind(value, "_", avl)
           sp   == IF sp0 >= 0 THEN sp0
                   ELSE IF P.safe THEN SafeSplit(value, 0, avl - 1)
                   ELSE avl - 1
           part == SubSeq(value, 1, MinI(sp + 1, Len(value)))
           rest == SubSeq(value, sp + 2, Len(value))
       IN [st EXCEPT !.value = rest,
                     !.out = out1 \o q \o part \o q,
                     !.lp = lp1 + 2 + Len(part),
                     !.done = (rest = <<>>),
                     !.err = (rest # <<>> /\ rest = value),   \* the assert
                     !.cut = st.cut + Len(part),
                     !.cuts = IF rest = <<>> THEN st.cuts
                              ELSE st.cuts \cup {st.cut + Len(part)}]

RECURSIVE FoldRun(_, _)
FoldRun(st, P) == IF st.done \/ st.err THEN st ELSE FoldRun(FoldStep(st, P), P)
Fold(s, lp, P) == FoldRun(FoldInit(Esc(s), lp), P)

(*------------------- lexer: stringValue / charValue ----------------------*)
(* simpleEscape [bfnrt'"\\]; hexEscape [xX][0-9a-fA-F]{1,4}                *)
IsSimpleEsc(c) == c \in {"n", "Q", "A", "B"}

(* One escape sequence starting at the backslash t[i]: number of symbols   *)
(* the regexp needs at least (2, or 3 for \x + one digit); 0 = no match    *)
EscNeed(t, i) ==
  IF i + 1 > Len(t) THEN 0
  ELSE IF IsSimpleEsc(t[i + 1]) THEN 2
  ELSE IF t[i + 1] = "x" /\ i + 2 <= Len(t) /\ t[i + 2] = "1" THEN 3
  ELSE 0

(* Scan the text: mode "out" skips anything but quotes and counts commas   *)
(* (array element separators); a double quote opens a stringValue, an      *)
(* apostrophe a charValue.  Result: ok + per token its raw content         *)
(* (without quotes), kind and the number of commas seen before it.  A      *)
(* comma inside a literal is an ordinary character ("g").                  *)
LexFail(acc) == [ok |-> FALSE, toks |-> acc.toks, kinds |-> acc.kinds,
                 grps |-> acc.grps]
AddTok(acc, tok, kind, g) ==
  [toks |-> Append(acc.toks, tok), kinds |-> Append(acc.kinds, kind),
   grps |-> Append(acc.grps, g)]

RECURSIVE LexFrom(_, _, _, _, _, _)
LexFrom(t, i, mode, cur, g, acc) ==
  IF i > Len(t)
  THEN [ok |-> mode = "out", toks |-> acc.toks, kinds |-> acc.kinds,
        grps |-> acc.grps]
  ELSE LET c == t[i] IN
  IF mode = "out"
  THEN IF c = "Q" THEN LexFrom(t, i + 1, "str", <<>>, g, acc)
       ELSE IF c = "," THEN LexFrom(t, i + 1, "out", cur, g + 1, acc)
       ELSE IF c = "A" THEN
         \* charValue: exactly one cChar
         IF i + 1 > Len(t) THEN LexFail(acc)
         ELSE IF t[i + 1] = "B"
              THEN LET n == EscNeed(t, i + 1) IN
                   IF n = 0 THEN LexFail(acc)
                   ELSE LET hexmore == {k \in 0..3 :
                                  /\ n = 3
                                  /\ \A m \in 0..k : i + 3 + m <= Len(t)
                                                     /\ t[i + 3 + m] = "1"}
                            \* the regexp backtracks: any 1..4 digits such
                            \* that the closing apostrophe follows
                            lens == IF n = 2 THEN {2}
                                    ELSE {3 + k : k \in hexmore}
                            good == {m \in lens : i + 1 + m <= Len(t)
                                                  /\ t[i + 1 + m] = "A"}
                        IN IF good = {} THEN LexFail(acc)
                           ELSE LET m == MaxOf(good) IN
                                LexFrom(t, i + 2 + m, "out", <<>>, g,
                                        AddTok(acc, SubSeq(t, i + 1, i + m),
                                               "char", g))
              ELSE IF t[i + 1] \in {"A", "L"} \/ i + 2 > Len(t) \/ t[i + 2] # "A"
                   THEN LexFail(acc)
                   ELSE LexFrom(t, i + 3, "out", <<>>, g,
                                AddTok(acc, <<IF t[i + 1] = "," THEN "g"
                                              ELSE t[i + 1]>>, "char", g))
       ELSE LexFrom(t, i + 1, "out", cur, g, acc)
  ELSE \* inside a stringValue
       IF c = "Q" THEN LexFrom(t, i + 1, "out", <<>>, g,
                               AddTok(acc, cur, "str", g))
       ELSE IF c = "L" THEN LexFail(acc)
       ELSE IF c = "B"
            THEN LET n == EscNeed(t, i) IN
                 IF n = 0 THEN LexFail(acc)
                 ELSE LexFrom(t, i + n, "str", cur \o SubSeq(t, i, i + n - 1),
                              g, acc)
            ELSE LexFrom(t, i + 1, "str",
                         Append(cur, IF c = "," THEN "g" ELSE c), g, acc)

Lex(t) == LexFrom(t, 1, "out", <<>>, 0,
                  [toks |-> <<>>, kinds |-> <<>>, grps |-> <<>>])

(*--------------------------- _fixStringValue -----------------------------*)
(* s = token content; i = 0-based index as in the Python loop.             *)
(* Result [ok, rv]; ok = FALSE models IndexError / MOFParseError.          *)
RECURSIVE UnescFrom(_, _, _, _, _)
UnescFrom(s, i, esc, rv, aposKeep) ==
  IF i > Len(s) - 1 THEN [ok |-> TRUE, rv |-> rv]
  ELSE LET ch == s[i + 1] IN
  IF ch = "B" /\ ~esc THEN UnescFrom(s, i + 1, TRUE, rv, aposKeep)
  ELSE IF ~esc THEN UnescFrom(s, i + 1, FALSE, Append(rv, ch), aposKeep)
  ELSE IF ch = "Q" THEN UnescFrom(s, i + 1, FALSE, Append(rv, "Q"), aposKeep)
  ELSE IF ch = "n" THEN UnescFrom(s, i + 1, FALSE, Append(rv, "N"), aposKeep)
  ELSE IF ch = "B" THEN UnescFrom(s, i + 1, FALSE, Append(rv, "B"), aposKeep)
  ELSE IF ch = "x" THEN
       \* i += 1; while j < 4: c = s[i + j] ...  (IndexError past the end)
       LET i1 == i + 1
           isHex(k) == i1 + k + 1 <= Len(s) /\ s[i1 + k + 1] = "1"
           j == IF ~isHex(0) THEN 0 ELSE IF ~isHex(1) THEN 1
                ELSE IF ~isHex(2) THEN 2 ELSE IF ~isHex(3) THEN 3 ELSE 4
           indexError == j < 4 /\ i1 + j + 1 > Len(s)
       IN IF indexError \/ j = 0 THEN [ok |-> FALSE, rv |-> rv]
          ELSE UnescFrom(s, i1 + j, FALSE, Append(rv, "C"), aposKeep)
  ELSE IF ch = "A" /\ aposKeep
       THEN UnescFrom(s, i + 1, FALSE, Append(rv, "A"), aposKeep)
  ELSE UnescFrom(s, i + 1, FALSE, rv, aposKeep)    \* no branch: dropped

Unesc(tok, aposKeep) == UnescFrom(tok, 0, FALSE, <<>>, aposKeep)

(* Read the literal(s) of ONE value: adjacent stringValues are             *)
(* concatenated (p_stringValueList); a charValue stands alone.             *)
RECURSIVE ConcatFrom(_, _, _)
ConcatFrom(toks, k, aposKeep) ==
  IF k > Len(toks) THEN [ok |-> TRUE, rv |-> <<>>]
  ELSE LET u == Unesc(toks[k], aposKeep)
           r == ConcatFrom(toks, k + 1, aposKeep)
       IN [ok |-> u.ok /\ r.ok, rv |-> u.rv \o r.rv]

Bad == [ok |-> FALSE, rv |-> <<>>]

ReadToks(toks, kinds, aposKeep, charRaw) ==
  IF Len(toks) = 0 THEN Bad
  ELSE IF \A k \in DOMAIN kinds : kinds[k] = "str"
       THEN ConcatFrom(toks, 1, aposKeep)
  ELSE IF Len(toks) = 1                          \* a single charValue
       THEN IF charRaw THEN [ok |-> TRUE, rv |-> <<"A">> \o toks[1] \o <<"A">>]
            ELSE Unesc(toks[1], aposKeep)
  ELSE Bad

Read(t, aposKeep, charRaw) ==
  LET lx == Lex(t) IN
  IF ~lx.ok THEN Bad ELSE ReadToks(lx.toks, lx.kinds, aposKeep, charRaw)

(* the tokens of array element number g (0-based), in order *)
Sel(lx, g) ==
  LET idx == {k \in DOMAIN lx.toks : lx.grps[k] = g}
      RECURSIVE pick(_)
      pick(k) == IF k > Len(lx.toks) THEN <<>>
                 ELSE IF k \in idx THEN <<k>> \o pick(k + 1) ELSE pick(k + 1)
      ks == pick(1)
  IN [toks |-> [j \in DOMAIN ks |-> lx.toks[ks[j]]],
      kinds |-> [j \in DOMAIN ks |-> lx.kinds[ks[j]]]]

(* What the literal(s) denote by DSP0004 (escapes honoured, \' included)   *)
Denote(t) == Read(t, TRUE, FALSE)
DenoteElem(lx, g) ==
  IF ~lx.ok THEN Bad
  ELSE LET sl == Sel(lx, g) IN ReadToks(sl.toks, sl.kinds, TRUE, FALSE)

(***************************************************************************)
(* Part 2: requirement machine for observed events.                        *)
(*                                                                         *)
(* op = "fold":  one call of the real mofstr() and the real compiler's     *)
(*   reading of its output                                                 *)
(*     s, indent, maxline, lp, endsp, avoid   the vector                   *)
(*     out, olp        text returned by mofstr (class projection), new pos *)
(*     accepted        the compiler accepted a declaration holding `out`   *)
(*     srctok, gottok  the exact source / compiled string (opaque tokens)  *)
(*     lit             see below                                           *)
(* op = "obj":   one object: original and compiled, flattened to elements  *)
(*     orig, comp : sequences of                                           *)
(*       [path, et, type, arr, asize, ref, emb, super, isnull, val,        *)
(*        ovr, tosub, transl, toinst, dovr, dtosub, dtransl, dtoinst,      *)
(*        scopes, cd]                                                      *)
(*     generated (tomof returned), accepted (the compiler accepted), lit,  *)
(*     declared (instance events: class-declared properties not given)     *)
(*     sess            "" | "prime" | "declare" | "use" | "inst": step of a*)
(*                     compiler SESSION (MofTextDecl.tla Part B: one       *)
(*                     MOFCompiler,                                        *)
(*                     one namespace, a history of declarations and        *)
(*                     classes); every element carries qn = lower-case     *)
(*                     qualifier name for qualifier values / declarations  *)
(* op = "prime": the harness put a declaration into the repository         *)
(*     directly (orig = its one element); state update only                *)
(* op = "fail":  step fail(k) of a session (MofTextDecl.tla Part B): a     *)
(*     text that is not valid MOF was compiled on the session's compiler;  *)
(*     kind = k, rejected = the compiler raised an error.  Events of the   *)
(*     session step inst(k) are "obj" events with sess = "inst".           *)
(*                                                                         *)
(* State of the requirement machine: the qualifier declarations of the     *)
(* session - cur: the one that is in the repository for each name now      *)
(* ("the needed qualifier declarations" at this time), old: superseded     *)
(* ones (diagnosis only).                                                  *)
(***************************************************************************)
InitState == [cur |-> {}, old |-> {}]
Apply(s, e) ==
  IF e.sess \in {"prime", "declare"}
  THEN LET d == e.orig[1]
       IN [cur |-> {x \in s.cur : x.qn # d.qn} \cup {d},
           old |-> s.old \cup {x \in s.cur : x.qn = d.qn /\ x # d}]
  ELSE s

DfltFlavor == [ovr |-> "T", tosub |-> "T", transl |-> "F", toinst |-> "F"]
NormF(f, d) == IF f = "N" THEN d ELSE f

(* qualifier declaration: flavors equal after DSP0004 defaulting *)
DeclFlavorsOk(o, c) ==
  /\ NormF(o.ovr, "T") = NormF(c.ovr, "T")
  /\ NormF(o.tosub, "T") = NormF(c.tosub, "T")
  /\ NormF(o.transl, "F") = NormF(c.transl, "F")
  /\ NormF(o.toinst, "F") = NormF(c.toinst, "F")

(* qualifier value: equal after defaulting, or the original left the      *)
(* flavor open and the compiler filled in the declaration's flavor         *)
OneFlavorOk(of, cf, df, dflt) ==
  \/ NormF(of, dflt) = NormF(cf, dflt)
  \/ of = "N" /\ cf = df
QualFlavorsOk(o, c) ==
  /\ OneFlavorOk(o.ovr, c.ovr, o.dovr, "T")
  /\ OneFlavorOk(o.tosub, c.tosub, o.dtosub, "T")
  /\ OneFlavorOk(o.transl, c.transl, o.dtransl, "F")
  /\ OneFlavorOk(o.toinst, c.toinst, o.dtoinst, "F")

ElemFails(o, c) ==
  F("Names", o.et = c.et /\ o.super = c.super)
  \cup F("Types." \o o.type,
         /\ o.type = c.type /\ o.ref = c.ref
         /\ (o.emb = "" \/ c.emb = "" \/ o.emb = c.emb))
  \cup F("ArrayShape", o.arr = c.arr /\ o.asize = c.asize)
  \cup F((IF o.et = "qual" THEN "QualifierValues." ELSE "Values.") \o o.type,
         o.isnull = c.isnull /\ o.val = c.val)
  \cup (IF o.et = "qdecl"
        THEN F("Flavors.declaration", DeclFlavorsOk(o, c))
             \cup F("Scopes", Rng(o.scopes) = Rng(c.scopes))
        ELSE IF o.et = "qual" THEN F("Flavors.qualifier", QualFlavorsOk(o, c))
        ELSE {})

Paths(es) == {es[i].path : i \in DOMAIN es}
AtPath(es, p) == es[CHOOSE i \in DOMAIN es : es[i].path = p]

(* The string / char16 literal(s) of the ONE string-typed value of a unit  *)
(* object (or of a fold vector):                                           *)
(*   lit = [has, kind, clause, q, elems, out, flat, gotok, got]            *)
(*     clause FALSE: datetime / reference / embedded-instance text, whose  *)
(*            literal is only diagnosed (folding), not judged              *)
(*     elems  the source value: one [isnull, s] per array element (one for *)
(*            a scalar), s = class projection                              *)
(*     out    the text region holding the literal(s); flat = the same      *)
(*            generated with an unlimited line length (no folding)         *)
(*     got    the compiled value in the same form (gotok = it has a form)  *)
(* Clause: what the compiler delivers is what the literals denote.         *)
ElemsDenoted(elems, text) ==
  LET lx == Lex(text) IN
  \A j \in DOMAIN elems :
     \/ elems[j].isnull
     \/ LET d == DenoteElem(lx, j - 1) IN d.ok /\ d.rv = elems[j].s

LitFails(accepted, lit) ==
  F("Literal.ArrivesAsDenoted",
    ~(lit.clause /\ accepted /\ ElemsDenoted(lit.elems, lit.out))
    \/ (lit.gotok /\ lit.got = lit.elems))

(* Diagnosis (never a clause on its own; added only when a clause fails):  *)
(* which side is at fault.                                                 *)
Same(c, e) == c = e \/ (c = "," /\ e = "g")
NoComma(seq) == [i \in DOMAIN seq |-> IF seq[i] = "," THEN "g" ELSE seq[i]]

(* `t` is nothing but the escaped text E cut into quoted parts *)
RECURSIVE Refold(_, _, _, _, _, _)
Refold(t, i, E, k, inpart, q) ==
  IF i > Len(t) THEN ~inpart /\ k > Len(E)
  ELSE LET c == t[i] IN
  IF ~inpart
  THEN IF c \in {"L", "_"} THEN Refold(t, i + 1, E, k, FALSE, q)
       ELSE IF c = q THEN Refold(t, i + 1, E, k, TRUE, q)
       ELSE FALSE
  ELSE \/ k <= Len(E) /\ Same(c, E[k]) /\ Refold(t, i + 1, E, k + 1, TRUE, q)
       \/ c = q /\ Refold(t, i + 1, E, k, FALSE, q)

Syms == Src \cup {"U"}
CountOf(seq, c) == Cardinality({i \in DOMAIN seq : seq[i] = c})
MisCounted(lit) ==
  IF ~lit.gotok \/ Len(lit.got) # Len(lit.elems) THEN {"shape"}
  ELSE UNION {{c \in Syms : CountOf(lit.elems[j].s, c) # CountOf(lit.got[j].s, c)}
                : j \in DOMAIN lit.elems}

LitDiag(accepted, lit) ==
  IF ~ElemsDenoted(lit.elems, lit.flat)
  THEN {"diag.EscapingDoesNotDenoteOriginal"}
  ELSE IF ~ElemsDenoted(lit.elems, lit.out)
  THEN IF Len(lit.elems) = 1 /\ ~lit.elems[1].isnull
       THEN IF Refold(lit.out, 1, Esc(lit.elems[1].s), 1, FALSE, lit.q)
            THEN {"diag.FoldInsideEscape"} ELSE {"diag.FoldAltersText"}
       ELSE {"diag.FoldBreaksArrayLiteral"}
  ELSE IF accepted /\ lit.clause
  THEN {"diag.miscounted." \o c : c \in MisCounted(lit)}
  ELSE {}

(* Instance properties next to the default the CLASS declares for them     *)
(* (see MofTextInst.tla).  The clauses are the ones above - the compiled   *)
(* instance has the original's property names (Names) and values           *)
(* (Values.<t>) whatever the class declares.  Every original element       *)
(* carries  cd = [kind, isnull, val] : the default declared by the primed  *)
(* class for this instance property (kind "" elsewhere, else one of        *)
(* MofTextInst!DfltKinds); e.declared = paths of the properties the class  *)
(* declares but the instance does not have.  Diagnosis only (added when a  *)
(* clause fails): the class default has taken the place of the instance's  *)
(* value / a property was instantiated from the class.                     *)
ClassDfltDiag(e) ==
  {"diag.ClassDefaultInsteadOfInstanceValue" :
     p \in {q \in Paths(e.orig) \cap Paths(e.comp) :
             LET o == AtPath(e.orig, q)
                 c == AtPath(e.comp, q)
             IN /\ o.cd.kind \in {"scalar", "array"}
                /\ ~(o.isnull = c.isnull /\ o.val = c.val)
                /\ c.isnull = o.cd.isnull /\ c.val = o.cd.val}}
  \cup {"diag.ClassPropertyAddedToInstance" :
          p \in (Paths(e.comp) \cap Rng(e.declared)) \ Paths(e.orig)}

ObjFails(e) ==
  LET core ==
        IF ~e.generated THEN {"TomofReturnsText"}
        ELSE IF ~e.accepted THEN {"CompilerAccepts"}
        ELSE F("Names", Paths(e.orig) = Paths(e.comp)
                        /\ Cardinality(Paths(e.orig)) = Len(e.orig)
                        /\ Cardinality(Paths(e.comp)) = Len(e.comp))
             \cup UNION {ElemFails(AtPath(e.orig, p), AtPath(e.comp, p)) :
                           p \in Paths(e.orig) \cap Paths(e.comp)}
      haslit == e.lit.has /\ e.generated
      all == core \cup (IF haslit THEN LitFails(e.accepted, e.lit) ELSE {})
  IN IF all = {} THEN {}
     ELSE all \cup (IF haslit THEN LitDiag(e.accepted, e.lit) ELSE {})
              \cup (IF e.generated /\ e.accepted THEN ClassDfltDiag(e) ELSE {})

FoldParams(e, safe) ==
  [indent |-> e.indent, maxline |-> e.maxline, endsp |-> e.endsp,
   avoid |-> e.avoid, safe |-> safe, quote |-> "Q"]

FoldFails(e) ==
  LET all == F("CompilerAccepts", e.accepted)
             \cup F("Values.string", ~e.accepted \/ e.gottok = e.srctok)
             \cup LitFails(e.accepted, e.lit)
      b == Fold(e.s, e.lp, FoldParams(e, FALSE))
  IN IF all = {} THEN {}
     ELSE all \cup LitDiag(e.accepted, e.lit)
          \cup (IF ~b.err /\ b.out = NoComma(e.out)
                   /\ Fold(e.s, e.lp, FoldParams(e, TRUE)).out # NoComma(e.out)
                THEN {"diag.mofstrIsTheSplitAnywhereVariant"} ELSE {})

(* Compiler session (MofTextDecl.tla Part B).  The clauses are the ones    *)
(* above: the class compiled in step `use` equals the original class,      *)
(* which specifies its qualifiers as the CURRENT declarations say (checked *)
(* here against the machine's state, so that a driver that builds another  *)
(* class is caught: UnknownEvent).  Diagnosis only (added when a clause    *)
(* fails): the compiled qualifier has type and flavors of a SUPERSEDED     *)
(* declaration of the session.                                             *)
QualsOf(es) == {es[i] : i \in {j \in DOMAIN es : es[j].et = "qual"}}
UsesCurrent(s, e) ==
  \A q \in QualsOf(e.orig) :
    \E d \in s.cur : /\ d.qn = q.qn /\ d.type = q.type
                     /\ d.ovr = q.dovr /\ d.tosub = q.dtosub
                     /\ d.transl = q.dtransl /\ d.toinst = q.dtoinst
StaleDiag(s, e) ==
  {"diag.StaleQualifierDeclaration" :
     p \in {q \in Paths(e.orig) \cap Paths(e.comp) :
             LET o == AtPath(e.orig, q)
                 c == AtPath(e.comp, q)
             IN /\ o.et = "qual"
                /\ ~(o.type = c.type /\ QualFlavorsOk(o, c))
                /\ \E d \in s.old :
                      /\ d.qn = o.qn /\ d.type = c.type
                      /\ NormF(d.ovr, "T") = NormF(c.ovr, "T")
                      /\ NormF(d.tosub, "T") = NormF(c.tosub, "T")}}
SessFails(s, e) ==
  IF e.sess = "use" /\ ~UsesCurrent(s, e) THEN {"UnknownEvent"}
  ELSE LET f == ObjFails(e)
       IN IF f = {} \/ e.sess # "use" \/ ~e.accepted THEN f
          ELSE f \cup StaleDiag(s, e)

Fails(s, e) ==
  IF e.op = "fold" THEN FoldFails(e)
  ELSE IF e.op = "obj" THEN (IF e.sess = "" THEN ObjFails(e)
                             ELSE SessFails(s, e))
  ELSE IF e.op = "prime" /\ e.sess = "prime" THEN {}
  \* a text that is not valid MOF was given to the session's compiler: part
  \* of the history, nothing to judge (if it was NOT rejected the history is
  \* not the one the specification describes)
  ELSE IF e.op = "fail" /\ e.sess = "fail"
  THEN (IF e.rejected THEN {} ELSE {"UnknownEvent"})
  ELSE {"UnknownEvent"}

(* binding of the transcription (impl drift, never a violation) *)
FoldDrift(e) ==
  LET a == Fold(e.s, e.lp, FoldParams(e, TRUE))
      b == Fold(e.s, e.lp, FoldParams(e, FALSE))
      same(r) == ~r.err /\ r.out = NoComma(e.out) /\ r.lp = e.olp
  IN IF same(a) THEN {}
     ELSE IF same(b) THEN {"mofstr.splits-inside-escapes-variant"}
     ELSE {"mofstr.output-differs-from-both-variants"}

ImplStep(i, e) == << IF e.op = "fold" THEN FoldDrift(e) ELSE {}, i >>
=============================================================================
