SPECIFICATION Spec
CONSTANTS
  ClassLevelPropagate = FALSE
  ParamResolve = TRUE
  InitRestated = TRUE
  OriginFromSuper = FALSE
  AllowModifyBusy = FALSE
  SigCheck = TRUE
  Parent <- Chain3
  Mode = "dyn"
  QSels = {{}}
  Vias = {"api"}
  InstKeys = {}
  WithModify = FALSE
  AllFlags = TRUE
  GenDepth = 0
INVARIANT ImplRefinesReq
INVARIANT MappingHolds
INVARIANT GetFullOk
INVARIANT GetFilteredOk
INVARIANT EnumOk
CHECK_DEADLOCK FALSE
