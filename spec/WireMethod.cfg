SPECIFICATION Spec
CONSTANTS
  CopyObject = TRUE
  TypeOrder = "cimtype_first"
  MaxLen = 3
INVARIANT ServerSawWhatCallerSupplied
INVARIANT CallerObjectsUntouched
CHECK_DEADLOCK FALSE
