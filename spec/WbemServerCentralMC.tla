------------------------ MODULE WbemServerCentralMC ------------------------
(***************************************************************************)
(* X06 - TLC enumerates small profile / association graphs with a builder  *)
(* machine (every action adds one association instance, so every reachable *)
(* state is a complete world; how the server answers the traversal of      *)
(* CIM_ElementConformsToProfile per profile is chosen in the initial       *)
(* state) and checks in EVERY world, for EVERY query of the query universe,*)
(* that the code-shaped get_central_instances (WbemServerCentralImplOps)   *)
(* yields an outcome the declarative requirement (WbemServerCentral)       *)
(* admits.  Queries are about profile p1 only: the sets of worlds of the   *)
(* "wide" configurations are closed under renaming of profiles.            *)
(*                                                                         *)
(* The same machine emits worlds for the binding (tlc -simulate; the last  *)
(* state of a behaviour is a world) and the query universe (PrintT).       *)
(***************************************************************************)
EXTENDS WbemServerCentralImplOps

CONSTANTS EctpU, RpU, A1U, A2U,   \* association instances that may exist
          MaxEdges,               \* max number of association instances
          Modes1, ModesO,         \* server answers: for p1 / other profiles
          QuerySet                \* "full" | "core" | "scoping"

VARIABLES W, steps    \* steps: number of association instances added

(*------------------ universes used by the configurations -----------------*)
R4 == {"r1", "r2", "r3", "r4"}
R5 == {"r1", "r2", "r3", "r4", "r5"}
Pairs(S) == {e \in S \X S : e[1] # e[2]}
Ranked(r) == CASE r = "r1" -> 1 [] r = "r2" -> 2 [] r = "r3" -> 3
               [] r = "r4" -> 4 [] r = "r5" -> 5 [] OTHER -> 6
Oriented(S) == {e \in S \X S : Ranked(e[1]) < Ranked(e[2])}
EctpWide == Profiles \X R4
EctpWide5 == Profiles \X R5
RpWide == Pairs(Profiles)
AWide == Pairs(R4)
AWide5 == Pairs(R5)
(* "deep": p1 is a component profile of p2; one orientation per pair       *)
EctpDeep == {"p2"} \X R4
RpDeep == {<<"p1", "p2">>}
ADeep == Oriented(R4)
ADeepBoth == Pairs(R4)
(* "chain": the association instances of 1-hop and 2-hop scoping scenarios  *)
(* (p1 component of p2 in either direction; scoping instances r1, r5 : S;  *)
(* A2 towards r2 : M and - wrong class - r3 : C; A1 from r2 to r3 : C,     *)
(* r4 : C2, r6 : C and directly from r1 to r4)                             *)
EctpChain == {"p2"} \X {"r1", "r5"}
RpChain == {<<"p1", "p2">>, <<"p2", "p1">>}
A2Chain == {<<"r1", "r2">>, <<"r2", "r5">>, <<"r1", "r3">>}
A1Chain == {<<"r2", "r3">>, <<"r4", "r2">>, <<"r1", "r4">>, <<"r2", "r6">>}
AllModes == {"impl", "unsup", "err"}
ImplUnsup == {"impl", "unsup"}
OnlyUnsup == {"unsup"}
OnlyImpl == {"impl"}

SpNone == [given |-> FALSE, path |-> <<>>]
Sp(path) == [given |-> TRUE, path |-> path]
SpU == {SpNone, Sp(<<"A1">>), Sp(<<"A1", "M", "A2">>), Sp(<<>>),
        Sp(<<"A1", "A2">>)}
Qy(cc, sc, sp, dir, gci, gl, ptype) ==
  [p |-> "p1", cc |-> cc, sc |-> sc, sp |-> sp, dir |-> dir, gci |-> gci,
   gl |-> gl, ptype |-> ptype]

(* every combination of the arguments the methodologies look at *)
QueriesScoping ==
  {Qy(cc, "S", sp, dir, "off", <<>>, "path") :
     cc \in {"C", "C2", "M"}, sp \in SpU \ {SpNone}, dir \in {"dmtf", "snia"}}
QueriesCore ==
  QueriesScoping
  \cup {Qy("", "S", Sp(<<"A1">>), dir, "off", <<>>, "path") : dir \in {"dmtf", "snia"}}
  \cup {Qy("C", "", Sp(<<"A1">>), dir, "off", <<>>, "path") : dir \in {"dmtf", "snia"}}
  \cup {Qy("C", "S", SpNone, dir, "off", <<>>, "path") : dir \in {"dmtf", "snia"}}
  \cup {Qy("", "", SpNone, dir, "off", <<>>, "path") : dir \in {"dmtf", "snia"}}
QueriesFull ==
  {Qy(cc, sc, sp, dir, "off", <<>>, "path") :
     cc \in {"", "C", "C2", "M"}, sc \in {"", "S"}, sp \in SpU,
     dir \in {"dmtf", "snia"}}
  \cup {Qy("C", "S", Sp(<<"A1">>), dir, gci, <<"r3", "r4">>, "path") :
     dir \in {"dmtf", "snia"},
     gci \in {"notimpl", "failed", "ok", "rcfail", "err"}}
  \cup {Qy("", "", SpNone, "dmtf", gci, <<>>, "path") : gci \in {"ok", "notimpl"}}
  \cup {Qy("C", "S", Sp(<<"A1">>), dir, gci, <<>>, ptype) :
     dir \in {"dmtf", "other"}, gci \in {"off", "ok"},
     ptype \in {"path", "other"}}
Queries == CASE QuerySet = "full" -> QueriesFull
             [] QuerySet = "core" -> QueriesCore
             [] OTHER -> QueriesScoping

ASSUME PrintT(<<"QUERIES", QueriesFull>>)

CmU == {cm \in [Profiles -> AllModes] :
          cm["p1"] \in Modes1 /\ \A p \in Profiles \ {"p1"} : cm[p] \in ModesO}
Init == steps = 0 /\ \E cm \in CmU : W = [EmptyWorld EXCEPT !.cm = cm]
Size == Cardinality(W.ectp) + Cardinality(W.rp) + Cardinality(W.a1)
        + Cardinality(W.a2)
Next ==
  /\ Size < MaxEdges
  /\ steps' = steps + 1
  /\ \/ \E e \in EctpU \ W.ectp : W' = [W EXCEPT !.ectp = @ \cup {e}]
     \/ \E e \in RpU \ W.rp : W' = [W EXCEPT !.rp = @ \cup {e}]
     \/ \E e \in A1U \ W.a1 : W' = [W EXCEPT !.a1 = @ \cup {e}]
     \/ \E e \in A2U \ W.a2 : W' = [W EXCEPT !.a2 = @ \cup {e}]
Spec == Init /\ [][Next]_<<W, steps>>

ImplRefinesReq == \A Q \in Queries : ImplOutcome(W, Q) \in Adm(W, Q)
ReqTotal == \A Q \in Queries : Adm(W, Q) # {}
WorldWellFormed == WorldOk(W)
=============================================================================
