------------------------ MODULE WbemServerCentralMC ------------------------
(***************************************************************************)
(* X06 - TLC enumerates small profile / association graphs with a builder  *)
(* machine (every action adds one association instance or changes how the  *)
(* server answers for one profile, so every reachable state is a complete  *)
(* world) and checks in EVERY world, for EVERY query of the query universe,*)
(* that the code-shaped get_central_instances (WbemServerCentralImplOps)   *)
(* yields an outcome the declarative requirement (WbemServerCentral)       *)
(* admits.  Queries are about profile p1 only: the set of worlds is closed *)
(* under renaming of profiles.                                             *)
(*                                                                         *)
(* The same machine emits worlds for the binding (tlc -simulate; the last  *)
(* state of a behaviour is a world) and the query universe (PrintT).       *)
(***************************************************************************)
EXTENDS WbemServerCentralImplOps

CONSTANTS ResU,        \* resources that may take part in associations
          ProfU,       \* profiles that may take part in associations
          MaxEdges,    \* max number of association instances
          ModesU,      \* answers of the server for the ECTP traversal
          QuerySet     \* "full" | "core"

VARIABLE W

SpNone == [given |-> FALSE, path |-> <<>>]
Sp(path) == [given |-> TRUE, path |-> path]
SpU == {SpNone, Sp(<<"A1">>), Sp(<<"A1", "M", "A2">>), Sp(<<>>),
        Sp(<<"A1", "A2">>)}
SpCore == {SpNone, Sp(<<"A1">>), Sp(<<"A1", "M", "A2">>)}
Qy(cc, sc, sp, dir, gci, gl, ptype) ==
  [p |-> "p1", cc |-> cc, sc |-> sc, sp |-> sp, dir |-> dir, gci |-> gci,
   gl |-> gl, ptype |-> ptype]

QueriesFull ==
  {Qy(cc, sc, sp, dir, "off", <<>>, "path") :
     cc \in {"", "C", "C2", "M"}, sc \in {"", "S"}, sp \in SpU,
     dir \in {"dmtf", "snia"}}
  \cup {Qy("C", "S", Sp(<<"A1">>), dir, gci, <<"r3", "r4">>, "path") :
     dir \in {"dmtf", "snia"},
     gci \in {"notimpl", "failed", "ok", "rcfail", "err"}}
  \cup {Qy("", "", SpNone, "dmtf", gci, <<>>, "path") : gci \in {"ok", "notimpl"}}
  \cup {Qy("C", "S", Sp(<<"A1">>), dir, gci, <<>>, ptype) :
     dir \in {"dmtf", "other"}, gci \in {"off", "ok"},
     ptype \in {"path", "other"}}
QueriesCore ==
  {Qy(cc, sc, sp, dir, "off", <<>>, "path") :
     cc \in {"", "C"}, sc \in {"", "S"}, sp \in SpCore,
     dir \in {"dmtf", "snia"}}
Queries == IF QuerySet = "full" THEN QueriesFull ELSE QueriesCore

ASSUME PrintT(<<"QUERIES", Queries>>)

Init == W = EmptyWorld
Size == Cardinality(W.ectp) + Cardinality(W.rp) + Cardinality(W.a1)
        + Cardinality(W.a2)
AddEdge ==
  /\ Size < MaxEdges
  /\ \/ \E p \in ProfU, r \in ResU :
          /\ <<p, r>> \notin W.ectp
          /\ W' = [W EXCEPT !.ectp = @ \cup {<<p, r>>}]
     \/ \E p \in ProfU, q \in ProfU :
          /\ p # q /\ <<p, q>> \notin W.rp
          /\ W' = [W EXCEPT !.rp = @ \cup {<<p, q>>}]
     \/ \E x \in ResU, y \in ResU :
          /\ x # y /\ <<x, y>> \notin W.a1
          /\ W' = [W EXCEPT !.a1 = @ \cup {<<x, y>>}]
     \/ \E x \in ResU, y \in ResU :
          /\ x # y /\ <<x, y>> \notin W.a2
          /\ W' = [W EXCEPT !.a2 = @ \cup {<<x, y>>}]
SetMode == \E p \in ProfU, m \in ModesU :
             /\ W.cm[p] # m /\ W' = [W EXCEPT !.cm[p] = m]
Next == AddEdge \/ SetMode
Spec == Init /\ [][Next]_W

ImplRefinesReq == \A Q \in Queries : ImplOutcome(W, Q) \in Adm(W, Q)
ReqTotal == \A Q \in Queries : Adm(W, Q) # {}
WorldWellFormed == WorldOk(W)
=============================================================================
