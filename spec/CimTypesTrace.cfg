SPECIFICATION TSpec
CONSTANTS
  InfExc = "ValueError"
  StringSlotLax = FALSE
  RangeCheck = TRUE
  AnyCimIntAsIs = FALSE
  ArrayHeadShortcut = FALSE
  PartialUsecAsterisks = TRUE
  NegOffsetFix = TRUE
  CopyKeepsPrecision = TRUE
  ForeignTzNorm = "keep"
CHECK_DEADLOCK FALSE
