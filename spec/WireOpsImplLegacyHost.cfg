SPECIFICATION Spec
CONSTANTS
  K = 1
  Variant = {"keephost"}
  Emit = FALSE
INVARIANTS ImplValid ImplHeaders ImplReqOk
CHECK_DEADLOCK FALSE
