\* ModifyInstance of the reference properties of an id-keyed association instance (cross-namespace <-> single
\* namespace), repaired design: every stored copy follows.  Must hold.
SPECIFICATION Spec
CONSTANTS
  LegacyBreak = FALSE
  SwapIn = ""
  NoShadow = FALSE
  NoPreCheck = FALSE
  XParU = {}
  ModEnds = "fixed"
  ShallowSub = FALSE
  IgnoreNs = FALSE
  ModSharedPath = FALSE
  MaxMod = 0
  NodeU <- NodeU5
  MaxAssoc = 1
  CreateNs = {1, 2}
  ClsU = {"AL"}
  AcU <- AcSmall
  RcU <- RcSmall
  RlU <- RlSmall
  GenDepth = 0
INVARIANT ImplEqualsDecl
CHECK_DEADLOCK FALSE
