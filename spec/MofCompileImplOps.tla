------------------------- MODULE MofCompileImplOps -------------------------
(***************************************************************************)
(* C09, code-shaped layer (pure operators).                                *)
(*                                                                         *)
(* What pywbem/_mof_compiler.py does with ONE production, transcribed from *)
(* the code: lexer/yacc error callbacks (t_error, p_error), the value      *)
(* conversions in the p_* actions, p_compilerDirective, and the CIMError   *)
(* translation / retry logic of p_mp_setQualifier, p_mp_createClass,       *)
(* p_mp_createInstance, p_qualifier and p_instanceDeclaration.             *)
(*                                                                         *)
(* Outcomes are SETS of outcome tokens where the abstraction cannot know   *)
(* (a dropped token may or may not leave valid MOF).                       *)
(*                                                                         *)
(* Each constant below is TRUE for the intended code shape and FALSE for a *)
(* realistic wrong variant (several of them are the shape of the tree this *)
(* suite was built against):                                               *)
(*   IncludeGuard    compile_file refuses a file that is already being     *)
(*                   compiled (FALSE: unbounded recursion)                 *)
(*   NsNoneCheck     p_compilerDirective tests the regex match for None    *)
(*                   before using it (FALSE: m.group on None)              *)
(*   HexBounds       _fixStringValue stops at the end of the string while  *)
(*                   collecting hex digits (FALSE: s[i + j] past the end)  *)
(*   CtxBounds       _get_error_context stays inside the line              *)
(*   ValueWrapped    ValueError/TypeError of the value conversions become  *)
(*                   MOFParseError in every production (FALSE: only in     *)
(*                   instance declarations, and only ValueError)           *)
(*   RepoWrapped     every CIMError / missing server object on the retry   *)
(*                   paths becomes a MOFCompileError                       *)
(*   EmbFinally      compile_embedded_value resets parser.embedded_objects *)
(*                   in a finally clause                                   *)
(*   RestoreOnReturn compile_string restores parser.file/.mof on success   *)
(*   EmbRestoreAll   compile_embedded_value restores parser.file/.mof after*)
(*                   a single string AND after a list of strings (FALSE:   *)
(*                   only in the single-string branch; after an array of   *)
(*                   embedded values parser.mof is the last element)       *)
(*   SuperCheckFirst MOFWBEMConnection.CreateClass looks the superclass up *)
(*                   BEFORE it stores the new class (FALSE: stores first,  *)
(*                   so `class X : X` finds itself, is accepted and is its *)
(*                   own ancestor from then on; the same for a class that  *)
(*                   is re-declared as a subclass of its own subclass;     *)
(*                   the class is in the store also when a later check of  *)
(*                   CreateClass rejects it and the compile call fails,    *)
(*                   and every LATER compile call that resolves its        *)
(*                   ancestry recurses for ever)                           *)
(*   AncestryWalk    MOFWBEMConnection.CreateClass rejects a class that    *)
(*                   would be among its own ancestors (it walks the chain  *)
(*                   of superclasses of the new superclass; FALSE: only    *)
(*                   the existence of the superclass is checked, so an     *)
(*                   existing class can be re-declared as a subclass of    *)
(*                   its own subclass).  With SuperCheckFirst = FALSE and  *)
(*                   AncestryWalk = TRUE `class X : X` is stored, finds    *)
(*                   itself, and is then REJECTED by the walk - but stays  *)
(*                   in the store                                          *)
(*   GuardCanonical  the include guard of compile_file compares canonical  *)
(*                   (absolute, normalised) paths (FALSE: the path as it   *)
(*                   was spelled; a cycle through a path with a redundant  *)
(*                   ./ or x/../ component yields a longer spelling on     *)
(*                   every level and is never recognised)                  *)
(*   RegisterAfterCreate  p_mp_createClass records the class name in       *)
(*                   parser.classnames (names of classes known to exist)   *)
(*                   only after CreateClass succeeded (FALSE: before the   *)
(*                   retry loop, also when the class could not be created: *)
(*                   a later class depending on that name skips the lookup *)
(*                   / search-path compile of it and is rejected; the list *)
(*                   holds lower-cased names and is searched with the name *)
(*                   as spelled, so only a lower-case spelling hits)       *)
(*   NsCachesInit    `#pragma namespace` creates BOTH per-namespace caches *)
(*                   (FALSE: only the qualifier cache; the dependency      *)
(*                   fix-up of p_mp_createClass indexes parser.classnames  *)
(*                   with the namespace: KeyError)                         *)
(*   EmbNullChecked  the dependency fix-up skips an EmbeddedInstance       *)
(*                   qualifier without a value (FALSE: None.lower())       *)
(*   OverflowWrapped OverflowError of the value conversions (int -> float) *)
(*                   is translated like ValueError/TypeError               *)
(*   InstOffsetAll   p_instanceDeclaration finds class name, alias and     *)
(*                   property list at positions shifted by one when a      *)
(*                   qualifier list precedes INSTANCE - in EVERY branch    *)
(*                   (FALSE: not for the property list of the alias branch:*)
(*                   with qualifier list AND alias the "property list" is  *)
(*                   the '{' token; iterating it ends in IndexError)       *)
(*   OpenPrecheck    _compile_file asks os.path.exists() (total: False for *)
(*                   names the OS interface refuses) before it opens the   *)
(*                   file (FALSE: open() first and only FileNotFoundError  *)
(*                   handled: a name with NUL / a lone surrogate raises    *)
(*                   ValueError / UnicodeEncodeError)                      *)
(*   EmbLexerClone   compile_embedded_value tokenizes the nested text with *)
(*                   a CLONE of the compiler's base lexer (FALSE: with the *)
(*                   base lexer itself; lexer.input() does not reset the   *)
(*                   line counter, so the line ends of every nested text   *)
(*                   stay in the base lexer, and every text compiled       *)
(*                   afterwards - include file, later call, later nested   *)
(*                   text - starts counting lines from there: its errors   *)
(*                   report a line beyond the end of the text)             *)
(***************************************************************************)
EXTENDS MofCompile

CONSTANTS IncludeGuard, NsNoneCheck, HexBounds, CtxBounds, ValueWrapped,
          RepoWrapped, EmbFinally, RestoreOnReturn, EmbRestoreAll,
          SuperCheckFirst, AncestryWalk, GuardCanonical, RegisterAfterCreate, NsCachesInit,
          EmbNullChecked, OverflowWrapped, InstOffsetAll, OpenPrecheck,
          EmbLexerClone

AnyMof == {"ok"} \cup MOFErrors

(* value kinds whose conversion (cimvalue, CIM type constructors, int())   *)
(* raises ValueError or TypeError                                          *)
StrictValue(k, v) ==
  \/ v \in {"int_overflow", "huge_int", "neg_unsigned", "str_for_int",
            "bad_datetime", "int_for_datetime", "mixed_array",
            "scalar_for_array", "huge_digits", "qual_str_for_int",
            "qual_int_overflow"}
  \/ k = "qualDecl" /\ v = "array_for_scalar"
  \/ k \in {"class", "instance"} /\ v \in {"ref_default_int", "int_for_ref"}

(* what escapes from the unwrapped conversions (cimvalue, CIM type ctors) *)
LegacyValueExc(k, v) ==
  IF v \in {"int_for_datetime", "ref_default_int", "int_for_ref"}
  THEN "TypeError" ELSE "ValueError"

NsNoMatch == {"nomatch_colon", "empty", "space", "trailing_slash",
              "double_slash"}

(* ---- repository rejections: p_mp_* and friends -------------------------*)
RepoOp(p) == p.v

W(wrapped, legacy) == IF RepoWrapped THEN wrapped ELSE legacy

SetQualifierOut(code, mode) ==
  IF code = 3       \* INVALID_NAMESPACE: p.parser.server.create_namespace
  THEN W("MOFRepositoryError", "AttributeError")      \* server is None
  ELSE IF code = 7  \* NOT_SUPPORTED: DeleteQualifier; SetQualifier again
  THEN IF mode = "always" THEN W("MOFRepositoryError", "CIMError") ELSE "ok"
  ELSE "MOFRepositoryError"

CreateClassOut(code, mode, hasSuper) ==
  IF code = 3 THEN W("MOFRepositoryError", "AttributeError")
  ELSE IF code = 10   \* INVALID_SUPERCLASS: find_mof(cc.superclass)
  THEN IF hasSuper THEN "MOFDependencyError"
       ELSE W("MOFDependencyError", "AttributeError")  \* None.lower()
  ELSE IF code \in {1, 4, 6}   \* dependency fix-up, then retry
  THEN IF mode = "always" THEN "MOFDependencyError" ELSE "ok"
  ELSE IF code = 11 THEN "ok"  \* ModifyClass
  ELSE "MOFRepositoryError"

EnumQualifiersOut(code) ==
  IF code = 3 THEN W("MOFRepositoryError", "AttributeError")
  ELSE "MOFRepositoryError"

InstGetClassOut(code) ==
  IF code = 6 THEN "MOFDependencyError" ELSE "MOFRepositoryError"

CreateInstanceOut(code, hasKey) ==
  IF code = 11
  THEN IF hasKey THEN "ok"                 \* ModifyInstance
       ELSE W("MOFRepositoryError", "ValueError") \* _format("{0!A} .. {}")
  ELSE "MOFRepositoryError"

RepoOut(p) ==
  LET op == RepoOp(p) mode == RepoMode(p) code == RepoCode(p) IN
  CASE op = "SetQualifier" -> SetQualifierOut(code, mode)
    [] op = "CreateClass" -> CreateClassOut(code, mode, TRUE)
    [] op = "CreateClassNoSuper" -> CreateClassOut(code, mode, FALSE)
    [] op = "ModifyClass" -> "MOFRepositoryError"
    [] op = "EnumerateQualifiers" -> EnumQualifiersOut(code)
    [] op = "GetClass" -> InstGetClassOut(code)
    [] op = "CreateInstance" -> CreateInstanceOut(code, TRUE)
    [] op = "CreateInstanceNoKey" -> CreateInstanceOut(code, FALSE)
    [] op = "ModifyInstance" -> "MOFRepositoryError"
    [] OTHER -> "UNKNOWN"

(* ---- one production ------------------------------------------------------*)
(* env: nsw  the target namespace was switched away from the prelude's     *)
(*      emb  parser.embedded_objects is (wrongly still) a list             *)
(*      cyc  the class an `of_prev` instance names is its own ancestor in  *)
(*           the repository: GetClass(LocalOnly=False) follows the         *)
(*           superclass chain recursively and never ends                   *)
(*      reg  the name of a class that could NOT be created is in           *)
(*           parser.classnames                                             *)
(*      nsinit  parser.classnames has an entry for the target namespace    *)
(*      lcyc the repository holds, under the name of the class the session *)
(*           tried to declare, a class that is its own ancestor (left      *)
(*           behind by a production of an EARLIER compile call)            *)
UsesPrelude(p) == p.k \in {"class", "instance"}

(* valid productions of the "good" text that depend on the class the       *)
(* session failed to declare; the first three make p_mp_createClass run    *)
(* its dependency fix-up, which consults parser.classnames                 *)
ConsultsClassnames(p) ==
  p.k = "class" /\ p.d = "none"
  /\ p.v \in {"ref_failed", "emb_failed", "param_failed"}

(* a failing class production that got as far as p_mp_createClass *)
ReachesCreate(p) ==
  p.k = "class" /\ ((p.d = "dependency" /\ p.v # "unknown_qualifier")
                    \/ (p.d = "repo" /\ p.v # "EnumerateQualifiers"))

(* a class production that leaves a class whose chain of ancestors runs    *)
(* into a cycle in the repository's class store - whether CreateClass      *)
(* accepted or rejected it                                                 *)
LeavesCycle(p) ==
  /\ p.k = "class" /\ p.d = "dependency"
  /\ \/ p.v = "super_self" /\ ~SuperCheckFirst
     \* the two files on the search path declare each other's subclass; both
     \* are stored before the compile of the second one is refused
     \/ p.v = "super_cycle_searchpath" /\ ~SuperCheckFirst
     \/ p.v = "super_redefine_cycle" /\ (~SuperCheckFirst \/ ~AncestryWalk)

(* the dependency fix-up of p_mp_createClass runs (CreateClass was rejected *)
(* because of an unresolved REF / EmbeddedInstance class)                   *)
FixupRuns(p) == p.k = "class" /\ p.d = "dependency" /\ p.v \in SibKinds

ImplProd(p, env) ==
  IF env.emb /\ p.k \in {"qualDecl", "class"} /\ p.d \in {"none", "value",
                                                         "dependency", "repo"}
  THEN {"MOFParseError"}      \* "Compiler in mode to compile embedded ..."
  ELSE IF env.nsw /\ UsesPrelude(p) /\ p.d \in {"none", "value", "dependency",
                                                "repo"}
  THEN {"MOFDependencyError", "MOFRepositoryError", "MOFParseError"}
  ELSE
  CASE p.d = "none" ->
         IF p.v = "hexesc_end" THEN {IF HexBounds THEN "ok" ELSE "IndexError"}
         ELSE IF InstHasQuals(p) /\ InstHasAlias(p) /\ ~InstOffsetAll
         THEN {"IndexError"}
         ELSE IF p = OfPrev /\ env.cyc THEN {"RecursionError"}
         \* part H: a use of a class name without a valid declaration is
         \* rejected (the class does not exist) or, if the repository kept
         \* the class of the failed declaration, accepted; resolving the
         \* ancestry of a class that is its own ancestor never ends
         ELSE IF p \in Later
         THEN IF env.lcyc /\ ResolvesAncestry(p) THEN {"RecursionError"}
              ELSE AnyMof
         ELSE IF ConsultsClassnames(p) /\ env.reg /\ p.a = 1
         THEN {"MOFDependencyError"}   \* lookup skipped: "already known"
         ELSE {"ok"}
    [] p.d = "lex" ->
         IF p.k = "garbage" THEN {"MOFParseError"}
         ELSE IF p.v = "illegal_after_cr"
         THEN {IF CtxBounds THEN "MOFParseError" ELSE "IndexError"}
         ELSE {"MOFParseError"}
    [] p.d = "syntax" ->
         IF p.v \in PragmaSyn THEN {"MOFParseError"}
         ELSE AnyMof      \* a mutated production may still be (other) valid MOF
    [] p.d = "value" ->
         IF p.k = "namespace"
         THEN IF p.v \in NsNoMatch
              THEN {IF NsNoneCheck THEN "MOFParseError" ELSE "AttributeError"}
              ELSE IF p.v = "hexesc_end"
              THEN {IF HexBounds THEN "ok" ELSE "IndexError"}
              ELSE {"MOFParseError"}
         ELSE IF p.k = "include"
         THEN IF p.v = "hexesc_name"
              THEN {IF HexBounds THEN "OSError" ELSE "IndexError"}
              ELSE IF p.v \in OsRefusedNames /\ ~OpenPrecheck
              THEN {IF p.v = "surrogate_name" THEN "UnicodeEncodeError"
                    ELSE "ValueError"}
              ELSE {"OSError"}
         ELSE IF p.v = "real_huge_int" /\ ~OverflowWrapped
         THEN {"OverflowError"}
         ELSE IF StrictValue(p.k, p.v) /\ ~ValueWrapped
                 /\ ~(p.k = "instance" /\ p.v # "huge_digits"
                      /\ LegacyValueExc(p.k, p.v) = "ValueError")
         THEN {LegacyValueExc(p.k, p.v)}
         ELSE AnyMof        \* which mismatches are rejected is not constrained
    [] p.d = "dependency" ->
         IF p.k = "include"
         THEN IF p.v \in {"self", "mutual"} THEN {"PUSH"} ELSE {"OSError"}
         ELSE IF p.v \in {"super_in_searchpath", "class_in_searchpath"}
         THEN {"ok"}
         ELSE IF p.v = "super_self"
         \* superclass lookup fails (the class is not stored yet), or finds
         \* the class itself and the walk over the ancestors rejects it
         THEN {IF SuperCheckFirst \/ AncestryWalk THEN "MOFDependencyError"
               ELSE "ok"}
         ELSE IF p.v = "super_redefine_cycle"
         \* the new superclass exists in either order of store / lookup
         THEN IF AncestryWalk THEN {"MOFDependencyError", "MOFRepositoryError"}
              ELSE {"ok"}
         ELSE IF p.v \in {"super_cycle_searchpath", "class_cycle_searchpath"}
         THEN IF IncludeGuard THEN {"MOFParseError", "MOFDependencyError"}
              ELSE {"RecursionError"}
         ELSE IF FixupRuns(p) /\ p.a \in {1, 5} /\ ~EmbNullChecked
         THEN {"AttributeError"}
         ELSE IF FixupRuns(p) /\ ~env.nsinit THEN {"KeyError"}
         ELSE {"MOFDependencyError", "MOFRepositoryError"}
    [] p.d = "repo" -> {RepoOut(p)}
    [] OTHER -> {"UNKNOWN"}

(* an instance production that runs the embedded-object compiler, and how *)
EmbRuns(p) == p.k = "instance" /\
              (p \in NestedOk \/
               (p.d = "value" /\ p.v \in {"emb_bad_syntax", "emb_class",
                                          "emb_unknown_class"}))

(* the value compiled is a list of strings (array-typed property) *)
EmbList(p) == p \in NestedOk /\ p.v \in {"emb_array_ok", "emb_array_one"}

(* the repository's view of "the class declared last in this text" after  *)
(* class production p was accepted                                         *)
CycAfter(p, cyc) == IF p.k # "class" THEN cyc
                    ELSE IF p.d = "dependency"
                            /\ p.v \in {"super_self", "super_redefine_cycle"}
                    THEN TRUE
                    ELSE IF p = SubOfPrev THEN cyc
                    ELSE FALSE

(* ---- whole-session prediction for the intended code shape (used by the  *)
(* trace module to report impl drift; never a verdict).  `loose`: an       *)
(* earlier production was mutated at token level, so the rest of the text  *)
(* may parse differently: no prediction beyond "admissible".               *)
RECURSIVE PredictSeq(_, _, _, _, _)
PredictSeq(ses, prods, i, nsw, loose) ==
  IF loose THEN Admissible(ses)
  ELSE IF i > Len(prods) THEN {"ok"}
  ELSE LET p == prods[i]
           here == IF p.k = "include" /\ p.d = "none" /\ p.v = "inc2"
                   THEN PredictSeq(ses, ses.inc, 1, nsw, FALSE)
                   ELSE IF p.k = "include" /\ p.d = "dependency"
                           /\ p.v \in {"self", "mutual"}
                   THEN MOFErrors
                   ELSE ImplProd(p, [nsw |-> nsw, emb |-> FALSE,
                                     cyc |-> FALSE, reg |-> FALSE,
                                     nsinit |-> TRUE, lcyc |-> FALSE])
           nsw2 == nsw \/ (p.k = "namespace" /\ p.d = "none" /\ p.v = "other")
                       \/ (p.k = "include" /\ p.v = "inc2"
                           /\ \E q \in Rng(ses.inc) :
                                q.k = "namespace" /\ q.v # "same")
           loose2 == p.d = "syntax" \/ p.d = "lex"
                     \/ (p.k = "include" /\ p.v = "inc2"
                         /\ \E q \in Rng(ses.inc) : q.d \in {"syntax", "lex"}) IN
       (here \ {"ok"})
       \cup (IF "ok" \in here
             THEN PredictSeq(ses, prods, i + 1, nsw2, loose2) ELSE {})

\* valid helper productions of the parts D, E and G count like context
Neutral == Ctx \cup {Inc2} \cup Helpers \cup {NsFull}
NonPlain(ses) == {i \in DOMAIN ses.main : ses.main[i] \notin Neutral}
NonPlainInc(ses) == {i \in DOMAIN ses.inc : ses.inc[i] \notin Neutral}
Predict(ses) ==
  IF Cardinality(NonPlain(ses)) + Cardinality(NonPlainInc(ses)) > 1
  THEN Admissible(ses)   \* several defects (random driver): no prediction
  ELSE PredictSeq(ses, ses.main, 1, FALSE, FALSE)
=============================================================================
