\* Regression variant: the copies of a cross-namespace CreateInstance are stored one by one, the
\* collision is noticed at the last one.  ImplEqualsDecl must be VIOLATED.
SPECIFICATION Spec
CONSTANTS
  LegacyBreak = FALSE
  SwapIn = ""
  NoShadow = FALSE
  NoPreCheck = TRUE
  XParU = {}
  ModEnds = "off"
  ShallowSub = FALSE
  IgnoreNs = FALSE
  ModSharedPath = FALSE
  MaxMod = 0
  NodeU <- NodeU5
  MaxAssoc = 2
  CreateNs = {1, 2}
  ClsU = {"AB", "AL"}
  AcU <- AcSmall
  RcU <- RcSmall
  RlU <- RlSmall
  GenDepth = 0
INVARIANT ImplEqualsDecl
CHECK_DEADLOCK FALSE
