SPECIFICATION Spec
CONSTANTS
  Senders = {"s1", "s2"}
  NInd = 1
  NCb = 1
  MaxQ = 1
  LocalQueueRef = TRUE
  StopOrder = "listener-first"
  Restart = FALSE
  LateCb = TRUE
  CbList = "thread-start"
INVARIANT ExactlyOnce
INVARIANT NeverTwice
INVARIANT CallbackOrder
INVARIANT SenderFifo
INVARIANT NoHandlerCrash
INVARIANT StopClean
PROPERTY Termination
CHECK_DEADLOCK FALSE
