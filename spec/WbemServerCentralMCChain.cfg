\* "chain": every subset of 11 association instances that make up 1-hop and
\* 2-hop scoping scenarios (with duplicates, wrong classes, both directions)
SPECIFICATION Spec
CONSTANTS
  Variant = "code"
  PinnedAssert = FALSE
  EctpU <- EctpChain
  RpU <- RpChain
  A1U <- A1Chain
  A2U <- A2Chain
  MaxEdges = 11
  Modes1 <- OnlyUnsup
  ModesO <- OnlyImpl
  QuerySet = "scoping"
INVARIANT ImplRefinesReq
CHECK_DEADLOCK FALSE
