\* regression config: MOFWBEMConnection.CreateClass checks only that the superclass exists: class C : Base; class D : C; class C : D is accepted, instance of C never ends (must violate ImplRefinesReq: RecursionError)
SPECIFICATION Spec
CONSTANTS
  MaxProd = 1
  MaxDepth = 6
  OnlyKinds = {"class"}
  IncludeGuard = TRUE
  NsNoneCheck = TRUE
  HexBounds = TRUE
  CtxBounds = TRUE
  ValueWrapped = TRUE
  RepoWrapped = TRUE
  EmbFinally = TRUE
  RestoreOnReturn = TRUE
  EmbRestoreAll = TRUE
  SuperCheckFirst = TRUE
  AncestryWalk = FALSE
  GuardCanonical = TRUE
  RegisterAfterCreate = TRUE
  NsCachesInit = TRUE
  EmbNullChecked = TRUE
  OverflowWrapped = TRUE
  InstOffsetAll = TRUE
  OpenPrecheck = TRUE
  EmbLexerClone = TRUE
INVARIANT TypeOK
INVARIANT ImplRefinesReq
INVARIANT PositionFileOK
INVARIANT Reusable

CHECK_DEADLOCK FALSE
