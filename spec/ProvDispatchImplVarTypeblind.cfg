\* regression: wrong design, registry lookup ignores the provider type (must violate ImplRefinesReq)
SPECIFICATION Spec
CONSTANTS
  NsArgFormatBug = FALSE
  ClassnamesAssert = FALSE
  OutOnlyUnchecked = FALSE
  PragmaCaseSensitive = FALSE
  RecompileExisting = FALSE
  Variant = "typeblind"
  Provs <- ProvsMix
  NsArgs <- NsArgsSmall
  SetupBehs = {"ok", "raise"}
  Targets <- TargetsSmall
  KeyU = {1}
  GenDepth = 0
  MaxStore = 1
  IwLevel = "lite"
  MethLevel = "lite"
INVARIANT ImplRefinesReq
CONSTRAINT StoreBound
CHECK_DEADLOCK FALSE
