SPECIFICATION Spec
CONSTANTS
  UpdateCopies = TRUE
  GuardDefaultNs = TRUE
  CompileReplaces = FALSE
  GetCopies = TRUE
  UseScan = "all"
  AddRollback = TRUE
  NsEmptyQuals = TRUE
  AddTypeError = TRUE
  NsArgs = {0, 1, 2, 3}
  CompileNs = {0, 2}
  NsAdm = {0, 1, 2, 3}
  QU = {1, 2, 3}
  DU = {"d1", "d2", "d3"}
  ClsU = {"U", "V", "W"}
  BadArgs = {"none", "badtype"}
  MaxItems = 2
  MaxCompile = 1
  SameD = TRUE
  GenDepth = 10
INVARIANT ImplRefinesReq
INVARIANT ReqWellFormed
INVARIANT MappingHolds
INVARIANT UsedDeclared
CONSTRAINT GenConstraint
CHECK_DEADLOCK FALSE
