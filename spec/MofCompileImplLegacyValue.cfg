\* regression config: value conversion errors not translated outside instance declarations (must violate ImplRefinesReq)
SPECIFICATION Spec
CONSTANTS
  MaxProd = 2
  MaxDepth = 6
  OnlyKinds = {"qualDecl"}
  IncludeGuard = TRUE
  NsNoneCheck = TRUE
  HexBounds = TRUE
  CtxBounds = TRUE
  ValueWrapped = FALSE
  RepoWrapped = TRUE
  EmbFinally = TRUE
  RestoreOnReturn = TRUE
  EmbRestoreAll = TRUE
  SuperCheckFirst = TRUE
  AncestryWalk = TRUE
  GuardCanonical = TRUE
  RegisterAfterCreate = TRUE
  NsCachesInit = TRUE
  EmbNullChecked = TRUE
  OverflowWrapped = TRUE
  InstOffsetAll = TRUE
  OpenPrecheck = TRUE
  EmbLexerClone = TRUE
INVARIANT TypeOK
INVARIANT ImplRefinesReq
INVARIANT PositionFileOK
INVARIANT Reusable

CHECK_DEADLOCK FALSE
