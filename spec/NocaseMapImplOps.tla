--------------------------- MODULE NocaseMapImplOps ---------------------------
(***************************************************************************)
(* Code-shaped transcription of pywbem.NocaseDict (pure operators).        *)
(*                                                                         *)
(* pywbem/_nocasedict.py  NocaseDict(HashableMixin, KeyableByMixin('name'),*)
(*   nocasedict.NocaseDict): __init__ (super().__init__ then               *)
(*   allow_unnamed_keys = False), _check_unnamed_key in __getitem__,       *)
(*   __setitem__, __delitem__, __contains__, pop; copy().                  *)
(* pywbem/_vendor/nocasedict/_nocasedict.py: one ordered dict `_data`      *)
(*   casefolded key -> (original key, value); __setitem__ is               *)
(*   `self._data[k] = (key, value)`; get = try self[key]; setdefault =     *)
(*   `if key not in self: self[key] = default; return self[key]`;          *)
(*   update = mapping path (`for key in other.keys(): self[key] =          *)
(*   other[key]`, AttributeError -> iterable path with the KeyableBy       *)
(*   attribute or pair unpacking) then kwargs; popitem = _data.popitem();  *)
(*   views iterate self._dict._data when asked.                            *)
(*                                                                         *)
(* Impl state: data = sequence of <<fold, b, v, value>> (python dict       *)
(* order), unn = allow_unnamed_keys, snap = items when the views were      *)
(* made (only read by the ViewsSnapshot variant).                          *)
(*                                                                         *)
(* Switches (all FALSE = the code as it should be and, except the         *)
(* Pinned... ones, as it is):                                              *)
(*   PinnedPopSentinel  the pinned tree: pywbem's pop() passes its own     *)
(*                   _OMITTED sentinel to the vendored pop(), whose        *)
(*                   sentinel is a different object: pop(k) of a missing   *)
(*                   key returns that object instead of raising KeyError   *)
(*   PinnedCtorNone  the pinned tree: __init__ calls update() before       *)
(*                   allow_unnamed_keys exists, so a None key ends in      *)
(*                   AttributeError (or, on the mapping path, in whatever  *)
(*                   the iterable path makes of the keys) - not ValueError *)
(*   KeepOldKey      updating keeps the first lexical case                 *)
(*   MoveToEnd       updating = delete + insert (position lost)            *)
(*   LowerFold       str.lower() instead of str.casefold(): variant 1 of   *)
(*                   base EszBase (sharp s) no longer folds with 'SS'      *)
(*   CopyShares      copy() hands out the same _data                       *)
(*   LegacyCopy      copy() inherited from the vendored base class (the    *)
(*                   code before the "fix: NocaseDict.copy" commit)        *)
(*   ViewsSnapshot   keys()/values()/items() return snapshots              *)
(*   SetDefaultPut   setdefault() writes even if the key exists            *)
(***************************************************************************)
EXTENDS NocaseMap

CONSTANTS PinnedCtorNone, PinnedPopSentinel, KeepOldKey, MoveToEnd, LowerFold, CopyShares,
          LegacyCopy, ViewsSnapshot, SetDefaultPut, EszBase, NB

IFold(k) == IF k = NoneKey THEN 0
            ELSE IF LowerFold /\ k[1] = EszBase /\ k[2] = 1 THEN 100 + k[1]
            ELSE k[1]

DPos(data, f) ==
  LET S == {i \in DOMAIN data : data[i][1] = f} IN
  IF S = {} THEN 0 ELSE Min(S)
DDel(data, p) == SubSeq(data, 1, p - 1) \o SubSeq(data, p + 1, Len(data))
DSet(data, k, val) ==         \* self._data[k] = (key, value)
  LET f == IFold(k)
      p == DPos(data, f)
      new == <<f, k[1], k[2], val>> IN
  IF p = 0 THEN Append(data, new)
  ELSE IF MoveToEnd THEN Append(DDel(data, p), new)
  ELSE IF KeepOldKey THEN [data EXCEPT ![p] = <<f, data[p][2], data[p][3], val>>]
  ELSE [data EXCEPT ![p] = new]
DItems(data) == [i \in DOMAIN data |-> <<data[i][2], data[i][3], data[i][4]>>]

Impl0 == [data |-> <<>>, unn |-> FALSE, snap |-> <<>>]
IsErr(r) == r.tag = "err"
Check(i, k) == k = NoneKey /\ ~i.unn          \* _check_unnamed_key raises

I_getitem(i, k) ==
  IF Check(i, k) THEN <<RErr("ValueError"), i>>
  ELSE LET p == DPos(i.data, IFold(k)) IN
       IF p = 0 THEN <<RErr("KeyError"), i>> ELSE <<RVal(i.data[p][4]), i>>
I_setitem(i, k, v) ==
  IF Check(i, k) THEN <<RErr("ValueError"), i>>
  ELSE <<RNone, [i EXCEPT !.data = DSet(i.data, k, v)]>>
I_delitem(i, k) ==
  IF Check(i, k) THEN <<RErr("ValueError"), i>>
  ELSE LET p == DPos(i.data, IFold(k)) IN
       IF p = 0 THEN <<RErr("KeyError"), i>>
       ELSE <<RNone, [i EXCEPT !.data = DDel(i.data, p)]>>
I_contains(i, k) ==
  IF Check(i, k) THEN <<RErr("ValueError"), i>>
  ELSE <<RBool(DPos(i.data, IFold(k)) # 0), i>>
I_get(i, k, d) ==               \* try: return self[key] except KeyError
  LET r == I_getitem(i, k) IN
  IF IsErr(r[1]) /\ r[1].err = "KeyError" THEN <<RVal(d), i>> ELSE r
I_pop(i, k, hasd, d) ==
  IF Check(i, k) THEN <<RErr("ValueError"), i>>
  ELSE LET p == DPos(i.data, IFold(k)) IN
       IF p # 0 THEN <<RVal(i.data[p][4]), [i EXCEPT !.data = DDel(i.data, p)]>>
       ELSE IF hasd THEN <<RVal(d), i>>
       ELSE IF PinnedPopSentinel THEN <<RVal(0 - 9), i>>   \* not a value
       ELSE <<RErr("KeyError"), i>>
I_popitem(i) ==
  IF i.data = <<>> THEN <<RErr("KeyError"), i>>
  ELSE LET n == Len(i.data) IN
       <<RItem(<<i.data[n][2], i.data[n][3], i.data[n][4]>>),
         [i EXCEPT !.data = Front(i.data)]>>
I_setdefault(i, k, d) ==
  LET c == I_contains(i, k) IN
  IF IsErr(c[1]) THEN c
  ELSE LET w == IF c[1].val = 0 \/ SetDefaultPut THEN I_setitem(i, k, d)
                ELSE <<RNone, i>> IN
       IF IsErr(w[1]) THEN w ELSE I_getitem(w[2], k)

(* for key, value in seq: self[key] = value   (stops at the first raise) *)
RECURSIVE I_setall(_, _, _)
I_setall(i, pairs, ctor) ==
  IF pairs = <<>> THEN <<RNone, i>>
  ELSE LET k == Key(Head(pairs)) IN
       IF ctor /\ PinnedCtorNone /\ k = NoneKey
       THEN <<RErr("AttributeError"), i>>  \* no allow_unnamed_keys attribute yet
       ELSE LET w == I_setitem(i, k, Head(pairs)[3]) IN
            IF IsErr(w[1]) THEN w ELSE I_setall(w[2], Tail(pairs), ctor)

(* the object given as positional argument, seen as a key/value sequence *)
RECURSIVE DFill(_, _)
DFill(d, q) == IF q = <<>> THEN d
               ELSE DFill(DSet(d, Key(Head(q)), Head(q)[3]), Tail(q))
ISrc(form, pairs) ==
  CASE form \in {"dict", "odict"} -> DictOf(pairs)
    [] form = "ncdict" -> DItems(DFill(<<>>, pairs))  \* filled by d[k] = v
    [] OTHER -> pairs
Mapping(form) == form \in {"dict", "odict", "ncdict"}

I_update(i, e, ctor) ==
  IF e.nargs > 1 THEN <<RErr("TypeError"), i>>
  ELSE LET a == I_setall(i, ISrc(e.form, e.pairs), ctor) IN
       IF IsErr(a[1])
       THEN IF a[1].err = "AttributeError" /\ Mapping(e.form)
            THEN <<RErr("Unspecified"), a[2]>>  \* falls into the iterable path
            ELSE a
       ELSE I_setall(a[2], e.kw, ctor)

I_new(i, e) ==      \* NocaseDict(...) / NocaseDict.fromkeys(...): new object
  LET fresh == [data |-> <<>>, unn |-> FALSE, snap |-> <<>>]
      u == I_update(fresh, e, TRUE) IN
  IF IsErr(u[1]) THEN <<u[1], i>>               \* no object; old one stays
  ELSE <<RNone, [data |-> u[2].data, unn |-> FALSE,
                 snap |-> IF ViewsSnapshot THEN DItems(u[2].data) ELSE <<>>]>>

I_copy(i, e) ==
  LET shares == CopyShares /\ e.via = "copy"
      legacy == LegacyCopy /\ e.via = "copy"
      r == RCopy(DItems(i.data),
                 IF legacy THEN "BaseNocaseDict" ELSE "NocaseDict",
                 IF legacy THEN FALSE ELSE i.unn) IN
  \* the harness clears the copy afterwards (not for copy.copy)
  <<r, IF shares THEN [i EXCEPT !.data = <<>>] ELSE i>>

ImplStep(i, e) ==
  LET d == IF e.hasd THEN e.val ELSE 0 IN
  CASE e.op = "setitem" -> I_setitem(i, e.k, e.val)
    [] e.op = "getitem" -> I_getitem(i, e.k)
    [] e.op = "get" -> I_get(i, e.k, d)
    [] e.op = "contains" -> I_contains(i, e.k)
    [] e.op = "delitem" -> I_delitem(i, e.k)
    [] e.op = "pop" -> I_pop(i, e.k, e.hasd, e.val)
    [] e.op = "setdefault" -> I_setdefault(i, e.k, d)
    [] e.op = "popitem" -> I_popitem(i)
    [] e.op = "clear" -> <<RNone, [i EXCEPT !.data = <<>>]>>
    [] e.op = "setunnamed" -> <<RNone, [i EXCEPT !.unn = e.flag]>>
    [] e.op = "kbnew" -> <<RNone, [data |-> <<>>, unn |-> TRUE, snap |-> <<>>]>>
    [] e.op = "order" -> <<RErr("TypeError"), i>>
    [] e.op = "copy" -> I_copy(i, e)
    [] e.op = "update" -> I_update(i, e, FALSE)
    [] e.op \in {"new", "fromkeys"} -> I_new(i, e)
    [] OTHER -> <<RErr("UNKNOWN-OP"), i>>

ImplDump(i) ==
  LET it == DItems(i.data)
      vw == IF ViewsSnapshot THEN i.snap ELSE it IN
  [items |-> it, iter |-> Keys(it), rev |-> Rev(Keys(it)), len |-> Len(it),
   vkeys |-> Keys(vw), vvals |-> Vals(vw), vitems |-> vw, vlen |-> Len(vw),
   folds |-> [j \in DOMAIN i.data |->
                IF i.data[j][1] >= 100 THEN 0 - 1 ELSE i.data[j][1]],
   has |-> [b \in 1..NB |->
              <<b, IF DPos(i.data, IFold(<<b, 2>>)) # 0 THEN 1 ELSE 0>>],
   unn |-> i.unn]

(* lock-step comparison used by the trace module (drift, never a verdict) *)
ImplCmp(i, e) ==
  LET rs == ImplStep(i, e)
      r == rs[1]
      d == ImplDump(rs[2]) IN
  << F("result", e.res = r \/ (IsErr(r) /\ r.err = "Unspecified"
                               /\ e.res.tag = "err"))
     \cup F("items", e.dump.items = d.items)
     \cup F("flag", e.dump.unn = d.unn),
     rs[2] >>
=============================================================================
