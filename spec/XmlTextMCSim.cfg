\* Behaviour emission (-simulate): abstract strings of 6 symbols.
SPECIFICATION Spec
CONSTANTS
  Alphabet <- Cls
  MaxLen = 6
  Depths = {0}
  Modes = {"entity"}
  V <- AsIs
  AttrAll = FALSE
INVARIANT WriterTotal
CHECK_DEADLOCK FALSE
