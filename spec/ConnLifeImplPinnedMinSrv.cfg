SPECIFICATION Spec
CONSTANTS
  MockVerifiesOpen = TRUE
  PrettyNoneWithoutDebug = TRUE
  SuspendedMinZero = FALSE
  LenInBytes = TRUE
  SnapshotShallow = FALSE
  SuspendNotSticky = FALSE
  CopySharesStatistics = FALSE
  LastReplyNotReset = FALSE
  StopOnlyOnSuccess = FALSE
  Mode = "stats"
  En0 = {TRUE, FALSE}
  Names = {"A", "B"}
  Fam = {}
  OpShapes <- OpsHttpLife
  MaxConn = 1
  MaxSteps = 5
  GenDepth = 0
  Advs = {0, 2}
  Lens <- LensSmall
  Srvs <- SrvsSmall
  MaxSnap = 1
INVARIANT ImplRefinesReq
INVARIANT ReqWellFormed
INVARIANT MappingHolds
CHECK_DEADLOCK FALSE
