---- MODULE AssocImpl_TTrace_1790428069 ----
EXTENDS Sequences, TLCExt, AssocImpl, Toolbox, Naturals, TLC

_expression ==
    LET AssocImpl_TEExpression == INSTANCE AssocImpl_TEExpression
    IN AssocImpl_TEExpression!expression
----

_trace ==
    LET AssocImpl_TETrace == INSTANCE AssocImpl_TETrace
    IN AssocImpl_TETrace!trace
----

_inv ==
    ~(
        TLCGet("level") = Len(_TETrace)
        /\
        xpar = (<<"", "">>)
        /\
        hist = (<<>>)
        /\
        store = ({[ns |-> 1, cls |-> "AL", g |-> <<"AL", <<0, 0>>>>, w |-> 0, ends |-> <<0, 0>>, pns |-> 1, xp |-> ""], [ns |-> 2, cls |-> "AL", g |-> <<"AL", <<0, 0>>>>, w |-> 0, ends |-> <<1, 4>>, pns |-> 2, xp |-> ""]})
    )
----

_init ==
    /\ store = _TETrace[1].store
    /\ xpar = _TETrace[1].xpar
    /\ hist = _TETrace[1].hist
----

_next ==
    /\ \E i,j \in DOMAIN _TETrace:
        /\ \/ /\ j = i + 1
              /\ i = TLCGet("level")
        /\ store  = _TETrace[i].store
        /\ store' = _TETrace[j].store
        /\ xpar  = _TETrace[i].xpar
        /\ xpar' = _TETrace[j].xpar
        /\ hist  = _TETrace[i].hist
        /\ hist' = _TETrace[j].hist

\* Uncomment the ASSUME below to write the states of the error trace
\* to the given file in Json format. Note that you can pass any tuple
\* to `JsonSerialize`. For example, a sub-sequence of _TETrace.
    \* ASSUME
    \*     LET J == INSTANCE Json
    \*         IN J!JsonSerialize("AssocImpl_TTrace_1790428069.json", _TETrace)

=============================================================================

 Note that you can extract this module `AssocImpl_TEExpression`
  to a dedicated file to reuse `expression` (the module in the 
  dedicated `AssocImpl_TEExpression.tla` file takes precedence 
  over the module `AssocImpl_TEExpression` below).

---- MODULE AssocImpl_TEExpression ----
EXTENDS Sequences, TLCExt, AssocImpl, Toolbox, Naturals, TLC

expression == 
    [
        \* To hide variables of the `AssocImpl` spec from the error trace,
        \* remove the variables below.  The trace will be written in the order
        \* of the fields of this record.
        store |-> store
        ,xpar |-> xpar
        ,hist |-> hist
        
        \* Put additional constant-, state-, and action-level expressions here:
        \* ,_stateNumber |-> _TEPosition
        \* ,_storeUnchanged |-> store = store'
        
        \* Format the `store` variable as Json value.
        \* ,_storeJson |->
        \*     LET J == INSTANCE Json
        \*     IN J!ToJson(store)
        
        \* Lastly, you may build expressions over arbitrary sets of states by
        \* leveraging the _TETrace operator.  For example, this is how to
        \* count the number of times a spec variable changed up to the current
        \* state in the trace.
        \* ,_storeModCount |->
        \*     LET F[s \in DOMAIN _TETrace] ==
        \*         IF s = 1 THEN 0
        \*         ELSE IF _TETrace[s].store # _TETrace[s-1].store
        \*             THEN 1 + F[s-1] ELSE F[s-1]
        \*     IN F[_TEPosition - 1]
    ]

=============================================================================



Parsing and semantic processing can take forever if the trace below is long.
 In this case, it is advised to uncomment the module below to deserialize the
 trace from a generated binary file.

\*
\*---- MODULE AssocImpl_TETrace ----
\*EXTENDS IOUtils, AssocImpl, TLC
\*
\*trace == IODeserialize("AssocImpl_TTrace_1790428069.bin", TRUE)
\*
\*=============================================================================
\*

---- MODULE AssocImpl_TETrace ----
EXTENDS AssocImpl, TLC

trace == 
    <<
    ([xpar |-> <<"", "">>,hist |-> <<>>,store |-> {}]),
    ([xpar |-> <<"", "">>,hist |-> <<>>,store |-> {[ns |-> 1, cls |-> "AL", g |-> <<"AL", <<0, 0>>>>, w |-> 0, ends |-> <<0, 0>>, pns |-> 1, xp |-> ""]}]),
    ([xpar |-> <<"", "">>,hist |-> <<>>,store |-> {[ns |-> 1, cls |-> "AL", g |-> <<"AL", <<0, 0>>>>, w |-> 0, ends |-> <<0, 0>>, pns |-> 1, xp |-> ""], [ns |-> 2, cls |-> "AL", g |-> <<"AL", <<0, 0>>>>, w |-> 0, ends |-> <<1, 4>>, pns |-> 2, xp |-> ""]}])
    >>
----


=============================================================================

---- CONFIG AssocImpl_TTrace_1790428069 ----
CONSTANTS
    LegacyBreak = FALSE
    SwapIn = ""
    NoShadow = FALSE
    NoPreCheck = TRUE
    XParU = { }
    ShallowSub = FALSE
    IgnoreNs = FALSE
    ModSharedPath = FALSE
    MaxMod = 0
    NodeU <- NodeU5
    MaxAssoc = 2
    CreateNs = { 1 , 2 }
    ClsU = { "AB" , "AL" }
    AcU <- AcSmall
    RcU <- RcSmall
    RlU <- RlSmall
    GenDepth = 0

INVARIANT
    _inv

CHECK_DEADLOCK
    \* CHECK_DEADLOCK off because of PROPERTY or INVARIANT above.
    FALSE

INIT
    _init

NEXT
    _next

CONSTANT
    _TETrace <- _trace

ALIAS
    _expression
=============================================================================
\* Generated on Sat Sep 26 13:07:52 UTC 2026