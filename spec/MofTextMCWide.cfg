\* The repaired design (escape-aware split, \' honoured, char16 unescaped):
\* every string of <= 5 symbols over the 10-class alphabet in 24 folding contexts (thorough tier).
SPECIFICATION Spec
CONSTANTS
  MaxLen = 5
  Maxlines = {12, 20}
  Indents = {3}
  LinePos = {0, 14}
  EndSpaces = {0, 1, 3}
  Avoids = {FALSE, TRUE}
  Safe = TRUE
  AposKeep = TRUE
  CharRaw = FALSE
  WithChar16 = TRUE
INVARIANT RoundTrip
INVARIANT NoSplitInEscape
INVARIANT NoStuck
INVARIANT LineLen
CHECK_DEADLOCK FALSE
