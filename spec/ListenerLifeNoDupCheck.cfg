\* MUST FAIL: add_callback() without the duplicate check
SPECIFICATION Spec
CONSTANTS
  Cfg = {"http"}
  Envs <- EnvsHttp
  Senders = {"s1"}
  NInd = 2
  MaxQ = 1
  MaxOps = 2
  InitCbs <- Cbs1
  AddCbs = {1}
  FailCleanup = "code"
  CloseOnCertFail = FALSE
  ClearRobust = FALSE
  StopGuard = TRUE
  DupCheck = FALSE
  FailStopsDelivery = TRUE
INVARIANT StartFailHolds
INVARIANT OtherHolds
PROPERTY MainTerminates
CHECK_DEADLOCK FALSE
