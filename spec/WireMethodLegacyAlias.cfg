SPECIFICATION Spec
CONSTANTS
  CopyObject = FALSE
  TypeOrder = "cimtype_first"
  MaxLen = 3
INVARIANT ServerSawWhatCallerSupplied
CHECK_DEADLOCK FALSE
