SPECIFICATION Spec
CONSTANTS
  NObj = 3
  MaxId = 2
  Nss = {1}
  Maxes <- MaxesSmall
  Kinds = {1, 2}
  Toggles = TRUE
  DefaultMax = 2
  LegacyPullZero = FALSE
  LegacyTrimRaw = FALSE
  GenDepth = 0
  Srvs = {1}
  Ots <- OtsAll
  Coes <- CoesOne
  Flts <- FltsOne
  SharedContextTable = FALSE
  ExpireSessions = TRUE
  RandArgs = FALSE
  Cover = FALSE
INVARIANT ImplRefinesReq
CHECK_DEADLOCK FALSE
