\* Regression variant: the parser passes the path to CIMInstance() before the properties are
\* added: CIMInstance.__setitem__ overwrites a keybinding that differs from the same-named
\* property.  ImplMeetsReq must be VIOLATED.
SPECIFICATION Spec
CONSTANTS
  Types = {"string", "uint8"}
  QualTypes = {"boolean"}
  KeyTypes = {"string", "uint8"}
  Shapes = {"scalar"}
  StrVals <- StrValsKey
  CharVals = {"ltr"}
  Names = {"a"}
  MaxEls = 4
  MaxDepth = 0
  MaxKids = 1
  MaxAttrs = 0
  Modes = {"entity"}
  W <- WPathFirst
  RootKinds = {"inst"}
  EmbPaths = FALSE
INVARIANT ImplMeetsReq
CHECK_DEADLOCK FALSE
