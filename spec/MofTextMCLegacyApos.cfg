\* Regression configuration: _fixStringValue of the pinned tree has no
\* branch for \' (the apostrophe is dropped).  Must violate RoundTrip.
SPECIFICATION Spec
CONSTANTS
  MaxLen = 2
  Maxlines = {20}
  Indents = {3}
  LinePos = {0}
  EndSpaces = {0}
  Avoids = {FALSE}
  Safe = TRUE
  AposKeep = FALSE
  CharRaw = FALSE
  WithChar16 = FALSE
INVARIANT RoundTrip
CHECK_DEADLOCK FALSE
