SPECIFICATION Spec
CONSTANTS
  NObj = 2
  MaxId = 2
  Nss = {1}
  Maxes <- MaxesTiny
  Kinds = {1, 2}
  Toggles = FALSE
  DefaultMax = 2
  LegacyPullZero = FALSE
  LegacyTrimRaw = FALSE
  GenDepth = 0
  Srvs = {1, 2}
  Ots <- OtsTwo
  Coes <- CoesOne
  Flts <- FltsOne
  SharedContextTable = TRUE
  ExpireSessions = FALSE
  RandArgs = FALSE
  Cover = FALSE
INVARIANT ImplRefinesReq
CHECK_DEADLOCK FALSE
