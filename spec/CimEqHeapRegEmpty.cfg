SPECIFICATION Spec
CONSTANTS
  MaxRef = 60
  MaxMut = 2
  Roots <- AllRoots
  ShallowChildDict = FALSE
  SharedPath = FALSE
  EmptyListPassThrough = TRUE
  Mode = "copy"
  HashCache = "none"
  LazyHash = "getter"
  ObsKinds <- ObsActs
  EmitLazy = FALSE
  CopyViaCtor = FALSE
  Emit = FALSE
INVARIANT CopyEqual
INVARIANT Independence
CHECK_DEADLOCK FALSE
