-------------------------- MODULE ListenerHttpTrace --------------------------
(* Trace validation for C17: histories recorded from a real WBEMListener on *)
(* a loopback socket, judged by the requirement machine ListenerHttpReq;    *)
(* the code-shaped pipeline is compared in lock step (drift only): an       *)
(* observation must equal what the pipeline predicts for the tree as read   *)
(* (Legacy) or for the repaired shape (Fixed).                              *)
EXTENDS ListenerHttpImplOps, Json, IOUtils
VARIABLES tid, l, verdict, ts, ti, drifted

ImplCmp(i, e) ==
  IF e.kind # "req" \/ ~KnownRequest(e.cls) THEN <<{}, i>>
  ELSE LET pl == Pipeline(e.cls, Legacy, FALSE)
           pf == Pipeline(e.cls, Fixed, FALSE)
           \* bounded queue that the tester has not seen drained: the
           \* queue.Full branch is a possible prediction as well
           pq == Pipeline(e.cls, Fixed, e.env.qcap > 0 /\ ~e.env.drained) IN
       << IF Same(e.obs, pl) \/ Same(e.obs, pf) \/ Same(e.obs, pq) THEN {}
          ELSE {<<e.cls.verb, e.cls.accept, e.cls.charset, e.cls.range,
                  e.cls.ctype, e.cls.cenc, e.cls.clen, e.cls.body,
                  e.cls.lpos, e.cls.lex, e.obs.outcome, e.obs.status>>},
          i >>

TraceBatch == JsonDeserialize(IOEnv.TRACE_FILE).traces
TK == INSTANCE TraceKit WITH
        TTraces <- TraceBatch,
        TInit0 <- InitState, TFails <- Fails, TApply <- Apply,
        TInv <- LAMBDA st : TRUE,
        TImpl0 <- 0, TImplStep <- ImplCmp
TSpec == TK!TSpec
=============================================================================
