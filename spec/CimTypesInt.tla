----------------------------- MODULE CimTypesInt -----------------------------
(***************************************************************************)
(* C06, integer / typed-slot part.                                         *)
(*                                                                         *)
(* "A CIM integer object never holds a value outside the range of its CIM  *)
(*  type, and a value given to a typed property, qualifier, parameter or   *)
(*  cimvalue() is stored as exactly that CIM type or rejected with         *)
(*  TypeError/ValueError."                                                 *)
(*                                                                         *)
(* Numbers are <<anchor, delta>> pairs (records [a, d]): the anchor is the *)
(* MIN / ZERO / MAX of one of the 8 CIM integer types, delta a small       *)
(* offset, so TLC never sees a 64-bit integer.  The order on such pairs is *)
(* exact as long as |delta| <= MaxDelta (< half the smallest anchor gap).  *)
(*                                                                         *)
(* REQUIREMENT  : StoreFails(e)  - clauses of the statement violated by one *)
(*                observed vector e = <input, observed outcome>.           *)
(* CODE-SHAPED  : ImplStore(c, dt, vc, v) - transcription of CIMInt.__new__,*)
(*                cimvalue(), _infer_type and the value setters            *)
(*                (pywbem/_cim_types.py, pywbem/_cim_obj.py).              *)
(* CimTypesIntMC checks  StoreFails(ImplStore(input)) = {}  for ALL inputs *)
(* of the decision table and emits the table for the harness.              *)
(***************************************************************************)
EXTENDS Integers, Sequences, FiniteSets, TLC

CONSTANTS
  InfExc,          \* exception int(float('inf')) surfaces as: "ValueError"
                   \*   (repaired design) | "OverflowError" (pinned tree)
  StringSlotLax,   \* TRUE: cimvalue(v, 'string') returns non-strings unchanged
                   \*   (pinned tree); FALSE: non-strings are rejected
  RangeCheck,      \* FALSE: regression variant without the range check
  AnyCimIntAsIs,   \* TRUE: regression variant - cimvalue returns any CIMInt
                   \*   object unchanged (isinstance(value, CIMInt))
  ArrayHeadShortcut \* TRUE: regression variant - cimvalue returns a list
                   \*   unchanged when its FIRST item already has the class
                   \*   of the requested numeric / datetime type

F(name, holds) == IF holds THEN {} ELSE {name}

---------------------------------------------------------------------------
(* numbers *)
MaxDelta == 60

AnchorRank ==
  [S64MIN |-> 1, S32MIN |-> 2, S16MIN |-> 3, S8MIN |-> 4, Z |-> 5,
   S8MAX |-> 6, U8MAX |-> 7, S16MAX |-> 8, U16MAX |-> 9, S32MAX |-> 10,
   U32MAX |-> 11, S64MAX |-> 12, U64MAX |-> 13]
Anchors == DOMAIN AnchorRank
Wide64 == {"S64MIN", "S64MAX", "U64MAX"}

V(a, d) == [a |-> a, d |-> d]
IsVal(v) == v.a \in Anchors /\ v.d \in (0 - MaxDelta)..MaxDelta
Leq(v, w) == \/ AnchorRank[v.a] < AnchorRank[w.a]
             \/ AnchorRank[v.a] = AnchorRank[w.a] /\ v.d <= w.d
IsNeg(v) == Leq(v, V("Z", -1))

IntTypes == {"uint8", "sint8", "uint16", "sint16", "uint32", "sint32",
             "uint64", "sint64"}
MinOf == [uint8 |-> V("Z", 0), uint16 |-> V("Z", 0), uint32 |-> V("Z", 0),
          uint64 |-> V("Z", 0), sint8 |-> V("S8MIN", 0),
          sint16 |-> V("S16MIN", 0), sint32 |-> V("S32MIN", 0),
          sint64 |-> V("S64MIN", 0)]
MaxOf == [uint8 |-> V("U8MAX", 0), uint16 |-> V("U16MAX", 0),
          uint32 |-> V("U32MAX", 0), uint64 |-> V("U64MAX", 0),
          sint8 |-> V("S8MAX", 0), sint16 |-> V("S16MAX", 0),
          sint32 |-> V("S32MAX", 0), sint64 |-> V("S64MAX", 0)]

(* the range of a CIM integer type: DSP0004 *)
Accept(t, v) == Leq(MinOf[t], v) /\ Leq(v, MaxOf[t])

---------------------------------------------------------------------------
(* types and Python classes *)
OtherTypes == {"string", "char16", "boolean", "datetime", "real32", "real64"}
DeclTypes == IntTypes \cup OtherTypes
ClassOf ==
  [uint8 |-> "Uint8", sint8 |-> "Sint8", uint16 |-> "Uint16",
   sint16 |-> "Sint16", uint32 |-> "Uint32", sint32 |-> "Sint32",
   uint64 |-> "Uint64", sint64 |-> "Sint64", string |-> "str",
   char16 |-> "str", boolean |-> "bool", datetime |-> "CIMDateTime",
   real32 |-> "Real32", real64 |-> "Real64"]
IntClasses == {ClassOf[t] : t \in IntTypes}
TypeOfClass(c) == CHOOSE t \in IntTypes : ClassOf[t] = c

---------------------------------------------------------------------------
(* the decision table's dimensions *)
Containers == {"ctor", "cimvalue", "CIMProperty", "CIMQualifier",
               "CIMParameter", "CIMQualifierDeclaration",
               "set:CIMProperty", "set:CIMQualifier", "set:CIMParameter",
               "set:CIMQualifierDeclaration"}
InferContainers == {"cimvalue", "CIMProperty", "CIMQualifier"}

CiClasses == {"ci:" \o t : t \in IntTypes}
CiType(vc) == CHOOSE t \in IntTypes : vc = "ci:" \o t
(* value classes that only exist as CIMInt constructor call forms *)
CtorOnlyVC == {"str2", "str8", "str16", "str16kw", "xkw", "xkwstr16",
               "str0"}
(* classes that denote the integer v exactly *)
ExactVC == {"int", "str10", "bytes10"} \cup CtorOnlyVC \cup CiClasses
FloatVC == {"float", "floatfrac", "floatinf", "floatninf", "floatnan"}
NoNumVC == {"none", "badstr", "floatstr", "emptystr", "dtstr", "cimdatetime",
            "pydatetime", "object", "floatinf", "floatninf", "floatnan"}
ValueClasses == ExactVC \cup FloatVC \cup NoNumVC
                \cup {"bool", "real32obj", "real64obj", "list"}

(* float(v) is exactly v for every anchor below 2^53; around the 64-bit    *)
(* anchors only the powers of two are floats                               *)
FloatExact(v) == \/ v.a \notin Wide64
                 \/ v \in {V("S64MIN", 0), V("S64MAX", 1), V("U64MAX", 1)}

Applicable(c, dt, vc, v) ==
  /\ (c = "ctor") => dt \in IntTypes
  /\ (dt = "infer") => (c \in InferContainers /\ vc # "list")
  /\ (vc \in CtorOnlyVC) => c = "ctor"
  /\ (vc \in CiClasses) => Accept(CiType(vc), v)
  /\ (vc \in {"float", "real32obj", "real64obj"}) => FloatExact(v)
  /\ (vc = "floatfrac") => v.a \notin Wide64
  /\ (vc = "bool") => v \in {V("Z", 0), V("Z", 1)}
  /\ (vc \in NoNumVC) => v = V("Z", 0)
  /\ (vc = "list") => dt # "infer"

---------------------------------------------------------------------------
(* REQUIREMENT                                                             *)
(* observed vector e:                                                      *)
(*   c, dt, vc, v      the input (dt = "infer": type=None)                 *)
(*   out               "stored" | name of the exception class raised       *)
(*   st                Python class name of the stored object; for a list  *)
(*                     "list:<class>" (homogeneous) or "list:mixed"        *)
(*   hasv, sv          stored object is an integer object / its value      *)
ExpectedClass(e) ==
  IF e.vc = "list" THEN "list:" \o ClassOf[e.dt] ELSE ClassOf[e.dt]

ElemClass(st) ==   \* class name of the stored integer object(s), if any
  CASE st \in IntClasses -> st
    [] \E c \in IntClasses : st = "list:" \o c ->
         CHOOSE c \in IntClasses : st = "list:" \o c
    [] OTHER -> ""

StoreFails(e) ==
  F("Trace.InputInTable",
    /\ e.c \in Containers /\ e.dt \in DeclTypes \cup {"infer"}
    /\ e.vc \in ValueClasses /\ IsVal(e.v))
  \cup
  F("Store.RejectedOnlyWithTypeErrorOrValueError",
    e.out \in {"stored", "TypeError", "ValueError"})
  \cup
  (IF e.out # "stored" THEN {} ELSE
     (* stored as exactly the declared CIM type (NULL stays NULL) *)
     F("Store.ExactType",
       \/ e.dt = "infer"
       \/ e.st = ExpectedClass(e)
       \/ e.vc = "none" /\ e.st = "NoneType")
     \cup
     (* no CIM integer object outside the range of its type *)
     F("Trace.StoredValueClassified",
       ElemClass(e.st) = "" \/ (e.hasv /\ IsVal(e.sv)))
     \cup
     F("Int.InRange",
       ElemClass(e.st) = "" \/ ~(e.hasv /\ IsVal(e.sv)) \/
         Accept(TypeOfClass(ElemClass(e.st)), e.sv))
     \cup
     (* an exactly denoted integer is not stored as a different integer *)
     F("Store.ValueKept",
       ~(e.vc \in ExactVC \cup {"list"} /\ e.hasv /\ ElemClass(e.st) # "") \/ e.sv = e.v))

---------------------------------------------------------------------------
(* CODE-SHAPED MODEL                                                       *)
Stored(st, hasv, sv) == [out |-> "stored", st |-> st, hasv |-> hasv, sv |-> sv]
Raised(x) == [out |-> x, st |-> "", hasv |-> FALSE, sv |-> V("Z", 0)]
NoV == V("Z", 0)

PyClass(vc) ==
  CASE vc = "int" -> "int"
    [] vc \in {"str10", "badstr", "floatstr", "emptystr", "dtstr"}
         \cup CtorOnlyVC -> "str"
    [] vc = "bytes10" -> "bytes"
    [] vc \in CiClasses -> ClassOf[CiType(vc)]
    [] vc \in FloatVC -> "float"
    [] vc = "bool" -> "bool"
    [] vc = "none" -> "NoneType"
    [] vc = "real32obj" -> "Real32"
    [] vc = "real64obj" -> "Real64"
    [] vc = "cimdatetime" -> "CIMDateTime"
    [] vc = "pydatetime" -> "datetime"
    [] vc = "object" -> "object"
    [] vc = "list" -> "list"

(* the builtin int(...): <<"ok", value>> or <<exception>> *)
PyInt(vc, v) ==
  CASE vc \in ExactVC \cup {"float", "bool", "real32obj", "real64obj"}
         -> <<"ok", v>>
    [] vc = "floatfrac" ->          \* v + 0.5, truncated towards zero
         <<"ok", IF IsNeg(v) THEN V(v.a, v.d + 1) ELSE v>>
    [] vc \in {"floatinf", "floatninf"} -> <<InfExc>>
    [] vc \in {"floatnan", "badstr", "floatstr", "emptystr", "dtstr"}
         -> <<"ValueError">>
    [] vc \in {"none", "cimdatetime", "pydatetime", "object", "list"}
         -> <<"TypeError">>

(* CIMInt.__new__ of class ClassOf[t] *)
CIMIntNew(t, vc, v) ==
  LET r == PyInt(vc, v) IN
  IF r[1] # "ok" THEN Raised(r[1])
  ELSE IF RangeCheck /\ ~Accept(t, r[2]) THEN Raised("ValueError")
  ELSE Stored(ClassOf[t], TRUE, r[2])

(* cimtype(value) for type=None: a type name or <<exception>> *)
CimTypeOf(vc) ==
  CASE vc \in CiClasses -> CiType(vc)
    [] vc = "real32obj" -> "real32"
    [] vc = "real64obj" -> "real64"
    [] vc = "bool" -> "boolean"
    [] vc \in {"str10", "badstr", "floatstr", "emptystr", "dtstr", "bytes10"}
         -> "string"
    [] vc \in {"cimdatetime", "pydatetime"} -> "datetime"
    [] OTHER -> "TypeError"

(* cimvalue(scalar, type) for a given type name *)
Scalar(dt, vc, v) ==
  IF vc = "none" THEN Stored("NoneType", FALSE, NoV)
  ELSE IF dt = "boolean" THEN Stored("bool", FALSE, NoV)
  ELSE IF dt \in {"string", "char16"} THEN
    IF PyClass(vc) \in {"str", "bytes"} THEN Stored("str", FALSE, NoV)
    ELSE IF StringSlotLax
         THEN Stored(PyClass(vc), vc \in CiClasses \cup {"int", "bool"}, v)
         ELSE Raised("TypeError")
  ELSE IF dt = "datetime" THEN
    IF vc \in {"cimdatetime", "pydatetime", "dtstr"}
    THEN Stored("CIMDateTime", FALSE, NoV)
    ELSE IF PyClass(vc) \in {"str", "bytes"} THEN Raised("ValueError")
    ELSE Raised("TypeError")
  ELSE IF dt \in {"real32", "real64"} THEN
    IF vc \in {"badstr", "emptystr", "dtstr"} THEN Raised("ValueError")
    ELSE IF vc \in {"cimdatetime", "pydatetime", "object"}
         THEN Raised("TypeError")
    ELSE Stored(ClassOf[dt], FALSE, NoV)
  ELSE \* integer types
    IF vc \in CiClasses /\ (CiType(vc) = dt \/ AnyCimIntAsIs)
    THEN Stored(PyClass(vc), TRUE, v)
    ELSE CIMIntNew(dt, vc, v)

CimValue(dt, vc, v) ==
  IF vc = "none" THEN Stored("NoneType", FALSE, NoV)
  ELSE IF dt = "infer" THEN
    LET t == CimTypeOf(vc) IN
    IF t = "TypeError" THEN Raised("TypeError") ELSE Scalar(t, vc, v)
  ELSE IF vc = "list" THEN
    \* the element offered is a plain int; cimvalue maps over the list
    LET r == Scalar(dt, "int", v) IN
    IF r.out = "stored" THEN [r EXCEPT !.st = "list:" \o r.st] ELSE r
  ELSE Scalar(dt, vc, v)

ImplStore(c, dt, vc, v) ==
  IF c = "ctor" THEN CIMIntNew(dt, vc, v)
  ELSE IF c = "cimvalue" THEN CimValue(dt, vc, v)
  ELSE IF dt = "infer" /\ (vc = "none" \/ CimTypeOf(vc) = "TypeError")
       THEN Raised("ValueError")          \* _infer_type wraps into ValueError
  ELSE CimValue(dt, vc, v)

ImplEvent(c, dt, vc, v) ==
  LET r == ImplStore(c, dt, vc, v) IN
  [c |-> c, dt |-> dt, vc |-> vc, v |-> v, out |-> r.out, st |-> r.st,
   hasv |-> r.hasv, sv |-> r.sv]

(* drift between the real code and the code-shaped model (never a verdict) *)
StoreDrift(e) ==
  IF StoreFails(e) \cap {"Trace.InputInTable"} # {} THEN {}
  ELSE IF ~Applicable(e.c, e.dt, e.vc, e.v) THEN {}
  ELSE LET r == ImplStore(e.c, e.dt, e.vc, e.v) IN
       F("int.outcome:" \o e.vc \o "->" \o e.dt, e.out = r.out)
       \cup F("int.stored-class:" \o e.vc \o "->" \o e.dt,
              e.out # "stored" \/ r.out # "stored" \/ e.st = r.st)
       \cup F("int.stored-value:" \o e.vc \o "->" \o e.dt,
              e.out # "stored" \/ r.out # "stored" \/ ~e.hasv \/ ~r.hasv
              \/ e.sv = r.sv)

---------------------------------------------------------------------------
(* ARRAY VALUES WHOSE ITEMS COME FROM DIFFERENT VALUE CLASSES               *)
(*                                                                         *)
(* "a value given to a typed property, qualifier, parameter or cimvalue()  *)
(*  is stored as exactly that CIM type" - for an array-typed slot the      *)
(* value is a list and EVERY item is an item of the declared type.  An     *)
(* array input is a sequence of items [vc, v]; relative to the declared    *)
(* type an item is "settled" (already an object of exactly the declared    *)
(* type: nothing to convert) or "other" (any other scalar value class:     *)
(* plain int in / out of range, another CIM integer type, string, float,   *)
(* NULL, ...).  The table has the shapes <<other>>, <<settled, other>>,    *)
(* <<other, settled>>: position and neighbourhood of the item that still   *)
(* has to be converted or rejected are dimensions of the input space.      *)
ArrContainers == Containers \ {"ctor"}
ArrItemVC == (ValueClasses \ (CtorOnlyVC \cup {"list"}))
Item(vc, v) == [vc |-> vc, v |-> v]

SettledVC(dt) ==
  CASE dt \in IntTypes -> "ci:" \o dt
    [] dt \in {"string", "char16"} -> "str10"
    [] dt = "boolean" -> "bool"
    [] dt = "datetime" -> "cimdatetime"
    [] dt = "real32" -> "real32obj"
    [] dt = "real64" -> "real64obj"

(* values of interest for an item offered to a slot of type dt: both sides *)
(* of both range boundaries of dt, 0 and 1                                 *)
ArrValues(dt) ==
  {V("Z", 0), V("Z", 1)} \cup
  (IF dt \in IntTypes
   THEN {MinOf[dt], V(MinOf[dt].a, MinOf[dt].d - 1),
         MaxOf[dt], V(MaxOf[dt].a, MaxOf[dt].d + 1)}
   ELSE {})

ItemOk(dt, it) == /\ it.vc \in ArrItemVC /\ IsVal(it.v)
                  /\ Applicable("cimvalue", dt, it.vc, it.v)
ArrItems(dt) == {it \in {Item(vc, v) : vc \in ArrItemVC, v \in ArrValues(dt)} :
                   ItemOk(dt, it)}
SettledItems(dt) ==
  {it \in ArrItems(dt) : it.vc = SettledVC(dt) /\ it.v = V("Z", 1)}
ArrShapes(dt) ==
  {<<o>> : o \in ArrItems(dt)}
  \cup {<<s, o>> : s \in SettledItems(dt), o \in ArrItems(dt)}
  \cup {<<o, s>> : s \in SettledItems(dt), o \in ArrItems(dt)}

(* REQUIREMENT for one observed array vector e:                             *)
(*   c, dt, items        the input (items: sequence of [vc, v])             *)
(*   out                 "stored" | exception class name                    *)
(*   islist              the stored object is a list                        *)
(*   sts, hasvs, svs     per stored item: class name, is an integer object, *)
(*                       its value                                          *)
ArrFails(e) ==
  F("Trace.InputInTable",
    /\ e.c \in ArrContainers /\ e.dt \in DeclTypes /\ Len(e.items) >= 1
    /\ \A i \in DOMAIN e.items : ItemOk(e.dt, e.items[i]))
  \cup
  F("Store.RejectedOnlyWithTypeErrorOrValueError",
    e.out \in {"stored", "TypeError", "ValueError"})
  \cup
  (IF e.out # "stored" THEN {} ELSE
   LET same == /\ e.islist /\ Len(e.sts) = Len(e.items)
               /\ Len(e.hasvs) = Len(e.sts) /\ Len(e.svs) = Len(e.sts)
       ints == IF same THEN {i \in DOMAIN e.sts : e.sts[i] \in IntClasses}
               ELSE {}
   IN
     (* a list of the same length, every item exactly the declared type *)
     F("Store.ExactType",
       /\ same
       /\ \A i \in DOMAIN e.items :
            \/ e.sts[i] = ClassOf[e.dt]
            \/ e.items[i].vc = "none" /\ e.sts[i] = "NoneType")
     \cup
     F("Trace.StoredValueClassified",
       \A i \in ints : e.hasvs[i] /\ IsVal(e.svs[i]))
     \cup
     F("Int.InRange",
       \A i \in ints : ~(e.hasvs[i] /\ IsVal(e.svs[i])) \/
                       Accept(TypeOfClass(e.sts[i]), e.svs[i]))
     \cup
     F("Store.ValueKept",
       \A i \in ints : ~(e.items[i].vc \in ExactVC /\ e.hasvs[i]) \/
                       e.svs[i] = e.items[i].v))

(* CODE-SHAPED: the "Arrays" branch of cimvalue() maps cimvalue over the    *)
(* items; the first item that is rejected decides the exception            *)
ArrStored(sts, hasvs, svs) ==
  [out |-> "stored", islist |-> TRUE, sts |-> sts, hasvs |-> hasvs,
   svs |-> svs]
ArrRaised(x) == [out |-> x, islist |-> FALSE, sts |-> <<>>, hasvs |-> <<>>,
                 svs |-> <<>>]
OwnClassTypes == IntTypes \cup {"real32", "real64", "datetime"}

ImplArr(dt, items) ==
  LET D == DOMAIN items
      rs == [i \in D |-> Scalar(dt, items[i].vc, items[i].v)]
      bad == {i \in D : rs[i].out # "stored"}
  IN IF /\ ArrayHeadShortcut /\ dt \in OwnClassTypes
        /\ PyClass(items[1].vc) = ClassOf[dt]
     THEN ArrStored([i \in D |-> PyClass(items[i].vc)],
                    [i \in D |-> items[i].vc \in CiClasses \cup {"int", "bool"}],
                    [i \in D |-> items[i].v])
     ELSE IF bad # {}
     THEN ArrRaised(rs[CHOOSE i \in bad : \A j \in bad : i <= j].out)
     ELSE ArrStored([i \in D |-> rs[i].st], [i \in D |-> rs[i].hasv],
                    [i \in D |-> rs[i].sv])

ImplArrEvent(c, dt, items) ==
  LET r == ImplArr(dt, items) IN
  [c |-> c, dt |-> dt, items |-> items, out |-> r.out, islist |-> r.islist,
   sts |-> r.sts, hasvs |-> r.hasvs, svs |-> r.svs]

ArrDrift(e) ==
  IF ArrFails(e) \cap {"Trace.InputInTable"} # {} THEN {}
  ELSE LET r == ImplArr(e.dt, e.items) IN
       F("arr.outcome:" \o e.dt, e.out = r.out)
       \cup F("arr.stored-classes:" \o e.dt,
              e.out # "stored" \/ r.out # "stored" \/ e.sts = r.sts)
       \cup F("arr.stored-values:" \o e.dt,
              e.out # "stored" \/ r.out # "stored" \/ e.hasvs # r.hasvs
              \/ \A i \in DOMAIN e.svs : ~e.hasvs[i] \/ e.svs[i] = r.svs[i])
=============================================================================
