----------------------------- MODULE ListenerHttp -----------------------------
(***************************************************************************)
(* C17 - the listener under a SEQUENCE of requests.                        *)
(*                                                                         *)
(* A peer sends up to MaxReq requests, one connection each, each drawn     *)
(* from Alphabet (a set of request classes).  The server side is the       *)
(* code-shaped pipeline of ListenerHttpImplOps (which check fires first,   *)
(* what each error path writes) plus the three things that carry state     *)
(* from one request to the next:                                           *)
(*   - the handler threads (ThreadingMixIn: one per connection; a handler  *)
(*     that raises only loses its own connection; a handler blocked in     *)
(*     rfile.read() holds only its own thread - or the whole server when   *)
(*     Threaded = FALSE),                                                  *)
(*   - the indication queue and the callback thread,                       *)
(*   - peers that keep a connection open whose request made the server     *)
(*     wait for body bytes.                                                *)
(* TLC checks, for every sequence, that every answered request satisfies   *)
(* every clause of the requirement machine (ListenerHttpReq!Fails = {}),   *)
(* that no request is ever stuck behind an earlier one, and that every     *)
(* valid indication is delivered once the callback thread has caught up.   *)
(***************************************************************************)
EXTENDS ListenerHttpImplOps

CONSTANTS MaxReq,        \* requests per history
          Alphabet,      \* set of request classes the peer may send
          San, ClChk,    \* variant of the code (see ListenerHttpImplOps)
          Threaded,      \* ThreadingMixIn present
          FinalValid     \* TRUE: the last request of a history is the valid one

VARIABLES hist,      \* request classes sent so far (one connection each)
          conn,      \* per connection: [st, obs]; st: sent | waiting | done
          queue,     \* indication queue (connection indices)
          delivered  \* bag of delivered indications as a sequence
vars == <<hist, conn, queue, delivered>>

Fl == [san |-> San, clchk |-> ClChk]

Init == hist = << >> /\ conn = << >> /\ queue = << >> /\ delivered = << >>

(* the peer is sequential: it sends the next request when the previous one *)
(* was answered, dropped, or is observed to make the server wait           *)
CanSend == /\ Len(hist) < MaxReq
           /\ \A i \in DOMAIN conn : conn[i].st # "sent"
Send(c) ==
  /\ (FinalValid /\ Len(hist) = MaxReq - 1) => c = ValidReq
  /\ hist' = Append(hist, c)
  /\ conn' = Append(conn, [st |-> "sent", obs |-> Blank])
  /\ UNCHANGED <<queue, delivered>>

CanHandle == Threaded \/ \A j \in DOMAIN conn : conn[j].st # "waiting"

Handle(i) ==
  /\ conn[i].st = "sent"
  /\ CanHandle
  /\ LET o == Pipeline(hist[i], Fl, FALSE) IN
     /\ conn' = [conn EXCEPT ![i] =
                   [st |-> IF o.outcome = "waiting" THEN "waiting" ELSE "done",
                    obs |-> o]]
     /\ queue' = IF o.ndeliv = 1 THEN Append(queue, i) ELSE queue
  /\ UNCHANGED <<hist, delivered>>

(* the peer gives up on a request the server waits on; what the handler    *)
(* then writes goes to a half-closed connection and is not judged, but an  *)
(* indication it accepts is queued like any other                          *)
PeerClose(i) ==
  /\ conn[i].st = "waiting"
  /\ LET o == AfterPeerClose(hist[i], Fl, FALSE) IN
     /\ conn' = [conn EXCEPT ![i].st = "done"]
     /\ queue' = IF o.ndeliv = 1 THEN Append(queue, i) ELSE queue
  /\ UNCHANGED <<hist, delivered>>

Deliver ==
  /\ queue # << >>
  /\ delivered' = Append(delivered, Head(queue))
  /\ queue' = Tail(queue)
  /\ UNCHANGED <<hist, conn>>

Next == \/ CanSend /\ \E c \in Alphabet : Send(c)
        \/ \E i \in DOMAIN conn : Handle(i) \/ PeerClose(i)
        \/ Deliver
Spec == Init /\ [][Next]_vars

(* ---- binding to the requirement machine ---------------------------------*)
NDeliv(i) == Cardinality({k \in DOMAIN delivered : delivered[k] = i})
Event(i, final) ==
  [kind |-> "req", cls |-> hist[i],
   obs |-> IF final THEN [conn[i].obs EXCEPT !.ndeliv = NDeliv(i)]
           ELSE conn[i].obs,
   alive |-> [server |-> TRUE, callback |-> TRUE]]

FailsOf(i, final) == Fails([n |-> i - 1], Event(i, final))
Answered == {i \in DOMAIN conn : conn[i].st # "sent"}
AllFails == UNION {FailsOf(i, FALSE) : i \in Answered}

Splitting == {"NoRequestDerivedCRLF", "ValidHeaderSyntax"}
OneResp   == {"ExactlyOneResponse.many", "ExactlyOneResponse.waits",
              "ExactlyOneResponse.none"}

InvNoDroppedConnection == "NoDroppedConnection" \notin AllFails
InvNoHeaderSplitting   == AllFails \cap Splitting = {}
InvExactlyOneResponse  == AllFails \cap OneResp = {}
InvOtherClauses == AllFails \ (Splitting \cup OneResp
                               \cup {"NoDroppedConnection"}) = {}

InvAllClauses == AllFails = {}

(* no request is stuck behind an earlier one                               *)
InvNeverStuck == \A i \in DOMAIN conn : conn[i].st = "sent" => CanHandle

(* once the callback thread has caught up, every clause - including        *)
(* delivery of every accepted valid indication - holds for every request   *)
Quiet == queue = << >> /\ Answered = DOMAIN conn
InvDelivered == Quiet => \A i \in DOMAIN conn : FailsOf(i, TRUE) = {}

(* nothing is delivered that was not accepted, and nothing twice           *)
InvNoSpurious == \A i \in DOMAIN conn : NDeliv(i) <= 1

(* ---- alphabets ------------------------------------------------------------*)
(* built constructively (TLC re-evaluates a substituted alphabet in every   *)
(* state; filtering the 294 912 classes each time is too slow)             *)
Around(b) ==
     {[b EXCEPT !.verb = v] : v \in Verbs}
  \cup {[b EXCEPT !.accept = v] : v \in HdrVals}
  \cup {[b EXCEPT !.charset = v] : v \in HdrVals}
  \cup {[b EXCEPT !.range = v] : v \in RangeVals}
  \cup {[b EXCEPT !.ctype = v] : v \in HdrVals}
  \cup {[b EXCEPT !.cenc = v] : v \in HdrVals}
  \cup {[b EXCEPT !.clen = v] : v \in CLens}
  \cup {[b EXCEPT !.body = v] : v \in Bodies}
AllRequests == Requests
UpTo1 == Around(ValidReq)                      \* <= 1 deviation from valid
UpTo2 == UNION {Around(c) : c \in UpTo1}       \* <= 2 deviations
(* one representative per exit of the pipeline (smaller sequence alphabet) *)
Exits == {ValidReq,
          [ValidReq EXCEPT !.verb = "known"],
          [ValidReq EXCEPT !.verb = "unknown"],
          [ValidReq EXCEPT !.accept = "bad"],
          [ValidReq EXCEPT !.charset = "fold"],
          [ValidReq EXCEPT !.range = "bad"],
          [ValidReq EXCEPT !.ctype = "absent"],
          [ValidReq EXCEPT !.cenc = "bad"],
          [ValidReq EXCEPT !.clen = "absent"],
          [ValidReq EXCEPT !.clen = "short"],
          [ValidReq EXCEPT !.clen = "long"],
          [ValidReq EXCEPT !.clen = "nonnum"],
          [ValidReq EXCEPT !.clen = "negone"],
          [ValidReq EXCEPT !.clen = "neg"],
          [ValidReq EXCEPT !.clen = "huge"],
          [ValidReq EXCEPT !.body = "illformedXml"],
          [ValidReq EXCEPT !.body = "badUtf8"],
          [ValidReq EXCEPT !.body = "wrongDtdVersion"],
          [ValidReq EXCEPT !.body = "wrongCimVersionU"],
          [ValidReq EXCEPT !.body = "wrongElement"],
          [ValidReq EXCEPT !.body = "unknownMethod"],
          [ValidReq EXCEPT !.body = "missingParam"],
          [ValidReq EXCEPT !.body = "dupParam"],
          [ValidReq EXCEPT !.body = "nonInstance"]}

(* class lists for the harness (printed once by the Emit configuration)    *)
Tup(c) == <<c.verb, c.accept, c.charset, c.range, c.ctype, c.cenc, c.clen,
            c.body>>
EmitClasses == PrintT(<<"CLS1", {Tup(c) : c \in UpTo1}>>)
               /\ PrintT(<<"CLS2", {Tup(c) : c \in UpTo2 \ UpTo1}>>)
=============================================================================
