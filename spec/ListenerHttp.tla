----------------------------- MODULE ListenerHttp -----------------------------
(***************************************************************************)
(* C17 - the listener under a SEQUENCE of requests.                        *)
(*                                                                         *)
(* A peer sends up to MaxReq requests, one connection each, each drawn     *)
(* from Alphabet (a set of request classes).  The server side is the       *)
(* code-shaped pipeline of ListenerHttpImplOps (which check fires first,   *)
(* what each error path writes) plus the three things that carry state     *)
(* from one request to the next:                                           *)
(*   - the handler threads (ThreadingMixIn: one per connection; a handler  *)
(*     that raises only loses its own connection; a handler blocked in     *)
(*     rfile.read() holds only its own thread - or the whole server when   *)
(*     Threaded = FALSE),                                                  *)
(*   - the indication queue (capacity QCap, 0 = unbounded) and the         *)
(*     callback thread; when Gating, the tester may hold the callback      *)
(*     (a slow consumer): the callback thread then sits in the callback    *)
(*     with one indication and the queue fills up,                         *)
(*   - peers that keep a connection open whose request made the server     *)
(*     wait for body bytes.                                                *)
(* TLC checks, for every sequence, that every answered request satisfies   *)
(* every clause of the requirement machine (ListenerHttpReq!Fails = {}),   *)
(* that no request is ever stuck behind an earlier one, and that every     *)
(* valid indication is delivered once the callback thread has caught up.   *)
(***************************************************************************)
EXTENDS ListenerHttpImplOps

CONSTANTS MaxReq,        \* requests per history
          Alphabet,      \* set of request classes the peer may send
          San, ClChk,    \* variant of the code (see ListenerHttpImplOps)
          Threaded,      \* ThreadingMixIn present
          FinalValid,    \* TRUE: the last request of a history is the valid one
          QCap,          \* max_ind_queue_size (0 = unbounded)
          Gating,        \* the tester may hold the callback once per history
          QfRet,         \* `return` after the queue.Full error response
          LexG,          \* guards of the reader's conversions: full|eol|prefix
          Echo,          \* characters the response writer accepts: xml10|restricted
          PName,         \* NewIndication lookup: exact|cicheck
          Deep           \* RecursionError of the reader: caught|leaks

VARIABLES hist,      \* request classes sent so far (one connection each)
          conn,      \* per connection: [st, obs, env, forced];
                     \* st: sent | waiting | done
          queue,     \* indication queue (connection indices)
          delivered, \* bag of delivered indications as a sequence
          gate,      \* open | held : the tester holds the callback
          inflight,  \* indication the callback thread sits on (0 = none)
          script     \* what the tester did: req(class) | block | release |
                     \* peerclose(request number)
vars == <<hist, conn, queue, delivered, gate, inflight, script>>

Fl == [san |-> San, clchk |-> ClChk, qfret |-> QfRet, lexg |-> LexG,
       echo |-> Echo, pname |-> PName, deep |-> Deep]

Init == /\ hist = << >> /\ conn = << >> /\ queue = << >> /\ delivered = << >>
        /\ gate = "open" /\ inflight = 0 /\ script = << >>

NoneSent == \A i \in DOMAIN conn : conn[i].st # "sent"
(* what the tester can see: nothing it holds, everything accepted so far   *)
(* was delivered, no connection of its own still open                      *)
Drained == /\ gate = "open" /\ queue = << >> /\ inflight = 0
           /\ \A i \in DOMAIN conn : conn[i].st = "done"
Step(op, c, i) == [op |-> op, cls |-> c, idx |-> i]   \* idx: request number

(* the peer is sequential: it sends the next request when the previous one *)
(* was answered, dropped, or is observed to make the server wait           *)
CanSend == Len(hist) < MaxReq /\ NoneSent
Send(c) ==
  /\ (FinalValid /\ Len(hist) = MaxReq - 1) => (c = ValidReq /\ gate = "open")
  /\ hist' = Append(hist, c)
  /\ conn' = Append(conn, [st |-> "sent", obs |-> Blank, forced |-> FALSE,
                           env |-> [qcap |-> QCap, drained |-> Drained]])
  /\ script' = Append(script, Step("req", c, Len(hist) + 1))
  /\ UNCHANGED <<queue, delivered, gate, inflight>>

(* the tester holds / releases the callback (between two requests)         *)
Block ==
  /\ Gating /\ gate = "open" /\ NoneSent /\ Len(hist) < MaxReq
  /\ \A k \in DOMAIN script : script[k].op # "block"
  /\ gate' = "held"
  /\ script' = Append(script, Step("block", ValidReq, 0))
  /\ UNCHANGED <<hist, conn, queue, delivered, inflight>>
Release ==
  /\ gate = "held" /\ NoneSent
  /\ gate' = "open"
  /\ delivered' = IF inflight # 0 THEN Append(delivered, inflight)
                  ELSE delivered
  /\ inflight' = 0
  /\ script' = Append(script, Step("release", ValidReq, 0))
  /\ UNCHANGED <<hist, conn, queue>>

CanHandle == Threaded \/ \A j \in DOMAIN conn : conn[j].st # "waiting"

(* number of requests the tester had sent when it held the callback        *)
ReqsBeforeBlock ==
  LET ks == {k \in DOMAIN script : script[k].op = "block"} IN
  IF ks = {} THEN 0
  ELSE Cardinality({j \in 1..(CHOOSE k \in ks : TRUE) : script[j].op = "req"})

(* Queue.put(block=False) raises queue.Full                                *)
QueueFullNow == QCap > 0 /\ Len(queue) >= QCap

Handle(i) ==
  /\ conn[i].st = "sent"
  /\ CanHandle
  /\ LET o == Pipeline(hist[i], Fl, QueueFullNow) IN
     /\ conn' = [conn EXCEPT ![i].st =
                   IF o.outcome = "waiting" THEN "waiting" ELSE "done",
                              ![i].obs = o,
                              \* the queue is full of indications that cannot
                              \* leave it: the callback thread is held with
                              \* one, and all of them were sent after the
                              \* tester held the callback (i.e. it does not
                              \* take a slow callback thread to get here)
                              ![i].forced =
                                 /\ QueueFullNow /\ gate = "held"
                                 /\ inflight > ReqsBeforeBlock
                                 /\ \A k \in DOMAIN queue :
                                       queue[k] > ReqsBeforeBlock]
     /\ queue' = IF o.ndeliv = 1 THEN Append(queue, i) ELSE queue
  /\ UNCHANGED <<hist, delivered, gate, inflight, script>>

(* the peer gives up on a request the server waits on; what the handler    *)
(* then writes goes to a half-closed connection and is not judged, but an  *)
(* indication it accepts is queued like any other                          *)
PeerClose(i) ==
  /\ conn[i].st = "waiting"
  /\ NoneSent                 \* the peer is sequential
  /\ LET o == AfterPeerClose(hist[i], Fl, QueueFullNow) IN
     /\ conn' = [conn EXCEPT ![i].st = "done"]
     /\ queue' = IF o.ndeliv = 1 THEN Append(queue, i) ELSE queue
  /\ script' = Append(script, Step("peerclose", hist[i], i))
  /\ UNCHANGED <<hist, delivered, gate, inflight>>

(* the callback thread: get() + callback; while the tester holds the       *)
(* callback it gets one indication and sits on it until released           *)
Deliver ==
  /\ queue # << >> /\ gate = "open" /\ inflight = 0
  /\ delivered' = Append(delivered, Head(queue))
  /\ queue' = Tail(queue)
  /\ UNCHANGED <<hist, conn, gate, inflight, script>>
Take ==
  /\ queue # << >> /\ gate = "held" /\ inflight = 0
  /\ inflight' = Head(queue)
  /\ queue' = Tail(queue)
  /\ UNCHANGED <<hist, conn, delivered, gate, script>>

Next == \/ CanSend /\ IF FinalValid /\ Len(hist) = MaxReq - 1
                      THEN Send(ValidReq)   \* (Alphabet is not evaluated)
                      ELSE \E c \in Alphabet : Send(c)
        \/ \E i \in DOMAIN conn : Handle(i) \/ PeerClose(i)
        \/ Deliver \/ Take \/ Block \/ Release
Spec == Init /\ [][Next]_vars

(* ---- binding to the requirement machine ---------------------------------*)
NDeliv(i) == Cardinality({k \in DOMAIN delivered : delivered[k] = i})
Event(i, final) ==
  [kind |-> "req", cls |-> hist[i],
   obs |-> IF final THEN [conn[i].obs EXCEPT !.ndeliv = NDeliv(i)]
           ELSE conn[i].obs,
   env |-> conn[i].env,
   alive |-> [server |-> TRUE, callback |-> TRUE]]

(* state of the requirement machine after the first k requests (the peer   *)
(* is sequential: when request k+1 exists, 1..k have their observation)    *)
RECURSIVE ReqStateAfter(_)
ReqStateAfter(k) == IF k = 0 THEN InitState
                    ELSE Apply(ReqStateAfter(k - 1), Event(k, FALSE))
FailsOf(i, final) == Fails(ReqStateAfter(i - 1), Event(i, final))
Answered == {i \in DOMAIN conn : conn[i].st # "sent"}
AllFails == UNION {FailsOf(i, FALSE) : i \in Answered}

Splitting == {"NoRequestDerivedCRLF", "ValidHeaderSyntax"}
OneResp   == {"ExactlyOneResponse.many", "ExactlyOneResponse.waits",
              "ExactlyOneResponse.none"}

InvNoDroppedConnection == "NoDroppedConnection" \notin AllFails
InvNoHeaderSplitting   == AllFails \cap Splitting = {}
InvExactlyOneResponse  == AllFails \cap OneResp = {}
InvOtherClauses == AllFails \ (Splitting \cup OneResp
                               \cup {"NoDroppedConnection"}) = {}

InvAllClauses == AllFails = {}

(* no request is stuck behind an earlier one                               *)
InvNeverStuck == \A i \in DOMAIN conn : conn[i].st = "sent" => CanHandle

(* once the callback thread has caught up, every clause - including        *)
(* delivery of every accepted valid indication - holds for every request   *)
Quiet == /\ queue = << >> /\ inflight = 0 /\ gate = "open"
         /\ Answered = DOMAIN conn
InvDelivered == Quiet => \A i \in DOMAIN conn : FailsOf(i, TRUE) = {}

(* nothing is delivered that was not accepted, and nothing twice           *)
InvNoSpurious == \A i \in DOMAIN conn : NDeliv(i) <= 1

(* the bounded queue never holds more than its capacity                    *)
InvQueueBound == QCap > 0 => Len(queue) <= QCap

(* ---- alphabets ------------------------------------------------------------*)
(* built constructively (TLC re-evaluates a substituted alphabet in every   *)
(* state; filtering the 294 912 classes each time is too slow)             *)
Around(b) ==
     {[b EXCEPT !.verb = v] : v \in Verbs}
  \cup {[b EXCEPT !.accept = v] : v \in HdrVals}
  \cup {[b EXCEPT !.charset = v] : v \in HdrVals}
  \cup {[b EXCEPT !.range = v] : v \in RangeVals}
  \cup {[b EXCEPT !.ctype = v] : v \in HdrVals}
  \cup {[b EXCEPT !.cenc = v] : v \in HdrVals}
  \cup {[b EXCEPT !.clen = v] : v \in CLens}
  \cup {[b EXCEPT !.body = v] : v \in Bodies}
AllRequests == Requests
UpTo1 == Around(ValidReq)                      \* <= 1 deviation from valid
UpTo2 == UNION {Around(c) : c \in UpTo1}       \* <= 2 deviations
(* one representative per exit of the pipeline (smaller sequence alphabet) *)
Exits == {ValidReq,
          [ValidReq EXCEPT !.verb = "known"],
          [ValidReq EXCEPT !.verb = "unknown"],
          [ValidReq EXCEPT !.accept = "bad"],
          [ValidReq EXCEPT !.charset = "fold"],
          [ValidReq EXCEPT !.range = "bad"],
          [ValidReq EXCEPT !.ctype = "absent"],
          [ValidReq EXCEPT !.cenc = "bad"],
          [ValidReq EXCEPT !.clen = "absent"],
          [ValidReq EXCEPT !.clen = "short"],
          [ValidReq EXCEPT !.clen = "long"],
          [ValidReq EXCEPT !.clen = "nonnum"],
          [ValidReq EXCEPT !.clen = "negone"],
          [ValidReq EXCEPT !.clen = "neg"],
          [ValidReq EXCEPT !.clen = "huge"],
          [ValidReq EXCEPT !.body = "illformedXml"],
          [ValidReq EXCEPT !.body = "badUtf8"],
          [ValidReq EXCEPT !.body = "wrongDtdVersion"],
          [ValidReq EXCEPT !.body = "wrongCimVersionU"],
          [ValidReq EXCEPT !.body = "wrongElement"],
          [ValidReq EXCEPT !.body = "unknownMethod"],
          [ValidReq EXCEPT !.body = "missingParam"],
          [ValidReq EXCEPT !.body = "dupParam"],
          [ValidReq EXCEPT !.body = "nonInstance"]}

(* the classes mixed into the bounded-queue histories: the two that reach  *)
(* the enqueue and one per earlier exit kind (export ERROR, 400, 406);     *)
(* QueueWait adds the one that makes the server wait (its handler reaches  *)
(* the enqueue when the peer gives up)                                     *)
QueuePlain == {ValidReq,
               [ValidReq EXCEPT !.body = "dupParam"],
               [ValidReq EXCEPT !.body = "unknownMethod"],
               [ValidReq EXCEPT !.body = "illformedXml"],
               [ValidReq EXCEPT !.accept = "bad"]}
QueueWait == {ValidReq,
              [ValidReq EXCEPT !.body = "dupParam"],
              [ValidReq EXCEPT !.body = "unknownMethod"],
              [ValidReq EXCEPT !.clen = "long"]}
QueueTiny == {ValidReq,
              [ValidReq EXCEPT !.body = "dupParam"],
              [ValidReq EXCEPT !.body = "unknownMethod"]}

(* class lists for the harness (printed once by the Emit configuration)    *)
Tup(c) == <<c.verb, c.accept, c.charset, c.range, c.ctype, c.cenc, c.clen,
            c.body, c.lpos, c.lex>>

(* tester scripts of complete histories in which the model's listener      *)
(* takes the queue.Full branch for an indication because the tester holds  *)
(* the callback (not merely because the callback thread is slow); printed  *)
(* by TLC while it checks the bounded-queue configuration, replayed by the *)
(* harness                                                                 *)
Complete == Len(hist) = MaxReq /\ Quiet
            /\ \A i \in DOMAIN conn : conn[i].st = "done"
HitFull == \E i \in DOMAIN conn :
              /\ conn[i].forced
              /\ hist[i].body \in {"validExport", "dupParam"}
              /\ conn[i].obs.status = 200 /\ IsError(conn[i].obs)
ScriptTup == [k \in DOMAIN script |->
                <<script[k].op, Tup(script[k].cls), script[k].idx>>]
InvEmitScripts == (Complete /\ HitFull) => PrintT(<<"SCR", ScriptTup>>)
EmitClasses == PrintT(<<"CLS1", {Tup(c) : c \in UpTo1}>>)
               /\ PrintT(<<"CLS2", {Tup(c) : c \in UpTo2 \ UpTo1}>>)

=============================================================================
