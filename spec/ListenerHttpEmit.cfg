SPECIFICATION Spec
CONSTANTS
  MaxReq = 0
  Alphabet <- Exits
  San = TRUE
  ClChk = TRUE
  Threaded = TRUE
  FinalValid = FALSE
CHECK_DEADLOCK FALSE
