SPECIFICATION Spec
CONSTANTS
  MaxReq = 0
  Alphabet <- Exits
  San = TRUE
  ClChk = TRUE
  Threaded = TRUE
  FinalValid = FALSE
  QCap = 0
  Gating = FALSE
  QfRet = TRUE
  Echo = "xml10"
  PName = "exact"
  Deep = "caught"
  LexG = "full"
CHECK_DEADLOCK FALSE
