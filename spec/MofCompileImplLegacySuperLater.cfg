\* regression config: MOFWBEMConnection.CreateClass stores the class before it looks the superclass up and rejects it afterwards (walk over the ancestors): class X : X fails but stays in the store; a LATER compile call with instance of X never ends (must violate ImplRefinesReq in the good phase: RecursionError)
SPECIFICATION Spec
CONSTANTS
  MaxProd = 1
  MaxDepth = 6
  OnlyKinds = {"class"}
  IncludeGuard = TRUE
  NsNoneCheck = TRUE
  HexBounds = TRUE
  CtxBounds = TRUE
  ValueWrapped = TRUE
  RepoWrapped = TRUE
  EmbFinally = TRUE
  RestoreOnReturn = TRUE
  EmbRestoreAll = TRUE
  SuperCheckFirst = FALSE
  AncestryWalk = TRUE
  GuardCanonical = TRUE
  RegisterAfterCreate = TRUE
  NsCachesInit = TRUE
  EmbNullChecked = TRUE
  OverflowWrapped = TRUE
  InstOffsetAll = TRUE
  OpenPrecheck = TRUE
  EmbLexerClone = TRUE
INVARIANT TypeOK
INVARIANT ImplRefinesReq
INVARIANT PositionFileOK
INVARIANT Reusable

CHECK_DEADLOCK FALSE
