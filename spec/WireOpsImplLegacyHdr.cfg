SPECIFICATION Spec
CONSTANTS
  K = 1
  Variant = {"hdr_before_default"}
  Emit = FALSE
INVARIANTS ImplValid ImplHeaders ImplReqOk
CHECK_DEADLOCK FALSE
