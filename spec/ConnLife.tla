------------------------------ MODULE ConnLife ------------------------------
(***************************************************************************)
(* X04 - REQUIREMENT machine (event style, pure operators) for the         *)
(* lifecycle and bookkeeping of pywbem.WBEMConnection /                     *)
(* pywbem_mock.FakedWBEMConnection and of pywbem.Statistics /              *)
(* OperationStatistic.  Every clause below is what pywbem's own            *)
(* documentation promises (docstrings of pywbem/_cim_operations.py,        *)
(* pywbem/_statistics.py, pywbem/_recorder.py,                             *)
(* pywbem_mock/_wbemconnection_mock.py); where the documentation is silent *)
(* the machine accepts every behaviour (the reference value becomes        *)
(* "free"/"wild").                                                         *)
(*                                                                         *)
(* Life.CloseOpen            close() on an open connection returns and     *)
(*                           marks the connection closed (close()).        *)
(* Life.CloseTwiceRaises     close() on a closed connection raises         *)
(*                           ConnectionError (close(): "Raises").          *)
(* Life.OpAfterCloseRaises   "Any subsequent WBEM connection operation     *)
(*                           requests will generate an exception"; nothing *)
(*                           goes to the wire any more.                    *)
(* Life.OutcomeMatchesResponse  on an open connection the operation        *)
(*                           returns for a success response and raises the *)
(*                           documented exception class for the response   *)
(*                           class (class docstring of WBEMConnection).    *)
(* Life.ContextManager       __enter__ returns the connection, __exit__    *)
(*                           closes it and re-raises exceptions.           *)
(* Copy.DistinctOpenConnection / Copy.StateReset / Copy.UserAttributes /   *)
(* Copy.Recorders / Copy.MockSharesRepository                              *)
(*                           copy(): "deep copy of the object with         *)
(*                           internal state reset ... (e.g. session,       *)
(*                           statistics, debug data) is reset", "operation *)
(*                           recorders ... are also deep-copied"; the mock *)
(*                           copy "uses the same repository".              *)
(* Last.RawRequest / RawReply / RequestLen / ReplyLen / PrettyOnlyWithDebug*)
(* / PrettyRequest / PrettyReply / OperationTime / ServerResponseTime /    *)
(* StableBetweenOperations   docstrings of the last_* properties and of    *)
(*                           `debug`.                                      *)
(* Rec.AddNone / AddDuplicate / EnabledAfterAdd / EnabledProperty /        *)
(* EnabledRecordersRecord / ListStable                                     *)
(*                           add_operation_recorder,                       *)
(*                           operation_recorder_enabled,                   *)
(*                           BaseOperationRecorder class docstring.        *)
(* Stat.Count / ExceptionCount / Time / ServerTime /                       *)
(* ServerTimeSuspendedIsZero / RequestLen / ReplyLen / StopReturnsElapsed /*)
(* DisabledReturnsNone / Reset / Snapshot / SnapshotUnchanged              *)
(*                           module docstring of _statistics.py and the    *)
(*                           property / method docstrings.                 *)
(*                                                                         *)
(* Time is integer ticks of a substituted clock; averages are rationals    *)
(* <<num, den>> compared by cross multiplication (TLC has no reals).       *)
(* Sentinels in observations: NONE = Python None, INF = float('inf'),      *)
(* BADV = unclassifiable (no clause accepts it).                           *)
(***************************************************************************)
EXTENDS Integers, Sequences, FiniteSets, TLC

NONE == 0 - 1
INF  == 0 - 2
BADV == 0 - 3
FREE == 0 - 4      \* input of Measure: contribution the documentation leaves open

F(name, holds) == IF holds THEN {} ELSE {name}
Rng(q) == {q[i] : i \in DOMAIN q}
Min2(a, b) == IF a < b THEN a ELSE b
Max2(a, b) == IF a > b THEN a ELSE b
LoMin(lo, v) == IF lo = INF THEN v ELSE Min2(lo, v)
Get(f, k, d) == IF k \in DOMAIN f THEN f[k] ELSE d
Put(f, k, v) == [x \in DOMAIN f \cup {k} |-> IF x = k THEN v ELSE f[x]]
RatEq(r, num, den) == r[2] > 0 /\ den > 0 /\ r[1] * den = num * r[2]

(***************************************************************************)
(* Reference arithmetic for one operation name.                            *)
(*   n, x            measured operations / those that raised               *)
(*   ts, tlo, thi    client time: sum, min, max                            *)
(*   sv              "all"  every measured operation returned server time  *)
(*                   "susp" one did not (documented: counting suspended,   *)
(*                          the three values are 0 until reset)            *)
(*                   "free" documentation silent for some contribution     *)
(*   q, p            "ok" | "free" for request / reply lengths             *)
(*   run             "idle" | "run" (started while enabled) | "off"        *)
(*                   (started while disabled);  t0 start tick              *)
(*   wild            an undocumented sequence happened (operation          *)
(*                   straddling enable/disable, stop without start, two    *)
(*                   starts): nothing is demanded for the name until a     *)
(*                   successful reset                                      *)
(***************************************************************************)
Ref0 == [n |-> 0, x |-> 0, ts |-> 0, tlo |-> INF, thi |-> 0,
         sv |-> "all", ss |-> 0, slo |-> INF, shi |-> 0,
         q |-> "ok", qs |-> 0, qlo |-> INF, qhi |-> 0,
         p |-> "ok", ps |-> 0, plo |-> INF, phi |-> 0,
         run |-> "idle", t0 |-> 0, wild |-> FALSE]

Measure(r, dur, srv, ql, pl, exc) ==
  LET sv2 == IF r.sv = "free" \/ srv = FREE THEN "free"
             ELSE IF r.sv = "susp" \/ srv = NONE THEN "susp" ELSE "all"
      q2 == IF r.q = "free" \/ ql = FREE THEN "free" ELSE "ok"
      p2 == IF r.p = "free" \/ pl = FREE THEN "free" ELSE "ok" IN
  [r EXCEPT !.n = @ + 1, !.x = @ + (IF exc THEN 1 ELSE 0),
            !.ts = @ + dur, !.tlo = LoMin(@, dur), !.thi = Max2(@, dur),
            !.sv = sv2,
            !.ss = IF sv2 = "all" THEN @ + srv ELSE 0,
            !.slo = IF sv2 = "all" THEN LoMin(@, srv) ELSE INF,
            !.shi = IF sv2 = "all" THEN Max2(@, srv) ELSE 0,
            !.q = q2,
            !.qs = IF q2 = "ok" THEN @ + ql ELSE 0,
            !.qlo = IF q2 = "ok" THEN LoMin(@, ql) ELSE INF,
            !.qhi = IF q2 = "ok" THEN Max2(@, ql) ELSE 0,
            !.p = p2,
            !.ps = IF p2 = "ok" THEN @ + pl ELSE 0,
            !.plo = IF p2 = "ok" THEN LoMin(@, pl) ELSE INF,
            !.phi = IF p2 = "ok" THEN Max2(@, pl) ELSE 0,
            !.run = "idle"]

LenIn(v) == IF v = NONE THEN FREE ELSE v   \* stop_timer(request_len=None): silent

(* an observed row [name, n, x, at, tlo, thi, asv, slo, shi, aq, qlo, qhi,
   ap, plo, phi] against the reference of its name *)
RowFails(r, row) ==
  IF r.wild THEN {}
  ELSE F("Stat.Count", row.n = r.n)
       \cup F("Stat.ExceptionCount", row.x = r.x)
       \cup (IF r.n = 0 \/ row.n # r.n THEN {}
             ELSE F("Stat.Time", RatEq(row.at, r.ts, r.n) /\ row.tlo = r.tlo
                                 /\ row.thi = r.thi)
                  \cup (IF r.sv = "all"
                        THEN F("Stat.ServerTime",
                               RatEq(row.asv, r.ss, r.n) /\ row.slo = r.slo
                               /\ row.shi = r.shi)
                        ELSE IF r.sv = "susp"
                        THEN F("Stat.ServerTimeSuspendedIsZero",
                               row.asv[1] = 0 /\ row.slo = 0 /\ row.shi = 0)
                        ELSE {})
                  \cup (IF r.q = "ok"
                        THEN F("Stat.RequestLen",
                               RatEq(row.aq, r.qs, r.n) /\ row.qlo = r.qlo
                               /\ row.qhi = r.qhi)
                        ELSE {})
                  \cup (IF r.p = "ok"
                        THEN F("Stat.ReplyLen",
                               RatEq(row.ap, r.ps, r.n) /\ row.plo = r.plo
                               /\ row.phi = r.phi)
                        ELSE {}))

(* a whole statistics table (sequence of rows, from Statistics.snapshot()) *)
TabFails(ref, tab) ==
  LET names == {tab[i].name : i \in DOMAIN tab} IN
  F("Stat.Snapshot", Cardinality(names) = Len(tab))
  \cup UNION {RowFails(Get(ref, tab[i].name, Ref0), tab[i]) : i \in DOMAIN tab}
  \cup UNION {F("Stat.Count", k \in names) :
                k \in {k2 \in DOMAIN ref : ref[k2].n > 0 /\ ~ref[k2].wild}}

EmptyTab(tab) == \A i \in DOMAIN tab : tab[i].n = 0 /\ tab[i].x = 0

(***************************************************************************)
(* Part S: a Statistics object driven directly.                            *)
(* s.st = [en, now, ref, snaps]                                            *)
(* event [k = "s", ev, adv, name, rl, pl, sv, exc, ret, raised, id, tab,   *)
(*        stab]; the clock is advanced by adv before the call.             *)
(***************************************************************************)
St0(en) == [en |-> en, now |-> 0, ref |-> << >>, snaps |-> << >>]

StartRow(r, en, now) ==
  IF en THEN IF r.run = "idle" THEN [r EXCEPT !.run = "run", !.t0 = now]
             ELSE [r EXCEPT !.wild = TRUE, !.run = "run", !.t0 = now]
  ELSE IF r.run = "idle" THEN [r EXCEPT !.run = "off"]
       ELSE [r EXCEPT !.wild = TRUE]

StopRow(r, en, now, e) ==
  IF en THEN IF r.run = "run"
             THEN Measure(r, now - r.t0, e.sv, LenIn(e.rl), LenIn(e.pl), e.exc)
             ELSE [r EXCEPT !.wild = TRUE, !.run = "idle"]
  ELSE IF r.run = "run" THEN [r EXCEPT !.wild = TRUE]   \* straddles a disable
       ELSE [r EXCEPT !.run = "idle"]

AnyRun(ref) == \E k \in DOMAIN ref : ref[k].run = "run" /\ ~ref[k].wild
AnyWild(ref) == \E k \in DOMAIN ref : ref[k].wild

SApply(st, e) ==
  LET now2 == st.now + e.adv
      r == Get(st.ref, e.name, Ref0)
      st1 == [st EXCEPT !.now = now2] IN
  CASE e.ev = "start" -> [st1 EXCEPT !.ref = Put(@, e.name, StartRow(r, st.en, now2))]
    [] e.ev = "stop" -> [st1 EXCEPT !.ref = Put(@, e.name, StopRow(r, st.en, now2, e))]
    [] e.ev = "enable" -> [st1 EXCEPT !.en = TRUE]
    [] e.ev = "disable" -> [st1 EXCEPT !.en = FALSE]
    [] e.ev = "reset" -> IF e.ret = 1 THEN [st1 EXCEPT !.ref = << >>] ELSE st1
    [] e.ev = "snap" -> [st1 EXCEPT !.snaps = Put(@, e.id, e.tab)]
    [] OTHER -> st1

SFails(st, e) ==
  LET now2 == st.now + e.adv
      r == Get(st.ref, e.name, Ref0) IN
  TabFails(SApply(st, e).ref, e.tab)
  \cup
  (CASE e.ev = "start" -> F("Stat.StartStopTotal", e.raised = "")
     [] e.ev = "stop" ->
          IF st.en
          THEN IF r.run = "run" /\ ~r.wild
               THEN F("Stat.StopReturnsElapsed",
                      e.raised = "" /\ e.ret = now2 - r.t0)
               ELSE {}                      \* undocumented sequence
          ELSE F("Stat.DisabledReturnsNone", e.raised = "" /\ e.ret = NONE)
     [] e.ev = "reset" ->
          F("Stat.Reset",
            /\ e.raised = "" /\ e.ret \in {0, 1}
            /\ (AnyRun(st.ref) => e.ret = 0)
            /\ (~AnyRun(st.ref) /\ ~AnyWild(st.ref) => e.ret = 1))
     [] e.ev = "chk" ->
          F("Stat.SnapshotUnchanged",
            e.id \in DOMAIN st.snaps /\ Rng(e.stab) = Rng(st.snaps[e.id]))
     [] OTHER -> F("Stat.StartStopTotal", e.raised = ""))

(***************************************************************************)
(* Part C: connections.                                                    *)
(* s.conns[c] = [open, debug, en, ref, lastsent, recs, obs]                *)
(*   recs  sequence of [cls, en]                                           *)
(*   obs   last_* values observed after the last operation                 *)
(***************************************************************************)
Obs0 == [rawreq |-> 0, rawrep |-> 0, qlen |-> 0, plen |-> 0, preq |-> 0,
         prep |-> 0, optime |-> NONE, srvt |-> NONE]
ObsOf(e) == [rawreq |-> e.rawreq, rawrep |-> e.rawrep, qlen |-> e.qlen,
             plen |-> e.plen, preq |-> e.preq, prep |-> e.prep,
             optime |-> e.optime, srvt |-> e.srvt]
Conn0(en) == [open |-> TRUE, debug |-> FALSE, en |-> en, ref |-> << >>,
              lastsent |-> 0, recs |-> << >>, obs |-> Obs0]

InitState == [mode |-> "none", st |-> St0(FALSE), conns |-> << >>,
              created |-> 0]

Is200(resp) == resp \in {"ok", "cimerr", "xmlerr", "cimxmlerr"}
ExcFor(resp) ==
  CASE resp = "cimerr" -> {"CIMError"}
    [] resp = "xmlerr" -> {"XMLParseError"}
    [] resp = "cimxmlerr" -> {"CIMXMLParseError"}
    [] resp = "http500" -> {"HTTPError"}
    [] resp = "connerr" -> {"ConnectionError"}
    [] resp = "badarg" -> {"TypeError", "ValueError"}
    [] OTHER -> {}

SrvIn(e) == IF ~e.sent THEN FREE
            ELSE IF Is200(e.resp) THEN e.srvh
            ELSE IF e.resp = "connerr" THEN NONE
            ELSE IF e.srvh = NONE THEN NONE ELSE FREE
QIn(e) == IF e.sent /\ e.qlen >= 0 THEN e.qlen ELSE FREE
PIn(e) == IF e.sent /\ Is200(e.resp) /\ e.plen >= 0 THEN e.plen ELSE FREE

OpRef(cn, e) ==
  IF ~cn.en THEN cn.ref
  ELSE LET r == Get(cn.ref, e.name, Ref0) IN
       Put(cn.ref, e.name,
           IF ~cn.open THEN [r EXCEPT !.wild = TRUE]   \* counted or not: silent
           ELSE Measure(r, e.dur, SrvIn(e), QIn(e), PIn(e), e.out = "exc"))

RecsOf(q) == [i \in DOMAIN q |-> [cls |-> q[i].cls, en |-> q[i].en]]

OpFails(s, e) ==
  LET cn == s.conns[e.c]
      closed == ~cn.open
      eversent == cn.lastsent # 0 IN
  (IF closed
   THEN F("Life.OpAfterCloseRaises", e.out = "exc" /\ ~e.sent)
   ELSE F("Life.OutcomeMatchesResponse",
          /\ IF e.resp = "ok" THEN e.out = "ret"
             ELSE e.out = "exc" /\ e.exc \in ExcFor(e.resp)
          /\ e.sent = (s.mode = "http" /\ e.resp # "badarg")))
  \cup F("Last.RawRequest",
         e.rawreq = IF e.sent THEN e.rid ELSE cn.lastsent)
  \cup F("Last.RawReply",
         IF e.sent
         THEN IF Is200(e.resp) THEN e.rawrep = e.rid
              ELSE IF e.resp = "connerr" THEN e.rawrep = 0
              ELSE e.rawrep \in {0, e.rid}
         ELSE e.rawrep >= 0)
  \cup F("Last.RequestLen",
         IF e.sent THEN e.qlen \in {e.wq, e.wqn}
         ELSE IF eversent THEN e.qlen >= 0 ELSE e.qlen = 0)
  \cup F("Last.ReplyLen",
         IF e.sent
         THEN IF Is200(e.resp) THEN e.plen = e.wp
              ELSE IF e.resp = "connerr" THEN e.plen = 0
              ELSE e.plen \in {0, e.wp}
         ELSE IF eversent THEN e.plen >= 0 ELSE e.plen = 0)
  \cup F("Last.PrettyOnlyWithDebug", cn.debug \/ (e.preq = 0 /\ e.prep = 0))
  \cup F("Last.PrettyRequest",
         ~cn.debug \/ (IF e.sent THEN e.preq = e.rid ELSE e.preq >= 0))
  \cup F("Last.PrettyReply",
         ~cn.debug \/
         (IF e.sent
          THEN IF e.resp \in {"ok", "cimerr"} THEN e.prep = e.rid
               ELSE IF e.resp \in {"xmlerr", "connerr"} THEN e.prep = 0
               ELSE e.prep \in {0, e.rid}
          ELSE e.prep >= 0))
  \cup F("Last.OperationTime",
         IF cn.en
         THEN IF e.sent THEN e.optime = e.dur ELSE e.optime \in {e.dur, NONE}
         ELSE e.optime = NONE)
  \cup F("Last.ServerResponseTime",
         IF e.sent
         THEN IF Is200(e.resp) THEN e.srvt = e.srvh
              ELSE IF e.resp = "connerr" THEN e.srvt = NONE
              ELSE e.srvt \in {NONE, e.srvh}
         ELSE e.srvt # BADV)
  \cup TabFails(OpRef(cn, e), e.tab)
  \cup F("Rec.ListStable", RecsOf(e.recs) = cn.recs)
  \cup F("Rec.EnabledRecordersRecord",
         \A i \in DOMAIN e.recs :
            IF e.recs[i].en THEN closed \/ e.recs[i].cnt >= 1
            ELSE e.recs[i].cnt = 0)
  \cup F("Copy.MockSharesRepository",
         ~(s.mode = "mock" /\ e.name = "EnumerateInstanceNames" /\ e.out = "ret")
         \/ e.nkeys = s.created)

OpApply(s, e) ==
  LET cn == s.conns[e.c] IN
  [s EXCEPT !.conns[e.c] =
              [cn EXCEPT !.ref = OpRef(cn, e),
                         !.lastsent = IF e.sent THEN e.rid ELSE @,
                         !.obs = ObsOf(e)],
            !.created = IF s.mode = "mock" /\ e.name = "CreateInstance"
                           /\ e.out = "ret" THEN @ + 1 ELSE @]

PeekFails(s, e) ==
  LET cn == s.conns[e.c] IN
  IF e.raised # "" THEN F("Last.StableBetweenOperations", ~cn.open)
  ELSE F("Last.StableBetweenOperations",
         /\ e.rawreq = cn.obs.rawreq /\ e.rawrep = cn.obs.rawrep
         /\ e.qlen = cn.obs.qlen /\ e.plen = cn.obs.plen
         /\ e.optime = cn.obs.optime /\ e.srvt = cn.obs.srvt
         /\ (e.preq = cn.obs.preq \/ (~cn.debug /\ e.preq = 0))
         /\ (e.prep = cn.obs.prep \/ (~cn.debug /\ e.prep = 0)))
       \cup TabFails(cn.ref, e.tab)
       \cup F("Rec.ListStable", RecsOf(e.recs) = cn.recs)
       \cup F("Rec.EnabledProperty",
              e.ren = (\E i \in DOMAIN cn.recs : cn.recs[i].en))

CloseFails(s, e) ==
  LET cn == s.conns[e.c] IN
  IF cn.open THEN F("Life.CloseOpen", e.out = "ret")
  ELSE F("Life.CloseTwiceRaises", e.out = "exc" /\ e.exc = "ConnectionError")

WithFails(s, e) ==
  LET cn == s.conns[e.c]
      okout == IF e.body = "pass"
               THEN IF cn.open THEN e.out = "ret"
                    ELSE e.out = "ret" \/ e.exc = "ConnectionError"
               ELSE IF e.body = "raise"
               THEN e.out = "exc" /\
                    (IF cn.open THEN e.exc = "KeyError"
                     ELSE e.exc \in {"KeyError", "ConnectionError"})
               ELSE        \* the body closes the connection itself
                    e.out = "ret" \/ e.exc = "ConnectionError" IN
  F("Life.ContextManager", e.self /\ okout)

CopyFails(s, e) ==
  LET cn == s.conns[e.c] IN
  F("Copy.DistinctOpenConnection",
    e.distinct /\ e.cpopen /\ e.d = Len(s.conns) + 1)
  \cup F("Copy.StateReset", e.fresh /\ EmptyTab(e.tab))
  \cup F("Copy.UserAttributes", e.attrs_eq /\ e.cpstats = cn.en)
  \cup F("Copy.Recorders",
         s.mode # "http" \/
         (/\ e.recdistinct
          /\ [i \in DOMAIN e.cprecs |-> e.cprecs[i].cls]
               = [i \in DOMAIN cn.recs |-> cn.recs[i].cls]))

CopyApply(s, e) ==
  [s EXCEPT !.conns = Append(@,
      [Conn0(e.cpstats) EXCEPT !.debug = e.cpdebug,
                               !.recs = RecsOf(e.cprecs)])]

HasCls(recs, cls) == \E i \in DOMAIN recs : recs[i].cls = cls

AddRecFails(s, e) ==
  LET cn == s.conns[e.c] IN
  IF e.cls = "none"
  THEN F("Rec.AddNone", e.out = "exc" /\ e.exc = "ValueError"
                        /\ RecsOf(e.recs) = cn.recs)
  ELSE IF HasCls(cn.recs, e.cls)
  THEN F("Rec.AddDuplicate",
         (e.out = "ret" \/ e.exc = "ValueError") /\ RecsOf(e.recs) = cn.recs)
  ELSE F("Rec.AddAppends",
         /\ e.out = "ret" /\ Len(e.recs) = Len(cn.recs) + 1
         /\ SubSeq(RecsOf(e.recs), 1, Len(cn.recs)) = cn.recs
         /\ e.recs[Len(e.recs)].cls = e.cls)
       \cup F("Rec.EnabledAfterAdd",
              e.predis \/ Len(e.recs) = 0 \/ e.recs[Len(e.recs)].en)

SetRecs(recs, cls, all, v) ==
  [i \in DOMAIN recs |-> IF all \/ recs[i].cls = cls
                         THEN [recs[i] EXCEPT !.en = v] ELSE recs[i]]

RecEnFails(s, e) ==
  LET cn == s.conns[e.c]
      nr == SetRecs(cn.recs, e.cls, e.ev = "recall", e.v) IN
  F("Rec.EnableDisable", RecsOf(e.recs) = nr)
  \cup F("Rec.EnabledProperty", e.ren = (\E i \in DOMAIN nr : nr[i].en))

CFails(s, e) ==
  CASE e.ev = "op" -> OpFails(s, e)
    [] e.ev = "peek" -> PeekFails(s, e)
    [] e.ev = "close" -> CloseFails(s, e)
    [] e.ev = "with" -> WithFails(s, e)
    [] e.ev = "copy" -> CopyFails(s, e)
    [] e.ev = "addrec" -> AddRecFails(s, e)
    [] e.ev \in {"recen", "recall"} -> RecEnFails(s, e)
    [] OTHER -> {}

CApply(s, e) ==
  CASE e.ev = "op" -> OpApply(s, e)
    [] e.ev \in {"close", "with"} -> [s EXCEPT !.conns[e.c].open = FALSE]
    [] e.ev = "copy" -> CopyApply(s, e)
    [] e.ev = "setdebug" -> [s EXCEPT !.conns[e.c].debug = e.v]
    [] e.ev = "setstats" -> [s EXCEPT !.conns[e.c].en = e.v]
    [] e.ev \in {"addrec", "recen", "recall"} ->
         [s EXCEPT !.conns[e.c].recs = RecsOf(e.recs)]
    [] OTHER -> s

(***************************************************************************)
(* The machine.  First event of a trace: [k = "new", mode, en, fresh, tab] *)
(***************************************************************************)
Waived(e) == Rng(e.waive)

Fails(s, e) ==
  (CASE e.k = "new" ->
          IF e.mode = "stats" THEN TabFails(<< >>, e.tab)
          ELSE F("Copy.StateReset", e.fresh /\ EmptyTab(e.tab))
     [] e.k = "s" -> SFails(s.st, e)
     [] e.k = "c" -> CFails(s, e)
     [] OTHER -> {"UnknownEvent"}) \ Waived(e)

Apply(s, e) ==
  CASE e.k = "new" ->
         [mode |-> e.mode, st |-> St0(e.en),
          conns |-> IF e.mode = "stats" THEN << >> ELSE <<Conn0(e.en)>>,
          created |-> 0]
    [] e.k = "s" -> [s EXCEPT !.st = SApply(s.st, e)]
    [] e.k = "c" -> CApply(s, e)
    [] OTHER -> s

WellFormed(s) ==
  /\ \A k \in DOMAIN s.st.ref : s.st.ref[k].n >= s.st.ref[k].x
  /\ \A c \in DOMAIN s.conns :
        \A k \in DOMAIN s.conns[c].ref :
           s.conns[c].ref[k].n >= s.conns[c].ref[k].x
=============================================================================
