----------------------------- MODULE XmlTextMC -----------------------------
(***************************************************************************)
(* Model check of the text level of C01: for ALL strings over `Alphabet`   *)
(* up to MaxLen symbols, both escaping modes and every nesting depth in    *)
(* Depths (one TLA+ step appends one symbol, so TLC walks the whole tree   *)
(* of strings):                                                            *)
(*                                                                         *)
(*   RoundTrip      reading what Enc wrote gives the string back           *)
(*                  (depth 0: XmlRead(Enc(s)) = s; depth d: the string is  *)
(*                  the character data of an object embedded d levels      *)
(*                  deep, escaped once per level)                          *)
(*   AttrRoundTrip  a CIM name written as an attribute value at every      *)
(*                  level reads back unchanged.  Premise: the string is    *)
(*                  name-like (no TAB/LF/CR) unless the writer escapes     *)
(*                  them (V.attrEsc)                                       *)
(*   WriterTotal    the CDATA writer never meets `]]>` inside one section  *)
(*                  (minidom would raise ValueError)                       *)
(*   Stable         encoding what was read back gives the same text        *)
(*                  (second round: byte-identical XML)                     *)
(*                                                                         *)
(* XmlTextMCFixed.cfg  V = CrFixed (CR written as &#13;): must pass.       *)
(* XmlTextMCAsIs.cfg   V = AsIs (the pinned tree): RoundTrip must FAIL     *)
(*                     (design-level counterexample: a string with a CR).  *)
(* XmlTextMCNoCr.cfg   V = AsIs without "cr" in the alphabet: must pass    *)
(*                     (CR is the only class the code as it is loses).     *)
(* XmlTextMCAttrAll.cfg  V = AsIs, AttrRoundTrip demanded for ALL strings: *)
(*                     must FAIL (TAB/LF/CR in a name become blanks).      *)
(***************************************************************************)
EXTENDS XmlText

CONSTANTS Alphabet, MaxLen, Depths, Modes, V, AttrAll

VARIABLES s, mode, depth
vars == <<s, mode, depth>>

Init == s = <<>> /\ mode \in Modes /\ depth \in Depths
Next == /\ Len(s) < MaxLen
        /\ \E c \in Alphabet : s' = Append(s, c)
        /\ UNCHANGED <<mode, depth>>
Spec == Init /\ [][Next]_vars

NameLike(x) == ~Has(x, {"tab", "lf", "cr"})
AttrIn == IF AttrAll \/ V.attrEsc \/ NameLike(s) THEN s ELSE <<>>

Written == NestEnc(s, AttrIn, depth, mode, V)
ReadBack == NestRead(Written, depth)

RoundTrip == ReadBack.ok /\ ReadBack.s = s
AttrRoundTrip == ReadBack.ok /\ \A k \in DOMAIN ReadBack.as : ReadBack.as[k] = AttrIn
WriterTotal == ~Has(Written, {"ERR"})
Stable == ReadBack.ok =>
            LET as2 == IF ReadBack.as = <<>> THEN <<>> ELSE ReadBack.as[1]
                w2 == NestEnc(ReadBack.s, as2, depth, mode, V)
                r2 == NestRead(w2, depth) IN
            r2.ok /\ r2.s = ReadBack.s /\ NestEnc(r2.s, as2, depth, mode, V) = w2

(* depth 0 attribute law on its own (the NAME="..." of a top-level element) *)
Attr0 == (AttrAll \/ V.attrEsc \/ NameLike(s)) =>
            LET r == AttrRead(EncAttr(s, V)) IN r.ok /\ r.s = s
=============================================================================
