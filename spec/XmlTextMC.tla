----------------------------- MODULE XmlTextMC -----------------------------
(***************************************************************************)
(* Model check of the text level of C01: for ALL strings over `Alphabet`   *)
(* up to MaxLen symbols, both escaping modes and every nesting depth in    *)
(* Depths (one TLA+ step appends one symbol, so TLC walks the whole tree   *)
(* of strings):                                                            *)
(*                                                                         *)
(*   RoundTrip      reading what Enc wrote gives the string back           *)
(*                  (depth 0: XmlRead(Enc(s)) = s; depth d: the string is  *)
(*                  the character data of an object embedded d levels      *)
(*                  deep, escaped once per level)                          *)
(*   AttrRoundTrip  a CIM name written as an attribute value at every      *)
(*                  level reads back unchanged.  Premise: the string is    *)
(*                  name-like (no TAB/LF/CR) unless the writer escapes     *)
(*                  them (V.attrEsc)                                       *)
(*   WriterTotal    the CDATA writer never meets `]]>` inside one section  *)
(*                  (minidom would raise ValueError)                       *)
(*   Stable         encoding what was read back gives the same text        *)
(*                  (second round: byte-identical XML)                     *)
(*                                                                         *)
(* XmlTextMCFixed.cfg  V = CrFixed (CR written as &#13;): must pass.       *)
(* XmlTextMCAsIs.cfg   V = AsIs (the pinned tree): RoundTrip must FAIL     *)
(*                     (design-level counterexample: a string with a CR).  *)
(* XmlTextMCNoCr.cfg   V = AsIs without "cr" in the alphabet: must pass    *)
(*                     (CR is the only class the code as it is loses).     *)
(* XmlTextMCAttrAll.cfg  V = AsIs, AttrRoundTrip demanded for ALL strings: *)
(*                     must FAIL (TAB/LF/CR in a name become blanks).      *)
(***************************************************************************)
EXTENDS XmlText

CONSTANTS Alphabet, MaxLen, Depths, Modes, V, AttrAll

VARIABLES s, mode, depth, obs
vars == <<s, mode, depth, obs>>

NameLike(x) == ~Has(x, {"tab", "lf", "cr"})
AttrOf(x) == IF AttrAll \/ V.attrEsc \/ NameLike(x) THEN x ELSE <<>>

(* everything the invariants look at, computed once per state *)
Obs(x, m, d) ==
  LET a  == AttrOf(x)
      w  == NestEnc(x, a, d, m, V)
      r  == NestRead(w, d)
      a2 == IF r.as = <<>> THEN <<>> ELSE r.as[1]
      w2 == IF r.ok THEN NestEnc(r.s, a2, d, m, V) ELSE <<>>
      r2 == IF r.ok THEN NestRead(w2, d) ELSE r
      at == AttrRead(EncAttr(x, V))
  IN [a |-> a, w |-> w, r |-> r, w2 |-> w2, r2 |-> r2, at |-> at]

Init == /\ s = <<>> /\ mode \in Modes /\ depth \in Depths
        /\ obs = Obs(<<>>, mode, depth)
Next == /\ Len(s) < MaxLen
        /\ \E c \in Alphabet : s' = Append(s, c)
        /\ UNCHANGED <<mode, depth>>
        /\ obs' = Obs(s', mode, depth)
Spec == Init /\ [][Next]_vars

RoundTrip == obs.r.ok /\ obs.r.s = s
AttrRoundTrip == obs.r.ok /\ \A k \in DOMAIN obs.r.as : obs.r.as[k] = obs.a
WriterTotal == ~Has(obs.w, {"ERR"})
Stable == obs.r.ok =>
            /\ obs.r2.ok /\ obs.r2.s = obs.r.s /\ obs.r2.as = obs.r.as
            /\ NestEnc(obs.r2.s, IF obs.r2.as = <<>> THEN <<>> ELSE obs.r2.as[1],
                       depth, mode, V) = obs.w2

(* enumeration of the abstract strings for the binding (XmlTextMCEmit*.cfg, *)
(* one worker): every visited string is printed once                       *)
Emit == PrintT(<<"VEC", s>>)

(* depth 0 attribute law on its own (the NAME="..." of a top-level element) *)
Attr0 == (AttrAll \/ V.attrEsc \/ NameLike(s)) => (obs.at.ok /\ obs.at.s = s)
=============================================================================
