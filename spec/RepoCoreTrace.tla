---------------------------- MODULE RepoCoreTrace ----------------------------
(* Trace validation for C10/C11 (instance operations) against RepoCore,     *)
(* with the code-shaped RepoCoreImpl followed in lock step (drift only).    *)
EXTENDS RepoCoreImplOps, Json, IOUtils

VARIABLES tid, l, verdict, ts, ti, drifted

ImplCmp(i, e) ==
  LET rs == ImplStep(i, e)
      r == rs[1] IN
  << F("ok", e.ok = r.ok)
     \cup F("code", (e.ok \/ r.ok) \/ e.code = r.code)
     \cup F("result", ~(e.ok /\ r.ok) \/ e.op \notin {"Get", "Enum", "EnumNames"}
                       \/ Rng(e.rinsts) = Rng(r.rinsts))
     \cup F("store", Rng(e.dump) = {Cur(x) : x \in rs[2]}),
     rs[2] >>

TraceBatch == JsonDeserialize(IOEnv.TRACE_FILE).traces

TK == INSTANCE TraceKit WITH
        TTraces <- TraceBatch,
        TInit0 <- InitState, TFails <- Fails, TApply <- Apply,
        TInv <- LAMBDA st : KeyUnique(st) /\ WellFormed(st),
        TImpl0 <- {}, TImplStep <- ImplCmp
TSpec == TK!TSpec
=============================================================================
