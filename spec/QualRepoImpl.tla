---------------------------- MODULE QualRepoImpl ----------------------------
(***************************************************************************)
(* X01 - code-shaped machine of the mock's qualifier-declaration           *)
(* repository (operators in QualRepoImplOps) run in lock step with the     *)
(* requirement machine QualRepo: one action per public API call, for EVERY *)
(* call of the bounded universe in EVERY reachable repository, each call   *)
(* with and without the client mutating the objects of that call           *)
(* afterwards.  TLC checks                                                 *)
(*   ImplRefinesReq   every response + repository after the call (+ after  *)
(*                    the client mutation) violates no clause of QualRepo  *)
(*   ReqWellFormed    names unique per namespace, rows only in live        *)
(*                    namespaces                                           *)
(*   MappingHolds     the code-shaped store equals the reference map       *)
(*   UsedDeclared     a qualifier used by a class of a namespace is        *)
(*                    declared there (design consequence of R3)            *)
(***************************************************************************)
EXTENDS QualRepoImplOps

CONSTANTS NsArgs,     \* namespace arguments of the qualifier operations (0=None)
          CompileNs,  \* namespace arguments of compile_mof_string (slow call)
          NsAdm,      \* namespaces given to add_namespace / remove_namespace
          QU,         \* qualifier name ids
          DU,         \* declaration content tokens
          ClsU,       \* class ids (environment)
          BadArgs,    \* subset of {"none", "badtype"}
          MaxItems,   \* longest add_cimobjects list (1 or 2)
          MaxCompile, \* longest compile_mof_string list (1 or 2)
          SameD,      \* TRUE: both entries of a 2-list carry the same content
          GenDepth    \* > 0: record the calls in `hist` (behaviour emission)

VARIABLES si, s, bad, hist
vars == <<si, s, bad, hist>>

Call(op, ns, q, d, arg, items, cls, uses) ==
  [op |-> op, ns |-> ns, q |-> q, d |-> d, arg |-> arg, items |-> items,
   cls |-> cls, uses |-> uses]

Item(q, d) == [q |-> q, d |-> d]
ItemLists(max) ==
  {<<Item(q, d)>> : q \in QU, d \in DU}
  \cup (IF max < 2 THEN {}
        ELSE {<<Item(p[1], dd[1]), Item(p[2], dd[2])>> :
                p \in {x \in QU \X QU : x[1] # x[2]},
                dd \in {y \in DU \X DU : ~SameD \/ y[1] = y[2]}})

Use(loc, q) == [loc |-> loc, q |-> q]
Q1 == CHOOSE q \in QU : \A p \in QU : q <= p
Q2 == CHOOSE q \in QU : \A p \in QU : q >= p
UseLists == {<<>>, <<Use("cls", Q1)>>, <<Use("par", Q2)>>,
             <<Use("prop", Q1), Use("meth", Q2)>>}

Calls ==
  {Call("Set", ns, q, d, "ok", <<>>, "", <<>>) : ns \in NsArgs, q \in QU, d \in DU}
  \cup {Call("Set", ns, 0, "", a, <<>>, "", <<>>) : ns \in NsArgs, a \in BadArgs}
  \cup {Call(op, ns, q, "", "ok", <<>>, "", <<>>) :
          op \in {"Get", "Delete"}, ns \in NsArgs, q \in QU}
  \cup {Call(op, ns, 0, "", a, <<>>, "", <<>>) :
          op \in {"Get", "Delete"}, ns \in NsArgs, a \in BadArgs}
  \cup {Call("Enum", ns, 0, "", "ok", <<>>, "", <<>>) : ns \in NsArgs}
  \cup {Call("AddObj", ns, 0, "", "ok", it, "", <<>>) :
          ns \in NsArgs, it \in ItemLists(MaxItems)}
  \cup {Call("AddObj", ns, 0, "", a, it, "", <<>>) :
          ns \in NsArgs, a \in BadArgs \cap {"badtype"},
          it \in ItemLists(1) \cup {<<>>}}
  \cup {Call("Compile", ns, 0, "", "ok", it, "", <<>>) :
          ns \in CompileNs, it \in ItemLists(MaxCompile)}
  \cup {Call(op, ns, 0, "", "ok", <<>>, "", <<>>) :
          op \in {"AddNs", "RemoveNs"}, ns \in NsAdm}
  \cup {Call("CreateClass", ns, 0, "", "ok", <<>>, c, u) :
          ns \in NsArgs, c \in ClsU, u \in UseLists}
  \cup {Call("DeleteClass", ns, 0, "", "ok", <<>>, c, <<>>) :
          ns \in NsArgs, c \in ClsU}

Event(c, r, st2, st3) ==
  [op |-> c.op, ns |-> c.ns, q |-> c.q, d |-> c.d, arg |-> c.arg,
   items |-> c.items, cls |-> c.cls, uses |-> c.uses,
   ok |-> r.ok, code |-> r.code, rq |-> r.rq, rd |-> r.rd, rlist |-> r.rlist,
   dump |-> DumpOf(st2), mdump |-> DumpOf(st3)]

Init == si = InitState /\ s = InitState /\ bad = {} /\ hist = <<>>

Do(c, mutate) ==
  LET rs == ImplStep(si, c)
      st3 == IF mutate THEN MutateAliased(rs[2], rs[3]) ELSE rs[2]
      e == Event(c, rs[1], rs[2], st3) IN
  /\ si' = st3
  /\ bad' = Fails(s, e)
  /\ s' = Apply(s, e)
  /\ hist' = IF GenDepth > 0 THEN Append(hist, c) ELSE hist

(* the run without client mutation differs only when the call left an alias *)
Next == \E c \in Calls, m \in BOOLEAN :
           (m \/ ImplStep(si, c)[3] # {}) /\ Do(c, m)
Spec == Init /\ [][Next]_vars

ImplRefinesReq == bad = {}
ReqWellFormed == KeyUnique(s) /\ WellFormed(s)
MappingHolds == si = s
UsedDeclared == UsedIsDeclared(s)
GenConstraint == GenDepth = 0 \/ Len(hist) <= GenDepth
=============================================================================
