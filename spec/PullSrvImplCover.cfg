SPECIFICATION Spec
CONSTANTS
  NObj = 3
  MaxId = 2
  Nss = {1}
  Maxes <- MaxesSmall
  Kinds = {1, 2}
  Toggles = TRUE
  DefaultMax = 2
  LegacyPullZero = FALSE
  LegacyTrimRaw = FALSE
  GenDepth = 0
  Srvs = {1}
  Ots <- OtsOne
  Coes <- CoesOne
  Flts <- FltsOne
  SharedContextTable = FALSE
  ExpireSessions = FALSE
  RandArgs = FALSE
  Cover = TRUE
INVARIANT ImplRefinesReq
INVARIANT MappingHolds
INVARIANT SessionHolds
CHECK_DEADLOCK FALSE
