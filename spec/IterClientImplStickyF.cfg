SPECIFICATION Spec
CONSTANTS
  Sticky = TRUE
  CloseInFinally = TRUE
  Fams = {1, 2}
  MaxN = 3
  ParamsFirst = FALSE
  TimeoutErr = "CIMError"
  Upo = "F"
INVARIANT ImplRefinesReq
INVARIANT FlagsConsistent
CHECK_DEADLOCK FALSE
