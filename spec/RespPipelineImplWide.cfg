SPECIFICATION Spec
CONSTANTS
  Leaks = {}
  Pinned = FALSE
  PairMode = "wide"
  Emit = FALSE
INVARIANT TypeOK
INVARIANT ImplRefinesReq
INVARIANT ClosedForm

CHECK_DEADLOCK FALSE
