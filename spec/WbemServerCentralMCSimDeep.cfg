\* world emission, scoping scenarios
SPECIFICATION Spec
CONSTANTS
  Variant = "code"
  PinnedAssert = TRUE
  EctpU <- EctpDeep
  RpU <- RpDeep
  A1U <- ADeepBoth
  A2U <- ADeepBoth
  MaxEdges = 8
  Modes1 <- OnlyUnsup
  ModesO <- OnlyImpl
  QuerySet = "scoping"
CHECK_DEADLOCK FALSE
