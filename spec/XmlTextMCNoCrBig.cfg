\* The pinned tree on strings without CR: every law holds (CR is the only
\* character class the encoder as it is cannot transport).
SPECIFICATION Spec
CONSTANTS
  Alphabet <- ClsNoCr
  MaxLen = 4
  Depths = {0, 1, 2, 3}
  Modes = {"entity", "cdata"}
  V <- AsIs
  AttrAll = FALSE
INVARIANT RoundTrip
INVARIANT AttrRoundTrip
INVARIANT Attr0
INVARIANT WriterTotal
INVARIANT Stable
CHECK_DEADLOCK FALSE
