\* Attribute values (CIM names) with TAB/LF/CR: the writer of Python <= 3.12
\* does not escape them, the reader normalises them to blanks.  Must be VIOLATED.
SPECIFICATION Spec
CONSTANTS
  Alphabet <- Cls
  MaxLen = 2
  Depths = {0}
  Modes = {"entity"}
  V <- AsIs
  AttrAll = TRUE
INVARIANT Attr0
CHECK_DEADLOCK FALSE
