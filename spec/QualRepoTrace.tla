---------------------------- MODULE QualRepoTrace ----------------------------
(* X01 - trace validation (code -> spec): every event recorded from the real *)
(* FakedWBEMConnection (TLC-generated call sequences replayed into the code  *)
(* and seeded random histories) is judged by the requirement machine         *)
(* QualRepo; verdicts are total (<<"V", tid, "ok"|"rej", ...>>).  The        *)
(* code-shaped machine (QualRepoImplOps with the switches of                 *)
(* QualRepoTrace.cfg = the documented behaviour) is followed in lock step:   *)
(* the first event where the real response differs from it is printed as     *)
(* drift (<<"D", ...>>), never a violation.                                  *)
EXTENDS QualRepoImplOps, Json, IOUtils

VARIABLES tid, l, verdict, ts, ti, drifted

ImplCmp(i, e) ==
  LET rs == ImplStep(i, e)
      r == rs[1]
      st3 == MutateAliased(rs[2], rs[3]) IN
  << F(e.op \o ".ok", e.ok = r.ok)
     \cup F(e.op \o ".code", (e.ok \/ r.ok) \/ e.code = r.code)
     \cup F(e.op \o ".result",
            ~(e.ok /\ r.ok) \/
            (/\ e.op = "Get" => (e.rq = r.rq /\ e.rd = r.rd)
             /\ e.op = "Enum" => Rng(e.rlist) = Rng(r.rlist)))
     \cup F(e.op \o ".store", SameAs(e.dump, rs[2]))
     \cup F(e.op \o ".store-after-mutation", SameAs(e.mdump, st3)),
     st3 >>

TraceBatch == JsonDeserialize(IOEnv.TRACE_FILE).traces

TK == INSTANCE TraceKit WITH
        TTraces <- TraceBatch,
        TInit0 <- InitState, TFails <- Fails, TApply <- Apply,
        TInv <- LAMBDA st : KeyUnique(st) /\ WellFormed(st),
        TImpl0 <- InitState, TImplStep <- ImplCmp
TSpec == TK!TSpec
=============================================================================
