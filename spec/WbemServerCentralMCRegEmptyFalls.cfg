\* "wide": 3 profiles x 4 resources, every association instance possible,
\* up to 3 instances, every server answer per profile; core query universe
SPECIFICATION Spec
CONSTANTS
  Variant = "emptyfalls"
  PinnedAssert = FALSE
  EctpU <- EctpWide
  RpU <- RpWide
  A1U <- AWide
  A2U <- AWide
  MaxEdges = 3
  Modes1 <- AllModes
  ModesO <- ImplUnsup
  QuerySet = "core"
INVARIANT ImplRefinesReq
INVARIANT ReqTotal
INVARIANT WorldWellFormed
CHECK_DEADLOCK FALSE
