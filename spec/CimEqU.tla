------------------------------- MODULE CimEqU -------------------------------
(***************************************************************************)
(* Bounded universe of abstract CIM objects for C05 (used by the model     *)
(* check CimEqMC and by the enumeration CimEqGen that feeds the binding).  *)
(*                                                                         *)
(* Names: 2 bases x 2 lexical variants; optional names also None; plus the *)
(* special-fold class: base n6 (2 variants) and base n6s, which differ     *)
(* under lower() but not under full case folding (FoldNames; one name or   *)
(* one bag key at a time).                                                 *)
(* Dictionary keys (keybindings, NocaseDict items) also include the        *)
(* UNNAMED key None (KbU).                                                 *)
(* Values include the EMPTY array (in array-typed objects) and None-valued *)
(* dictionary items (NULL keybinding), with same-length dictionaries that  *)
(* differ in a key.                                                        *)
(* Every other attribute ranges over None and two values (flags: None,     *)
(* True, False).  Per kind the universe contains all objects in which at   *)
(* most ONE block (names | scalar attributes | children) deviates from a   *)
(* base assignment by at most one attribute / one child edit, for two base *)
(* assignments; child groups have <= 2 children in both orders.            *)
(* Value tokens are concrete enough for the harness to build the object:   *)
(*   "none", "True", "False", "s:<text>", "i:<int>" for attributes;        *)
(*   "none", "int:1", "uint8:1", "float:1.0", "bool:True", "str:v1" ...    *)
(*   for scalar values (second component = numeric value or "").           *)
(***************************************************************************)
EXTENDS CimEq

CONSTANT Big     \* BOOLEAN: larger universe (thorough tier)

Nm(b, c) == [b |-> b, c |-> c]
En(key, n) == [key |-> key, n |-> n]
Mk(k, nm, at, ch) == [k |-> k, nm |-> nm, at |-> at, ch |-> ch]
Sc(tok, num) == Mk("S", <<>>, <<tok, num>>, <<>>)
None == Sc("none", "")
Li(els) == Mk("L", <<>>, <<>>, << [i \in 1..Len(els) |-> En(NoName, els[i])] >>)
One(n) == << En(NoName, n) >>        \* a single-valued ordered slot
Named(n) == En(n.nm[1], n)           \* dictionary entry keyed by the child's name

OwnNames == {Nm("n1", 0), Nm("n1", 1), Nm("n2", 0), Nm("n2", 1)}
OwnFew == IF Big THEN OwnNames ELSE {Nm("n1", 0), Nm("n1", 1)}
OptNames == {NoName, Nm("n1", 0), Nm("n1", 1), Nm("n2", 0)}
(* special-fold spellings: n6/0 ~ n6/1 differ in case only; n6s differs from
   both under lower() but not under full case folding *)
FoldNames == {Nm("n6", 0), Nm("n6", 1), Nm("n6s", 0)}

(* all tuples that differ from `base` in at most one position *)
Devs(base, doms) ==
  {base} \cup UNION { { [base EXCEPT ![j] = v] : v \in doms[j] }
                      : j \in 1..Len(base) }
DevsOf(bases, doms) == UNION { Devs(b, doms) : b \in bases }

Flag == {"none", "True", "False"}
Types == {"s:uint8", "s:string"}
Emb == {"none", "s:instance", "s:object"}
ASize == {"none", "i:5", "i:7"}

(* ---- scalar values ---- *)
U8a == Sc("uint8:1", "1")
U8b == Sc("uint8:2", "2")
UntypedVals == {Sc("int:1", "1"), U8a, Sc("float:1.0", "1"),
                Sc("bool:True", "1"), Sc("int:2", "2"), Sc("str:v1", ""),
                Sc("str:V1", ""), Sc("str:1", "")}
NumVals == {None, U8a, U8b, Li(<<U8a, U8b>>), Li(<<U8b, U8a>>), Li(<<U8a>>),
            Li(<<>>)}
StrVals == {None, Sc("str:v1", ""), Sc("str:V1", ""), Sc("str:v2", ""),
            Li(<<Sc("str:v1", "")>>), Li(<<>>)}
(* array values of an array-typed object: NULL, empty, one, two elements *)
ArrVals == {None, Li(<<>>), Li(<<U8a>>), Li(<<U8a, U8b>>)}

(* ---- CIMDateTime values: <<kind, instant (UTC), utc offset, precision, text>> *)
Dt(kind, inst, off, prec, text) == Mk("DateTime", <<>>, <<kind, inst, off, prec, text>>, <<>>)
(* Field boundaries.  A CIM datetime has fixed-width fields: yyyy = 0001..9999  *)
(* for a point in time, dddddddd = 00000000..99999999 for an interval.  The  *)
(* classes of a value by its leading field: lower bound (year 0001, 0 days), *)
(* fewer significant digits than the field is wide (year 0999 / 0100: the    *)
(* field is filled with leading zeros), first value of full width (1000),    *)
(* upper bound (9999, 99999999 days); at full precision and with asterisks.  *)
(* Every law (== , hash, copy.copy / deepcopy / pickle yield an equal        *)
(* object) ranges over them, stand-alone and as a value inside an object.    *)
dtY1 == Dt("ts", "0001-01-01T00:00:00.000000Z", "0", "none", "00010101000000.000000+000")
dtY999 == Dt("ts", "0999-12-31T23:59:59.999999Z", "0", "none", "09991231235959.999999+000")
dtY100o == Dt("ts", "0099-12-31T23:00:00.000000Z", "60", "none", "01000101000000.000000+060")
dtY999p == Dt("ts", "0999-12-31T23:00:00.000000Z", "0", "10", "0999123123****.******+000")
dtY1000 == Dt("ts", "1000-01-01T00:00:00.000000Z", "0", "none", "10000101000000.000000+000")
dtY9999 == Dt("ts", "9999-12-31T23:59:59.999999Z", "0", "none", "99991231235959.999999+000")
dtIvMax == Dt("iv", "8639999999999999999", "0", "none", "99999999235959.999999:000")
dtIv0 == Dt("iv", "0", "0", "none", "00000000000000.000000:000")
UDateTimeBoundary == {dtY1, dtY999, dtY100o, dtY999p, dtY1000, dtY9999, dtIvMax, dtIv0}
(* datetime values held by other objects (value slot, array, keybinding)   *)
(* (one per class that is not the ordinary one: lower bound, leading zeros, *)
(* upper bound of the interval field)                                      *)
DtVals == {dtY1, dtY999, dtIvMax}

(* ---- bag configurations from four children:                            *)
(*      c1, c1v (= c1 in another lexical case), c1m (one attribute         *)
(*      changed), c2 (other name)                                          *)
BagCfgs(c1, c1v, c1m, c2) ==
  { <<>>, <<c1>>, <<c1v>>, <<c1m>>, <<c2>>, <<c1, c2>>, <<c2, c1>>,
    <<c2, c1v>>, <<c1m, c2>>, <<c2, c1m>> }

(* ---- Qualifier ---- *)
QAt1 == <<"s:string", "none", "none", "none", "none", "none">>
QAt2 == <<"s:string", "True", "True", "False", "True", "False">>
QAtD == <<"s:datetime", "none", "none", "none", "none", "none">>
QDoms == <<Types, Flag, Flag, Flag, Flag, Flag>>
Qual(name, at, v) == Mk("Qualifier", <<name>>, at, <<One(v)>>)
UQualifier ==
  { Qual(n, at, Sc("str:v1", "")) : n \in OwnNames, at \in {QAt1, QAt2} }
  \cup { Qual(n, at, Sc("str:v1", "")) : n \in OwnFew,
                                         at \in DevsOf({QAt1, QAt2}, QDoms) }
  \cup { Qual(n, QAt2, v) : n \in OwnFew, v \in StrVals }
  \cup { Qual(n, QAt2, Sc("str:v1", "")) : n \in FoldNames }
  \cup { Qual(Nm("n1", 0), QAtD, v) : v \in DtVals }
q1 == Qual(Nm("n1", 0), QAt2, Sc("str:v1", ""))
q1v == Qual(Nm("n1", 1), QAt2, Sc("str:v1", ""))
q1m == Qual(Nm("n1", 0), [QAt2 EXCEPT ![4] = "True"], Sc("str:v1", ""))
q2 == Qual(Nm("n2", 0), QAt1, Sc("str:v2", ""))
qf(n) == Qual(n, QAt2, Sc("str:v1", ""))
QualCfgs == { [i \in 1..Len(s) |-> Named(s[i])] : s \in BagCfgs(q1, q1v, q1m, q2) }
            \cup { <<Named(qf(n))>> : n \in FoldNames }

(* ---- QualifierDeclaration ---- *)
DAt1 == <<"s:string", "False", "none", "none", "none", "none", "none">>
DAt2 == <<"s:string", "False", "i:5", "True", "False", "True", "False">>
DAtA == <<"s:string", "True", "none", "none", "none", "none", "none">>
DDoms == <<Types, Flag, ASize, Flag, Flag, Flag, Flag>>
TrueS == Sc("bool:True", "1")
Scope(b, c) == En(Nm(b, c), TrueS)
ScopeCfgs == { <<>>, <<Scope("n1", 0)>>, <<Scope("n1", 1)>>, <<Scope("n2", 0)>>,
               <<Scope("n1", 0), Scope("n2", 0)>>,
               <<Scope("n2", 0), Scope("n1", 1)>>,
               <<Scope("n6", 0)>>, <<Scope("n6s", 0)>> }
QDecl(name, at, v, sc) == Mk("QualifierDeclaration", <<name>>, at, <<One(v), sc>>)
UQualifierDeclaration ==
  { QDecl(n, at, None, <<>>) : n \in OwnNames, at \in {DAt1, DAt2} }
  \cup { QDecl(n, at, None, <<>>) : n \in OwnFew,
                                    at \in DevsOf({DAt1, DAt2}, DDoms) }
  \cup { QDecl(n, DAt1, v, <<>>) : n \in OwnFew, v \in StrVals }
  \cup { QDecl(Nm("n1", 0), DAtA, v, <<>>) : v \in StrVals }
  \cup { QDecl(n, DAt1, None, <<>>) : n \in FoldNames }
  \cup { QDecl(n, DAt2, None, sc) : n \in OwnFew, sc \in ScopeCfgs }

(* ---- InstanceName / ClassName ---- *)
IName(cn, host, ns, kb) == Mk("InstanceName", <<cn, host, ns>>, <<>>, <<kb>>)
CName(cn, host, ns) == Mk("ClassName", <<cn, host, ns>>, <<>>, <<>>)
Kb(b, c, v) == En(Nm(b, c), v)
KbU(v) == En(NoName, v)              \* item under the unnamed key (None)
KbCfgs ==
  { <<>> }
  \cup { <<Kb("n1", c, v)>> : c \in {0, 1}, v \in UntypedVals }
  \cup { <<Kb("n1", 0, Sc("int:1", "1")), Kb("n2", 0, v)>> :
           v \in {Sc("str:v1", ""), Sc("str:V1", "")} }
  \cup { <<Kb("n2", c, Sc("str:v1", "")), Kb("n1", c, v)>> :
           c \in {0, 1}, v \in {Sc("int:1", "1"), U8a, Sc("int:2", "2")} }
  \* items whose value is None (NULL keybinding); same length, other key
  \cup { <<Kb("n1", c, None)>> : c \in {0, 1} }
  \cup { <<Kb("n2", 0, v)>> : v \in {None, Sc("str:v1", "")} }
  \cup { <<Kb("n1", 0, None), Kb("n2", 0, U8a)>>,
         <<Kb("n2", 1, Sc("int:1", "1")), Kb("n1", 1, None)>>,
         <<Kb("n2", 0, U8a), Kb("n3", 0, None)>>,
         <<Kb("n1", 0, None), Kb("n3", 0, None)>> }
  \* datetime key values at the field boundaries
  \cup { <<Kb("n1", 0, v)>> : v \in DtVals }
  \* keys of the special-fold class
  \cup { <<Kb(n.b, n.c, Sc("int:1", "1"))>> : n \in FoldNames }
  \cup { <<Kb("n6s", 0, Sc("int:2", "2"))>> }
  \* the unnamed key (None): alone, beside a named key (both orders, other
  \* case), same value under a named key, NULL value
  \cup { <<KbU(v)>> : v \in {Sc("str:v1", ""), Sc("str:V1", ""), U8a,
                             Sc("int:1", "1"), None} }
  \cup { <<KbU(Sc("str:v1", "")), Kb("n1", 0, Sc("int:1", "1"))>>,
         <<Kb("n1", 1, Sc("int:1", "1")), KbU(Sc("str:v1", ""))>>,
         <<Kb("n1", 0, Sc("int:1", "1")), KbU(Sc("str:v2", ""))>>,
         <<Kb("n1", 0, Sc("str:v1", "")), Kb("n2", 0, Sc("int:1", "1"))>> }
NameTriples ==
  { <<cn, h, ns>> : cn \in OwnNames, h \in {NoName}, ns \in {NoName} }
  \cup { <<cn, h, ns>> : cn \in OwnFew, h \in OptNames, ns \in {NoName, Nm("n1", 0)} }
  \cup { <<cn, h, ns>> : cn \in OwnFew, h \in {NoName, Nm("n1", 0)}, ns \in OptNames }
  \cup { <<cn, NoName, NoName>> : cn \in FoldNames }
  \cup { <<Nm("n1", 0), h, NoName>> : h \in FoldNames }
  \cup { <<Nm("n1", 0), NoName, ns>> : ns \in FoldNames }
UClassName ==
  { CName(t[1], t[2], t[3]) : t \in NameTriples }
  \cup IF Big THEN { CName(cn, h, ns) : cn \in OwnNames, h \in OptNames, ns \in OptNames }
       ELSE {}
ipath1 == IName(Nm("n1", 0), NoName, Nm("n1", 0), <<Kb("n1", 0, Sc("int:1", "1"))>>)
ipath1v == IName(Nm("n1", 1), NoName, Nm("n1", 1), <<Kb("n1", 1, Sc("int:1", "1"))>>)
ipath1m == IName(Nm("n1", 0), NoName, Nm("n1", 0), <<Kb("n1", 0, Sc("int:2", "2"))>>)
ipath2 == IName(Nm("n2", 0), Nm("n1", 0), Nm("n1", 0), <<>>)
UInstanceName ==
  { IName(t[1], t[2], t[3], <<Kb("n1", 0, Sc("int:1", "1"))>>) : t \in NameTriples }
  \cup { IName(cn, NoName, Nm("n1", 0), kb) : cn \in OwnFew, kb \in KbCfgs }
  \cup { IName(Nm("n1", 0), NoName, NoName, <<Kb("n1", c, r)>>) :
           c \in {0, 1}, r \in {ipath1, ipath1v, ipath1m, ipath2} }
  \* unnamed reference keybinding (VALUE.REFERENCE without KEYBINDING)
  \cup { IName(Nm("n1", 0), NoName, NoName, <<KbU(r)>>) :
           r \in {ipath1, ipath1v, ipath1m} }

(* ---- Property / Parameter ---- *)
PAt1 == <<"s:uint8", "none", "False", "none", "none">>
PAt2 == <<"s:string", "s:instance", "False", "i:5", "True">>
PAtE == <<"s:string", "s:instance", "False", "none", "none">>
PAtR == <<"s:reference", "none", "False", "none", "none">>
PAtA == <<"s:uint8", "none", "True", "none", "none">>
PAtD == <<"s:datetime", "none", "False", "none", "none">>
PAtDA == <<"s:datetime", "none", "True", "none", "none">>
PDoms == <<Types, Emb, Flag, ASize, Flag>>
Prop(name, rc, co, at, v, qs) == Mk("Property", <<name, rc, co>>, at, <<One(v), qs>>)
PropNames ==
  { <<n, NoName, NoName>> : n \in OwnNames }
  \cup { <<n, rc, NoName>> : n \in OwnFew, rc \in OptNames }
  \cup { <<n, Nm("n1", 0), co>> : n \in OwnFew, co \in OptNames }
FoldPropNames ==
  { <<n, NoName, NoName>> : n \in FoldNames }
  \cup { <<Nm("n1", 0), rc, NoName>> : rc \in FoldNames }
  \cup { <<Nm("n1", 0), Nm("n1", 0), co>> : co \in FoldNames }
emb1 == Mk("Instance", <<Nm("n1", 0)>>, <<>>, << <<>>, <<>>, <<>> >>)
emb1v == Mk("Instance", <<Nm("n1", 1)>>, <<>>, << <<>>, <<>>, <<>> >>)
emb2 == Mk("Instance", <<Nm("n2", 0)>>, <<>>, << <<>>, <<>>, <<>> >>)
embc == Mk("Class", <<Nm("n1", 0), NoName>>, <<>>, << <<>>, <<>>, <<>>, <<>> >>)
EmbVals == {None, emb1, emb1v, emb2, embc, Li(<<emb1, emb2>>), Li(<<emb2, emb1v>>),
            Sc("str:v1", "")}
RefVals == {None, ipath1, ipath1v, ipath1m, ipath2,
            CName(Nm("n1", 0), NoName, Nm("n1", 0))}
UProperty ==
  { Prop(t[1], t[2], t[3], at, None, <<>>) : t \in PropNames, at \in {PAt1, PAt2} }
  \cup { Prop(n, NoName, NoName, at, None, <<>>) :
           n \in OwnFew, at \in DevsOf({PAt1, PAt2}, PDoms) }
  \cup { Prop(n, NoName, NoName, PAt1, v, <<>>) : n \in OwnFew, v \in NumVals }
  \cup { Prop(Nm("n1", 0), NoName, NoName, PAtA, v, <<>>) : v \in ArrVals }
  \cup { Prop(t[1], t[2], t[3], PAt1, None, <<>>) : t \in FoldPropNames }
  \cup { Prop(Nm("n1", 0), NoName, NoName, PAtE, v, <<>>) : v \in EmbVals }
  \cup { Prop(Nm("n1", 0), NoName, NoName, PAtD, v, <<>>) : v \in DtVals }
  \cup { Prop(Nm("n1", 0), NoName, NoName, PAtDA, Li(<<v, dtY1000>>), <<>>) : v \in DtVals }
  \cup { Prop(Nm("n1", 0), Nm("n1", 0), NoName, PAtR, v, <<>>) : v \in RefVals }
  \cup { Prop(n, NoName, NoName, PAt1, U8a, qs) : n \in OwnFew, qs \in QualCfgs }
p1 == Prop(Nm("n1", 0), NoName, NoName, PAt1, U8a, <<>>)
p1v == Prop(Nm("n1", 1), NoName, NoName, PAt1, U8a, <<>>)
p1m == Prop(Nm("n1", 0), NoName, NoName, PAt1, U8b, <<>>)
p2 == Prop(Nm("n2", 0), NoName, Nm("n1", 0), PAt2, None, <<Named(q1)>>)
pf(n) == Prop(n, NoName, NoName, PAt1, U8a, <<>>)
PropCfgs == { [i \in 1..Len(s) |-> Named(s[i])] : s \in BagCfgs(p1, p1v, p1m, p2) }
            \cup { <<Named(pf(n))>> : n \in FoldNames }

RAt1 == <<"s:uint8", "none", "False", "none">>
RAt2 == <<"s:string", "s:object", "True", "i:7">>
RAtA == <<"s:uint8", "none", "True", "none">>
RAtD == <<"s:datetime", "none", "False", "none">>
RDoms == <<Types, Emb, Flag, ASize>>
Parm(name, rc, at, v, qs) == Mk("Parameter", <<name, rc>>, at, <<One(v), qs>>)
UParameter ==
  { Parm(n, rc, at, None, <<>>) : n \in OwnNames, rc \in {NoName}, at \in {RAt1, RAt2} }
  \cup { Parm(n, rc, RAt1, None, <<>>) : n \in OwnFew, rc \in OptNames }
  \cup { Parm(n, NoName, at, None, <<>>) :
           n \in OwnFew, at \in DevsOf({RAt1, RAt2}, RDoms) }
  \cup { Parm(n, NoName, RAt1, v, <<>>) : n \in OwnFew, v \in NumVals }
  \cup { Parm(Nm("n1", 0), NoName, RAtA, v, <<>>) : v \in ArrVals }
  \cup { Parm(Nm("n1", 0), NoName, RAtD, v, <<>>) : v \in DtVals }
  \cup { Parm(n, NoName, RAt1, None, <<>>) : n \in FoldNames }
  \cup { Parm(Nm("n1", 0), rc, RAt1, None, <<>>) : rc \in FoldNames }
  \cup { Parm(n, NoName, RAt2, None, qs) : n \in OwnFew, qs \in QualCfgs }
r1 == Parm(Nm("n1", 0), NoName, RAt1, None, <<>>)
r1v == Parm(Nm("n1", 1), NoName, RAt1, None, <<>>)
r1m == Parm(Nm("n1", 0), NoName, [RAt1 EXCEPT ![1] = "s:string"], None, <<>>)
r2 == Parm(Nm("n2", 0), Nm("n2", 0), RAt2, None, <<Named(q2)>>)
rf(n) == Parm(n, NoName, RAt1, None, <<>>)
ParmCfgs == { [i \in 1..Len(s) |-> Named(s[i])] : s \in BagCfgs(r1, r1v, r1m, r2) }
            \cup { <<Named(rf(n))>> : n \in FoldNames }

(* ---- Method ---- *)
MAt1 == <<"s:uint8", "none">>
MAt2 == <<"s:string", "True">>
MDoms == <<Types, Flag>>
Meth(name, co, at, ps, qs) == Mk("Method", <<name, co>>, at, <<ps, qs>>)
UMethod ==
  { Meth(n, co, at, <<>>, <<>>) : n \in OwnNames, co \in OptNames, at \in {MAt1, MAt2} }
  \cup { Meth(n, NoName, at, <<>>, <<>>) : n \in OwnFew, at \in DevsOf({MAt1, MAt2}, MDoms) }
  \cup { Meth(n, NoName, MAt1, ps, <<>>) : n \in OwnFew, ps \in ParmCfgs }
  \cup { Meth(n, NoName, MAt2, <<Named(r1)>>, qs) : n \in OwnFew, qs \in QualCfgs }
  \cup { Meth(n, NoName, MAt1, <<>>, <<>>) : n \in FoldNames }
  \cup { Meth(Nm("n1", 0), co, MAt1, <<>>, <<>>) : co \in FoldNames }
m1 == Meth(Nm("n1", 0), NoName, MAt1, <<Named(r1)>>, <<>>)
m1v == Meth(Nm("n1", 1), NoName, MAt1, <<Named(r1v)>>, <<>>)
m1m == Meth(Nm("n1", 0), NoName, MAt1, <<Named(r1m)>>, <<>>)
m2 == Meth(Nm("n2", 0), NoName, MAt2, <<>>, <<>>)
mf(n) == Meth(n, NoName, MAt1, <<>>, <<>>)
MethCfgs == { [i \in 1..Len(s) |-> Named(s[i])] : s \in BagCfgs(m1, m1v, m1m, m2) }
            \cup { <<Named(mf(n))>> : n \in FoldNames }

(* ---- Instance / Class ---- *)
Inst(cn, path, ps, qs) == Mk("Instance", <<cn>>, <<>>, <<path, ps, qs>>)
IPaths == { <<>>, One(ipath1), One(ipath1v), One(ipath1m), One(ipath2) }
UInstance ==
  { Inst(cn, p, <<>>, <<>>) : cn \in OwnNames, p \in IPaths }
  \cup { Inst(cn, <<>>, ps, <<>>) : cn \in OwnFew, ps \in PropCfgs }
  \cup { Inst(cn, One(ipath1), <<Named(p1)>>, qs) : cn \in OwnFew, qs \in QualCfgs }
  \cup { Inst(cn, <<>>, <<>>, <<>>) : cn \in FoldNames }
  \cup { Inst(Nm("n1", 0), One(IName(Nm("n1", 0), NoName, NoName, <<Kb("n1", 0, v)>>)),
               <<Named(Prop(Nm("n1", 0), NoName, NoName, PAtD, v, <<>>))>>, <<>>) :
           v \in DtVals }
cpath1 == CName(Nm("n1", 0), NoName, Nm("n1", 0))
cpath1v == CName(Nm("n1", 1), NoName, Nm("n1", 1))
cpath2 == CName(Nm("n1", 0), Nm("n2", 0), Nm("n1", 0))
CPaths == { <<>>, One(cpath1), One(cpath1v), One(cpath2) }
Cls(cn, sc, path, ps, ms, qs) == Mk("Class", <<cn, sc>>, <<>>, <<path, ps, ms, qs>>)
UClass ==
  { Cls(cn, sc, <<>>, <<>>, <<>>, <<>>) : cn \in OwnNames, sc \in OptNames }
  \cup { Cls(cn, NoName, p, <<>>, <<>>, <<>>) : cn \in OwnFew, p \in CPaths }
  \cup { Cls(cn, NoName, <<>>, ps, <<>>, <<>>) : cn \in OwnFew, ps \in PropCfgs }
  \cup { Cls(cn, Nm("n2", 0), <<>>, <<Named(p2)>>, ms, <<>>) : cn \in OwnFew, ms \in MethCfgs }
  \cup { Cls(cn, NoName, One(cpath1), <<>>, <<Named(m2)>>, qs) : cn \in OwnFew, qs \in QualCfgs }
  \cup { Cls(cn, NoName, <<>>, <<>>, <<>>, <<>>) : cn \in FoldNames }
  \cup { Cls(Nm("n1", 0), sc, <<>>, <<>>, <<>>, <<>>) : sc \in FoldNames }

(* ---- CIMDateTime: <<kind, instant (UTC), utc offset, precision, text>> ---- *)
UDateTime ==
  { Dt("ts", "2014-09-24T17:30:40.654321Z", "120", "none", "20140924193040.654321+120"),
    Dt("ts", "2014-09-24T17:30:40.654321Z", "60", "none", "20140924183040.654321+060"),
    Dt("ts", "2014-09-24T17:30:40.654321Z", "0", "none", "20140924173040.654321+000"),
    Dt("ts", "2014-09-24T17:30:40.654000Z", "120", "18", "20140924193040.654***+120"),
    Dt("ts", "2014-09-24T17:30:40.654000Z", "120", "none", "20140924193040.654000+120"),
    Dt("ts", "2014-09-24T17:30:41.654321Z", "120", "none", "20140924193041.654321+120"),
    Dt("ts", "2014-09-24T19:30:40.654321Z", "0", "none", "20140924193040.654321+000"),
    Dt("iv", "1040523000004", "0", "none", "00000012010203.000004:000"),
    Dt("iv", "1040523000000", "0", "15", "00000012010203.******:000"),
    Dt("iv", "1040523000000", "0", "none", "00000012010203.000000:000"),
    Dt("iv", "0", "0", "none", "00000000000000.000000:000") }
  \cup UDateTimeBoundary

(* ---- NocaseDict ---- *)
NDict(items) == Mk("NocaseDict", <<>>, <<>>, <<items>>)
UNocaseDict ==
  { NDict(kb) : kb \in KbCfgs }
  \cup { NDict(<<Kb("n1", c, v)>>) : c \in {0, 1}, v \in {None, q1, q1v, q1m} }
  \cup { NDict(<<Kb("n1", 0, None), Kb("n2", 0, q1)>>),
         NDict(<<Kb("n2", 1, q1v), Kb("n1", 1, None)>>) }
  \cup { NDict(<<KbU(v)>>) : v \in {ipath1, ipath1v, ipath1m} }

Kinds == {"InstanceName", "ClassName", "Instance", "Class", "Property",
          "Method", "Parameter", "Qualifier", "QualifierDeclaration",
          "DateTime", "NocaseDict"}

U(k) ==
  CASE k = "InstanceName" -> UInstanceName
    [] k = "ClassName" -> UClassName
    [] k = "Instance" -> UInstance
    [] k = "Class" -> UClass
    [] k = "Property" -> UProperty
    [] k = "Method" -> UMethod
    [] k = "Parameter" -> UParameter
    [] k = "Qualifier" -> UQualifier
    [] k = "QualifierDeclaration" -> UQualifierDeclaration
    [] k = "DateTime" -> UDateTime
    [] k = "NocaseDict" -> UNocaseDict

(***************************************************************************)
(* Transformations the statement declares irrelevant for ==.               *)
(***************************************************************************)
Flip(nm) == IF nm = NoName THEN nm ELSE [nm EXCEPT !.c = 1 - nm.c]
Rev(s) == [i \in 1..Len(s) |-> s[Len(s) + 1 - i]]

RECURSIVE FlipCase(_), RevBags(_)
FlipCase(n) ==
  [k |-> n.k, nm |-> [i \in 1..Len(n.nm) |-> Flip(n.nm[i])], at |-> n.at,
   ch |-> [g \in 1..Len(n.ch) |->
             [i \in 1..Len(n.ch[g]) |->
                En(Flip(n.ch[g][i].key), FlipCase(n.ch[g][i].n))]]]
RevBags(n) ==
  [k |-> n.k, nm |-> n.nm, at |-> n.at,
   ch |-> [g \in 1..Len(n.ch) |->
             LET s == [i \in 1..Len(n.ch[g]) |->
                         En(n.ch[g][i].key, RevBags(n.ch[g][i].n))] IN
             IF IsBag(n.k, g) THEN Rev(s) ELSE s]]

(* single-attribute mutants of an object: scalar attributes and own names *)
AtMutants(n, doms) ==
  UNION { { [n EXCEPT !.at[j] = v] : v \in doms[j] } : j \in 1..Len(n.at) }
  \ {n}
=============================================================================
