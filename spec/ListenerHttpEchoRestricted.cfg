\* regression configuration (must FAIL): the response writer refuses DEL / C1 controls of an echoed MESSAGE ID or method name: ValueError in the handler after the indication was queued
SPECIFICATION Spec
CONSTANTS
  MaxReq = 1
  Alphabet <- LexAlone
  San = TRUE
  ClChk = TRUE
  Threaded = TRUE
  FinalValid = FALSE
  QCap = 0
  Gating = FALSE
  QfRet = TRUE
  Echo = "restricted"
  PName = "exact"
  Deep = "caught"
  LexG = "full"
INVARIANT InvNoDroppedConnection
CHECK_DEADLOCK FALSE
