SPECIFICATION Spec
CONSTANTS
  TruncateBytesThenDecode = FALSE
  StopTimerNeedsFloat = TRUE
  RecorderConversionPartial = FALSE
  ResultBoundAfterValidationOnly = FALSE
INVARIANT NonInterference
INVARIANT ObserversTotal
INVARIANT StatsOnce
CHECK_DEADLOCK FALSE
