SPECIFICATION Spec
CONSTANTS
  TruncateBytesThenDecode = FALSE
  StopTimerNeedsFloat = TRUE
INVARIANT NonInterference
INVARIANT ObserversTotal
INVARIANT StatsOnce
CHECK_DEADLOCK FALSE
