-------------------------- MODULE WbemServerInfoMC --------------------------
(***************************************************************************)
(* X06 - the decision tables of WBEMServer: brand / version as a function  *)
(* of the CIM_ObjectManager instance(s), get_selected_profiles as a        *)
(* function of the advertised profiles and the three filters.  TLC checks  *)
(* for EVERY cell that the outcome of the code-shaped model                *)
(* (WbemServerImplOps) is admitted by the requirement (WbemServer), and    *)
(* prints the tables for the binding (one real call per cell).             *)
(***************************************************************************)
EXTENDS WbemServerImplOps, SequencesExt

VARIABLE x
Init == x = 0
Next == UNCHANGED x
Spec == Init /\ [][Next]_x

EnU == {"pegasus", "sfcb", "jwbem", "emc", "fujitsu", "other", "empty", "unset"}
DescU == {"ver", "verrel", "rel", "num", "text", "unset"}
OmU == [en : EnU, desc : DescU, ver : {"set", "unset"}]
OmSeqU == {<<om>> : om \in OmU} \cup {<<>>}
          \cup {<<o1, o2>> : o1 \in {[en |-> "other", desc |-> "ver", ver |-> "unset"]},
                             o2 \in {[en |-> "sfcb", desc |-> "text", ver |-> "unset"],
                                     [en |-> "unset", desc |-> "ver", ver |-> "unset"]}}

Io == <<Nm("i1", "a")>>
WorldOm(oms) == [interops |-> Io, nskind |-> "none", nscls |-> <<>>,
                 listed |-> <<>>, ns |-> <<>>, om |-> oms, profs |-> <<>>]
WorldPr(ps) == [interops |-> Io, nskind |-> "none", nscls |-> <<>>,
                listed |-> <<>>, ns |-> <<>>,
                om |-> <<[en |-> "other", desc |-> "ver", ver |-> "unset"]>>,
                profs |-> ps]

BrandEvent(oms, which) ==
  LET wd == WorldOm(oms) IN
  [op |-> which, res |-> ImplBrandOp(wd, Server0(wd), Client0, which)[1]]
BrandBad ==
  {c \in {[oms |-> oms,
           f |-> BrandFails(StateOfWorld(WorldOm(oms)), BrandEvent(oms, "brand"))
                 \cup VersionFails(StateOfWorld(WorldOm(oms)),
                                   BrandEvent(oms, "version"))] : oms \in OmSeqU} :
     c.f # {}}
BrandTable == IF BrandBad = {} THEN TRUE ELSE PrintT(<<"BRANDBAD", BrandBad>>) /\ FALSE

Pr(id, org, name, ver) == [id |-> id, org |-> org, name |-> name, ver |-> ver]
OrgU == {"dmtf", "snia", "other", "null", "unmapped"}
NameU == {"na", "nb", "null", "absent"}
VerU == {"v1", "v2", "null"}
Sane(ps) == ~(\E i, j \in DOMAIN ps : ps[i].org = "unmapped" /\ ps[j].name = "absent")
ProfSeqU ==
  {<<>>}
  \cup {<<Pr("q1", o, n, vv)>> : o \in OrgU, n \in NameU, vv \in VerU}
  \cup {ps \in {<<Pr("q1", o1, n1, "v1"), Pr("q2", o2, n2, v2)>> :
                  o1 \in OrgU, n1 \in NameU, o2 \in OrgU, n2 \in NameU,
                  v2 \in {"v1", "v2"}} : Sane(ps)}
FOrgU == {"", "dmtf", "snia", "nomatch"}
FNameU == {"", "na", "nb", "nomatch"}
FVerU == {"", "v1", "nomatch"}
SelectEvent(ps, o, n, vv) ==
  LET wd == WorldPr(ps)
      r == ImplSelect(wd, Server0(wd), Client0, o, n, vv)[1] IN
  [op |-> "select", org |-> o, name |-> n, ver |-> vv,
   res |-> [k |-> r.k, code |-> r.code, ids |-> SetToSeq(r.ids)]]
SelectBad ==
  {c \in {[ps |-> ps, q |-> <<o, n, vv>>,
           f |-> SelectFails(StateOfWorld(WorldPr(ps)), SelectEvent(ps, o, n, vv))] :
          ps \in ProfSeqU, o \in FOrgU, n \in FNameU, vv \in FVerU} : c.f # {}}
SelectTable == IF SelectBad = {} THEN TRUE ELSE PrintT(<<"SELECTBAD", SelectBad>>) /\ FALSE

ASSUME PrintT(<<"OMS", OmSeqU>>)
ASSUME PrintT(<<"PROFS", ProfSeqU>>)
ASSUME PrintT(<<"FILTERS", FOrgU \X FNameU \X FVerU>>)
=============================================================================
