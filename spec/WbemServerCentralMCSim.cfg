\* world emission for the binding (tlc -simulate; last state = world)
SPECIFICATION Spec
CONSTANTS
  Variant = "code"
  PinnedAssert = TRUE
  EctpU <- EctpWide5
  RpU <- RpWide
  A1U <- AWide5
  A2U <- AWide5
  MaxEdges = 7
  Modes1 <- AllModes
  ModesO <- AllModes
  QuerySet = "core"
CHECK_DEADLOCK FALSE
