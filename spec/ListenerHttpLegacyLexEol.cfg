\* regression configuration (must FAIL): '$' in the guard of the numeric type names also matches
\* before a final line terminator (tree as read) -> type_from_name() ValueError, handler dies
SPECIFICATION Spec
CONSTANTS
  MaxReq = 1
  Alphabet <- LexAlone
  San = TRUE
  ClChk = TRUE
  Threaded = TRUE
  FinalValid = FALSE
  QCap = 0
  Gating = FALSE
  QfRet = TRUE
  Echo = "xml10"
  PName = "exact"
  Deep = "caught"
  LexG = "eol"
INVARIANT InvNoDroppedConnection
CHECK_DEADLOCK FALSE
