--------------------------- MODULE WbemServerImpl ---------------------------
(***************************************************************************)
(* X06 - code-shaped machine of a WBEMServer object talking to one server, *)
(* in lock step with the requirement machine WbemServer: one action per    *)
(* API call (attribute access or method).  TLC checks, in every world of   *)
(* the universe and after every history of calls, that the event the       *)
(* code-shaped machine produces violates no clause of the requirement      *)
(* (Impl => Req), that the requirement state stays well formed and that    *)
(* the refinement mapping holds (requirement state = server state).        *)
(*                                                                         *)
(* As the binding does, create / delete events carry the server's          *)
(* namespaces after the call (srvns) and the object's `namespaces`         *)
(* property read right after the call (view).                              *)
(***************************************************************************)
EXTENDS WbemServerImplOps, SequencesExt

CONSTANTS WorldU,      \* set of worlds
          ArgU,        \* set of [id, cs, sl] arguments of create / delete
          GenDepth     \* > 0: record the calls (behaviour emission)

VARIABLES w, v, c, s, bad, hist
vars == <<w, v, c, s, bad, hist>>

(*------------------ universes used by the configurations -----------------*)
PlainOmSeq == <<[en |-> "other", desc |-> "ver", ver |-> "unset"]>>
Wd(interops, kind, cls, listed, ns) ==
  [interops |-> interops, nskind |-> kind, nscls |-> cls, listed |-> listed,
   ns |-> ns, om |-> PlainOmSeq, profs |-> <<>>]
Nf(id, cs, full) == [id |-> id, cs |-> cs, full |-> full]
NsSeqs == {<<>>, <<Nf("n1", "a", FALSE)>>,
           <<Nf("n1", "b", FALSE), Nf("n2", "a", TRUE)>>}
OneInterop == {<<Nm("i1", "a")>>, <<Nm("i1", "b")>>, <<Nm("i2", "a")>>,
               <<Nm("i3", "b")>>}
ManyInterop == {<<Nm("i2", "a"), Nm("i3", "a")>>,
                <<Nm("i3", "b"), Nm("i1", "a")>>}
StaticCls == {<<"WSN">>, <<"UU">>, <<"CIM">>, <<"WSN", "UU">>, <<"UU", "CIM">>}
WorldsProv == {Wd(io, "prov", <<"CIM">>, <<>>, ns) :
                 io \in OneInterop, ns \in NsSeqs}
WorldsNone == {Wd(io, "none", <<>>, <<>>, ns) :
                 io \in OneInterop \cup ManyInterop \cup {<<>>},
                 ns \in {<<>>, <<Nf("n1", "a", FALSE)>>}}
(* static listings: with the Interop namespace (server spelling), without  *)
(* it (the old server of the documentation), nothing at all                *)
WorldsStatic ==
  {Wd(io, "static", cls, listed, <<Nf("n1", "a", FALSE)>>) :
     io \in {<<Nm("i1", "a")>>, <<Nm("i3", "b")>>}, cls \in StaticCls,
     listed \in {<<>>, <<Nm("n1", "a")>>, <<Nm("n1", "b"), Nm("n2", "a")>>}}
  \cup {Wd(<<io>>, "static", cls, <<Nm("n1", "a"), io>>, <<Nf("n1", "a", FALSE)>>) :
     io \in {Nm("i1", "b"), Nm("i2", "a")}, cls \in StaticCls}
  \* listings written with leading / trailing slashes
  \cup {Wd(<<Nm("i1", "a")>>, "static", cls, <<Nm("n1", "s"), Nm("i1", "s")>>,
           <<Nf("n1", "a", FALSE)>>) : cls \in StaticCls}
WorldsAll == WorldsProv \cup WorldsNone \cup WorldsStatic
WorldsSmall ==
  {Wd(<<Nm("i2", "a")>>, "prov", <<"CIM">>, <<>>, <<Nf("n1", "a", FALSE), Nf("n2", "b", TRUE)>>),
   Wd(<<Nm("i1", "b")>>, "prov", <<"CIM">>, <<>>, <<>>),
   Wd(<<>>, "none", <<>>, <<>>, <<>>),
   Wd(<<Nm("i3", "b")>>, "none", <<>>, <<>>, <<>>),
   Wd(<<Nm("i1", "a")>>, "static", <<"UU">>, <<Nm("n1", "b")>>, <<Nf("n1", "a", FALSE)>>)}

Ar(id, cs, sl) == [id |-> id, cs |-> cs, sl |-> sl]
ArgsAll == {Ar(id, cs, sl) : id \in {"n1", "n2", "n3", "i1", "i2"},
                             cs \in {"a", "b"}, sl \in BOOLEAN}
ArgsSmall == {Ar(id, cs, sl) : id \in {"n1", "n2", "i1"},
                               cs \in {"a", "b"}, sl \in BOOLEAN}

(*------------------------------- events ----------------------------------*)
Names(S) == SetToSeq(S)
ViewOf(wd, sv, cl) ==
  LET r == EnsureNamespaces(wd, sv, cl) IN
  <<[k |-> r[1].k, code |-> r[1].code,
     names |-> IF r[1].k = "ok" THEN Names(r[2].nss) ELSE <<>>], r[2]>>

Init == /\ w \in WorldU
        /\ v = Server0(w) /\ c = Client0
        /\ s = StateOfWorld(w) /\ bad = {}
        /\ hist = IF GenDepth > 0 THEN <<[op |-> "world", w |-> w]>> ELSE <<>>

Step(e, v2, c2, call) ==
  /\ bad' = Fails(s, e)
  /\ s' = Apply(s, e)
  /\ v' = v2 /\ c' = c2
  /\ hist' = IF GenDepth > 0 THEN Append(hist, call) ELSE hist
  /\ UNCHANGED w

New == Step([op |-> "new"], v, Client0, [op |-> "new"])

GetInterop ==
  LET r == DetermineInterop(w, v, c)
      iop == IF r[1].k = "ok" THEN r[2].interop[1] ELSE Nm("", "") IN
  Step([op |-> "interop",
        res |-> [k |-> r[1].k, code |-> r[1].code, id |-> iop.id, cs |-> iop.cs]],
       v, r[2], [op |-> "interop"])

GetNamespaces ==
  LET r == ViewOf(w, v, c) IN
  Step([op |-> "namespaces", res |-> r[1]], v, r[2], [op |-> "namespaces"])

GetClassname ==
  LET r == EnsureNamespaces(w, v, c) IN
  Step([op |-> "classname",
        res |-> [k |-> r[1].k, code |-> r[1].code,
                 cls |-> IF r[1].k = "ok" THEN r[2].cls ELSE ""]],
       v, r[2], [op |-> "classname"])

GetPaths ==
  LET r == EnsureNamespaces(w, v, c) IN
  Step([op |-> "paths",
        res |-> [k |-> r[1].k, code |-> r[1].code,
                 names |-> IF r[1].k = "ok" THEN Names(r[2].paths) ELSE <<>>,
                 cls |-> IF r[1].k = "ok" THEN <<r[2].cls>> ELSE <<>>]],
       v, r[2], [op |-> "paths"])

Mutating(w0) == w0.nskind \in {"prov", "none"}
Create(a) ==
  /\ Mutating(w)
  /\ LET r == ImplCreate(w, v, c, a)
         vw == ViewOf(w, r[2], r[3]) IN
     Step([op |-> "create", n |-> a, res |-> r[1], srvns |-> Names(r[2].ns),
           view |-> vw[1]], r[2], vw[2], [op |-> "create", n |-> a])
Delete(a) ==
  /\ Mutating(w)
  /\ LET r == ImplDelete(w, v, c, a)
         vw == ViewOf(w, r[2], r[3]) IN
     Step([op |-> "delete", n |-> a, res |-> r[1], srvns |-> Names(r[2].ns),
           view |-> vw[1]], r[2], vw[2], [op |-> "delete", n |-> a])

Next == New \/ GetInterop \/ GetNamespaces \/ GetClassname \/ GetPaths
        \/ (\E a \in ArgU : Create(a) \/ Delete(a))
Spec == Init /\ [][Next]_vars

ImplRefinesReq == bad = {}
ReqWellFormed == WellFormed(s)
MappingHolds == s.ns = v.ns /\ s.full = v.full
(* the caches are in step with the server whenever they are determined *)
CacheInStep == (w.nskind = "prov" /\ c.nsdet) => Ids(c.nss) = Ids(v.ns)
GenConstraint == GenDepth = 0 \/ Len(hist) <= GenDepth + 1
=============================================================================
