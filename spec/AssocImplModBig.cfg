SPECIFICATION Spec
CONSTANTS
  LegacyBreak = FALSE
  SwapIn = ""
  NoShadow = FALSE
  NoPreCheck = FALSE
  XParU = {}
  ModEnds = "off"
  ShallowSub = FALSE
  IgnoreNs = FALSE
  ModSharedPath = FALSE
  MaxMod = 2
  NodeU <- NodeU4
  MaxAssoc = 2
  CreateNs = {1, 2}
  ClsU = {"AB", "ABS", "ABSS", "AT", "AL"}
  AcU <- AcSmall
  RcU <- RcSmall
  RlU <- RlSmall
  GenDepth = 0
INVARIANT ImplEqualsDecl
CHECK_DEADLOCK FALSE
