-------------------------- MODULE ClassModelImplOps --------------------------
(***************************************************************************)
(* Pure operators of the code-shaped machine of pywbem_mock's class        *)
(* handling (see ClassModelImpl.tla).  Transcribed from                    *)
(*   _resolvermixin.py  _resolve_class / _resolve_objects /                *)
(*                      _set_new_object / _resolve_qualifiers              *)
(*   _baseprovider.py   get_class (local_only, qualifier / class-origin    *)
(*                      stripping, filter_properties)                      *)
(*   _mainprovider.py   CreateClass, ModifyClass, DeleteClass,             *)
(*                      _get_subclass_names, _get_subclass_list_for_enums, *)
(*                      EnumerateInstances / EnumerateInstanceNames        *)
(* Classes are stored RESOLVED; a new class is resolved incrementally       *)
(* against its stored resolved superclass.                                  *)
(*                                                                         *)
(* Switches (constants):                                                   *)
(*   ClassLevelPropagate  FALSE = the code as it is: the class-level       *)
(*        _resolve_qualifiers call passes propagate=False, i.e. nothing    *)
(*        is inherited or validated at class level; TRUE = repaired design *)
(*   ParamResolve         FALSE = the code as it is: a parameter of an     *)
(*        overriding method that exists in the overridden method is        *)
(*        skipped (`continue`), its qualifiers are neither inherited nor   *)
(*        validated; TRUE = repaired design                                *)
(*   InitRestated         FALSE = the code as it is: a qualifier that an    *)
(*        overriding element restates (DisableOverride with the same value *)
(*        or a Restricted one) is not passed to _init_qualifier; when the  *)
(*        class came through CreateClass/ModifyClass its flavor attributes *)
(*        stay None, so below it is treated as Restricted and overridable  *)
(*        (the MOF compiler sets the flavors itself); TRUE = repaired      *)
(*   OriginFromSuper      TRUE = regression variant: class_origin of an    *)
(*        overriding element is the direct superclass                      *)
(*   AllowModifyBusy      TRUE = regression variant: ModifyClass accepted  *)
(*        on a class that has subclasses or instances                      *)
(***************************************************************************)
EXTENDS ClassModel, FiniteSetsExt, SequencesExt

CONSTANTS ClassLevelPropagate, ParamResolve, InitRestated, OriginFromSuper,
          AllowModifyBusy

E_INVALID_PARAMETER == 4
E_CLASS_HAS_CHILDREN == 8
E_CLASS_HAS_INSTANCES == 9

AbsentEl == [present |-> FALSE, ver |-> "", origin |-> "", prop |-> FALSE,
             quals |-> Q0, qnf |-> {}, xquals |-> Q0, xqnf |-> {}]

(* _resolve_qualifiers(new, inherited, propagate=True), per qualifier name; *)
(* "ERR" = CIMError(CIM_ERR_INVALID_PARAMETER) "Not overridable".           *)
(* inhNf = inherited qualifiers whose tosubclass/overridable are None.      *)
TsAttr(i, inhNf) == ToSub(i) /\ i \notin inhNf      \* `if inh_qual.tosubclass`
ResolveQ(loc, inh, inhNf) ==
  [i \in QI |->
     IF inh[i] = "" THEN loc[i]
     ELSE IF TsAttr(i, inhNf)
     THEN IF Overridable(i)
          THEN (IF loc[i] # "" THEN loc[i] ELSE inh[i])
          ELSE (IF loc[i] = "" THEN inh[i]
                ELSE IF loc[i] # inh[i] THEN "ERR" ELSE loc[i])
     ELSE loc[i]]                 \* restricted: never copied to an override
(* restated qualifiers that miss _init_qualifier (flavors stay None) *)
ResolveNf(loc, inh, inhNf, via) ==
  {i \in QI : /\ via = "api" /\ ~InitRestated /\ inh[i] # "" /\ loc[i] # ""
              /\ (TsAttr(i, inhNf) => ~Overridable(i))}
HasErr(qm) == \E i \in QI : qm[i] = "ERR"

RErr(code) == [ok |-> FALSE, code |-> code]

(* _resolve_class on a deep copy of the new class; store: id -> resolved *)
ImplResolve(store, name, super, d, via) ==
  IF super # "" /\ super \notin DOMAIN store THEN RErr(E_INVALID_SUPERCLASS)
  ELSE
  LET hasSup == super # ""
      sup == store[super]
      inhE(e) == hasSup /\ sup.el[e].present
      cq == IF ClassLevelPropagate /\ hasSup
            THEN ResolveQ(d.cq, sup.cq, sup.cqnf) ELSE d.cq
      cqnf == IF ClassLevelPropagate /\ hasSup
              THEN ResolveNf(d.cq, sup.cq, sup.cqnf, via) ELSE {}
      one(e) ==
        IF d.el[e].present
        THEN IF inhE(e)
             THEN [present |-> TRUE, ver |-> name,
                   origin |-> IF OriginFromSuper THEN super
                              ELSE sup.el[e].origin,
                   prop |-> TRUE,
                   quals |-> ResolveQ(d.el[e].quals, sup.el[e].quals,
                                      sup.el[e].qnf),
                   qnf |-> ResolveNf(d.el[e].quals, sup.el[e].quals,
                                     sup.el[e].qnf, via),
                   xquals |-> IF ParamResolve
                              THEN ResolveQ(d.el[e].xquals, sup.el[e].xquals,
                                            sup.el[e].xqnf)
                              ELSE d.el[e].xquals,
                   xqnf |-> IF ParamResolve
                            THEN ResolveNf(d.el[e].xquals, sup.el[e].xquals,
                                           sup.el[e].xqnf, via)
                            ELSE {}]
             ELSE [present |-> TRUE, ver |-> name, origin |-> name,
                   prop |-> FALSE, quals |-> d.el[e].quals, qnf |-> {},
                   xquals |-> d.el[e].xquals, xqnf |-> {}]
        ELSE IF inhE(e) THEN [sup.el[e] EXCEPT !.prop = TRUE]
        ELSE AbsentEl
      el == [e \in Elems |-> one(e)] IN
  IF \E e \in Elems : d.el[e].present /\ inhE(e) /\ ~d.el[e].ovr
  THEN RErr(E_INVALID_PARAMETER)         \* "duplicates ... without override"
  ELSE IF HasErr(cq) \/ \E e \in Elems : HasErr(el[e].quals) \/ HasErr(el[e].xquals)
  THEN RErr(E_INVALID_PARAMETER)
  ELSE [ok |-> TRUE, code |-> 0,
        cls |-> [super |-> super, cq |-> cq, cqnf |-> cqnf, el |-> el]]

NQ(qm) == Cardinality({i \in QI : qm[i] # ""})

(* get_class + projection to the trace format of a returned class *)
ImplGet(store, c, lo, iq, ico, hp, pl) ==
  LET k == store[c]
      keepq == iq # "F"
      one(e) ==
        LET x == k.el[e]
            gone == \/ ~x.present
                    \/ (lo # "F" /\ x.prop)               \* None = True
                    \/ (hp /\ e # "m" /\ e \notin Rng(pl)) IN
        IF gone
        THEN [present |-> FALSE, ver |-> "", origin |-> "", prop |-> "N",
              quals |-> Q0, nq |-> 0, hasx |-> FALSE, xquals |-> Q0,
              nxq |-> 0, odd |-> ""]
        ELSE [present |-> TRUE,
              ver |-> IF e \in {"p", "q"} \/ keepq THEN x.ver ELSE "",
              origin |-> IF ico = "T" THEN x.origin ELSE "",
              prop |-> IF x.prop THEN "T" ELSE "F",
              quals |-> IF keepq THEN x.quals ELSE Q0,
              nq |-> IF keepq THEN NQ(x.quals) ELSE 0,
              hasx |-> e = "m",
              xquals |-> IF keepq THEN x.xquals ELSE Q0,
              nxq |-> IF keepq THEN NQ(x.xquals) ELSE 0,
              odd |-> ""] IN
  [name |-> c, super |-> k.super,
   cq |-> IF keepq THEN k.cq ELSE Q0,
   ncq |-> IF keepq THEN NQ(k.cq) ELSE 0,
   el |-> [e \in Elems |-> one(e)], extra |-> ""]

(* _get_subclass_names *)
ImplChildren(store, cn) ==
  IF cn = "" THEN {x \in DOMAIN store : store[x].super = ""}
  ELSE {x \in DOMAIN store : store[x].super = cn}
RECURSIVE ImplDesc(_, _)
ImplDesc(store, cn) ==
  LET ch == ImplChildren(store, cn) IN
  ch \cup UNION {ImplDesc(store, x) : x \in ch}
ImplSubNames(store, cn, deep) ==
  IF deep THEN ImplDesc(store, cn) ELSE ImplChildren(store, cn)

AsSeq(S) == SetToSeq(S)
=============================================================================
