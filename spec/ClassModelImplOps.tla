-------------------------- MODULE ClassModelImplOps --------------------------
(***************************************************************************)
(* Pure operators of the code-shaped machine of pywbem_mock's class        *)
(* handling (see ClassModelImpl.tla).  Transcribed from                    *)
(*   _resolvermixin.py  _resolve_class / _resolve_objects /                *)
(*                      _set_new_object / _resolve_qualifiers              *)
(*   _baseprovider.py   get_class (local_only, qualifier / class-origin    *)
(*                      stripping, filter_properties)                      *)
(*   _mainprovider.py   CreateClass, ModifyClass, DeleteClass,             *)
(*                      _get_subclass_names, _get_subclass_list_for_enums, *)
(*                      EnumerateInstances / EnumerateInstanceNames        *)
(* Classes are stored RESOLVED; a new class is resolved incrementally       *)
(* against its stored resolved superclass.                                  *)
(*                                                                         *)
(* Switches (constants):                                                   *)
(*   ClassLevelPropagate  FALSE = the code as it is: the class-level       *)
(*        _resolve_qualifiers call passes propagate=False, i.e. nothing    *)
(*        is inherited or validated at class level; TRUE = repaired design *)
(*   ParamResolve         FALSE = the code as it is: a parameter of an     *)
(*        overriding method that exists in the overridden method is        *)
(*        skipped (`continue`), its qualifiers are neither inherited nor   *)
(*        validated; TRUE = repaired design                                *)
(*   InitRestated         FALSE = the code as it is: a qualifier that an    *)
(*        overriding element restates (DisableOverride with the same value *)
(*        or a Restricted one) is not passed to _init_qualifier; when the  *)
(*        class came through CreateClass/ModifyClass its flavor attributes *)
(*        stay None, so below it is treated as Restricted and overridable  *)
(*        (the MOF compiler sets the flavors itself); TRUE = repaired      *)
(*   OriginFromSuper      TRUE = regression variant: class_origin of an    *)
(*        overriding element is the direct superclass                      *)
(*   AllowModifyBusy      TRUE = regression variant: ModifyClass accepted  *)
(*        on a class that has subclasses or instances                      *)
(*   SigCheck             FALSE = the code as it is: an overriding method   *)
(*        whose parameter list differs from the overridden one ends in     *)
(*        AttributeError (CIMParameter has no `propagated`); TRUE =        *)
(*        repaired: refused with CIM_ERR_INVALID_PARAMETER                 *)
(***************************************************************************)
EXTENDS ClassModel, FiniteSetsExt, SequencesExt

CONSTANTS ClassLevelPropagate, ParamResolve, InitRestated, OriginFromSuper,
          AllowModifyBusy, SigCheck

E_INVALID_PARAMETER == 4
E_CLASS_HAS_CHILDREN == 8
E_CLASS_HAS_INSTANCES == 9

AbsentEl == [present |-> FALSE, ver |-> "", origin |-> "", prop |-> FALSE,
             quals |-> Q0, qf |-> FL0, xquals |-> Q0, xqf |-> FL0,
             pars |-> ""]

(* Flavor attributes <<tosubclass, overridable>> of a stored qualifier:     *)
(* "T"/"R"/"N" and "E"/"D"/"N" (N = attribute None), NoFl = no qualifier.   *)
DeclF(i) == << IF ToSub(i) THEN "T" ELSE "R", IF Overridable(i) THEN "E" ELSE "D" >>
(* as the qualifier object arrives at the resolver: the MOF compiler fills  *)
(* what the use does not give from the declaration (_build_flavors); a      *)
(* CIMQualifier built by the client keeps None                              *)
Arrive(lf, i, via) ==
  IF via = "mof" THEN << IF lf[1] = "" THEN DeclF(i)[1] ELSE lf[1],
                         IF lf[2] = "" THEN DeclF(i)[2] ELSE lf[2] >>
  ELSE << IF lf[1] = "" THEN "N" ELSE lf[1], IF lf[2] = "" THEN "N" ELSE lf[2] >>
InitF(a, i) ==                                      \* _init_qualifier
  << IF a[1] = "N" THEN DeclF(i)[1] ELSE a[1],
     IF a[2] = "N" THEN DeclF(i)[2] ELSE a[2] >>

(* _resolve_qualifiers(new, inherited, propagate=True) for one qualifier    *)
(* name: <<value, flavor attributes>>; "ERR" = CIMError(CIM_ERR_INVALID_    *)
(* PARAMETER) "Not overridable" / "Restricted in super class".              *)
Res1(lv, lf, iv, if, i, via) ==
  LET arr == Arrive(lf, i, via)
      ini == InitF(arr, i)
      restated == IF InitRestated THEN ini ELSE arr IN
  IF iv = "" THEN << lv, IF lv = "" THEN NoFl ELSE ini >>
  ELSE IF if[1] = "T"                               \* `if inh_qual.tosubclass`
  THEN IF if[2] = "E"                               \* `if inh_qual.overridable`
       THEN (IF lv = "" THEN << iv, if >> ELSE << lv, ini >>)
       ELSE (IF lv = "" THEN << iv, if >>
             ELSE IF lv # iv THEN << "ERR", NoFl >>
             ELSE << lv, restated >>)
  ELSE IF lv = "" THEN << "", NoFl >>          \* restricted: never copied
       ELSE IF if[2] \in {"E", "N"} THEN << lv, restated >>
       ELSE << "ERR", NoFl >>
ResolveQ(loc, lfl, inh, inhf, via) ==
  [i \in QI |-> Res1(loc[i], lfl[i], inh[i], inhf[i], i, via)[1]]
ResolveF(loc, lfl, inh, inhf, via) ==
  [i \in QI |-> Res1(loc[i], lfl[i], inh[i], inhf[i], i, via)[2]]
(* propagate=False: every local qualifier through _init_qualifier *)
InitAll(loc, lfl, via) ==
  [i \in QI |-> IF loc[i] = "" THEN NoFl ELSE InitF(Arrive(lfl[i], i, via), i)]
HasErr(qm) == \E i \in QI : qm[i] = "ERR"

RErr(code) == [ok |-> FALSE, code |-> code]
E_PYERROR == 0 - 1

(* _resolve_class on a deep copy of the new class; store: id -> resolved *)
ImplResolve(store, name, super, d, via) ==
  IF super # "" /\ super \notin DOMAIN store THEN RErr(E_INVALID_SUPERCLASS)
  ELSE
  LET hasSup == super # ""
      sup == store[super]
      inhE(e) == hasSup /\ sup.el[e].present
      clp == ClassLevelPropagate /\ hasSup
      cq == IF clp THEN ResolveQ(d.cq, d.cfl, sup.cq, sup.cqf, via) ELSE d.cq
      cqf == IF clp THEN ResolveF(d.cq, d.cfl, sup.cq, sup.cqf, via)
             ELSE InitAll(d.cq, d.cfl, via)
      one(e) ==
        IF d.el[e].present
        THEN IF inhE(e)
             THEN [present |-> TRUE, ver |-> name,
                   origin |-> IF OriginFromSuper THEN super
                              ELSE sup.el[e].origin,
                   prop |-> TRUE,
                   quals |-> ResolveQ(d.el[e].quals, d.el[e].fl,
                                      sup.el[e].quals, sup.el[e].qf, via),
                   qf |-> ResolveF(d.el[e].quals, d.el[e].fl,
                                   sup.el[e].quals, sup.el[e].qf, via),
                   xquals |-> IF ParamResolve
                              THEN ResolveQ(d.el[e].xquals, d.el[e].xfl,
                                            sup.el[e].xquals, sup.el[e].xqf,
                                            via)
                              ELSE d.el[e].xquals,
                   xqf |-> IF ParamResolve
                           THEN ResolveF(d.el[e].xquals, d.el[e].xfl,
                                         sup.el[e].xquals, sup.el[e].xqf, via)
                           ELSE InitAll(d.el[e].xquals, d.el[e].xfl, via),
                   pars |-> d.el[e].pars]
             ELSE [present |-> TRUE, ver |-> name, origin |-> name,
                   prop |-> FALSE, quals |-> d.el[e].quals,
                   qf |-> InitAll(d.el[e].quals, d.el[e].fl, via),
                   xquals |-> d.el[e].xquals,
                   xqf |-> InitAll(d.el[e].xquals, d.el[e].xfl, via),
                   pars |-> d.el[e].pars]
        ELSE IF inhE(e) THEN [sup.el[e] EXCEPT !.prop = TRUE]
        ELSE AbsentEl
      el == [e \in Elems |-> one(e)] IN
  IF \E e \in Elems : d.el[e].present /\ inhE(e) /\ ~d.el[e].ovr
  THEN RErr(E_INVALID_PARAMETER)         \* "duplicates ... without override"
  ELSE IF HasErr(cq) \/ \E e \in Elems : HasErr(el[e].quals)
  THEN RErr(E_INVALID_PARAMETER)
  ELSE IF d.el["m"].present /\ inhE("m") /\ d.el["m"].pars # sup.el["m"].pars
  THEN (IF SigCheck THEN RErr(E_INVALID_PARAMETER)
        ELSE RErr(E_PYERROR))    \* AttributeError: CIMParameter.propagated
  ELSE IF \E e \in Elems : HasErr(el[e].xquals)
  THEN RErr(E_INVALID_PARAMETER)
  ELSE [ok |-> TRUE, code |-> 0,
        cls |-> [super |-> super, cq |-> cq, cqf |-> cqf, el |-> el]]

NQ(qm) == Cardinality({i \in QI : qm[i] # ""})

(* get_class + projection to the trace format of a returned class *)
ImplGet(store, c, lo, iq, ico, hp, pl) ==
  LET k == store[c]
      keepq == iq # "F"
      one(e) ==
        LET x == k.el[e]
            gone == \/ ~x.present
                    \/ (lo # "F" /\ x.prop)               \* None = True
                    \/ (hp /\ e # "m" /\ e \notin Rng(pl)) IN
        IF gone
        THEN [present |-> FALSE, ver |-> "", origin |-> "", prop |-> "N",
              quals |-> Q0, nq |-> 0, hasx |-> FALSE, pars |-> "",
              xquals |-> Q0, nxq |-> 0, odd |-> ""]
        ELSE [present |-> TRUE,
              ver |-> IF e \in {"p", "q"} \/ keepq THEN x.ver ELSE "",
              origin |-> IF ico = "T" THEN x.origin ELSE "",
              prop |-> IF x.prop THEN "T" ELSE "F",
              quals |-> IF keepq THEN x.quals ELSE Q0,
              nq |-> IF keepq THEN NQ(x.quals) ELSE 0,
              hasx |-> e = "m" /\ HasX(x.pars),
              pars |-> IF e = "m" THEN x.pars ELSE "",
              xquals |-> IF keepq THEN x.xquals ELSE Q0,
              nxq |-> IF keepq THEN NQ(x.xquals) ELSE 0,
              odd |-> ""] IN
  [name |-> c, super |-> k.super,
   cq |-> IF keepq THEN k.cq ELSE Q0,
   ncq |-> IF keepq THEN NQ(k.cq) ELSE 0,
   el |-> [e \in Elems |-> one(e)], extra |-> ""]

(* _get_subclass_names *)
ImplChildren(store, cn) ==
  IF cn = "" THEN {x \in DOMAIN store : store[x].super = ""}
  ELSE {x \in DOMAIN store : store[x].super = cn}
RECURSIVE ImplDesc(_, _)
ImplDesc(store, cn) ==
  LET ch == ImplChildren(store, cn) IN
  ch \cup UNION {ImplDesc(store, x) : x \in ch}
ImplSubNames(store, cn, deep) ==
  IF deep THEN ImplDesc(store, cn) ELSE ImplChildren(store, cn)

AsSeq(S) == SetToSeq(S)
=============================================================================
