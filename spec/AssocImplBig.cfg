SPECIFICATION Spec
CONSTANTS
  LegacyBreak = FALSE
  SwapIn = ""
  NoShadow = FALSE
  NodeU <- NodeU4
  MaxAssoc = 3
  CreateNs = {1, 2}
  ClsU = {"AB", "ABS", "AT", "AL"}
  AcU <- AcFull
  RcU <- RcFull
  RlU <- RlFull
  GenDepth = 0
INVARIANT ImplEqualsDecl
CHECK_DEADLOCK FALSE
