SPECIFICATION Spec
CONSTANTS
  PinnedDupCheck = FALSE
  PinnedDeleteCase = FALSE
  PinnedBrand = TRUE
  Variant = "code"
INVARIANT BrandTable
INVARIANT SelectTable
CHECK_DEADLOCK FALSE
