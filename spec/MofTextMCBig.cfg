\* Thorough tier: strings of <= 6 symbols in 2 folding contexts.
SPECIFICATION Spec
CONSTANTS
  MaxLen = 6
  Maxlines = {12}
  Indents = {3}
  LinePos = {8}
  EndSpaces = {3}
  Avoids = {FALSE, TRUE}
  Safe = TRUE
  AposKeep = TRUE
  CharRaw = FALSE
  WithChar16 = TRUE
INVARIANT RoundTrip
INVARIANT NoSplitInEscape
INVARIANT NoStuck
INVARIANT LineLen
CHECK_DEADLOCK FALSE
