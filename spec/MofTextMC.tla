----------------------------- MODULE MofTextMC -----------------------------
(***************************************************************************)
(* Model check of the text level of C08 for ALL strings up to MaxLen over  *)
(* the class alphabet, all listed folding contexts, one TLA+ step per      *)
(* iteration of the mofstr() loop:                                         *)
(*                                                                         *)
(*   RoundTrip        when the loop has ended, lexing the produced text,   *)
(*                    unescaping every literal and concatenating gives the *)
(*                    original string (char16: the original character)     *)
(*   NoSplitInEscape  every part boundary is a unit boundary of Esc(s)     *)
(*   NoStuck          no iteration leaves `value` unchanged (the assert in *)
(*                    the code; with |value| decreasing => termination)    *)
(*   LineLen          after a part has been written the column is <=       *)
(*                    maxline                                              *)
(*                                                                         *)
(* Scaling: maxline 12..20 with indent 3 leaves 7..15 symbols per line; a  *)
(* control character takes 6 symbols, so strings of <= MaxLen symbols fold *)
(* several times.  This is the situation of maxline >= 40 with words       *)
(* longer than a line.  Precondition of the model (true for tomof(), whose *)
(* indents are <= 13): maxline - indent - 2 >= 6.                          *)
(*                                                                         *)
(* Safe / AposKeep / CharRaw select the variant (see MofText.tla);         *)
(* MofTextMC.cfg is the repaired design, the *Legacy*.cfg files are the    *)
(* pinned tree's behaviour and must FAIL.                                  *)
(***************************************************************************)
EXTENDS MofText

CONSTANTS MaxLen, Maxlines, Indents, LinePos, EndSpaces, Avoids,
          Safe, AposKeep, CharRaw, WithChar16

VARIABLE st
vars == <<st>>

Params(q) == {[indent |-> i, maxline |-> m, endsp |-> e, avoid |-> a,
               safe |-> Safe, quote |-> q] :
                i \in Indents, m \in Maxlines, e \in EndSpaces, a \in Avoids}

Start(s, lp, P) == [s |-> s, lp0 |-> lp, P |-> P, f |-> FoldInit(Esc(s), lp)]

Init ==
  \/ \E n \in 0..MaxLen : \E s \in [1..n -> Src], lp \in LinePos, P \in Params("Q") :
        st = Start(s, lp, P)
  \/ /\ WithChar16
     /\ \E c \in Src, lp \in LinePos, P \in Params("A") : st = Start(<<c>>, lp, P)

Iterate == /\ ~st.f.done /\ ~st.f.err
           /\ st' = [st EXCEPT !.f = FoldStep(st.f, st.P)]
Finished == (st.f.done \/ st.f.err) /\ UNCHANGED st
Next == Iterate \/ Finished
Spec == Init /\ [][Next]_vars

RoundTrip ==
  st.f.done => LET r == Read(st.f.out, AposKeep, CharRaw)
               IN r.ok /\ r.rv = st.s
NoSplitInEscape == st.f.cuts \subseteq EscBounds(st.s)
NoStuck == ~st.f.err
LineLen == st.f.out # <<>> => st.f.lp <= st.P.maxline
=============================================================================
