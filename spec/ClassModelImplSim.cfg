SPECIFICATION Spec
CONSTANTS
  ClassLevelPropagate = FALSE
  ParamResolve = FALSE
  OriginFromSuper = FALSE
  AllowModifyBusy = FALSE
  Parent <- Free6
  Mode = "shape"
  QSels = {{}}
  InstKeys = {1, 2}
  WithModify = FALSE
  AllFlags = FALSE
  GenDepth = 14
CONSTRAINT GenConstraint
CHECK_DEADLOCK FALSE
