SPECIFICATION Spec
CONSTANTS
  ClassLevelPropagate = FALSE
  ParamResolve = TRUE
  InitRestated = TRUE
  OriginFromSuper = FALSE
  AllowModifyBusy = FALSE
  SigCheck = TRUE
  Parent <- Free6
  Mode = "shape"
  QSels = {{}}
  Vias = {"api"}
  InstKeys = {1, 2}
  WithModify = FALSE
  AllFlags = FALSE
  GenDepth = 14
CONSTRAINT GenConstraint
CHECK_DEADLOCK FALSE
