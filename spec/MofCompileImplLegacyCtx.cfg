\* regression config: _get_error_context indexes past the line (must violate ImplRefinesReq)
SPECIFICATION Spec
CONSTANTS
  MaxProd = 2
  MaxDepth = 6
  OnlyKinds = {"namespace"}
  IncludeGuard = TRUE
  NsNoneCheck = TRUE
  HexBounds = TRUE
  CtxBounds = FALSE
  ValueWrapped = TRUE
  RepoWrapped = TRUE
  EmbFinally = TRUE
  RestoreOnReturn = TRUE
  EmbRestoreAll = TRUE
  SuperCheckFirst = TRUE
  AncestryWalk = TRUE
  GuardCanonical = TRUE
  RegisterAfterCreate = TRUE
  NsCachesInit = TRUE
  EmbNullChecked = TRUE
  OverflowWrapped = TRUE
  InstOffsetAll = TRUE
  OpenPrecheck = TRUE
  EmbLexerClone = TRUE
INVARIANT TypeOK
INVARIANT ImplRefinesReq
INVARIANT PositionFileOK
INVARIANT Reusable

CHECK_DEADLOCK FALSE
