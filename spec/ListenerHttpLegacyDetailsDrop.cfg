\* regression configuration (must FAIL): non-Latin-1 version text in CIMErrorDetails -> UnicodeEncodeError -> dropped connection
SPECIFICATION Spec
CONSTANTS
  MaxReq = 1
  Alphabet <- UpTo1
  San = FALSE
  ClChk = TRUE
  Threaded = TRUE
  FinalValid = FALSE
  QCap = 0
  Gating = FALSE
  QfRet = TRUE
  Echo = "xml10"
  PName = "exact"
  Deep = "caught"
  LexG = "full"
INVARIANT InvNoDroppedConnection
CHECK_DEADLOCK FALSE
