SPECIFICATION Spec
CONSTANTS
  InfExc = "ValueError"
  StringSlotLax = FALSE
  RangeCheck = FALSE
  AnyCimIntAsIs = FALSE
  ArrayHeadShortcut = FALSE
  Deltas <- DeltasSmall
INVARIANT ImplWithinReq
CHECK_DEADLOCK FALSE
