------------------------------ MODULE SubMgrOwn ------------------------------
(***************************************************************************)
(* C18 design model: how add_server() decides which destination / filter   *)
(* instances on a server are "owned by this manager".                      *)
(*                                                                         *)
(* Requirement: ownership = the ID embedded in the instance's Name equals  *)
(* the manager's ID (string equality).                                     *)
(* Code shape:  re.match('^pywbemfilter:{id}:[^:]*$', Name) with the ID    *)
(* interpolated into the pattern.  Escape = FALSE is the code before the   *)
(* "fix:" commit (ID used as regex source: '.', '*' act as operators,      *)
(* a leading '*' or an unbalanced '(' makes re.compile fail);              *)
(* Escape = TRUE applies re.escape (every ID character is a literal).      *)
(*                                                                         *)
(* IDs and names are sequences over {a, b, dot, star, paren}; TLC explores *)
(* every pair of manager IDs up to MaxLen, every interleaving of create /  *)
(* discover (add_server after restart) / remove_server of two managers,    *)
(* and checks Isolation, Rediscover and RemoveExactlyOwned.                *)
(*                                                                         *)
(* Round 3: the client holds the list get_owned_*() returned (`held`) and  *)
(* changes it (clear / extend with the other manager's list).  With a copy *)
(* the bookkeeping is untouched; with Alias = TRUE the client's change IS a *)
(* change of the bookkeeping and ListsEqualServer fails.                   *)
(***************************************************************************)
EXTENDS Naturals, Sequences, FiniteSets, TLC

CONSTANTS Escape, MaxLen, Alphabet,
          Alias     \* TRUE: get_owned_*() returns the bookkeeping list itself
                    \* (regression variant); FALSE: a copy (the code)

Ids == UNION {[1..n -> Alphabet] : n \in 1..MaxLen}


(* is the ID a compilable regular expression (when not escaped)?          *)
Compilable(id) ==
  /\ id[1] # "star"
  /\ \A i \in 1..Len(id) : id[i] # "paren"              \* unbalanced parenthesis
  /\ \A i \in 2..Len(id) : ~(id[i] = "star" /\ id[i - 1] = "star")

(* regex match of the whole text t against pattern p: literals, dot, star *)
RECURSIVE Match(_, _)
Match(p, t) ==
  IF p = <<>> THEN t = <<>>
  ELSE LET first == t # <<>> /\ (p[1] = "dot" \/ p[1] = t[1]) IN
       IF Len(p) >= 2 /\ p[2] = "star"
       THEN Match(SubSeq(p, 3, Len(p)), t)
            \/ (first /\ Match(p, Tail(t)))
       ELSE first /\ Match(Tail(p), Tail(t))

(* does a manager with ID `id` regard an instance created by `other` as own? *)
OwnsImpl(id, other) ==
  IF Escape THEN id = other
  ELSE Compilable(id) /\ Match(id, other)
OwnsReq(id, other) == id = other

VARIABLES ids,      \* <<id of manager 1, id of manager 2>>
          server,   \* set of <<creator id, k>>   (instances on the server)
          owned,    \* manager -> set of instances it lists as owned
          crashed   \* add_server raised (pattern did not compile)
vars == <<ids, server, owned, crashed>>

Init == /\ ids \in Ids \X Ids /\ ids[1] # ids[2]
        /\ server = {} /\ owned = [m \in 1..2 |-> {}] /\ crashed = FALSE

Create(m) == /\ Cardinality(server) < 2
             /\ \E k \in 1..2 : <<ids[m], k>> \notin server /\
                  /\ server' = server \cup {<<ids[m], k>>}
                  /\ owned' = [owned EXCEPT ![m] = @ \cup {<<ids[m], k>>}]
             /\ UNCHANGED <<ids, crashed>>

(* client restart: a new manager object with the same ID calls add_server *)
Discover(m) ==
  /\ IF ~Escape /\ ~Compilable(ids[m])
     THEN crashed' = TRUE /\ UNCHANGED owned
     ELSE /\ owned' = [owned EXCEPT ![m] = {x \in server : OwnsImpl(ids[m], x[1])}]
          /\ UNCHANGED crashed
  /\ UNCHANGED <<ids, server>>

RemoveServer(m) == /\ server' = server \ owned[m]
                   /\ owned' = [owned EXCEPT ![m] = {}]
                   /\ UNCHANGED <<ids, crashed>>

(* client-side change of a list that get_owned_*() handed out              *)
ClientMutates(m) ==
  /\ \E new \in {{}, owned[m] \cup owned[3 - m]} :
        owned' = IF Alias THEN [owned EXCEPT ![m] = new] ELSE owned
  /\ UNCHANGED <<ids, server, crashed>>

Next == \E m \in 1..2 : Create(m) \/ Discover(m) \/ RemoveServer(m)
                         \/ ClientMutates(m)
Spec == Init /\ [][Next]_vars

Isolation == \A m \in 1..2 : \A x \in owned[m] : x[1] = ids[m]
AddServerTotal == ~crashed
(* the lists equal what the manager created and did not remove (checked    *)
(* for the literal-ID code shape; a crashed add_server leaves no list)     *)
ListsEqualServer ==
  Escape => \A m \in 1..2 : owned[m] = {x \in server : x[1] = ids[m]}
RemoveExactlyOwned ==
  [][\A m \in 1..2 : (server' # server /\ owned'[m] = {} /\ owned[m] # {}) =>
        server \ server' \subseteq {x \in server : x[1] = ids[m]}]_vars
=============================================================================
