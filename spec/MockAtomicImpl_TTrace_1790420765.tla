---- MODULE MockAtomicImpl_TTrace_1790420765 ----
EXTENDS Sequences, TLCExt, MockAtomicImpl, Toolbox, Naturals, TLC

_expression ==
    LET MockAtomicImpl_TEExpression == INSTANCE MockAtomicImpl_TEExpression
    IN MockAtomicImpl_TEExpression!expression
----

_trace ==
    LET MockAtomicImpl_TETrace == INSTANCE MockAtomicImpl_TETrace
    IN MockAtomicImpl_TETrace!trace
----

_inv ==
    ~(
        TLCGet("level") = Len(_TETrace)
        /\
        call = ([op |-> "DeleteClassSubtree", pc |-> 4, scen |-> {"inst1-rejected"}, snap |-> <<0, 0, 0, 0, 0, 0>>, raised |-> TRUE, done |-> TRUE])
        /\
        repo = (<<0, 0, 1, 0, 0, 0>>)
    )
----

_init ==
    /\ repo = _TETrace[1].repo
    /\ call = _TETrace[1].call
----

_next ==
    /\ \E i,j \in DOMAIN _TETrace:
        /\ \/ /\ j = i + 1
              /\ i = TLCGet("level")
        /\ repo  = _TETrace[i].repo
        /\ repo' = _TETrace[j].repo
        /\ call  = _TETrace[i].call
        /\ call' = _TETrace[j].call

\* Uncomment the ASSUME below to write the states of the error trace
\* to the given file in Json format. Note that you can pass any tuple
\* to `JsonSerialize`. For example, a sub-sequence of _TETrace.
    \* ASSUME
    \*     LET J == INSTANCE Json
    \*         IN J!JsonSerialize("MockAtomicImpl_TTrace_1790420765.json", _TETrace)

=============================================================================

 Note that you can extract this module `MockAtomicImpl_TEExpression`
  to a dedicated file to reuse `expression` (the module in the 
  dedicated `MockAtomicImpl_TEExpression.tla` file takes precedence 
  over the module `MockAtomicImpl_TEExpression` below).

---- MODULE MockAtomicImpl_TEExpression ----
EXTENDS Sequences, TLCExt, MockAtomicImpl, Toolbox, Naturals, TLC

expression == 
    [
        \* To hide variables of the `MockAtomicImpl` spec from the error trace,
        \* remove the variables below.  The trace will be written in the order
        \* of the fields of this record.
        repo |-> repo
        ,call |-> call
        
        \* Put additional constant-, state-, and action-level expressions here:
        \* ,_stateNumber |-> _TEPosition
        \* ,_repoUnchanged |-> repo = repo'
        
        \* Format the `repo` variable as Json value.
        \* ,_repoJson |->
        \*     LET J == INSTANCE Json
        \*     IN J!ToJson(repo)
        
        \* Lastly, you may build expressions over arbitrary sets of states by
        \* leveraging the _TETrace operator.  For example, this is how to
        \* count the number of times a spec variable changed up to the current
        \* state in the trace.
        \* ,_repoModCount |->
        \*     LET F[s \in DOMAIN _TETrace] ==
        \*         IF s = 1 THEN 0
        \*         ELSE IF _TETrace[s].repo # _TETrace[s-1].repo
        \*             THEN 1 + F[s-1] ELSE F[s-1]
        \*     IN F[_TEPosition - 1]
    ]

=============================================================================



Parsing and semantic processing can take forever if the trace below is long.
 In this case, it is advised to uncomment the module below to deserialize the
 trace from a generated binary file.

\*
\*---- MODULE MockAtomicImpl_TETrace ----
\*EXTENDS IOUtils, MockAtomicImpl, TLC
\*
\*trace == IODeserialize("MockAtomicImpl_TTrace_1790420765.bin", TRUE)
\*
\*=============================================================================
\*

---- MODULE MockAtomicImpl_TETrace ----
EXTENDS MockAtomicImpl, TLC

trace == 
    <<
    ([call |-> [op |-> "", pc |-> 0, scen |-> {}, snap |-> <<>>, raised |-> FALSE, done |-> TRUE],repo |-> <<0, 0, 0, 0, 0, 0>>]),
    ([call |-> [op |-> "DeleteClassSubtree", pc |-> 1, scen |-> {"inst1-rejected"}, snap |-> <<0, 0, 0, 0, 0, 0>>, raised |-> FALSE, done |-> FALSE],repo |-> <<0, 0, 0, 0, 0, 0>>]),
    ([call |-> [op |-> "DeleteClassSubtree", pc |-> 2, scen |-> {"inst1-rejected"}, snap |-> <<0, 0, 0, 0, 0, 0>>, raised |-> FALSE, done |-> FALSE],repo |-> <<0, 0, 0, 0, 0, 0>>]),
    ([call |-> [op |-> "DeleteClassSubtree", pc |-> 3, scen |-> {"inst1-rejected"}, snap |-> <<0, 0, 0, 0, 0, 0>>, raised |-> FALSE, done |-> FALSE],repo |-> <<0, 0, 0, 0, 0, 0>>]),
    ([call |-> [op |-> "DeleteClassSubtree", pc |-> 4, scen |-> {"inst1-rejected"}, snap |-> <<0, 0, 0, 0, 0, 0>>, raised |-> FALSE, done |-> FALSE],repo |-> <<0, 0, 1, 0, 0, 0>>]),
    ([call |-> [op |-> "DeleteClassSubtree", pc |-> 4, scen |-> {"inst1-rejected"}, snap |-> <<0, 0, 0, 0, 0, 0>>, raised |-> TRUE, done |-> TRUE],repo |-> <<0, 0, 1, 0, 0, 0>>])
    >>
----


=============================================================================

---- CONFIG MockAtomicImpl_TTrace_1790420765 ----
CONSTANTS
    Rollback = TRUE
    NsProviderOrder = "fixed"
    MaxBatch = 3
    MultiNsPrecheck = "all-first"
    RollbackKinds = "all"
    SchemaListRollback = TRUE
    DeleteClassUndo = TRUE
    RollbackScope = "repository"
    DeleteClassInstances = "per-class"
    NsAlias = "nocase"
    MultiNsDelete = "all-first"

INVARIANT
    _inv

CHECK_DEADLOCK
    \* CHECK_DEADLOCK off because of PROPERTY or INVARIANT above.
    FALSE

INIT
    _init

NEXT
    _next

CONSTANT
    _TETrace <- _trace

ALIAS
    _expression
=============================================================================
\* Generated on Sat Sep 26 11:06:08 UTC 2026