\* Regression variant: CIMProperty.tocimxml() appends ONE shared VALUE.NULL DOM node per
\* NULL entry (minidom moves it): an array property with two NULL entries is encoded with
\* one.  ImplMeetsReq must be VIOLATED.
SPECIFICATION Spec
CONSTANTS
  Types = {"string", "uint8"}
  QualTypes = {"string", "uint8"}
  KeyTypes = {"string"}
  Shapes = {"vn", "nv", "vv", "nn", "nvn", "nnv", "vnn", "nvnv"}
  StrVals <- StrValsSmall
  CharVals = {"ltr", "amp"}
  Names = {"a"}
  MaxEls = 2
  MaxDepth = 1
  MaxKids = 1
  MaxAttrs = 0
  Modes = {"entity", "cdata"}
  W <- WSharedNull
  RootKinds = {"inst", "class", "prop", "pval", "qual", "qdecl"}
  EmbPaths = FALSE
INVARIANT ImplMeetsReq
CHECK_DEADLOCK FALSE
