\* regression: wrong design, namespaces=None registers in all namespaces (must violate ImplRefinesReq)
SPECIFICATION Spec
CONSTANTS
  NsArgFormatBug = FALSE
  ClassnamesAssert = FALSE
  OutOnlyUnchecked = FALSE
  PragmaCaseSensitive = FALSE
  RecompileExisting = FALSE
  Variant = "nodefaultns"
  Provs <- ProvsIw
  NsArgs <- NsArgsSmall
  SetupBehs = {"ok", "raise"}
  Targets <- TargetsSmall
  KeyU = {1}
  GenDepth = 0
  MaxStore = 1
  IwLevel = "full"
  MethLevel = "off"
INVARIANT ImplRefinesReq
CONSTRAINT StoreBound
CHECK_DEADLOCK FALSE
