SPECIFICATION Spec
CONSTANTS
  V <- VHostZone
  StrLen = 2
  MutFmts <- FmtsStdHist
  MutAll = FALSE
INVARIANT PrintedAccepted
INVARIANT RoundTrip
INVARIANT CimObject
INVARIANT Canonical
INVARIANT Total
CHECK_DEADLOCK FALSE
