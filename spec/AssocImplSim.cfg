SPECIFICATION Spec
CONSTANTS
  LegacyBreak = FALSE
  SwapIn = ""
  NoShadow = FALSE
  NoPreCheck = FALSE
  XParU = {}
  ModEnds = "off"
  ShallowSub = FALSE
  IgnoreNs = FALSE
  ModSharedPath = FALSE
  MaxMod = 2
  NodeU <- NodeU7
  MaxAssoc = 6
  CreateNs = {1, 2}
  ClsU = {"AB", "ABS", "ABSS", "AT", "AL"}
  AcU <- AcSmall
  RcU <- RcSmall
  RlU <- RlSmall
  GenDepth = 6
CHECK_DEADLOCK FALSE
CONSTRAINT GenConstraint
