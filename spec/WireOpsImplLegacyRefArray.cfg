SPECIFICATION Spec
CONSTANTS
  K = 1
  Variant = {"refarray_inst_first"}
  Emit = FALSE
INVARIANTS ImplValid ImplHeaders ImplReqOk
CHECK_DEADLOCK FALSE
