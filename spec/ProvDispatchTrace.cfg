\* the code-shaped machine is compared in its AS-IS form (pinned tree)
SPECIFICATION TSpec
CONSTANTS
  NsArgFormatBug = TRUE
  ClassnamesAssert = TRUE
  OutOnlyUnchecked = TRUE
  PragmaCaseSensitive = TRUE
  RecompileExisting = TRUE
  Variant = "none"
CHECK_DEADLOCK FALSE
