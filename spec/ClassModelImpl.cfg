SPECIFICATION Spec
CONSTANTS
  ClassLevelPropagate = FALSE
  ParamResolve = TRUE
  InitRestated = TRUE
  OriginFromSuper = FALSE
  AllowModifyBusy = FALSE
  SigCheck = TRUE
  Parent <- Topo4
  Mode = "shape"
  QSels = {{}}
  Vias = {"api"}
  InstKeys = {}
  WithModify = FALSE
  AllFlags = FALSE
  GenDepth = 0
INVARIANT ImplRefinesReq
INVARIANT MappingHolds
INVARIANT GetFullOk
INVARIANT EnumOk
CHECK_DEADLOCK FALSE
