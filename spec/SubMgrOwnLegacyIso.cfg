SPECIFICATION Spec
CONSTANTS
  Escape = FALSE
  MaxLen = 3
  Alphabet = {"a", "b", "dot"}
INVARIANT Isolation
CHECK_DEADLOCK FALSE
