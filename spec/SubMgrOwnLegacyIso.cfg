SPECIFICATION Spec
CONSTANTS
  Escape = FALSE
  MaxLen = 3
  Alias = FALSE
  Alphabet = {"a", "b", "dot"}
INVARIANT Isolation
CHECK_DEADLOCK FALSE
