SPECIFICATION TSpec
CONSTANTS
  IncludeGuard = TRUE
  NsNoneCheck = TRUE
  HexBounds = TRUE
  CtxBounds = TRUE
  ValueWrapped = TRUE
  RepoWrapped = TRUE
  EmbFinally = TRUE
  RestoreOnReturn = TRUE
  EmbRestoreAll = TRUE
  SuperCheckFirst = TRUE
  AncestryWalk = TRUE
  GuardCanonical = TRUE
  RegisterAfterCreate = TRUE
  NsCachesInit = TRUE
  EmbNullChecked = TRUE
  OverflowWrapped = TRUE
  InstOffsetAll = TRUE
  OpenPrecheck = TRUE
  EmbLexerClone = TRUE
CHECK_DEADLOCK FALSE
