--------------------------- MODULE ConnLifeImplOps ---------------------------
(***************************************************************************)
(* X04 - CODE-SHAPED machine (pure operators), transcribed from            *)
(*   pywbem/_statistics.py   OperationStatistic.start_timer / stop_timer / *)
(*                           the avg/min/max properties, Statistics        *)
(*                           .start_timer / get_op_statistic (dummy object *)
(*                           while disabled) / reset / snapshot            *)
(*   pywbem/_cim_operations.py  every operation method has the shape       *)
(*         recorders: reset + stage args ; stats = statistics.start_timer  *)
(*         try: validate arguments ; _imethodcall ; build result           *)
(*         finally: _last_operation_time = stats.stop_timer(               *)
(*                     last_request_len, last_reply_len,                   *)
(*                     last_server_response_time, exc) ; recorders: stage  *)
(*                     result + record_staged                              *)
(*      _imethodcall: _verify_open ; build request ; set _last_raw_request,*)
(*         _last_request_len, reset _last_raw_reply/_last_reply_len/       *)
(*         _last_server_response_time ; if debug: xml items ; wbem_request *)
(*         ; _last_raw_reply, _last_reply_len ; parse ; if debug: reply    *)
(*         item ; ERROR -> CIMError                                        *)
(*      close / _verify_open / __enter__ / __exit__ / copy /               *)
(*      add_operation_recorder / operation_recorder_enabled                *)
(*   pywbem_mock/_wbemconnection_mock.py  _mock_imethodcall replaces       *)
(*         _imethodcall (no wire, no last_* updates), copy()               *)
(*                                                                         *)
(* Constants select the code shape.  "Pinned" = the tree as it is:         *)
(*   MockVerifiesOpen   FALSE pinned: _mock_imethodcall has no _verify_open*)
(*   PrettyNoneWithoutDebug  FALSE pinned: last_request / last_reply return *)
(*                      whatever an earlier operation stored while debug   *)
(*                      was on; TRUE: the properties return None while     *)
(*                      debug is off                                       *)
(*   SuspendedMinZero   FALSE pinned: suspended min_server_time is inf     *)
(*   LenInBytes         FALSE pinned: _last_request_len = len(str)         *)
(* and realistic wrong variants (regression configurations):               *)
(*   SnapshotShallow, SuspendNotSticky, CopySharesStatistics,              *)
(*   LastReplyNotReset, StopOnlyOnSuccess                                  *)
(***************************************************************************)
EXTENDS ConnLife

CONSTANTS MockVerifiesOpen, PrettyNoneWithoutDebug, SuspendedMinZero, LenInBytes,
          SnapshotShallow, SuspendNotSticky, CopySharesStatistics,
          LastReplyNotReset, StopOnlyOnSuccess

IRow0 == [cnt |-> 0, exc |-> 0, tsum |-> 0, tmin |-> INF, tmax |-> 0,
          susp |-> FALSE, ssum |-> 0, smin |-> INF, smax |-> 0,
          qsum |-> 0, qmin |-> INF, qmax |-> 0,
          psum |-> 0, pmin |-> INF, pmax |-> 0, start |-> NONE]

Avg(s, c) == IF c = 0 THEN <<0, 1>> ELSE <<s, c>>
IRowObs(name, r) ==
  [name |-> name, n |-> r.cnt, x |-> r.exc,
   at |-> Avg(r.tsum, r.cnt), tlo |-> r.tmin, thi |-> r.tmax,
   asv |-> Avg(r.ssum, r.cnt),
   slo |-> IF SuspendedMinZero /\ r.susp THEN 0 ELSE r.smin, shi |-> r.smax,
   aq |-> Avg(r.qsum, r.cnt), qlo |-> r.qmin, qhi |-> r.qmax,
   ap |-> Avg(r.psum, r.cnt), plo |-> r.pmin, phi |-> r.pmax]
IRows(ops) == {IRowObs(k, ops[k]) : k \in DOMAIN ops}

(* OperationStatistic.stop_timer, container enabled, _start_time set *)
IStopRow(r, now, rl, pl, sv, exc) ==
  LET dt == now - r.start
      r1 == [r EXCEPT !.start = NONE, !.cnt = @ + 1,
                      !.exc = @ + (IF exc THEN 1 ELSE 0),
                      !.tsum = @ + dt, !.tmax = Max2(@, dt),
                      !.tmin = LoMin(@, dt)]
      r2 == IF r1.susp THEN r1
            ELSE IF sv = NONE
            THEN IF SuspendNotSticky THEN r1
                 ELSE [r1 EXCEPT !.susp = TRUE, !.ssum = 0, !.smin = INF,
                                 !.smax = 0]
            ELSE [r1 EXCEPT !.ssum = @ + sv, !.smax = Max2(@, sv),
                            !.smin = LoMin(@, sv)]
      r3 == IF rl = NONE THEN r2
            ELSE [r2 EXCEPT !.qsum = @ + rl, !.qmax = Max2(@, rl),
                            !.qmin = LoMin(@, rl)]
      r4 == IF pl = NONE THEN r3
            ELSE [r3 EXCEPT !.psum = @ + pl, !.pmax = Max2(@, pl),
                            !.pmin = LoMin(@, pl)] IN
  r4

(***************************************************************************)
(* Impl state                                                              *)
(*  stats[k] = [en, ops]          Statistics objects (heap)                *)
(*  hand     name -> "real" | "dummy" | "orphan"  handle the driver holds  *)
(*  snaps    id -> [live, names, rows]                                     *)
(*  conns[c] = [open, debug, rawreq, rawrep, qlen, plen, xreq, xrep,       *)
(*              optime, srvt, stid, recs]                                  *)
(***************************************************************************)
IStat0(en) == [en |-> en, ops |-> << >>]
IConn0(stid) == [open |-> TRUE, debug |-> FALSE, rawreq |-> 0, rawrep |-> 0,
                 qlen |-> 0, plen |-> 0, xreq |-> 0, xrep |-> 0,
                 optime |-> NONE, srvt |-> NONE, stid |-> stid, recs |-> << >>]
Impl0 == [mode |-> "none", now |-> 0, stats |-> << >>, hand |-> << >>,
          snaps |-> << >>, conns |-> << >>, created |-> 0]

INew(i, c) ==
  <<[fresh |-> TRUE, tab |-> {}],
    [Impl0 EXCEPT !.mode = c.mode, !.stats = <<IStat0(c.en)>>,
                  !.conns = IF c.mode = "stats" THEN << >> ELSE <<IConn0(1)>>]>>

(* ---- part S ---- *)
SObs(ret, raised, st, stab) ==
  [ret |-> ret, raised |-> raised, tab |-> IRows(st.ops), stab |-> stab]

ISEvent(i, c) ==
  LET now2 == i.now + c.adv
      st == i.stats[1]
      i1 == [i EXCEPT !.now = now2]
      h == Get(i.hand, c.name, "none") IN
  CASE c.ev = "start" ->
         IF st.en
         THEN LET st2 == [st EXCEPT !.ops = Put(@, c.name,
                              [Get(st.ops, c.name, IRow0) EXCEPT !.start = now2])] IN
              <<SObs(NONE, "", st2, {}),
                [i1 EXCEPT !.stats[1] = st2, !.hand = Put(@, c.name, "real")]>>
         ELSE <<SObs(NONE, "", st, {}),
                [i1 EXCEPT !.hand = Put(@, c.name, "dummy")]>>
    [] c.ev = "stop" ->
         IF ~st.en THEN <<SObs(NONE, "", st, {}), i1>>
         ELSE IF h # "real" \/ c.name \notin DOMAIN st.ops
                 \/ st.ops[c.name].start = NONE
         THEN <<SObs(BADV, "RuntimeError", st, {}), i1>>
         ELSE LET r == st.ops[c.name]
                  st2 == [st EXCEPT !.ops[c.name] =
                            IStopRow(r, now2, c.rl, c.pl, c.sv, c.exc)] IN
              <<SObs(now2 - r.start, "", st2, {}), [i1 EXCEPT !.stats[1] = st2]>>
    [] c.ev = "enable" ->
         LET st2 == [st EXCEPT !.en = TRUE] IN
         <<SObs(NONE, "", st2, {}), [i1 EXCEPT !.stats[1] = st2]>>
    [] c.ev = "disable" ->
         LET st2 == [st EXCEPT !.en = FALSE] IN
         <<SObs(NONE, "", st2, {}), [i1 EXCEPT !.stats[1] = st2]>>
    [] c.ev = "reset" ->
         IF \E k \in DOMAIN st.ops : st.ops[k].start # NONE
         THEN <<SObs(0, "", st, {}), i1>>
         ELSE LET st2 == [st EXCEPT !.ops = << >>] IN
              <<SObs(1, "", st2, {}),
                [i1 EXCEPT !.stats[1] = st2,
                           !.hand = [k \in DOMAIN i.hand |->
                                       IF i.hand[k] = "real" THEN "orphan"
                                       ELSE i.hand[k]]]>>
    [] c.ev = "snap" ->
         <<SObs(NONE, "", st, {}),
           [i1 EXCEPT !.snaps = Put(@, c.id,
               [names |-> DOMAIN st.ops, rows |-> IRows(st.ops)])]>>
    [] c.ev = "chk" ->
         LET sn == i.snaps[c.id] IN
         <<SObs(NONE, "", st,
                IF SnapshotShallow   \* (approximation after a reset)
                THEN {IRowObs(k, st.ops[k]) : k \in sn.names \cap DOMAIN st.ops}
                ELSE sn.rows), i1>>
    [] OTHER -> <<SObs(NONE, "", st, {}), i1>>

(* ---- part C ---- *)
RecObs(recs, ran) == [k \in DOMAIN recs |->
                        [cls |-> recs[k].cls, en |-> recs[k].en,
                         cnt |-> IF ran /\ recs[k].en THEN 1 ELSE 0]]
RecPlain(recs) == [k \in DOMAIN recs |-> [cls |-> recs[k].cls, en |-> recs[k].en]]

Pretty(cn, x) == IF PrettyNoneWithoutDebug /\ ~cn.debug THEN 0 ELSE x
LastObs(cn) == [rawreq |-> cn.rawreq, rawrep |-> cn.rawrep, qlen |-> cn.qlen,
                plen |-> cn.plen, preq |-> Pretty(cn, cn.xreq),
                prep |-> Pretty(cn, cn.xrep),
                optime |-> cn.optime, srvt |-> cn.srvt]

IOp(i, c) ==
  LET cn == i.conns[c.c]
      st == i.stats[cn.stid]
      http == i.mode = "http"
      \* stats = self.statistics.start_timer(name)
      ops1 == IF st.en
              THEN Put(st.ops, c.name,
                       [Get(st.ops, c.name, IRow0) EXCEPT !.start = i.now])
              ELSE st.ops
      badarg == c.resp = "badarg"
      closedfail == ~badarg /\ ~cn.open /\ (http \/ MockVerifiesOpen)
      sent == http /\ ~badarg /\ ~closedfail
      got200 == sent /\ Is200(c.resp)
      \* _imethodcall up to the point where the request goes out
      cn1 == IF ~sent THEN cn
             ELSE [cn EXCEPT
                     !.rawreq = c.rid,
                     !.qlen = IF LenInBytes THEN c.wqn ELSE c.wqc,
                     !.rawrep = IF LastReplyNotReset THEN @ ELSE 0,
                     !.plen = IF LastReplyNotReset THEN @ ELSE 0,
                     !.srvt = NONE,
                     !.xreq = IF cn.debug THEN c.rid ELSE @,
                     !.xrep = IF cn.debug THEN 0 ELSE @]
      \* response received (status 200): raw reply, length, server time
      cn2 == IF ~got200 THEN cn1
             ELSE [cn1 EXCEPT !.rawrep = c.rid, !.plen = c.wp, !.srvt = c.srvh,
                              !.xrep = IF cn.debug /\ c.resp \in {"ok", "cimerr"}
                                       THEN c.rid ELSE @]
      exc == IF badarg THEN "TypeError"
             ELSE IF closedfail THEN "ConnectionError"
             ELSE IF c.resp = "ok" THEN ""
             ELSE CHOOSE x \in ExcFor(c.resp) : TRUE
      now2 == i.now + c.dur
      \* finally: stop_timer(last_request_len, last_reply_len, last_srv, exc)
      dostop == st.en /\ ~(StopOnlyOnSuccess /\ exc # "")
      ops2 == IF dostop
              THEN [ops1 EXCEPT ![c.name] =
                      IStopRow(ops1[c.name], now2, cn2.qlen, cn2.plen,
                               cn2.srvt, exc # "")]
              ELSE ops1
      cn3 == [cn2 EXCEPT !.optime = IF dostop THEN now2 - i.now
                                    ELSE IF st.en THEN @ ELSE NONE]
      creates == i.mode = "mock" /\ c.name = "CreateInstance" /\ exc = ""
      st2 == [st EXCEPT !.ops = ops2] IN
  <<[out |-> IF exc = "" THEN "ret" ELSE "exc", exc |-> exc, sent |-> sent]
      @@ LastObs(cn3)
      @@ [tab |-> IRows(ops2), recs |-> RecObs(cn.recs, TRUE),
          nkeys |-> IF i.mode = "mock" /\ c.name = "EnumerateInstanceNames"
                       /\ exc = "" THEN i.created ELSE NONE],
    [i EXCEPT !.now = now2, !.stats[cn.stid] = st2, !.conns[c.c] = cn3,
              !.created = IF creates THEN @ + 1 ELSE @]>>

IPeek(i, c) ==
  LET cn == i.conns[c.c] IN
  <<[raised |-> ""] @@ LastObs(cn)
      @@ [tab |-> IRows(i.stats[cn.stid].ops), recs |-> RecObs(cn.recs, FALSE),
          ren |-> \E k \in DOMAIN cn.recs : cn.recs[k].en], i>>

IClose(i, c) ==
  LET cn == i.conns[c.c] IN
  IF cn.open THEN <<[out |-> "ret", exc |-> ""],
                    [i EXCEPT !.conns[c.c].open = FALSE]>>
  ELSE <<[out |-> "exc", exc |-> "ConnectionError"], i>>

IWith(i, c) ==
  LET cn == i.conns[c.c]
      closedAtExit == ~cn.open \/ c.body = "close"
      exc == IF closedAtExit THEN "ConnectionError"
             ELSE IF c.body = "raise" THEN "KeyError" ELSE "" IN
  <<[self |-> TRUE, out |-> IF exc = "" THEN "ret" ELSE "exc", exc |-> exc],
    [i EXCEPT !.conns[c.c].open = FALSE]>>

ICopy(i, c) ==
  LET cn == i.conns[c.c]
      st == i.stats[cn.stid]
      share == CopySharesStatistics
      stid2 == IF share THEN cn.stid ELSE Len(i.stats) + 1
      recs2 == IF i.mode = "http"
               THEN [k \in DOMAIN cn.recs |-> [cls |-> cn.recs[k].cls, en |-> TRUE]]
               ELSE << >>
      cp == [IConn0(stid2) EXCEPT !.recs = recs2] IN
  <<[d |-> Len(i.conns) + 1, distinct |-> TRUE, cpopen |-> TRUE, fresh |-> TRUE,
     attrs_eq |-> TRUE, cpstats |-> st.en, cpdebug |-> FALSE,
     cprecs |-> RecPlain(recs2), recdistinct |-> TRUE,
     tab |-> IF share THEN IRows(st.ops) ELSE {}],
    [i EXCEPT !.conns = Append(@, cp),
              !.stats = IF share THEN @ ELSE Append(@, IStat0(st.en))]>>

IAddRec(i, c) ==
  LET cn == i.conns[c.c] IN
  IF c.cls = "none" \/ HasCls(cn.recs, c.cls)
  THEN <<[out |-> "exc", exc |-> "ValueError", recs |-> RecPlain(cn.recs)], i>>
  ELSE LET r2 == Append(cn.recs, [cls |-> c.cls, en |-> ~c.predis]) IN
       <<[out |-> "ret", exc |-> "", recs |-> RecPlain(r2)],
         [i EXCEPT !.conns[c.c].recs = r2]>>

IRecEn(i, c) ==
  LET cn == i.conns[c.c]
      r2 == SetRecs(cn.recs, c.cls, c.ev = "recall", c.v) IN
  <<[recs |-> RecPlain(r2), ren |-> \E k \in DOMAIN r2 : r2[k].en],
    [i EXCEPT !.conns[c.c].recs = r2]>>

NoObs == [noobs |-> TRUE]

(* one call -> <<predicted observation fields, next impl state>> *)
ImplStep(i, c) ==
  CASE c.k = "new" -> INew(i, c)
    [] c.k = "s" -> ISEvent(i, c)
    [] c.ev = "op" -> IOp(i, c)
    [] c.ev = "peek" -> IPeek(i, c)
    [] c.ev = "close" -> IClose(i, c)
    [] c.ev = "with" -> IWith(i, c)
    [] c.ev = "copy" -> ICopy(i, c)
    [] c.ev = "addrec" -> IAddRec(i, c)
    [] c.ev \in {"recen", "recall"} -> IRecEn(i, c)
    [] c.ev = "setdebug" -> <<NoObs, [i EXCEPT !.conns[c.c].debug = c.v]>>
    [] c.ev = "setstats" ->
         <<NoObs, [i EXCEPT !.stats[i.conns[c.c].stid].en = c.v]>>
    [] OTHER -> <<NoObs, i>>

(***************************************************************************)
(* Comparison of a predicted observation with a recorded event (drift).    *)
(* Tables are compared by name, averages by cross multiplication.          *)
(***************************************************************************)
RowEq(pr, orow) ==
  /\ pr.n = orow.n /\ pr.x = orow.x
  /\ RatEq(orow.at, pr.at[1], pr.at[2]) /\ pr.tlo = orow.tlo /\ pr.thi = orow.thi
  /\ RatEq(orow.asv, pr.asv[1], pr.asv[2]) /\ pr.slo = orow.slo /\ pr.shi = orow.shi
  /\ RatEq(orow.aq, pr.aq[1], pr.aq[2]) /\ pr.qlo = orow.qlo /\ pr.qhi = orow.qhi
  /\ RatEq(orow.ap, pr.ap[1], pr.ap[2]) /\ pr.plo = orow.plo /\ pr.phi = orow.phi
TabEq(prows, otab) ==
  /\ Cardinality(prows) = Len(otab)
  /\ \A j \in DOMAIN otab : \E pr \in prows : pr.name = otab[j].name /\ RowEq(pr, otab[j])

DriftOf(obs, e) ==
  {f \in DOMAIN obs \ {"noobs"} :
     IF f \in {"tab", "stab"}
     THEN IF f = "stab" /\ e.ev # "chk" THEN FALSE ELSE ~TabEq(obs[f], e[f])
     ELSE IF f = "ret" /\ e.raised # "" THEN FALSE
     ELSE obs[f] # e[f]}

ImplCmp(i, e) ==
  LET os == ImplStep(i, e) IN <<DriftOf(os[1], e), os[2]>>
=============================================================================
