SPECIFICATION Spec
CONSTANTS
  SearchStopsAtFirstRecorder = FALSE
  ReprNeedsKeyFile = TRUE
  MaxPlan = 3
INVARIANT SwitchOnTotal
INVARIANT OneLogRecorder
INVARIANT LoggingOnWhenAsked
CHECK_DEADLOCK FALSE
