\* C08 qualifier declaration level: the unchanged tree (must pass; emits the scope cases and session histories)
SPECIFICATION Spec
CONSTANTS
  KeyCaseSensitive = FALSE
  FlagIgnored = FALSE
  CacheSetDefault = FALSE
  CacheNotUpdated = FALSE
  EmbModeSticks = FALSE
  MaxKeys = 3
  MaxSteps = 6
  Emit = TRUE
INVARIANT ScopeRoundTrip
INVARIANT SessionRoundTrip
INVARIANT CacheCoherent
CHECK_DEADLOCK FALSE
